package main

import (
	"fmt"
	"go/token"
	"go/types"
	"strings"

	"golang.org/x/tools/go/ssa"
)

func init() {
	register(&propDef{
		id: "C32", run: runC32, minOblig: 30,
		explanation: "Decides the accept discipline of (*connection).serverAuthenticate on its SSA form, for all request histories and callback behaviours at once: the only nil-error return lies behind the 'authErr == nil' edge of one error phi; EVERY value that can flow into that phi is classified and must be (i) provably non-nil, (ii) the error result of a configured callback of the current authConfig (password, keyboard-interactive), of NoClientAuthCallback (only behind NoClientAuth && !partialSuccessReturned), of gssExchangeToken, or of VerifiedPublicKeyCallback (only behind a successful Verify and a nil cached decision, and called with the client's key, not the no-touch variant), (iii) the constant nil only behind NoClientAuth && !partialSuccessReturned && NoClientAuthCallback == nil, or (iv) the cached PublicKeyCallback decision only if every path of the same loop iteration crosses the success edge of PublicKey.Verify — any other definition is a violation. For the Verify call: the signed data is buildDataSignedForAuth(sessionID from the transport, this iteration's request, algo, pubKeyData) with the same pubKeyData that was parsed into the verifying key, looked up in the cache and handed to the callback; the four algorithm guards (underlyingAlgo(algo) allowed, algo compatible with key type, sig.Format allowed, isAlgoCompatible) each lie on every path to Verify. Permissions: the returned value is never loop-carried and on each accepting edge it is produced by the same callback invocation (or cache entry) as the error; the pubkey cache hit requires equal user AND key bytes; partial success requires nil permissions, installs Next callbacks and resets the cache. NOT decided: the Verify implementations (C40) and user callbacks.",
		assumptions: []string{"interface method PublicKey.Verify implementations are sound (C40)", "local struct allocs that do not escape are only changed by the stores seen in the function"},
	})
	tech("C32", "SSA value-flow classification of every definition reaching the accept test + iteration-local must-cross CFG rules + argument provenance")
}

type saCtx struct {
	c    *Ctx
	fn   *ssa.Function
	A    *ssa.Phi        // final authErr phi
	H    *ssa.BasicBlock // loop header
	back edgeSet
	ret  *ssa.Return
}

// iterCross: every iteration-local path from the loop header to block b
// crosses one of the pass edges.
func (s *saCtx) iterCross(b *ssa.BasicBlock, pass []edge) bool {
	if len(pass) == 0 {
		return false
	}
	cut := edgeSet{}
	cut.addAll(pass)
	for k := range s.back {
		cut[k] = true
	}
	return !reach([]*ssa.BasicBlock{s.H}, cut)[b]
}

// iterCrossInto: every iteration-local path from the loop header that enters
// block 'to' over an edge from 'pred' crosses one of the pass edges (the
// entering edge itself may be a pass edge).
func (s *saCtx) iterCrossInto(pred, to *ssa.BasicBlock, pass []edge) bool {
	if len(pass) == 0 {
		return false
	}
	cut := edgeSet{}
	cut.addAll(pass)
	for k := range s.back {
		cut[k] = true
	}
	if !reach([]*ssa.BasicBlock{s.H}, cut)[pred] {
		return true
	}
	for i, sb := range pred.Succs {
		if sb == to && !cut[edge{pred, i}] {
			return false
		}
	}
	return true
}

func findServerAuth(c *Ctx) *saCtx {
	fn := c.fn("ssh", "(*connection).serverAuthenticate")
	if fn == nil {
		return nil
	}
	s := &saCtx{c: c, fn: fn, back: backEdges(fn)}
	var accept []*ssa.Return
	for _, r := range returnsOf(fn) {
		if len(r.Results) == 2 && errNilness(r.Results[1], r.Block(), 0) != neverNil {
			accept = append(accept, r)
		}
	}
	if len(accept) != 1 {
		c.fail("C32.accept-return", "serverAuthenticate", fn, fmt.Sprintf("expected exactly one return with a possibly-nil error, found %d", len(accept)))
		return nil
	}
	s.ret = accept[0]
	// the error phi whose == nil edge guards the accept return
	allInstrs(fn, func(in ssa.Instruction) {
		p, ok := in.(*ssa.Phi)
		if !ok || !types.Identical(p.Type(), types.Universe.Lookup("error").Type()) {
			return
		}
		yes, _ := edgesWhere(p, isNil)
		if len(yes) == 0 {
			return
		}
		cut := edgeSet{}
		cut.addAll(yes)
		if !pathFromEntry(s.ret, cut) {
			if s.A == nil || s.A.Block().Dominates(p.Block()) {
				s.A = p
			}
		}
	})
	if s.A == nil {
		c.fail("C32.accept-return", "serverAuthenticate", s.ret, "the nil-error return is not guarded by an 'err == nil' test of a single error value")
		return nil
	}
	s.H = innermostLoopHeader(s.A.Block())
	if s.H == nil {
		c.fail("C32.accept-return", "serverAuthenticate", s.A, "authentication loop not found")
		return nil
	}
	c.ok("C32.accept-return", "serverAuthenticate", s.ret, "single accepting return, guarded by authErr == nil on "+s.A.Name()+" inside the request loop")
	return s
}

// callbackOrigin describes a dynamic call through a struct field.
func callbackField(call *ssa.Call) (owner, field string, base ssa.Value, ok bool) {
	if call.Call.IsInvoke() || call.Call.StaticCallee() != nil {
		return
	}
	return fieldOf(call.Call.Value)
}

func runC32(c *Ctx) {
	s := findServerAuth(c)
	if s == nil {
		return
	}
	fn := s.fn
	// --- anchors
	var verify *ssa.Call
	for _, ci := range calls(fn, nameIs("invoke:(ssh.PublicKey).Verify")) {
		if verify != nil {
			c.fail("C32.verify", "serverAuthenticate", ci, "more than one Verify call; rule expects exactly one")
		}
		verify = ci.(*ssa.Call)
	}
	if verify == nil {
		c.fail("C32.verify", "serverAuthenticate", fn, "no call of PublicKey.Verify found")
		return
	}
	verifyOK, _ := errSuccessEdges(verify)
	// authConfig alloc: the ServerAuthCallbacks alloc that receives partialSuccess.Next
	var authCfg *ssa.Alloc
	var nextStore *ssa.Store
	allInstrs(fn, func(in ssa.Instruction) {
		if st, ok := in.(*ssa.Store); ok {
			if al, ok := st.Addr.(*ssa.Alloc); ok && typeName(al.Type()) == "ServerAuthCallbacks" {
				if _, fld, _, ok := fieldOf(st.Val); ok && fld == "Next" {
					authCfg, nextStore = al, st
				}
			}
		}
	})
	if authCfg == nil {
		c.fail("C32.partial-next", "serverAuthenticate", fn, "store of PartialSuccessError.Next into the current callback set not found")
		return
	}
	// partialSuccessReturned: bool header phi that becomes true in the block of nextStore
	var partial *ssa.Phi
	for _, in := range s.H.Instrs {
		p, ok := in.(*ssa.Phi)
		if !ok {
			break
		}
		if b, ok := p.Type().Underlying().(*types.Basic); !ok || b.Kind() != types.Bool {
			continue
		}
		for _, l := range phiLeaves(p) {
			if v, isC := constBool(l.val); isC && v && l.pred != nil && (l.pred == nextStore.Block() || nextStore.Block().Dominates(l.pred)) {
				partial = p
			}
		}
	}
	if partial == nil {
		c.fail("C32.partial-flag", "serverAuthenticate", nextStore, "no loop-carried flag is set when a partial success installs the next callbacks")
		return
	}
	// the flag is never cleared: all leaves are false only from outside the loop
	flagMonotone := true
	for _, l := range phiLeaves(partial) {
		if v, isC := constBool(l.val); isC && !v && l.pred != nil && s.H.Dominates(l.pred) && l.pred != s.H {
			if reach([]*ssa.BasicBlock{s.H}, nil)[l.pred] && l.pred.Index > s.H.Index {
				flagMonotone = false
			}
		}
	}
	c.check(flagMonotone, "C32.partial-flag", "serverAuthenticate partialSuccessReturned", partial, "set on partial success and never cleared inside the loop", "the partial-success flag can be cleared inside the loop")
	_, partialFalse := boolEdges(partial, true)
	noClientAuthTrue, _ := edgesOnPath(fn, "config.NoClientAuth", isTrue)
	ncaCallbackNil, _ := edgesOnPath(fn, "config.NoClientAuthCallback", isNil)

	// candidate.result loads and the cache entry alloc
	isCandResult := func(v ssa.Value) (*ssa.UnOp, bool) {
		u, ok := v.(*ssa.UnOp)
		if !ok || u.Op != token.MUL {
			return nil, false
		}
		al, f, ok := localFieldAddr(u.X)
		if !ok || typeName(al.Type()) != "cachedPubKey" {
			return nil, false
		}
		st := derefStruct(al.Type())
		return u, st.Field(f).Name() == "result"
	}

	// --- classify every leaf of the accept phi
	leaves := phiLeaves(s.A)
	nAccepting := 0
	for i, l := range leaves {
		name := fmt.Sprintf("authErr def#%d %s", i, describeVal(c, l.val))
		if errNilness(l.val, l.pred, 0) == neverNil {
			c.ok("C32.accept-def", name, l.val, "provably non-nil (constructed error, sentinel, or dominated by its != nil edge)")
			continue
		}
		if u, ok := l.val.(*ssa.UnOp); ok && localLoadNonNil(u, l.pred, s.H) {
			c.ok("C32.accept-def", name, l.val, "load of a local field whose != nil test dominates this edge with no intervening store")
			continue
		}
		nAccepting++
		switch {
		case isNilConst(l.val):
			ok := s.iterCrossInto(l.pred, l.phi.Block(), noClientAuthTrue) && s.iterCrossInto(l.pred, l.phi.Block(), partialFalse) && s.iterCrossInto(l.pred, l.phi.Block(), ncaCallbackNil)
			c.check(ok, "C32.accept-def", name, l.pred.Instrs[0], "constant nil only behind NoClientAuth && !partialSuccessReturned && NoClientAuthCallback == nil",
				"authErr is set to nil on a path that does not pass NoClientAuth == true, partialSuccessReturned == false and NoClientAuthCallback == nil")
		default:
			if ex, ok := l.val.(*ssa.Extract); ok {
				if call, ok := ex.Tuple.(*ssa.Call); ok {
					owner, field, base, isCb := callbackField(call)
					callee := short(calleeName(&call.Call))
					switch {
					case isCb && owner == "ServerAuthCallbacks" && (field == "PasswordCallback" || field == "KeyboardInteractiveCallback"):
						c.check(base == ssa.Value(authCfg), "C32.accept-def", name, call, "result of the current authConfig."+field,
							field+" is not taken from the current (possibly partial-success-updated) callback set")
					case isCb && owner == "ServerConfig" && field == "NoClientAuthCallback":
						ok := s.iterCrossInto(l.pred, l.phi.Block(), noClientAuthTrue) && s.iterCrossInto(l.pred, l.phi.Block(), partialFalse)
						c.check(ok, "C32.accept-def", name, call, "NoClientAuthCallback result, only behind NoClientAuth && !partialSuccessReturned",
							"NoClientAuthCallback can decide authentication without NoClientAuth being set or after a partial success")
					case isCb && owner == "ServerConfig" && field == "VerifiedPublicKeyCallback":
						ok := s.iterCross(call.Block(), verifyOK)
						c.check(ok, "C32.accept-def", name, call, "VerifiedPublicKeyCallback result, only after a successful Verify in this iteration",
							"VerifiedPublicKeyCallback can be reached without a successful signature verification in the same iteration")
					case callee == "ssh.gssExchangeToken" && ex.Index == 0:
						c.ok("C32.accept-def", name, call, "gssExchangeToken's authentication result (AllowLogin after MIC verification)")
					default:
						c.fail("C32.accept-def", name, call, "authErr is defined by a call that is not a tabled authentication callback: "+callee+" "+owner+"."+field)
					}
					continue
				}
			}
			if u, ok := isCandResult(l.val); ok && u != nil {
				okc := s.iterCrossInto(l.pred, l.phi.Block(), verifyOK)
				c.check(okc, "C32.accept-def", name, u, "cached PublicKeyCallback decision, only behind a successful Verify in the same iteration",
					"the cached public-key decision can become authErr without a successful signature verification in the same iteration")
				continue
			}
			c.fail("C32.accept-def", name, l.val, "unclassified definition of authErr can reach the accept test")
		}
	}
	c.check(nAccepting >= 5, "C32.accept-def", "count", s.A, fmt.Sprintf("%d possibly-nil definitions classified out of %d", nAccepting, len(leaves)),
		fmt.Sprintf("only %d possibly-nil definitions found; the frozen minimum is 5 (none, password, keyboard-interactive, publickey, gssapi)", nAccepting))

	// --- Verify: argument provenance
	c32Verify(s, verify, verifyOK, authCfg)

	// --- permissions
	c32Perms(s, authCfg, nextStore, partial)

	// --- cache
	c32Cache(s)
}

func describeVal(c *Ctx, v ssa.Value) string {
	switch x := v.(type) {
	case *ssa.Const:
		return "const " + x.String()
	case *ssa.Extract:
		if call, ok := x.Tuple.(*ssa.Call); ok {
			if o, f, _, ok := callbackField(call); ok {
				return fmt.Sprintf("result#%d of %s.%s", x.Index, o, f)
			}
			return fmt.Sprintf("result#%d of %s", x.Index, short(calleeName(&call.Call)))
		}
	case *ssa.UnOp:
		if t, f, _, ok := fieldOf(x); ok {
			return "load " + t + "." + f
		}
		if g, ok := x.X.(*ssa.Global); ok {
			return "load " + g.Name()
		}
	case *ssa.Call:
		return "call " + short(calleeName(&x.Call))
	case *ssa.MakeInterface:
		return "boxed " + x.X.Type().String()
	}
	return strings.TrimSpace(v.Name() + " " + v.Type().String())
}

func c32Verify(s *saCtx, verify *ssa.Call, verifyOK []edge, authCfg *ssa.Alloc) {
	c, fn := s.c, s.fn
	// signed data
	sd, _ := verify.Call.Args[0].(*ssa.Call)
	if sd == nil || short(calleeName(&sd.Call)) != "ssh.buildDataSignedForAuth" {
		c.fail("C32.verify-data", "Verify(data)", verify, "the verified data is not the result of buildDataSignedForAuth")
		return
	}
	args := sd.Call.Args
	// sessionID from transport
	sidOK := false
	if call, ok := args[0].(*ssa.Call); ok && strings.HasSuffix(calleeName(&call.Call), ".getSessionID") {
		sidOK = true
	}
	c.check(sidOK, "C32.verify-data", "signed data: session id", sd, "session identifier of this transport", "first argument of buildDataSignedForAuth is not the transport's session identifier")
	// request: load of the alloc that Unmarshal fills in this iteration
	var reqAlloc *ssa.Alloc
	if u, ok := args[1].(*ssa.UnOp); ok {
		reqAlloc, _ = u.X.(*ssa.Alloc)
	}
	reqOK := false
	if reqAlloc != nil {
		for _, ci := range callsNamed(fn, "ssh.Unmarshal") {
			if mi, ok := ci.Common().Args[1].(*ssa.MakeInterface); ok && mi.X == ssa.Value(reqAlloc) && s.H.Dominates(ci.Block()) {
				reqOK = true
			}
		}
	}
	c.check(reqOK, "C32.verify-data", "signed data: request", sd, "the request decoded in this loop iteration", "second argument of buildDataSignedForAuth is not the request message decoded in this iteration")
	// pubKeyData identity
	pkd := args[3]
	var parsed *ssa.Call
	for _, ci := range callsNamed(fn, "ssh.ParsePublicKey") {
		if ci.Common().Args[0] == pkd {
			parsed = ci.(*ssa.Call)
		}
	}
	c.check(parsed != nil, "C32.verify-key", "ParsePublicKey(pubKeyData)", sd, "the signed data names the same key bytes that are parsed into the verifying key", "the key bytes in the signed data are not the bytes parsed into the verifying key")
	if parsed == nil {
		return
	}
	var pubKey ssa.Value
	for _, v := range resultN(parsed, 0) {
		pubKey = v
	}
	// receiver of Verify: pubKey or skKeyWithoutUP(pubKey) chosen by noTouchAllowed(pubKey, candidate.perms)
	recvOK := true
	for _, l := range phiLeaves(verify.Call.Value) {
		switch x := l.val.(type) {
		case *ssa.Extract:
			if l.val != pubKey {
				recvOK = false
			}
		case *ssa.Call:
			if short(calleeName(&x.Call)) != "ssh.skKeyWithoutUP" || x.Call.Args[0] != pubKey {
				recvOK = false
			} else {
				// only behind noTouchAllowed(pubKey, …) == true
				nt := callsNamed(fn, "ssh.noTouchAllowed")
				pass := callSuccess(nt, 0, isTrue)
				cut := edgeSet{}
				cut.addAll(pass)
				if len(pass) == 0 || pathFromEntry(x, cut) {
					recvOK = false
				}
				for _, n := range nt {
					if n.Common().Args[0] != pubKey {
						recvOK = false
					}
				}
			}
		default:
			recvOK = false
		}
	}
	c.check(recvOK, "C32.verify-key", "Verify receiver", verify, "the verifying key is ParsePublicKey(pubKeyData), relaxed only through noTouchAllowed/skKeyWithoutUP", "the key used for Verify is not derived from the offered key bytes")
	// cache lookup and callback see the same key / bytes
	for _, ci := range callsNamed(fn, "(*ssh.pubKeyCache).get") {
		a := ci.Common().Args
		c.check(a[2] == pkd && strings.HasSuffix(accessPath(a[1]), ".user"), "C32.cache-key", "cache.get(user, pubKeyData)", ci, "lookup keyed by the connection's user and the offered key bytes", "cache lookup is not keyed by (s.user, pubKeyData)")
	}
	nPK := 0
	allInstrs(fn, func(in ssa.Instruction) {
		call, ok := in.(*ssa.Call)
		if !ok {
			return
		}
		if o, f, base, ok := callbackField(call); ok && o == "ServerAuthCallbacks" && f == "PublicKeyCallback" {
			nPK++
			c.check(base == ssa.Value(authCfg) && call.Call.Args[1] == pubKey, "C32.callback-key", "PublicKeyCallback(s, pubKey)", call, "current callback set, called with the parsed offered key", "PublicKeyCallback is not the current authConfig's or is not given the parsed offered key")
		}
		if o, f, _, ok := callbackField(call); ok && o == "ServerConfig" && f == "VerifiedPublicKeyCallback" {
			c.check(call.Call.Args[1] == pubKey, "C32.callback-key", "VerifiedPublicKeyCallback(s, pubKey, …)", call, "called with the key as presented by the client", "VerifiedPublicKeyCallback is given a key other than the one presented by the client")
			// only when cached decision is nil: the call block must lie behind a ==nil edge of the value that becomes authErr
			var passNil []edge
			allInstrs(fn, func(in2 ssa.Instruction) {
				if u, ok := in2.(*ssa.UnOp); ok && u.Op == token.MUL {
					if al, fi, ok := localFieldAddr(u.X); ok && typeName(al.Type()) == "cachedPubKey" && derefStruct(al.Type()).Field(fi).Name() == "result" {
						y, _ := edgesWhere(u, isNil)
						passNil = append(passNil, y...)
					}
				}
			})
			cut := edgeSet{}
			cut.addAll(passNil)
			for k := range s.back {
				cut[k] = true
			}
			cut.addAll(nil)
			c.check(len(passNil) > 0 && !reach([]*ssa.BasicBlock{verify.Block()}, cut)[call.Block()], "C32.verified-cb-gate", "VerifiedPublicKeyCallback gate", call,
				"called only when the cached PublicKeyCallback decision is nil", "VerifiedPublicKeyCallback can run although PublicKeyCallback rejected the key")
		}
	})
	c.check(nPK == 1, "C32.callback-key", "PublicKeyCallback call sites", fn, "one call site", fmt.Sprintf("%d call sites of PublicKeyCallback, expected 1", nPK))

	// --- four algorithm guards on every iteration-local path to Verify
	type guard struct {
		name string
		pass []edge
	}
	var guards []guard
	var g1, g2, g3 []edge
	for _, ci := range calls(fn, nameIs("slices.Contains")) {
		call := ci.(*ssa.Call)
		a0, a1 := call.Call.Args[0], call.Call.Args[1]
		y, _ := successEdges(call, 0, isTrue)
		p0 := accessPath(a0)
		switch {
		case strings.HasSuffix(p0, "config.PublicKeyAuthAlgorithms"):
			if cc, ok := a1.(*ssa.Call); ok && short(calleeName(&cc.Call)) == "ssh.underlyingAlgo" {
				g1 = append(g1, y...)
			} else if _, f, _, ok := fieldOf(a1); ok && f == "Format" {
				g3 = append(g3, y...)
			}
		default:
			if cc, ok := a0.(*ssa.Call); ok && short(calleeName(&cc.Call)) == "ssh.algorithmsForKeyFormat" {
				g2 = append(g2, y...)
			}
		}
	}
	g4 := callSuccess(callsNamed(fn, "ssh.isAlgoCompatible"), 0, isTrue)
	guards = []guard{
		{"underlyingAlgo(algo) in PublicKeyAuthAlgorithms", g1},
		{"algo in algorithmsForKeyFormat(pubKey.Type())", g2},
		{"sig.Format in PublicKeyAuthAlgorithms", g3},
		{"isAlgoCompatible(algo, sig.Format)", g4},
	}
	for _, g := range guards {
		c.check(s.iterCross(verify.Block(), g.pass), "C32.algo-guard", g.name, verify, "on every path of the iteration that reaches Verify", "Verify is reachable without passing the guard: "+g.name)
	}
	// the signature verified is the one parsed from this request's payload
	sigOK := false
	if ex, ok := verify.Call.Args[1].(*ssa.Extract); ok {
		if call, ok := ex.Tuple.(*ssa.Call); ok && short(calleeName(&call.Call)) == "ssh.parseSignature" && s.H.Dominates(call.Block()) {
			sigOK = true
		}
	}
	c.check(sigOK, "C32.verify-data", "Verify(sig)", verify, "signature parsed from this iteration's payload", "the signature passed to Verify is not the one parsed from the current request")
	_ = verifyOK
}

func c32Perms(s *saCtx, authCfg *ssa.Alloc, nextStore *ssa.Store, partial *ssa.Phi) {
	c, fn := s.c, s.fn
	pv := s.ret.Results[0]
	carried := false
	for _, l := range phiLeaves(pv) {
		_ = l
	}
	// no phi in the chain may sit in the loop header (a loop-carried value)
	seen := map[*ssa.Phi]bool{}
	var walk func(v ssa.Value)
	walk = func(v ssa.Value) {
		p, ok := v.(*ssa.Phi)
		if !ok || seen[p] {
			return
		}
		seen[p] = true
		if p.Block() == s.H {
			carried = true
		}
		for _, e := range p.Edges {
			walk(e)
		}
	}
	walk(pv)
	c.check(!carried, "C32.perms-fresh", "returned Permissions", s.ret, "no loop-carried value: the returned permissions are produced in the final iteration", "the returned Permissions can be a value carried over from an earlier authentication request")
	// pairing: on each accepting edge, perms comes from the same call / cache entry as the error
	permPhi, _ := pv.(*ssa.Phi)
	if permPhi == nil {
		c.fail("C32.perms-pair", "returned Permissions", s.ret, "returned permissions are not a phi of per-method values")
		return
	}
	// build map pred -> perms value at the block of the first-level authErr phi
	var inner *ssa.Phi
	for _, e := range s.A.Edges {
		if q, ok := e.(*ssa.Phi); ok {
			inner = q
		}
	}
	if inner == nil {
		inner = s.A
	}
	var permInner *ssa.Phi
	if permPhi.Block() == inner.Block() {
		permInner = permPhi
	} else {
		for _, e := range permPhi.Edges {
			if q, ok := e.(*ssa.Phi); ok && q.Block() == inner.Block() {
				permInner = q
			}
		}
	}
	if permInner == nil {
		c.fail("C32.perms-pair", "returned Permissions", permPhi, "no permissions phi found at the join of the method switch")
		return
	}
	bad := 0
	n := 0
	for i, ev := range inner.Edges {
		pred := inner.Block().Preds[i]
		if errNilness(ev, pred, 0) == neverNil {
			continue
		}
		if u, ok := ev.(*ssa.UnOp); ok && localLoadNonNil(u, pred, s.H) {
			continue
		}
		pvv := permInner.Edges[i]
		n++
		ok := false
		switch x := ev.(type) {
		case *ssa.Const:
			ok = isNilConst(pvv)
		case *ssa.Extract:
			if px, isEx := pvv.(*ssa.Extract); isEx && px.Tuple == x.Tuple {
				ok = true
			}
		case *ssa.UnOp:
			if al, _, isL := localFieldAddr(x.X); isL {
				if pu, isU := pvv.(*ssa.UnOp); isU {
					if al2, f2, isL2 := localFieldAddr(pu.X); isL2 && al2 == al && derefStruct(al.Type()).Field(f2).Name() == "perms" {
						ok = true
					}
				}
			}
		}
		if !ok {
			bad++
			c.fail("C32.perms-pair", fmt.Sprintf("accepting edge from block %d", pred.Index), pred.Instrs[len(pred.Instrs)-1], "on this edge the permissions do not come from the same callback invocation / cache entry as the authentication result")
		}
	}
	if bad == 0 {
		c.ok("C32.perms-pair", "returned Permissions", permInner, fmt.Sprintf("on all %d accepting edges permissions and result come from the same callback invocation or cache entry", n))
	}
	// partial success: perms must be nil (else error return), cache reset, flag set — all in the block region of nextStore
	blk := nextStore.Block()
	cacheReset := false
	for _, in := range blk.Instrs {
		if st, ok := in.(*ssa.Store); ok {
			if al, ok := st.Addr.(*ssa.Alloc); ok && typeName(al.Type()) == "pubKeyCache" {
				cacheReset = true
			}
		}
	}
	c.check(cacheReset, "C32.partial-next", "cache reset on partial success", nextStore, "the pubkey cache is cleared when the callback set changes", "the pubkey cache is not reset when a partial success installs new callbacks (stale decisions of the previous callback could be reused)")
	// perms != nil -> error: nextStore's block reachable only via permsVal == nil edge
	var permNil []edge
	for _, v := range []ssa.Value{pv} {
		y, _ := edgesWhere(v, isNil)
		permNil = append(permNil, y...)
	}
	c.check(s.iterCross(blk, permNil), "C32.partial-next", "partial success requires nil permissions", nextStore, "the next callbacks are installed only behind perms == nil", "a partial success with non-nil Permissions is not rejected")
	_ = fn
	_ = authCfg
	_ = partial
}

func c32Cache(s *saCtx) {
	c := s.c
	get := c.fn("ssh", "(*pubKeyCache).get")
	if get != nil {
		hit := retTargets(get, func(r *ssa.Return) bool {
			b, ok := constBool(r.Results[1])
			return !ok || b
		})
		var userEq, keyEq []edge
		allInstrs(get, func(in ssa.Instruction) {
			if bo, ok := in.(*ssa.BinOp); ok && (bo.Op == token.EQL || bo.Op == token.NEQ) {
				px, py := bo.X, bo.Y
				isUserField := func(v ssa.Value) bool { _, f, _, ok := fieldOf(v); return ok && f == "user" }
				isUserParam := func(v ssa.Value) bool { return v == ssa.Value(get.Params[1]) }
				if (isUserField(px) && isUserParam(py)) || (isUserField(py) && isUserParam(px)) {
					y, _ := boolEdges(bo, bo.Op == token.EQL)
					userEq = append(userEq, y...)
				}
			}
		})
		for _, ci := range callsNamed(get, "bytes.Equal") {
			a := ci.Common().Args
			isKeyField := func(v ssa.Value) bool { _, f, _, ok := fieldOf(v); return ok && f == "pubKeyData" }
			if (isKeyField(a[0]) && a[1] == ssa.Value(get.Params[2])) || (isKeyField(a[1]) && a[0] == ssa.Value(get.Params[2])) {
				y, _ := successEdges(ci.(*ssa.Call), 0, isTrue)
				keyEq = append(keyEq, y...)
			}
		}
		c.mustCross("C32.cache-hit", "pubKeyCache.get user equality", get, instrsOf(hit), userEq, "entry.user == user")
		c.mustCross("C32.cache-hit", "pubKeyCache.get key equality", get, instrsOf(hit), keyEq, "bytes.Equal(entry.pubKeyData, pubKeyData)")
	}
}
