package main

import (
	"fmt"
	"go/token"
	"strings"

	"golang.org/x/tools/go/ssa"
)

func init() {
	register(&propDef{
		id: "C32", run: runC32, minOblig: 30,
		explanation: "Decides the accept discipline of (*connection).serverAuthenticate on its SSA form, for all request histories and callback behaviours at once, independently of how the code is factored (same-package helpers are expanded in place; values are identified by provenance across calls, cache-entry fields by their type, never by names of locals, parameters or receivers): the only nil-error return lies behind the 'authErr == nil' edge of one error phi; EVERY value that can flow into that phi — results of same-package helpers are replaced by the helper's own returned values — is classified and must be (i) provably non-nil, (ii) the error result of a configured callback of the current authConfig (password, keyboard-interactive), of NoClientAuthCallback (only behind NoClientAuth && !partialSuccessReturned), of gssExchangeToken (with the current authConfig's GSSAPI config), or of VerifiedPublicKeyCallback (only behind a successful Verify and a nil cached decision, and called with the client's key, not the no-touch variant), (iii) the constant nil only behind NoClientAuth && !partialSuccessReturned && NoClientAuthCallback == nil, or (iv) the cached PublicKeyCallback decision only if every path of the same loop iteration crosses the success edge of PublicKey.Verify — any other definition is a violation. A gate counts wherever it lives: a helper all of whose successful (nil-error / true) returns lie behind the gate hands it to its callers through the success edges of its calls. For every Verify call over buildDataSignedForAuth: the signed data is (sessionID from the transport, this iteration's request, algo, pubKeyData) with the same pubKeyData that was parsed into the verifying key, looked up in the cache and handed to the callback; the four algorithm guards (underlyingAlgo(algo) allowed, algo compatible with key type, sig.Format allowed, isAlgoCompatible; membership as slices.Contains, slices.Index or a scan) each lie on every path of the iteration to Verify. Permissions: the returned value is never loop-carried and, through every join and helper return, is produced by the same callback invocation (or cache entry) as the error; the pubkey cache hit requires equal user AND key bytes; partial success requires nil permissions, installs Next callbacks and resets the cache before the next request is read. NOT decided: the Verify implementations (C40) and user callbacks.",
		assumptions: []string{"interface method PublicKey.Verify implementations are sound (C40)", "local struct allocs that do not escape are only changed by the stores seen in the function"},
	})
	tech("C32", "SSA value-flow classification of every definition reaching the accept test (helper results expanded) + iteration-local must-cross rules on the call tree expanded in place + argument provenance across calls")
}

type saCtx struct {
	c    *Ctx
	fn   *ssa.Function
	A    *ssa.Phi        // final authErr phi
	H    *ssa.BasicBlock // loop header
	back edgeSet
	ret  *ssa.Return
	deep []*ssa.Function // fn and its same-package helpers

	pairSeen map[[2]ssa.Value]bool
	pairN    int
	pairBad  poser
}

func findServerAuth(c *Ctx) *saCtx {
	fn := c.fn("ssh", "(*connection).serverAuthenticate")
	if fn == nil {
		return nil
	}
	s := &saCtx{c: c, fn: fn, back: backEdges(fn), deep: deepFuncs(fn)}
	var accept []*ssa.Return
	for _, r := range returnsOf(fn) {
		if len(r.Results) == 2 && errNilness(r.Results[1], r.Block(), 0) != neverNil {
			accept = append(accept, r)
		}
	}
	if len(accept) != 1 {
		c.fail("C32.accept-return", "serverAuthenticate", fn, fmt.Sprintf("expected exactly one return with a possibly-nil error, found %d", len(accept)))
		return nil
	}
	s.ret = accept[0]
	// the error phi whose == nil edge guards the accept return
	allInstrs(fn, func(in ssa.Instruction) {
		p, ok := in.(*ssa.Phi)
		if !ok || !c32IsError(p.Type()) {
			return
		}
		yes, _ := edgesWhere(p, isNil)
		if len(yes) == 0 {
			return
		}
		cut := edgeSet{}
		cut.addAll(yes)
		if !pathFromEntry(s.ret, cut) {
			if s.A == nil || s.A.Block().Dominates(p.Block()) {
				s.A = p
			}
		}
	})
	if s.A == nil {
		c.fail("C32.accept-return", "serverAuthenticate", s.ret, "the nil-error return is not guarded by an 'err == nil' test of a single error value")
		return nil
	}
	s.H = innermostLoopHeader(s.A.Block())
	if s.H == nil {
		c.fail("C32.accept-return", "serverAuthenticate", s.A, "authentication loop not found")
		return nil
	}
	c.ok("C32.accept-return", "serverAuthenticate", s.ret, "single accepting return, guarded by authErr == nil on "+s.A.Name()+" inside the request loop")
	return s
}

// callbackField describes a dynamic call through a struct field; the called
// value is followed through helper parameters to the field it was read from.
func (c *Ctx) c32CallbackField(call *ssa.Call) (owner, field string, base ssa.Value, ok bool) {
	if call.Call.IsInvoke() || call.Call.StaticCallee() != nil {
		return
	}
	return fieldOf(c.origin(call.Call.Value))
}

func c32IsVerifyCall(in ssa.Instruction) (*ssa.Call, bool) {
	call, ok := in.(*ssa.Call)
	if !ok || short(calleeName(&call.Call)) != "invoke:(ssh.PublicKey).Verify" {
		return nil, false
	}
	return call, true
}

func runC32(c *Ctx) {
	defer c32Debug(c)
	s := findServerAuth(c)
	if s == nil {
		return
	}
	fn := s.fn
	// --- anchors, wherever they live in fn or its helpers
	// the Verify calls over the data signed for user authentication
	var verifies []*ssa.Call
	nVerify := 0
	deepInstrs(fn, func(in ssa.Instruction) {
		if call, ok := c32IsVerifyCall(in); ok {
			nVerify++
			if sd, ok := c.origin(call.Call.Args[0]).(*ssa.Call); ok && short(calleeName(&sd.Call)) == "ssh.buildDataSignedForAuth" {
				verifies = append(verifies, call)
			}
		}
	})
	if len(verifies) == 0 {
		if nVerify > 0 {
			c.fail("C32.verify-data", "Verify(data)", fn, "the verified data is not the result of buildDataSignedForAuth")
		} else {
			c.fail("C32.verify", "serverAuthenticate", fn, "no call of PublicKey.Verify found")
		}
		return
	}
	isAuthVerify := func(call *ssa.Call) bool {
		for _, v := range verifies {
			if v == call {
				return true
			}
		}
		return false
	}
	var verifyOK []edge
	for _, f := range s.liftFacts(s.callFacts("verify", isNil, -1, isAuthVerify)) {
		verifyOK = append(verifyOK, f.pass...)
	}
	// authConfig alloc: the ServerAuthCallbacks alloc that receives partialSuccess.Next
	var authCfg *ssa.Alloc
	var nextStore *ssa.Store
	allInstrs(fn, func(in ssa.Instruction) {
		if st, ok := in.(*ssa.Store); ok {
			if al, ok := st.Addr.(*ssa.Alloc); ok && typeName(al.Type()) == "ServerAuthCallbacks" {
				if o, fld, _, ok := fieldOf(st.Val); ok && fld == "Next" && o == "PartialSuccessError" {
					authCfg, nextStore = al, st
				}
			}
		}
	})
	if authCfg == nil {
		c.fail("C32.partial-next", "serverAuthenticate", fn, "store of PartialSuccessError.Next into the current callback set not found")
		return
	}
	// partialSuccessReturned: bool header phi that becomes true in the block of nextStore
	var partial *ssa.Phi
	for _, in := range s.H.Instrs {
		p, ok := in.(*ssa.Phi)
		if !ok {
			break
		}
		if !c32IsBool(p.Type()) {
			continue
		}
		for _, l := range phiLeaves(p) {
			if v, isC := constBool(l.val); isC && v && l.pred != nil && (l.pred == nextStore.Block() || nextStore.Block().Dominates(l.pred)) {
				partial = p
			}
		}
	}
	if partial == nil {
		c.fail("C32.partial-flag", "serverAuthenticate", nextStore, "no loop-carried flag is set when a partial success installs the next callbacks")
		return
	}
	// the flag is never cleared: all leaves are false only from outside the loop
	flagMonotone := true
	for _, l := range phiLeaves(partial) {
		if v, isC := constBool(l.val); isC && !v && l.pred != nil && s.H.Dominates(l.pred) && l.pred != s.H {
			if reach([]*ssa.BasicBlock{s.H}, nil)[l.pred] && l.pred.Index > s.H.Index {
				flagMonotone = false
			}
		}
	}
	c.check(flagMonotone, "C32.partial-flag", "serverAuthenticate partialSuccessReturned", partial, "set on partial success and never cleared inside the loop", "the partial-success flag can be cleared inside the loop")
	// gates of the "none" method, read wherever they are tested (fn or helpers; a
	// helper parameter bound to the flag / the config field counts as the value)
	_, partialFalse := s.edgesOfRole(func(v ssa.Value) bool { return v == ssa.Value(partial) }, isTrue)
	noClientAuthTrue, _ := s.edgesOfRole(func(v ssa.Value) bool { return c32FieldLoad(v, "ServerConfig", "NoClientAuth") }, isTrue)
	ncaCallbackNil, _ := s.edgesOfRole(func(v ssa.Value) bool { return c32FieldLoad(v, "ServerConfig", "NoClientAuthCallback") }, isNil)

	// --- classify every definition that can reach the accept test
	leaves := s.errLeaves(s.A, 0)
	nAccepting := 0
	for i, l := range leaves {
		name := fmt.Sprintf("authErr def#%d %s", i, describeVal(c, l.val))
		if l.depth > 0 {
			if b := l.at(); b != nil {
				name += " (returned by helper " + b.Parent().Name() + ")"
			}
		}
		at := l.at()
		if errNilness(l.val, at, 0) == neverNil {
			c.ok("C32.accept-def", name, l.val, "provably non-nil (constructed error, sentinel, or dominated by its != nil edge)")
			continue
		}
		if u, ok := l.val.(*ssa.UnOp); ok && at != nil && localLoadNonNil(u, at, s.startOf(u.Parent())) {
			c.ok("C32.accept-def", name, l.val, "load of a local field whose != nil test dominates this edge with no intervening store")
			continue
		}
		nAccepting++
		switch {
		case isNilConst(l.val):
			ok := s.cross(l, noClientAuthTrue) && s.cross(l, partialFalse) && s.cross(l, ncaCallbackNil)
			c.check(ok, "C32.accept-def", name, l.anchor(), "constant nil only behind NoClientAuth && !partialSuccessReturned && NoClientAuthCallback == nil",
				"authErr is set to nil on a path that does not pass NoClientAuth == true, partialSuccessReturned == false and NoClientAuthCallback == nil")
		default:
			if ex, ok := l.val.(*ssa.Extract); ok {
				if call, ok := ex.Tuple.(*ssa.Call); ok {
					owner, field, base, isCb := c.c32CallbackField(call)
					callee := short(calleeName(&call.Call))
					switch {
					case isCb && owner == "ServerAuthCallbacks" && (field == "PasswordCallback" || field == "KeyboardInteractiveCallback"):
						c.check(s.allocOf(base) == authCfg, "C32.accept-def", name, call, "result of the current authConfig."+field,
							field+" is not taken from the current (possibly partial-success-updated) callback set")
					case isCb && owner == "ServerConfig" && field == "NoClientAuthCallback":
						ok := s.cross(l, noClientAuthTrue) && s.cross(l, partialFalse)
						c.check(ok, "C32.accept-def", name, call, "NoClientAuthCallback result, only behind NoClientAuth && !partialSuccessReturned",
							"NoClientAuthCallback can decide authentication without NoClientAuth being set or after a partial success")
					case isCb && owner == "ServerConfig" && field == "VerifiedPublicKeyCallback":
						ok := s.deepCross(call, verifyOK)
						c.check(ok, "C32.accept-def", name, call, "VerifiedPublicKeyCallback result, only after a successful Verify in this iteration",
							"VerifiedPublicKeyCallback can be reached without a successful signature verification in the same iteration")
					case callee == "ssh.gssExchangeToken" && ex.Index == 0:
						o, f, b, okf := fieldOf(c.origin(call.Call.Args[0]))
						c.check(okf && o == "ServerAuthCallbacks" && f == "GSSAPIWithMICConfig" && s.allocOf(b) == authCfg, "C32.accept-def", name, call,
							"gssExchangeToken's authentication result (AllowLogin after MIC verification) under the current authConfig's GSSAPI configuration",
							"gssExchangeToken is not run with the GSSAPI configuration of the current (possibly partial-success-updated) callback set")
					default:
						c.fail("C32.accept-def", name, call, "authErr is defined by a call that is not a tabled authentication callback: "+callee+" "+owner+"."+field)
					}
					continue
				}
			}
			if _, e, f, ok := s.entryField(l.val); ok && f == e.result {
				c.check(s.cross(l, verifyOK), "C32.accept-def", name, l.val, "cached PublicKeyCallback decision, only behind a successful Verify in the same iteration",
					"the cached public-key decision can become authErr without a successful signature verification in the same iteration")
				continue
			}
			c.fail("C32.accept-def", name, l.val, "unclassified definition of authErr can reach the accept test")
		}
	}
	c.check(nAccepting >= 5, "C32.accept-def", "count", s.A, fmt.Sprintf("%d possibly-nil definitions classified out of %d", nAccepting, len(leaves)),
		fmt.Sprintf("only %d possibly-nil definitions found; the frozen minimum is 5 (none, password, keyboard-interactive, publickey, gssapi)", nAccepting))

	// --- Verify: argument provenance, key identity, algorithm guards
	pkds := map[ssa.Value]bool{}
	for _, verify := range verifies {
		c32Verify(s, verify, verifyOK, authCfg, pkds)
	}
	c32Callbacks(s, verifies, authCfg, pkds)

	// --- permissions
	c32Perms(s, nextStore)

	// --- cache
	c32Cache(s)
}

// startOf: where iteration-local reasoning about a value of function f starts:
// the loop header in serverAuthenticate, the entry block in a helper.
func (s *saCtx) startOf(f *ssa.Function) *ssa.BasicBlock {
	if f == s.fn || f == nil {
		return s.H
	}
	return f.Blocks[0]
}

func describeVal(c *Ctx, v ssa.Value) string {
	switch x := v.(type) {
	case *ssa.Const:
		return "const " + x.String()
	case *ssa.Extract:
		if call, ok := x.Tuple.(*ssa.Call); ok {
			if o, f, _, ok := c.c32CallbackField(call); ok {
				return fmt.Sprintf("result#%d of %s.%s", x.Index, o, f)
			}
			return fmt.Sprintf("result#%d of %s", x.Index, short(calleeName(&call.Call)))
		}
	case *ssa.UnOp:
		if t, f, _, ok := fieldOf(x); ok {
			return "load " + t + "." + f
		}
		if g, ok := x.X.(*ssa.Global); ok {
			return "load " + g.Name()
		}
	case *ssa.Call:
		return "call " + short(calleeName(&x.Call))
	case *ssa.MakeInterface:
		return "boxed " + x.X.Type().String()
	}
	return strings.TrimSpace(v.Name() + " " + v.Type().String())
}

// inLoop: the instruction executes inside the request loop (in fn, or in a
// helper called from inside the loop).
func (s *saCtx) inLoop(in ssa.Instruction) bool {
	site := s.siteInFn(in)
	return site != nil && s.H.Dominates(site.Block())
}

// keyLeaves: the non-phi values a (key) value can be, through phis, helper
// parameters and helper results.
func (s *saCtx) keyLeaves(v, stop ssa.Value, depth int, out *[]ssa.Value) {
	o := s.c.origin(v)
	if depth > 6 || o == stop {
		*out = append(*out, o)
		return
	}
	if p, ok := o.(*ssa.Phi); ok {
		for _, l := range phiLeaves(p) {
			s.keyLeaves(l.val, stop, depth+1, out)
		}
		return
	}
	if h, _, idx, ok := s.helperResult(o); ok && h.Name() != "skKeyWithoutUP" {
		n := 0
		for _, r := range returnsOf(h) {
			if rv := retVal(r, idx); rv != nil {
				s.keyLeaves(rv, stop, depth+1, out)
				n++
			}
		}
		if n > 0 {
			return
		}
	}
	*out = append(*out, o)
}

func c32Verify(s *saCtx, verify *ssa.Call, verifyOK []edge, authCfg *ssa.Alloc, pkds map[ssa.Value]bool) {
	c, fn := s.c, s.fn
	// signed data
	sd, _ := c.origin(verify.Call.Args[0]).(*ssa.Call)
	if sd == nil || short(calleeName(&sd.Call)) != "ssh.buildDataSignedForAuth" {
		c.fail("C32.verify-data", "Verify(data)", verify, "the verified data is not the result of buildDataSignedForAuth")
		return
	}
	args := sd.Call.Args
	// sessionID from transport
	sidOK := false
	if call, ok := c.origin(args[0]).(*ssa.Call); ok && strings.HasSuffix(calleeName(&call.Call), ".getSessionID") {
		sidOK = true
	}
	c.check(sidOK, "C32.verify-data", "signed data: session id", sd, "session identifier of this transport", "first argument of buildDataSignedForAuth is not the transport's session identifier")
	// request: the message that Unmarshal fills in this iteration
	reqOK := false
	req := c.origin(args[1])
	if reqAlloc := s.allocOf(req); reqAlloc != nil {
		for _, ci := range deepCallsNamed(fn, "ssh.Unmarshal") {
			if mi, ok := ci.Common().Args[1].(*ssa.MakeInterface); ok && s.allocOf(mi.X) == reqAlloc && s.inLoop(ci) {
				reqOK = true
			}
		}
	} else if h, call, _, ok := s.helperResult(req); ok && s.inLoop(call) && len(deepCallsNamed(h, "ssh.Unmarshal")) > 0 {
		// a helper that reads and decodes the request, called in this iteration
		reqOK = true
	}
	c.check(reqOK, "C32.verify-data", "signed data: request", sd, "the request decoded in this loop iteration", "second argument of buildDataSignedForAuth is not the request message decoded in this iteration")
	// pubKeyData identity
	pkd := c.origin(args[3])
	pkds[pkd] = true
	var parsed *ssa.Call
	for _, ci := range deepCallsNamed(fn, "ssh.ParsePublicKey") {
		if s.same(ci.Common().Args[0], pkd) {
			parsed = ci.(*ssa.Call)
		}
	}
	c.check(parsed != nil, "C32.verify-key", "ParsePublicKey(pubKeyData)", sd, "the signed data names the same key bytes that are parsed into the verifying key", "the key bytes in the signed data are not the bytes parsed into the verifying key")
	if parsed == nil {
		return
	}
	var pubKey ssa.Value
	for _, v := range resultN(parsed, 0) {
		pubKey = v
	}
	// receiver of Verify: pubKey or skKeyWithoutUP(pubKey) chosen by noTouchAllowed(pubKey, candidate.perms)
	var ntPass []edge
	ntArgsOK := true
	isNoTouch := func(call *ssa.Call) bool { return short(calleeName(&call.Call)) == "ssh.noTouchAllowed" }
	for _, f := range s.liftFacts(s.callFacts("notouch", isTrue, 0, isNoTouch)) {
		ntPass = append(ntPass, f.pass...)
		if call, ok := f.val.(*ssa.Call); ok && isNoTouch(call) && !s.same(call.Call.Args[0], pubKey) {
			ntArgsOK = false
		}
	}
	recvOK := true
	var recv []ssa.Value
	s.keyLeaves(verify.Call.Value, pubKey, 0, &recv)
	for _, rv := range recv {
		switch x := rv.(type) {
		case *ssa.Extract:
			if rv != pubKey {
				recvOK = false
			}
		case *ssa.Call:
			if short(calleeName(&x.Call)) != "ssh.skKeyWithoutUP" || !s.same(x.Call.Args[0], pubKey) {
				recvOK = false
			} else {
				// only behind noTouchAllowed(pubKey, …) == true
				cut := edgeSet{}
				cut.addAll(ntPass)
				if len(ntPass) == 0 || !ntArgsOK || deepReach(fn, cut, func(in ssa.Instruction) bool { return in == ssa.Instruction(x) }) != nil {
					recvOK = false
				}
			}
		default:
			recvOK = false
		}
	}
	c.check(recvOK && len(recv) > 0, "C32.verify-key", "Verify receiver", verify, "the verifying key is ParsePublicKey(pubKeyData), relaxed only through noTouchAllowed/skKeyWithoutUP", "the key used for Verify is not derived from the offered key bytes")

	// --- four algorithm guards on every iteration-local path to Verify
	isCompat := func(call *ssa.Call) bool { return short(calleeName(&call.Call)) == "ssh.isAlgoCompatible" }
	facts := s.liftFacts(append(s.membershipFacts(), s.callFacts("compat", isTrue, 0, isCompat)...))
	guards := []struct {
		name string
		pass []edge
	}{
		{"underlyingAlgo(algo) in PublicKeyAuthAlgorithms", c32FactEdges(facts, "accepted", "underlying")},
		{"algo in algorithmsForKeyFormat(pubKey.Type())", c32FactEdges(facts, "keyfmt", "*")},
		{"sig.Format in PublicKeyAuthAlgorithms", c32FactEdges(facts, "accepted", "sigformat")},
		{"isAlgoCompatible(algo, sig.Format)", c32FactEdges(facts, "compat", "*")},
	}
	for _, g := range guards {
		c.check(s.deepCross(verify, g.pass), "C32.algo-guard", g.name, verify, "on every path of the iteration that reaches Verify", "Verify is reachable without passing the guard: "+g.name)
	}
	// the signature verified is the one parsed from this request's payload
	sigOK := false
	if ex, ok := c.origin(verify.Call.Args[1]).(*ssa.Extract); ok {
		if call, ok := ex.Tuple.(*ssa.Call); ok && short(calleeName(&call.Call)) == "ssh.parseSignature" && s.inLoop(call) {
			sigOK = true
		}
	}
	c.check(sigOK, "C32.verify-data", "Verify(sig)", verify, "signature parsed from this iteration's payload", "the signature passed to Verify is not the one parsed from the current request")

	// the callbacks see the key parsed from the same bytes
	nPK := 0
	deepInstrs(fn, func(in ssa.Instruction) {
		call, ok := in.(*ssa.Call)
		if !ok {
			return
		}
		o, f, base, ok := c.c32CallbackField(call)
		if !ok {
			return
		}
		if f == "PublicKeyCallback" { // of whatever owner: it must be the current authConfig's
			nPK++
			c.check(s.allocOf(base) == authCfg && len(call.Call.Args) > 1 && s.same(call.Call.Args[1], pubKey), "C32.callback-key", "PublicKeyCallback(s, pubKey)", call, "current callback set, called with the parsed offered key", "PublicKeyCallback is not the current authConfig's or is not given the parsed offered key")
		}
		if o == "ServerConfig" && f == "VerifiedPublicKeyCallback" {
			c.check(len(call.Call.Args) > 1 && s.same(call.Call.Args[1], pubKey), "C32.callback-key", "VerifiedPublicKeyCallback(s, pubKey, …)", call, "called with the key as presented by the client", "VerifiedPublicKeyCallback is given a key other than the one presented by the client")
			// only when the cached decision is nil: between Verify and the call every
			// path crosses a == nil edge of the cached decision
			var passNil []edge
			for _, v := range s.roleVals(func(v ssa.Value) bool {
				_, e, fi, ok := s.entryField(v)
				return ok && fi == e.result
			}) {
				y, _ := edgesWhere(v, isNil)
				passNil = append(passNil, y...)
			}
			c.check(s.deepCrossFrom(verify, call, passNil), "C32.verified-cb-gate", "VerifiedPublicKeyCallback gate", call,
				"called only when the cached PublicKeyCallback decision is nil", "VerifiedPublicKeyCallback can run although PublicKeyCallback rejected the key")
		}
	})
	c.check(nPK >= 1, "C32.callback-key", "PublicKeyCallback call sites", fn, fmt.Sprintf("%d call site(s), each checked", nPK), "no call site of PublicKeyCallback found")
	_ = verifyOK
}

// c32Callbacks: the cache lookup is keyed by the connection's user and the
// offered key bytes.
func c32Callbacks(s *saCtx, verifies []*ssa.Call, authCfg *ssa.Alloc, pkds map[ssa.Value]bool) {
	c := s.c
	n := 0
	for _, call := range s.cacheLookups() {
		var userArg, keyArg ssa.Value
		for _, a := range call.Call.Args {
			switch {
			case c32IsString(a.Type()):
				userArg = a
			case c32IsBytes(a.Type()):
				keyArg = a
			}
		}
		n++
		userOK := false
		if userArg != nil {
			// the (possibly embedded) user field of the connection being authenticated
			_, f, base, ok := fieldOf(c.origin(userArg))
			userOK = ok && f == "user"
			for i := 0; ok && i < 4; i++ {
				var b2 ssa.Value
				if _, _, b2, ok = fieldOf(c.origin(base)); ok {
					base = b2
				}
			}
			userOK = userOK && base != nil && typeName(c.origin(base).Type()) == "connection"
		}
		c.check(userOK && keyArg != nil && pkds[c.origin(keyArg)], "C32.cache-key", "cache.get(user, pubKeyData)", call, "lookup keyed by the connection's user and the offered key bytes", "cache lookup is not keyed by (s.user, pubKeyData)")
	}
	if n == 0 {
		c.fail("C32.cache-key", "cache.get(user, pubKeyData)", s.fn, "no lookup of the public key cache found (a call returning a cache entry and a hit flag)")
	}
}

// cacheLookups: calls, in fn or its helpers, of a same-package function that
// returns (cache entry, bool) — the pubKeyCache lookup, whatever it is called.
func (s *saCtx) cacheLookups() []*ssa.Call {
	var out []*ssa.Call
	deepInstrs(s.fn, func(in ssa.Instruction) {
		call, ok := in.(*ssa.Call)
		if !ok {
			return
		}
		h := samePkgCallee(s.fn, &call.Call)
		if h == nil {
			return
		}
		res := h.Signature.Results()
		if res.Len() != 2 || !c32IsBool(res.At(1).Type()) {
			return
		}
		if _, ok := c32EntryOf(res.At(0).Type()); ok {
			out = append(out, call)
		}
	})
	return out
}

// pairOK: wherever the error value ev can be nil, the permissions value pv is
// produced by the same callback invocation / cache entry — through every join
// and through the returns of same-package helpers.
func (s *saCtx) pairOK(pv, ev ssa.Value, at *ssa.BasicBlock, depth int) bool {
	if pv == nil || ev == nil {
		return false
	}
	if at != nil && errNilness(ev, at, 0) == neverNil {
		return true
	}
	if u, ok := ev.(*ssa.UnOp); ok && at != nil && localLoadNonNil(u, at, s.startOf(u.Parent())) {
		return true
	}
	k := [2]ssa.Value{pv, ev}
	if s.pairSeen[k] {
		return true
	}
	s.pairSeen[k] = true
	if depth > 16 {
		s.pairBad = ev
		return false
	}
	ep, eIsPhi := ev.(*ssa.Phi)
	pp, pIsPhi := pv.(*ssa.Phi)
	switch {
	case eIsPhi && pIsPhi && ep.Block() == pp.Block():
		ok := true
		for i := range ep.Edges {
			if !s.pairOK(pp.Edges[i], ep.Edges[i], ep.Block().Preds[i], depth+1) {
				ok = false
			}
		}
		return ok
	case eIsPhi && (!pIsPhi || pp.Block().Dominates(ep.Block())):
		// the permissions value is fixed before the join of the error value
		ok := true
		for i := range ep.Edges {
			if !s.pairOK(pv, ep.Edges[i], ep.Block().Preds[i], depth+1) {
				ok = false
			}
		}
		return ok
	case pIsPhi:
		ok := true
		for i := range pp.Edges {
			if !s.pairOK(pp.Edges[i], ev, pp.Block().Preds[i], depth+1) {
				ok = false
			}
		}
		return ok
	}
	s.pairN++
	good := false
	switch x := ev.(type) {
	case *ssa.Const:
		good = x.IsNil() && isNilConst(pv)
	case *ssa.Extract:
		if px, isEx := pv.(*ssa.Extract); isEx && px.Tuple == x.Tuple {
			good = true
			if h, _, _, ok := s.helperResult(x); ok && !c32Tabled(h) {
				for _, r := range returnsOf(h) {
					if !s.pairOK(retVal(r, px.Index), retVal(r, x.Index), r.Block(), depth+1) {
						good = false
					}
				}
			}
		}
	default:
		// the cached decision travels with the cached permissions of the same entry
		if al, e, f, ok := s.entryField(ev); ok && f == e.result {
			if al2, _, f2, ok2 := s.entryField(pv); ok2 && al2 == al && f2 == e.perms {
				good = true
			}
		}
	}
	if !good && s.pairBad == nil {
		s.pairBad = ev
		if at != nil && len(at.Instrs) > 0 {
			s.pairBad = at.Instrs[len(at.Instrs)-1]
		}
	}
	return good
}

func c32Perms(s *saCtx, nextStore *ssa.Store) {
	c := s.c
	pv := s.ret.Results[0]
	carried := false
	// no phi in the chain may sit in the loop header (a loop-carried value)
	seen := map[*ssa.Phi]bool{}
	var walk func(v ssa.Value)
	walk = func(v ssa.Value) {
		p, ok := v.(*ssa.Phi)
		if !ok || seen[p] {
			return
		}
		seen[p] = true
		if p.Block() == s.H {
			carried = true
		}
		for _, e := range p.Edges {
			walk(e)
		}
	}
	walk(pv)
	c.check(!carried, "C32.perms-fresh", "returned Permissions", s.ret, "no loop-carried value: the returned permissions are produced in the final iteration", "the returned Permissions can be a value carried over from an earlier authentication request")
	// pairing: wherever the error can be nil, perms comes from the same call / cache entry
	s.pairSeen = map[[2]ssa.Value]bool{}
	if s.pairOK(pv, s.A, s.ret.Block(), 0) && s.pairN > 0 {
		c.ok("C32.perms-pair", "returned Permissions", s.ret, fmt.Sprintf("on all %d possibly-accepting definitions permissions and result come from the same callback invocation or cache entry", s.pairN))
	} else {
		var at poser = s.ret
		if s.pairBad != nil {
			at = s.pairBad
		}
		c.fail("C32.perms-pair", "returned Permissions", at, "on this definition the permissions do not come from the same callback invocation / cache entry as the authentication result")
	}
	// partial success: the pubkey cache is cleared before the next request is
	// read — no path from the installation of the Next callbacks back to the loop
	// header avoids a store that resets the cache (or the reset precedes the
	// installation in the same block)
	var cache *ssa.Alloc
	for _, call := range s.cacheLookups() {
		if al := s.allocOf(call.Call.Args[0]); al != nil && al.Parent() == s.fn {
			cache = al
		}
	}
	// a store that empties the cache cell: the whole value replaced, or its
	// slice field set to nil / resliced to length 0
	resetOf := func(isCell func(ssa.Value) bool) func(ssa.Instruction) bool {
		return func(in ssa.Instruction) bool {
			st, ok := in.(*ssa.Store)
			if !ok {
				return false
			}
			if isCell(st.Addr) {
				return true
			}
			if fa, ok := st.Addr.(*ssa.FieldAddr); ok && isCell(fa.X) {
				if isNilConst(st.Val) {
					return true
				}
				if sl, ok := st.Val.(*ssa.Slice); ok && sl.High != nil {
					if n, isC := constInt(sl.High); isC && n == 0 {
						return true
					}
				}
			}
			return false
		}
	}
	direct := resetOf(func(v ssa.Value) bool { return cache != nil && v == ssa.Value(cache) })
	isReset := func(in ssa.Instruction) bool {
		if cache == nil {
			return false
		}
		if direct(in) {
			return true
		}
		// a helper that empties the cache it is handed, on every path to its return
		call, ok := in.(*ssa.Call)
		if !ok {
			return false
		}
		h := samePkgCallee(s.fn, &call.Call)
		if h == nil {
			return false
		}
		for i, a := range call.Call.Args {
			if a != ssa.Value(cache) || i >= len(h.Params) {
				continue
			}
			p := h.Params[i]
			inner := resetOf(func(v ssa.Value) bool { return v == ssa.Value(p) })
			first := h.Blocks[0].Instrs[0]
			isRet := func(x ssa.Instruction) bool { _, r := x.(*ssa.Return); return r }
			if inner(first) || !isRet(first) && passBefore(first, inner, isRet) == nil {
				return true
			}
		}
		return false
	}
	cacheReset := false
	if cache != nil {
		head := s.H.Instrs[0]
		cacheReset = passBefore(nextStore, isReset, func(in ssa.Instruction) bool { return in == head }) == nil
		for _, in := range nextStore.Block().Instrs {
			if in == ssa.Instruction(nextStore) {
				break
			}
			if isReset(in) {
				cacheReset = true
			}
		}
	}
	c.check(cacheReset, "C32.partial-next", "cache reset on partial success", nextStore, "the pubkey cache is cleared when the callback set changes", "the pubkey cache is not reset when a partial success installs new callbacks (stale decisions of the previous callback could be reused)")
	// perms != nil -> error: the installation is reachable only via a perms == nil edge
	permNil, _ := edgesWhere(pv, isNil)
	c.check(s.deepCross(nextStore, permNil), "C32.partial-next", "partial success requires nil permissions", nextStore, "the next callbacks are installed only behind perms == nil", "a partial success with non-nil Permissions is not rejected")
}

// c32EntryRole: v reads a field of a cache-entry struct (local or not); returns
// the entry description and the field index.
func c32EntryRole(v ssa.Value) (*c32Entry, int, bool) {
	var x ssa.Value
	var idx int
	switch y := v.(type) {
	case *ssa.UnOp:
		fa, ok := y.X.(*ssa.FieldAddr)
		if y.Op != token.MUL || !ok {
			return nil, 0, false
		}
		x, idx = fa.X, fa.Field
	case *ssa.Field:
		x, idx = y.X, y.Field
	default:
		return nil, 0, false
	}
	e, ok := c32EntryOf(x.Type())
	return e, idx, ok
}

// c32EqEdges: in function f, the edges on which an entry's user field equals
// the looked-up user and on which its key bytes equal the looked-up bytes;
// isArg tells which values of f denote the looked-up user / key.
func c32EqEdges(f *ssa.Function, isArg func(ssa.Value) bool) (user, key []edge, userVals, keyVals map[ssa.Value]bool) {
	userVals, keyVals = map[ssa.Value]bool{}, map[ssa.Value]bool{}
	role := func(v ssa.Value) string {
		v = stripConv(v)
		if e, i, ok := c32EntryRole(v); ok {
			switch i {
			case e.user:
				return "user"
			case e.key:
				return "key"
			}
		}
		return ""
	}
	arg := func(v ssa.Value) bool { return isArg(stripConv(v)) }
	allInstrs(f, func(in ssa.Instruction) {
		switch x := in.(type) {
		case *ssa.BinOp:
			if x.Op != token.EQL && x.Op != token.NEQ {
				return
			}
			for _, pr := range [][2]ssa.Value{{x.X, x.Y}, {x.Y, x.X}} {
				if r := role(pr[0]); r != "" && arg(pr[1]) {
					y, _ := boolEdges(x, x.Op == token.EQL)
					if r == "user" && c32IsString(stripConv(pr[1]).Type()) {
						user = append(user, y...)
						if x.Op == token.EQL {
							userVals[x] = true
						}
					}
					if r == "key" { // string(k.pubKeyData) == string(pubKeyData)
						key = append(key, y...)
						if x.Op == token.EQL {
							keyVals[x] = true
						}
					}
				}
			}
		case *ssa.Call:
			n := short(calleeName(&x.Call))
			a := x.Call.Args
			if len(a) != 2 {
				return
			}
			if !(role(a[0]) == "key" && arg(a[1]) || role(a[1]) == "key" && arg(a[0])) {
				return
			}
			switch n {
			case "bytes.Equal", "slices.Equal":
				y, _ := successEdges(x, 0, isTrue)
				key = append(key, y...)
				keyVals[x] = true
			case "crypto/subtle.ConstantTimeCompare":
				y, _ := successEdges(x, 0, isOne)
				key = append(key, y...)
			case "bytes.Compare", "slices.Compare":
				y, _ := successEdges(x, 0, isZero)
				key = append(key, y...)
			}
		}
	})
	return
}

func c32Cache(s *saCtx) {
	c := s.c
	gets := map[*ssa.Function]bool{}
	var order []*ssa.Function
	for _, call := range s.cacheLookups() {
		if h := call.Call.StaticCallee(); h != nil && !gets[h] {
			gets[h] = true
			order = append(order, h)
		}
	}
	if len(order) == 0 {
		if get := c.fn("ssh", "(*pubKeyCache).get"); get != nil {
			order = append(order, get)
		}
	}
	for _, get := range order {
		hit := retTargets(get, func(r *ssa.Return) bool {
			if len(r.Results) < 2 {
				return false
			}
			b, ok := constBool(r.Results[1])
			return !ok || b
		})
		isParam := func(v ssa.Value) bool {
			p, ok := v.(*ssa.Parameter)
			return ok && p.Parent() == get
		}
		userEq, keyEq, _, _ := c32EqEdges(get, isParam)
		// slices.IndexFunc / slices.ContainsFunc with a predicate closure: the
		// "found" edges count when every true return of the closure lies behind
		// the equality
		allInstrs(get, func(in ssa.Instruction) {
			call, ok := in.(*ssa.Call)
			if !ok || len(call.Call.Args) != 2 {
				return
			}
			n := short(calleeName(&call.Call))
			if n != "slices.IndexFunc" && n != "slices.ContainsFunc" {
				return
			}
			mc, ok := call.Call.Args[1].(*ssa.MakeClosure)
			if !ok {
				return
			}
			cl, ok := mc.Fn.(*ssa.Function)
			if !ok || len(cl.Blocks) == 0 {
				return
			}
			bound := func(v ssa.Value) bool {
				if u, ok := v.(*ssa.UnOp); ok && u.Op == token.MUL {
					v = u.X // a captured variable is read through its box
				}
				fv, ok := v.(*ssa.FreeVar)
				if !ok {
					return false
				}
				for i, x := range cl.FreeVars {
					if x != fv || i >= len(mc.Bindings) {
						continue
					}
					b := stripConv(mc.Bindings[i])
					if isParam(b) {
						return true
					}
					// the box of a captured parameter: its only store is the parameter
					if al, ok := b.(*ssa.Alloc); ok {
						n, good := 0, false
						for _, r := range *al.Referrers() {
							if st, ok := r.(*ssa.Store); ok && st.Addr == ssa.Value(al) {
								n++
								good = isParam(stripConv(st.Val))
							}
						}
						return n == 1 && good
					}
				}
				return false
			}
			var found []edge
			if n == "slices.ContainsFunc" {
				found, _ = successEdges(call, 0, isTrue)
			} else {
				found = c32IndexFoundEdges(call)
			}
			u, k, uv, kv := c32EqEdges(cl, bound)
			if c32SuccessBehind(cl, 0, isTrue, u, uv) {
				userEq = append(userEq, found...)
			}
			if c32SuccessBehind(cl, 0, isTrue, k, kv) {
				keyEq = append(keyEq, found...)
			}
		})
		c.mustCross("C32.cache-hit", "pubKeyCache.get user equality", get, instrsOf(hit), userEq, "entry.user == user")
		c.mustCross("C32.cache-hit", "pubKeyCache.get key equality", get, instrsOf(hit), keyEq, "bytes.Equal(entry.pubKeyData, pubKeyData)")
	}
}

// callbackField describes a dynamic call through a struct field (used by other properties).
func callbackField(call *ssa.Call) (owner, field string, base ssa.Value, ok bool) {
	if call.Call.IsInvoke() || call.Call.StaticCallee() != nil {
		return
	}
	return fieldOf(call.Call.Value)
}
