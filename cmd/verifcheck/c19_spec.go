package main

import (
	"fmt"
	"sort"
	"strings"
)

// The bcrypt_pbkdf specification (OpenBSD bcrypt_pbkdf.c) over the same term
// algebra as the interpreter in c19_sym.go, a printer for terms, and the
// destructuring of a derived-key term into the facts the C19 rules name
// (cipher set-up, expansion order, plaintext, encryption count, byte order,
// hash inputs, block counter).

const c19Magic = "OxychromaticBlowfishSwatDynamite"

func (T *c19Terms) digest(content []c19T) (c19T, []c19T) {
	d := T.node("H", content...)
	bs := make([]c19T, 64)
	for i := range bs {
		bs[i] = T.byteOf(d, i)
	}
	return d, bs
}

func (T *c19Terms) setLabel(t c19T, l string) {
	if _, ok := T.label[t]; !ok {
		T.label[t] = l
	}
}

// specHash: bcrypt_hash(sha2pass, sha2salt) of bcrypt_pbkdf.c.
func (T *c19Terms) specHash(shapass, shasalt []c19T, tag string) []c19T {
	as := append(append(append([]c19T(nil), shapass...), c19Sep), shasalt...)
	st := T.node("I", as...)
	for i := 0; i < 64; i++ {
		st = T.node("X", append([]c19T{st}, shasalt...)...)
		st = T.node("X", append([]c19T{st}, shapass...)...)
	}
	T.setLabel(st, "state("+tag+")")
	out := make([]c19T, 32)
	for w := 0; w < 4; w++ {
		blk := make([]c19T, 8)
		for i := range blk {
			blk[i] = c19T(c19Magic[8*w+i])
		}
		for k := 0; k < 64; k++ {
			e := T.node("E", append([]c19T{st}, blk...)...)
			for i := range blk {
				blk[i] = T.byteOf(e, i)
			}
		}
		copy(out[8*w:], blk)
	}
	for i := 0; i < 32; i += 4 {
		out[i], out[i+1], out[i+2], out[i+3] = out[i+3], out[i+2], out[i+1], out[i]
	}
	for i, t := range out {
		T.setLabel(t, fmt.Sprintf("out(%s)[%d]", tag, i))
	}
	return out
}

// specKey: bcrypt_pbkdf(pass, salt, rounds, keylen). It returns the key bytes
// and the SHA-512 computations (digest nodes) in the order of the reference.
func (T *c19Terms) specKey(pw, salt []c19T, rounds, keyLen int) (key []c19T, hashes []c19T) {
	nb := (keyLen + 31) / 32
	buf := make([]c19T, nb*32)
	hp, shapass := T.digest(pw)
	T.setLabel(hp, "SHA512(password)")
	hashes = append(hashes, hp)
	for b := 1; b <= nb; b++ {
		cnt := []c19T{c19T(b >> 24 & 0xff), c19T(b >> 16 & 0xff), c19T(b >> 8 & 0xff), c19T(b & 0xff)}
		hs, shasalt := T.digest(append(append([]c19T(nil), salt...), cnt...))
		T.setLabel(hs, fmt.Sprintf("SHA512(salt|counter %d)", b))
		hashes = append(hashes, hs)
		tmp := T.specHash(shapass, shasalt, fmt.Sprintf("block %d, round 1", b))
		out := append([]c19T(nil), tmp...)
		for r := 2; r <= rounds; r++ {
			hs, shasalt = T.digest(tmp)
			T.setLabel(hs, fmt.Sprintf("SHA512(out(block %d, round %d))", b, r-1))
			hashes = append(hashes, hs)
			tmp = T.specHash(shapass, shasalt, fmt.Sprintf("block %d, round %d", b, r))
			for i := range out {
				out[i] = T.xor(out[i], tmp[i])
			}
		}
		for i, v := range out {
			buf[i*nb+(b-1)] = v
		}
	}
	return buf[:keyLen], hashes
}

// ---------------------------------------------------------------------------
// printing

func (T *c19Terms) desc(t c19T, depth int) string {
	switch {
	case t == c19Sep:
		return "|"
	case t >= 0 && t < 256:
		return fmt.Sprintf("0x%02x", int64(t))
	case t >= c19BBase:
	case t >= c19SaltBase:
		return fmt.Sprintf("salt[%d]", int64(t-c19SaltBase))
	case t >= c19PwBase:
		return fmt.Sprintf("password[%d]", int64(t-c19PwBase))
	}
	if l, ok := T.label[t]; ok {
		return l
	}
	n := T.get(t)
	if n == nil {
		return "?"
	}
	if depth <= 0 {
		return n.op + "(…)"
	}
	switch n.op {
	case "B":
		return fmt.Sprintf("%s[%d]", T.desc(n.args[0], depth), int64(n.args[1]))
	case "^":
		var ps []string
		for _, a := range n.args {
			ps = append(ps, T.desc(a, depth-1))
		}
		return strings.Join(ps, " ^ ")
	case "H":
		return "SHA512(" + T.seq(n.args, depth-1) + ")"
	case "I":
		k, s := c19SplitInit(n.args)
		return "NewSaltedCipher(key=" + T.seq(k, depth-1) + ", salt=" + T.seq(s, depth-1) + ")"
	case "X":
		return "ExpandKey(" + T.seq(n.args[1:], depth-1) + ") after " + T.desc(n.args[0], depth-1)
	case "E", "D":
		nm := map[string]string{"E": "Encrypt", "D": "Decrypt"}[n.op]
		return nm + "(" + T.seq(n.args[1:], depth-1) + " under " + T.desc(n.args[0], depth-1) + ")"
	}
	return n.op + "(…)"
}

func c19SplitInit(args []c19T) (key, salt []c19T) {
	for i, a := range args {
		if a == c19Sep {
			return args[:i], args[i+1:]
		}
	}
	return args, nil
}

// seq prints a byte sequence, merging runs (input ranges, consecutive bytes of
// one digest or cipher block, constants).
func (T *c19Terms) seq(ts []c19T, depth int) string {
	if len(ts) == 0 {
		return "empty"
	}
	var ps []string
	for i := 0; i < len(ts); {
		t := ts[i]
		j := i + 1
		switch {
		case t >= c19PwBase && t < c19BBase:
			for j < len(ts) && ts[j] == ts[j-1]+1 && ts[j] < c19BBase {
				j++
			}
			nm, base := "password", c19PwBase
			if t >= c19SaltBase {
				nm, base = "salt", c19SaltBase
			}
			ps = append(ps, fmt.Sprintf("%s[%d:%d]", nm, int64(t-base), int64(t-base)+int64(j-i)))
		case t >= 0 && t < 256:
			for j < len(ts) && ts[j] >= 0 && ts[j] < 256 {
				j++
			}
			if j-i > 8 {
				ps = append(ps, fmt.Sprintf("%q", string(c19Bytes(ts[i:j]))))
			} else {
				ps = append(ps, "0x"+c19Hex(ts[i:j]))
			}
		default:
			n := T.get(t)
			if n != nil && n.op == "B" {
				for j < len(ts) {
					m := T.get(ts[j])
					if m == nil || m.op != "B" || m.args[0] != n.args[0] || m.args[1] != n.args[1]+c19T(j-i) {
						break
					}
					j++
				}
				if j-i > 1 {
					ps = append(ps, fmt.Sprintf("%s[%d:%d]", T.desc(n.args[0], depth), int64(n.args[1]), int64(n.args[1])+int64(j-i)))
					break
				}
			}
			ps = append(ps, T.desc(t, depth))
		}
		i = j
		if len(ps) >= 12 && i < len(ts) {
			ps = append(ps, fmt.Sprintf("… (%d bytes in all)", len(ts)))
			break
		}
	}
	return strings.Join(ps, " | ")
}

func c19Bytes(ts []c19T) []byte {
	bs := make([]byte, len(ts))
	for i, t := range ts {
		bs[i] = byte(t)
	}
	return bs
}

func c19Same(a, b []c19T) bool {
	if len(a) != len(b) {
		return false
	}
	for i := range a {
		if a[i] != b[i] {
			return false
		}
	}
	return true
}

// diff describes the first difference between the derived key and the
// specification.
func (T *c19Terms) diff(got, want []c19T) string {
	if len(got) != len(want) {
		return fmt.Sprintf("the result has %d bytes, expected %d", len(got), len(want))
	}
	for i := range got {
		if got[i] != want[i] {
			return fmt.Sprintf("key[%d] = %s, bcrypt_pbkdf requires %s", i, T.desc(got[i], 3), T.desc(want[i], 3))
		}
	}
	return ""
}

// hashNodes lists the SHA-512 computations of a run.
func c19HashNodes(tr []c19Event) []c19T {
	var hs []c19T
	for _, e := range tr {
		if e.kind == "H" {
			hs = append(hs, e.node)
		}
	}
	return hs
}

// hashDiff compares the SHA-512 computations of a run with the reference as
// multisets (the order in which independent digests are computed is free).
func (T *c19Terms) hashDiff(got, want []c19T) string {
	g := append([]c19T(nil), got...)
	w := append([]c19T(nil), want...)
	sort.Slice(g, func(i, j int) bool { return g[i] < g[j] })
	sort.Slice(w, func(i, j int) bool { return w[i] < w[j] })
	if c19Same(g, w) {
		return ""
	}
	cnt := map[c19T]int{}
	for _, h := range want {
		cnt[h]++
	}
	for i, h := range got {
		if cnt[h] == 0 {
			exp := ""
			if i < len(want) {
				exp = ", the reference hashes " + T.seq(T.get(want[i]).args, 2) + " at that point"
			}
			return fmt.Sprintf("SHA-512 computation #%d hashes %s%s", i+1, T.seq(T.get(h).args, 2), exp)
		}
		cnt[h]--
	}
	for h, k := range cnt {
		if k > 0 {
			return fmt.Sprintf("%s is never computed (%d SHA-512 computations, expected %d)", T.desc(h, 2), len(got), len(want))
		}
	}
	return fmt.Sprintf("%d SHA-512 computations, expected %d", len(got), len(want))
}

// ---------------------------------------------------------------------------
// destructuring of a one-round block

// c19Chain unwinds repeated encryption: e = Enc(st, Enc(st, ... Enc(st, plain))).
type c19Chain struct {
	depth    int
	plain    []c19T
	state    c19T
	straight bool // every link feeds all 8 bytes of the previous output, in order, under the same state
}

func (T *c19Terms) chain(e c19T) c19Chain {
	ch := c19Chain{straight: true}
	n := T.get(e)
	ch.state = n.args[0]
	for {
		ch.depth++
		if n.args[0] != ch.state {
			ch.straight = false
		}
		src := n.args[1:]
		var prev c19T = -2
		whole := true
		for k, s := range src {
			m := T.get(s)
			if m == nil || m.op != "B" || m.args[1] != c19T(k) {
				whole = false
				break
			}
			if k == 0 {
				prev = m.args[0]
			} else if m.args[0] != prev {
				whole = false
				break
			}
		}
		if pn := T.get(prev); whole && pn != nil && pn.op == "E" {
			n = pn
			continue
		}
		ch.plain = src
		return ch
	}
}

// c19Block is what one 32-byte block output with a single round is made of.
type c19Block struct {
	why     string   // non-empty: the block is not of the form "bytes of Blowfish encryptions"
	mixed   bool     // why: the bytes come from more than one bcryptHash computation
	enc     [32]c19T // the encryption node each output byte is taken from
	pos     [32]int  // the byte position within that cipher block
	chains  map[c19T]c19Chain
	state   c19T     // cipher state of the first byte's chain
	expKeys [][]c19T // keys of the successive ExpandKey calls, in program order
	initKey []c19T
	initSlt []c19T
	stWhy   string
}

func (T *c19Terms) dissect(out []c19T) *c19Block {
	bl := &c19Block{chains: map[c19T]c19Chain{}}
	if len(out) != 32 {
		bl.why = fmt.Sprintf("a block has %d bytes", len(out))
		return bl
	}
	for j, t := range out {
		n := T.get(t)
		var e *c19Node
		if n != nil && n.op == "B" {
			e = T.get(n.args[0])
		}
		if e == nil || e.op != "E" {
			bl.why = fmt.Sprintf("output byte %d is %s, not a byte of a Blowfish encryption", j, T.desc(t, 2))
			return bl
		}
		bl.enc[j], bl.pos[j] = n.args[0], int(n.args[1])
		if _, ok := bl.chains[n.args[0]]; !ok {
			bl.chains[n.args[0]] = T.chain(n.args[0])
		}
	}
	bl.state = bl.chains[bl.enc[0]].state
	for j := range out {
		if st := bl.chains[bl.enc[j]].state; st != bl.state {
			bl.mixed = true
			bl.why = fmt.Sprintf("output byte %d comes from another bcryptHash computation than byte 0 (%s and %s): a key of 32 bytes is exactly the one block with counter 1, byte i at key[i]", j, T.hashInputOfState(st), T.hashInputOfState(bl.state))
			return bl
		}
	}
	// the state: Expand(...Expand(Init(key|salt), k1)..., kn)
	st := bl.state
	for {
		n := T.get(st)
		if n == nil {
			bl.stWhy = "the cipher state is " + T.desc(st, 2)
			break
		}
		if n.op == "X" {
			bl.expKeys = append(bl.expKeys, n.args[1:])
			st = n.args[0]
			continue
		}
		if n.op == "I" {
			bl.initKey, bl.initSlt = c19SplitInit(n.args)
		} else {
			bl.stWhy = "the cipher state is " + T.desc(st, 2)
		}
		break
	}
	for i, j := 0, len(bl.expKeys)-1; i < j; i, j = i+1, j-1 {
		bl.expKeys[i], bl.expKeys[j] = bl.expKeys[j], bl.expKeys[i]
	}
	return bl
}

// hashInputOfState names a cipher state by the SHA-512 input its salt digest
// was computed from.
func (T *c19Terms) hashInputOfState(st c19T) string {
	for {
		n := T.get(st)
		if n == nil || n.op != "X" {
			break
		}
		st = n.args[0]
	}
	if n := T.get(st); n != nil && n.op == "I" {
		_, s := c19SplitInit(n.args)
		if in, ok := T.digestOf(s); ok {
			return "salt digest SHA512(" + T.seq(in, 1) + ")"
		}
	}
	return T.desc(st, 1)
}

// digestOf: bs are the 64 bytes, in order, of one SHA-512 digest; its input.
func (T *c19Terms) digestOf(bs []c19T) ([]c19T, bool) {
	if len(bs) != 64 {
		return nil, false
	}
	var h c19T
	for i, b := range bs {
		n := T.get(b)
		if n == nil || n.op != "B" || n.args[1] != c19T(i) {
			return nil, false
		}
		if i == 0 {
			h = n.args[0]
		} else if n.args[0] != h {
			return nil, false
		}
	}
	hn := T.get(h)
	if hn == nil || hn.op != "H" {
		return nil, false
	}
	return hn.args, true
}
