package main

import (
	"go/constant"
	"go/token"
	"go/types"
	"strings"

	"golang.org/x/tools/go/ssa"
)

// ---------------------------------------------------------------------------
// call identification

func callCommon(in ssa.Instruction) *ssa.CallCommon {
	switch x := in.(type) {
	case *ssa.Call:
		return &x.Call
	case *ssa.Defer:
		return &x.Call
	case *ssa.Go:
		return &x.Call
	}
	return nil
}

// calleeName gives a resolved name for the callee:
//
//	static function:  "golang.org/x/crypto/ssh.findCommon", "(*golang.org/x/crypto/ssh.mux).loop"
//	interface invoke: "invoke:(golang.org/x/crypto/ssh.PublicKey).Verify"
//	builtin:          "builtin:len"
//	closure/dynamic:  "dynamic"
//
// Generic instantiation suffixes are stripped.
func calleeName(cc *ssa.CallCommon) string {
	if cc == nil {
		return ""
	}
	if cc.IsInvoke() {
		return "invoke:" + cc.Method.FullName()
	}
	if f := cc.StaticCallee(); f != nil {
		if f.Origin() != nil {
			f = f.Origin()
		}
		s := f.String()
		return s
	}
	if b, ok := cc.Value.(*ssa.Builtin); ok {
		return "builtin:" + b.Name()
	}
	return "dynamic"
}

// short strips the module path for printing and for matching in rule tables.
func short(s string) string {
	return strings.ReplaceAll(s, modPath+"/", "")
}

// calls returns the call instructions (incl. defer/go) in fn whose callee name
// (module path stripped) satisfies match.
func calls(fn *ssa.Function, match func(name string) bool) []ssa.CallInstruction {
	var out []ssa.CallInstruction
	if fn == nil {
		return nil
	}
	for _, b := range fn.Blocks {
		for _, in := range b.Instrs {
			if ci, ok := in.(ssa.CallInstruction); ok {
				if match(short(calleeName(ci.Common()))) {
					out = append(out, ci)
				}
			}
		}
	}
	return out
}

func callsNamed(fn *ssa.Function, names ...string) []ssa.CallInstruction {
	return calls(fn, func(n string) bool {
		for _, w := range names {
			if n == w {
				return true
			}
		}
		return false
	})
}

func nameIs(names ...string) func(string) bool {
	return func(n string) bool {
		for _, w := range names {
			if n == w {
				return true
			}
		}
		return false
	}
}

// callValue returns the ssa.Value of a call instruction (nil for defer/go).
func callValue(ci ssa.CallInstruction) ssa.Value {
	if c, ok := ci.(*ssa.Call); ok {
		return c
	}
	return nil
}

// resultN returns the value of the n'th result of call c: the call itself for
// single-result calls, or the Extract instructions for tuples.
func resultN(c *ssa.Call, n int) []ssa.Value {
	sig := c.Call.Signature()
	if sig.Results().Len() == 1 {
		if n == 0 {
			return []ssa.Value{c}
		}
		return nil
	}
	var out []ssa.Value
	for _, r := range *c.Referrers() {
		if e, ok := r.(*ssa.Extract); ok && e.Index == n {
			out = append(out, e)
		}
	}
	return out
}

// errResult returns the values carrying the (last) error result of the call.
func errResult(c *ssa.Call) []ssa.Value {
	sig := c.Call.Signature()
	n := sig.Results().Len()
	if n == 0 {
		return nil
	}
	return resultN(c, n-1)
}

// ---------------------------------------------------------------------------
// CFG edges and reachability

type edge struct {
	from *ssa.BasicBlock
	idx  int
}

func (e edge) to() *ssa.BasicBlock { return e.from.Succs[e.idx] }

type edgeSet map[edge]bool

func (s edgeSet) addAll(es []edge) {
	for _, e := range es {
		s[e] = true
	}
}

// reach returns the blocks reachable from the given start blocks (inclusive)
// without traversing an edge in cut.
func reach(starts []*ssa.BasicBlock, cut edgeSet) map[*ssa.BasicBlock]bool {
	seen := map[*ssa.BasicBlock]bool{}
	var stack []*ssa.BasicBlock
	for _, s := range starts {
		if !seen[s] {
			seen[s] = true
			stack = append(stack, s)
		}
	}
	for len(stack) > 0 {
		b := stack[len(stack)-1]
		stack = stack[:len(stack)-1]
		for i, s := range b.Succs {
			if cut[edge{b, i}] {
				continue
			}
			if !seen[s] {
				seen[s] = true
				stack = append(stack, s)
			}
		}
	}
	return seen
}

// reachAfter returns blocks reachable from instruction 'from' by at least one
// edge (paths that start just after 'from').
func reachAfter(from ssa.Instruction, cut edgeSet) map[*ssa.BasicBlock]bool {
	b := from.Block()
	var starts []*ssa.BasicBlock
	for i, s := range b.Succs {
		if !cut[edge{b, i}] {
			starts = append(starts, s)
		}
	}
	return reach(starts, cut)
}

func instrIndex(in ssa.Instruction) int {
	for i, x := range in.Block().Instrs {
		if x == in {
			return i
		}
	}
	return -1
}

// pathFromEntry reports whether target can be reached from the function entry
// without crossing a cut edge.
func pathFromEntry(target ssa.Instruction, cut edgeSet) bool {
	fn := target.Parent()
	r := reach([]*ssa.BasicBlock{fn.Blocks[0]}, cut)
	return r[target.Block()]
}

// pathBetween reports whether target can be reached by a path that starts just
// after 'from' and crosses no cut edge.
func pathBetween(from, target ssa.Instruction, cut edgeSet) bool {
	if from.Block() == target.Block() && instrIndex(from) < instrIndex(target) {
		return true
	}
	return reachAfter(from, cut)[target.Block()]
}

// precedes: a is executed before b on every path reaching b (a dominates b).
func precedes(a, b ssa.Instruction) bool {
	if a.Block() == b.Block() {
		return instrIndex(a) < instrIndex(b)
	}
	return a.Block().Dominates(b.Block())
}

// ---------------------------------------------------------------------------
// branch edges decided by a value

type predKind int

const (
	isNil   predKind = iota // P(v): v == nil   (errors, pointers, slices, interfaces)
	isTrue                  // P(v): v          (bool)
	isOne                   // P(v): v == 1     over domain {0,1} (subtle.ConstantTimeCompare)
	isZero                  // P(v): v == 0     (Cmp, Sign, lengths compared with 0)
	nonZero                 // P(v): v != 0
)

// edgesWhere returns the CFG edges taken exactly when P(v) holds (yes) and the
// edges taken exactly when it does not (no), looking through ==/!= against the
// relevant constant, boolean negation and If.
func edgesWhere(v ssa.Value, k predKind) (yes, no []edge) {
	if v == nil {
		return
	}
	refs := v.Referrers()
	if refs == nil {
		return
	}
	if k == isTrue {
		return boolEdges(v, true)
	}
	for _, r := range *refs {
		bo, ok := r.(*ssa.BinOp)
		if !ok || (bo.Op != token.EQL && bo.Op != token.NEQ) {
			continue
		}
		var other ssa.Value
		if bo.X == v {
			other = bo.Y
		} else {
			other = bo.X
		}
		cst, ok := other.(*ssa.Const)
		if !ok {
			continue
		}
		var pol bool // does (v == const) imply P(v)?
		var exact bool
		switch k {
		case isNil:
			if !cst.IsNil() {
				continue
			}
			pol, exact = true, true
		case isOne, isZero, nonZero:
			if cst.Value == nil || cst.Value.Kind() != constant.Int {
				continue
			}
			n, _ := constant.Int64Val(cst.Value)
			switch {
			case k == isOne && n == 1:
				pol, exact = true, true
			case k == isOne && n == 0:
				pol, exact = false, true // domain {0,1}
			case k == isZero && n == 0:
				pol, exact = true, true
			case k == nonZero && n == 0:
				pol, exact = false, true
			default:
				continue
			}
		}
		_ = exact
		eq := bo.Op == token.EQL
		y, n := boolEdges(bo, eq == pol)
		yes = append(yes, y...)
		no = append(no, n...)
	}
	return
}

// boolEdges: edges taken when b == want (yes) / b != want (no).
func boolEdges(b ssa.Value, want bool) (yes, no []edge) {
	refs := b.Referrers()
	if refs == nil {
		return
	}
	for _, r := range *refs {
		switch x := r.(type) {
		case *ssa.If:
			if x.Cond != b {
				continue
			}
			t := edge{x.Block(), 0}
			f := edge{x.Block(), 1}
			if want {
				yes = append(yes, t)
				no = append(no, f)
			} else {
				yes = append(yes, f)
				no = append(no, t)
			}
		case *ssa.UnOp:
			if x.Op == token.NOT {
				y, n := boolEdges(x, !want)
				yes = append(yes, y...)
				no = append(no, n...)
			}
		case *ssa.Phi:
			// ok := a && b   /   ok := a || b  stored in a variable: the phi's
			// other incoming values are the constant !want, so phi == want
			// implies b == want (one-directional: only "yes" edges follow).
			if x == b {
				continue
			}
			all := true
			for _, e := range x.Edges {
				if e == b {
					continue
				}
				if cv, isC := constBool(e); !isC || cv == want {
					all = false
				}
			}
			if all {
				y, _ := boolEdges(x, want)
				yes = append(yes, y...)
			}
		}
	}
	return
}

// successEdges returns the edges on which the call is known to have succeeded:
// error result == nil, bool result true, or (kind isOne) int result == 1.
func successEdges(c *ssa.Call, resIdx int, k predKind) (yes, no []edge) {
	for _, v := range resultN(c, resIdx) {
		y, n := edgesWhere(v, k)
		yes = append(yes, y...)
		no = append(no, n...)
	}
	return
}

// errSuccessEdges: edges where the call's last (error) result is nil.
func errSuccessEdges(c *ssa.Call) (yes, no []edge) {
	n := c.Call.Signature().Results().Len()
	return successEdges(c, n-1, isNil)
}

// ---------------------------------------------------------------------------
// returns

func returnsOf(fn *ssa.Function) []*ssa.Return {
	var out []*ssa.Return
	for _, b := range fn.Blocks {
		if fn.Recover != nil && b == fn.Recover {
			continue
		}
		if len(b.Instrs) == 0 {
			continue
		}
		if r, ok := b.Instrs[len(b.Instrs)-1].(*ssa.Return); ok {
			out = append(out, r)
		}
	}
	return out
}

func isNilConst(v ssa.Value) bool {
	c, ok := v.(*ssa.Const)
	return ok && c.IsNil()
}

func constBool(v ssa.Value) (val, ok bool) {
	c, isC := v.(*ssa.Const)
	if !isC || c.Value == nil || c.Value.Kind() != constant.Bool {
		return false, false
	}
	return constant.BoolVal(c.Value), true
}

func constInt(v ssa.Value) (int64, bool) {
	c, isC := v.(*ssa.Const)
	if !isC || c.Value == nil || c.Value.Kind() != constant.Int {
		return 0, false
	}
	n, ok := constant.Int64Val(c.Value)
	if !ok {
		u, ok2 := constant.Uint64Val(c.Value)
		return int64(u), ok2
	}
	return n, ok
}

func constString(v ssa.Value) (string, bool) {
	c, isC := v.(*ssa.Const)
	if !isC || c.Value == nil || c.Value.Kind() != constant.String {
		return "", false
	}
	return constant.StringVal(c.Value), true
}

// nilState classifies whether an error-typed value can be nil.
type nilState int

const (
	definitelyNil nilState = iota
	neverNil
	maybeNil
)

// errNilness classifies an error value at the point it is returned/used in
// block 'at'. neverNil: freshly constructed errors, sentinel globals, values
// whose != nil edge dominates 'at'.
func errNilness(v ssa.Value, at *ssa.BasicBlock, depth int) nilState {
	if depth > 6 {
		return maybeNil
	}
	switch x := v.(type) {
	case *ssa.Const:
		if x.IsNil() {
			return definitelyNil
		}
		return neverNil
	case *ssa.MakeInterface:
		// a concrete value boxed into an error: non-nil interface
		return neverNil
	case *ssa.Call:
		n := short(calleeName(&x.Call))
		switch n {
		case "errors.New", "fmt.Errorf":
			return neverNil
		}
		// a module function all of whose returns are non-nil errors
		if f := x.Call.StaticCallee(); f != nil && len(f.Blocks) > 0 && f.Signature.Results().Len() == 1 && depth < 4 {
			all := true
			for _, r := range returnsOf(f) {
				if errNilness(retVal(r, 0), r.Block(), depth+2) != neverNil {
					all = false
				}
			}
			if all && len(returnsOf(f)) > 0 {
				return neverNil
			}
		}
	case *ssa.UnOp:
		if x.Op == token.MUL {
			if _, ok := x.X.(*ssa.Global); ok {
				return neverNil // sentinel error variable
			}
		}
	case *ssa.ChangeInterface:
		return errNilness(x.X, at, depth+1)
	case *ssa.Phi:
		st := nilState(-1)
		mixed := false
		for i, e := range x.Edges {
			if e == ssa.Value(x) {
				continue
			}
			s := errNilness(e, x.Block().Preds[i], depth+1)
			if st == -1 {
				st = s
			} else if st != s {
				mixed = true
			}
		}
		if st != -1 && !mixed && st != maybeNil {
			return st
		}
		// otherwise fall through to the dominance test on the phi itself
	}
	// dominated by v != nil ?
	yes, no := edgesWhere(v, isNil)
	if at != nil && len(no) > 0 {
		// if 'at' is unreachable from entry once all "v != nil" edges are cut,
		// then v != nil holds at 'at'.
		cut := edgeSet{}
		cut.addAll(no)
		fn := at.Parent()
		if !reach([]*ssa.BasicBlock{fn.Blocks[0]}, cut)[at] {
			return neverNil
		}
	}
	if at != nil && len(yes) > 0 {
		cut := edgeSet{}
		cut.addAll(yes)
		fn := at.Parent()
		if !reach([]*ssa.BasicBlock{fn.Blocks[0]}, cut)[at] {
			return definitelyNil
		}
	}
	return maybeNil
}

// ---------------------------------------------------------------------------
// value utilities

// stripConv looks through conversions that do not change identity.
func stripConv(v ssa.Value) ssa.Value {
	for {
		switch x := v.(type) {
		case *ssa.ChangeType:
			v = x.X
		case *ssa.Convert:
			v = x.X
		case *ssa.ChangeInterface:
			v = x.X
		case *ssa.MakeInterface:
			v = x.X
		default:
			return v
		}
	}
}

// sliceBase looks through slicing operations to the underlying slice/array value.
func sliceBase(v ssa.Value) ssa.Value {
	for {
		switch x := v.(type) {
		case *ssa.Slice:
			v = x.X
		case *ssa.ChangeType:
			v = x.X
		case *ssa.Convert:
			v = x.X
		default:
			return v
		}
	}
}

// fieldOf: if v is a FieldAddr or Field (possibly loaded), returns the struct
// type name and field name.
func fieldOf(v ssa.Value) (typ string, field string, base ssa.Value, ok bool) {
	switch x := v.(type) {
	case *ssa.UnOp:
		if x.Op == token.MUL {
			return fieldOf(x.X)
		}
	case *ssa.FieldAddr:
		st := derefStruct(x.X.Type())
		if st == nil {
			return
		}
		return typeName(x.X.Type()), st.Field(x.Field).Name(), x.X, true
	case *ssa.Field:
		st, _ := x.X.Type().Underlying().(*types.Struct)
		if st == nil {
			return
		}
		return typeName(x.X.Type()), st.Field(x.Field).Name(), x.X, true
	}
	return
}

func derefStruct(t types.Type) *types.Struct {
	if p, ok := t.Underlying().(*types.Pointer); ok {
		t = p.Elem()
	}
	st, _ := t.Underlying().(*types.Struct)
	return st
}

func typeName(t types.Type) string {
	if p, ok := t.(*types.Pointer); ok {
		t = p.Elem()
	}
	if p, ok := t.Underlying().(*types.Pointer); ok && t == t.Underlying() {
		t = p.Elem()
	}
	if n, ok := t.(*types.Named); ok {
		return n.Obj().Name()
	}
	return t.String()
}

// isFieldLoad reports whether v is a load (or address) of field `field` of a
// struct type named typ.
func isField(v ssa.Value, typ, field string) bool {
	t, f, _, ok := fieldOf(v)
	return ok && t == typ && f == field
}

// allInstrs iterates over all instructions of fn.
func allInstrs(fn *ssa.Function, f func(ssa.Instruction)) {
	if fn == nil {
		return
	}
	for _, b := range fn.Blocks {
		for _, in := range b.Instrs {
			f(in)
		}
	}
}

// withClosures returns fn and all anonymous functions nested in it.
func withClosures(fn *ssa.Function) []*ssa.Function {
	out := []*ssa.Function{fn}
	for _, a := range fn.AnonFuncs {
		out = append(out, withClosures(a)...)
	}
	return out
}

// param returns the parameter with the given name.
func param(fn *ssa.Function, name string) *ssa.Parameter {
	for _, p := range fn.Params {
		if p.Name() == name {
			return p
		}
	}
	return nil
}

// dependsOn reports whether v is computed (through pure value instructions,
// to a bounded depth) from root.
func dependsOn(v, root ssa.Value, depth int) bool {
	if v == root {
		return true
	}
	if depth <= 0 {
		return false
	}
	in, ok := v.(ssa.Instruction)
	if !ok {
		return false
	}
	if _, ok := in.(*ssa.Alloc); ok {
		return false
	}
	for _, op := range in.Operands(nil) {
		if *op != nil && dependsOn(*op, root, depth-1) {
			return true
		}
	}
	return false
}

// storesTo returns the Store instructions in fn whose address is field `field`
// of struct type `typ`.
func storesTo(fn *ssa.Function, typ, field string) []*ssa.Store {
	var out []*ssa.Store
	allInstrs(fn, func(in ssa.Instruction) {
		if st, ok := in.(*ssa.Store); ok {
			if fa, ok := st.Addr.(*ssa.FieldAddr); ok {
				s := derefStruct(fa.X.Type())
				if s != nil && typeName(fa.X.Type()) == typ && s.Field(fa.Field).Name() == field {
					out = append(out, st)
				}
			}
		}
	})
	return out
}

// fieldAddrs returns every FieldAddr/Field instruction in fn referring to typ.field.
func fieldRefs(fn *ssa.Function, typ, field string) []ssa.Instruction {
	var out []ssa.Instruction
	allInstrs(fn, func(in ssa.Instruction) {
		switch x := in.(type) {
		case *ssa.FieldAddr:
			s := derefStruct(x.X.Type())
			if s != nil && typeName(x.X.Type()) == typ && s.Field(x.Field).Name() == field {
				out = append(out, in)
			}
		case *ssa.Field:
			s, _ := x.X.Type().Underlying().(*types.Struct)
			if s != nil && typeName(x.X.Type()) == typ && s.Field(x.Field).Name() == field {
				out = append(out, in)
			}
		}
	})
	return out
}

// panics returns the Panic instructions of fn.
func panicsOf(fn *ssa.Function) []*ssa.Panic {
	var out []*ssa.Panic
	allInstrs(fn, func(in ssa.Instruction) {
		if p, ok := in.(*ssa.Panic); ok {
			out = append(out, p)
		}
	})
	return out
}

// panicText returns the constant message of a panic if it has one.
func panicText(p *ssa.Panic) string {
	v := stripConv(p.X)
	if s, ok := constString(v); ok {
		return s
	}
	if c, ok := v.(*ssa.Call); ok {
		n := short(calleeName(&c.Call))
		if len(c.Call.Args) > 0 {
			if s, ok := constString(stripConv(c.Call.Args[0])); ok {
				return n + "(" + s + ")"
			}
		}
		return n
	}
	return ""
}

// ---------------------------------------------------------------------------
// access paths and finite-domain comparison edges

// accessPath renders the chain of field selections / dereferences / constant
// indexes that leads to v, rooted at a parameter, global, or free variable:
// "e.p.x", "d.size", "b[0]". Values with other roots render as "" (unknown).
// go/ssa performs no CSE, so two syntactically equal source expressions give
// equal paths; the rules using this also require that no store to a prefix of
// the path lies between the two uses (checked by the caller where needed).
func accessPath(v ssa.Value) string {
	switch x := v.(type) {
	case *ssa.Parameter:
		return x.Name()
	case *ssa.FreeVar:
		return x.Name()
	case *ssa.Global:
		return x.Name()
	case *ssa.UnOp:
		if x.Op == token.MUL {
			return accessPath(x.X)
		}
	case *ssa.FieldAddr:
		st := derefStruct(x.X.Type())
		b := accessPath(x.X)
		if st == nil || b == "" {
			return ""
		}
		return b + "." + st.Field(x.Field).Name()
	case *ssa.Field:
		st, _ := x.X.Type().Underlying().(*types.Struct)
		b := accessPath(x.X)
		if st == nil || b == "" {
			return ""
		}
		return b + "." + st.Field(x.Field).Name()
	case *ssa.IndexAddr:
		b := accessPath(x.X)
		if b == "" {
			return ""
		}
		if n, ok := constInt(x.Index); ok {
			return b + "[" + itoa(n) + "]"
		}
		return b + "[?]"
	case *ssa.Alloc:
		if x.Comment != "" {
			// spilled parameters and address-taken locals render by name
			return x.Comment
		}
	case *ssa.ChangeType:
		return accessPath(x.X)
	case *ssa.Convert:
		return accessPath(x.X)
	}
	return ""
}

func itoa(n int64) string {
	neg := n < 0
	if neg {
		n = -n
	}
	if n == 0 {
		return "0"
	}
	var b []byte
	for n > 0 {
		b = append([]byte{byte('0' + n%10)}, b...)
		n /= 10
	}
	if neg {
		b = append([]byte{'-'}, b...)
	}
	return string(b)
}

func evalCmp(op token.Token, a, b int64) (bool, bool) {
	switch op {
	case token.LSS:
		return a < b, true
	case token.LEQ:
		return a <= b, true
	case token.GTR:
		return a > b, true
	case token.GEQ:
		return a >= b, true
	case token.EQL:
		return a == b, true
	case token.NEQ:
		return a != b, true
	}
	return false, false
}

// edgesImplying returns the CFG edges on which P(v) is guaranteed, for an
// integer value v ranging over the finite domain dom, looking at every
// comparison of v with a constant that feeds an If (through negations).
func edgesImplying(v ssa.Value, dom []int64, P func(int64) bool) []edge {
	var out []edge
	refs := v.Referrers()
	if refs == nil {
		return nil
	}
	for _, r := range *refs {
		bo, ok := r.(*ssa.BinOp)
		if !ok {
			continue
		}
		var k int64
		var vLeft bool
		if bo.X == v {
			n, ok := constInt(bo.Y)
			if !ok {
				continue
			}
			k, vLeft = n, true
		} else {
			n, ok := constInt(bo.X)
			if !ok {
				continue
			}
			k, vLeft = n, false
		}
		trueImplies, falseImplies := true, true
		valid := true
		for _, d := range dom {
			var res, ok bool
			if vLeft {
				res, ok = evalCmp(bo.Op, d, k)
			} else {
				res, ok = evalCmp(bo.Op, k, d)
			}
			if !ok {
				valid = false
				break
			}
			if res && !P(d) {
				trueImplies = false
			}
			if !res && !P(d) {
				falseImplies = false
			}
		}
		if !valid {
			continue
		}
		if trueImplies {
			y, _ := boolEdges(bo, true)
			out = append(out, y...)
		}
		if falseImplies {
			y, _ := boolEdges(bo, false)
			out = append(out, y...)
		}
	}
	return out
}

// retTargets returns the Return instructions of fn selected by pred.
func retTargets(fn *ssa.Function, pred func(r *ssa.Return) bool) []*ssa.Return {
	var out []*ssa.Return
	for _, r := range returnsOf(fn) {
		if pred(r) {
			out = append(out, r)
		}
	}
	return out
}

// anyReachable reports the first target reachable from entry avoiding cut.
func anyReachable(fn *ssa.Function, targets []*ssa.Return, cut edgeSet) *ssa.Return {
	if len(fn.Blocks) == 0 {
		return nil
	}
	r := reach([]*ssa.BasicBlock{fn.Blocks[0]}, cut)
	for _, t := range targets {
		if r[t.Block()] {
			return t
		}
	}
	return nil
}

// sameIndexAddr: go/ssa performs no CSE, so `a[i] op= x` yields two IndexAddr
// instructions over the same base and index operands.
func sameIndexAddr(v ssa.Value, ia *ssa.IndexAddr) bool {
	if v == ssa.Value(ia) {
		return true
	}
	o, ok := v.(*ssa.IndexAddr)
	if !ok {
		return false
	}
	if o.Index != ia.Index {
		a, oka := constInt(o.Index)
		b, okb := constInt(ia.Index)
		if !oka || !okb || a != b {
			return false
		}
	}
	return o.X == ia.X || accessPath(o.X) != "" && accessPath(o.X) == accessPath(ia.X)
}

// isParamVal: v is parameter i of f, or a load of the local cell the
// parameter was spilled to because a closure captures it.
func isParamVal(v ssa.Value, f *ssa.Function, i int) bool {
	if i >= len(f.Params) {
		return false
	}
	if v == ssa.Value(f.Params[i]) {
		return true
	}
	if u, ok := v.(*ssa.UnOp); ok && u.Op == token.MUL {
		if al, ok := u.X.(*ssa.Alloc); ok && al.Comment == f.Params[i].Name() {
			return true
		}
	}
	return false
}
