package main

import (
	"fmt"
	"reflect"
	"regexp"
	"sort"
	"strings"

	"golang.org/x/tools/go/ssa"
)

func init() {
	register(&propDef{
		id: "C49", run: runC49, minOblig: 15,
		explanation: "Decides, by symbolic interpretation of acme/jws.go (c49_sym.go: every function is walked for each case of a small domain — key kind, curve size, byte lengths of the integers, empty/non-empty kid, nonce and url, string/non-string claimset — with same-package helpers inlined, strings carried as terms, byte slices as segment sequences with exact offsets, struct fields as memory cells; the term computed is compared with the term the RFCs prescribe, so the factoring of the code does not matter): (protected header) the value jwsEncodeJSON marshals with encoding/json as protected header has exactly the members alg, url, nonce (only when non-empty), jwk (exactly when kid == noKeyID, value = jwkEncode(key.Public())) and kid (exactly otherwise, value = the kid parameter), never both; alg is the algorithm jwsHasher returned, url and nonce are the parameters; jwsSign is called with the key, the hash jwsHasher returned and base64url(protected) || '.' || payload, where payload is a string claimset verbatim or base64url(json(claimset)); the result is the flattened JWS {protected, payload, signature = base64url(jwsSign result)}; (algorithms) jwsHasher maps RSA to RS256/SHA-256 and P-256/384/521 to ES256/384/512 with SHA-256/384/512, anything else to unsupported (interpreted per key); jwsSign signs the payload with crypto.SignMessage under the given hash for RSA and ECDSA and rejects other keys; (fixed-width encodings) jwkEncode encodes x and y in 32/48/66 octets for 256/384/521-bit curves, each coordinate left-padded with zeros by the width minus ITS OWN length; jwsSign returns 2*width octets with R and S (taken from the ASN.1 SEQUENCE by position) right-aligned in their halves; (thumbprint) the JWK strings list their members in the lexicographic order of RFC 7638 and bind each member to the matching key component (e, n; crv, x, y), base64url without padding; JWKThumbprint is base64url(SHA-256(jwkEncode output)); (external account binding) jwsWithMAC's protected header is {alg: HS256, kid, url} without jwk and its signature is base64url(HMAC-SHA256(key, protected || '.' || base64url(payload))). NOT decided: signature validity under an independent JOSE implementation; the code paths on which json.Marshal or the signer fail.",
		assumptions: []string{"encoding/json honours struct tags", "RFC 7518 table transcribed in c49.go", "models of math/big Bytes/FillBytes, base64 EncodeToString, fmt.Sprintf, crypto.SignMessage, asn1.Unmarshal, sha256/hmac in c49_sym.go"},
	})
	tech("C49", "symbolic interpretation (pathWalker with auto-inlined helpers) over a finite case domain; strings as terms, byte slices as segment sequences, struct fields as memory cells; comparison with the RFC-prescribed term per case")
}

func b2i(b bool) int64 {
	if b {
		return 1
	}
	return 0
}

var c49curves = []struct {
	name  string
	bits  int64
	width int64
}{{"P-256", 256, 32}, {"P-384", 384, 48}, {"P-521", 521, 66}}

// c49verdict collects the first failure of one obligation over all cases.
type c49verdict struct {
	bad   string
	undec bool
}

func (v *c49verdict) fail(format string, a ...interface{}) {
	if v.bad == "" {
		v.bad = fmt.Sprintf(format, a...)
	}
}

func (v *c49verdict) cannot(format string, a ...interface{}) {
	if v.bad == "" {
		v.bad = fmt.Sprintf(format, a...)
		v.undec = true
	}
}

func (c *Ctx) c49report(v *c49verdict, rule, construct string, at poser, okDetail string) {
	switch {
	case v.bad == "":
		c.ok(rule, construct, at, okDetail)
	case v.undec:
		c.undecided(rule, construct, at, v.bad)
	default:
		c.fail(rule, construct, at, v.bad)
	}
}

func c49key() c49v { return c49v{s: "‹key›", n: 1, hasN: true} }
func c49pub() c49v { return c49v{s: "‹pub›", n: 1, hasN: true} }

func runC49(c *Ctx) {
	const pk = "acme"
	if f := c.fn(pk, "jwsEncodeJSON"); f != nil {
		c49Encode(c, f)
	}
	if f := c.fn(pk, "jwsHasher"); f != nil {
		c49Hasher(c, f)
	}
	if f := c.fn(pk, "jwkEncode"); f != nil {
		c49JWK(c, f)
	}
	if f := c.fn(pk, "jwsSign"); f != nil {
		c49Sign(c, f)
	}
	if f := c.fn(pk, "JWKThumbprint"); f != nil {
		c49Thumb(c, f)
	}
	if f := c.fn(pk, "jwsWithMAC"); f != nil {
		c49MAC(c, f)
	}
}

// ---- jwsHasher: RFC 7518 section 3.1 table

func c49Hasher(c *Ctx, f *ssa.Function) {
	hashName := map[int64]string{5: "SHA256", 6: "SHA384", 7: "SHA512", 0: "none"}
	cases := []struct{ name, kind, crv, alg, hash string }{
		{"rsa", "rsa", "", "RS256", "SHA256"},
		{"P-256", "ec", "P-256", "ES256", "SHA256"},
		{"P-384", "ec", "P-384", "ES384", "SHA384"},
		{"P-521", "ec", "P-521", "ES512", "SHA512"},
		{"P-224", "ec", "P-224", "", "none"},
		{"other", "other", "", "", "none"},
	}
	var v c49verdict
	for _, tc := range cases {
		m := newC49M()
		m.kind, m.crv, m.bits = tc.kind, tc.crv, map[string]int64{"P-224": 224, "P-256": 256, "P-384": 384, "P-521": 521}[tc.crv]
		r := c49walk(m, f, []c49v{c49pub()})
		if r.end != "return" || len(r.rets) != 2 || !r.rets[1].hasN {
			v.cannot("key %s: jwsHasher could not be interpreted (%s)", tc.name, r.problem())
			continue
		}
		alg := r.retStr(0)
		h, known := hashName[r.rets[1].n]
		if !known {
			h = "crypto.Hash(" + itoa(r.rets[1].n) + ")"
		}
		if alg != tc.alg || h != tc.hash {
			v.fail("key %s: algorithm [%s] hash [%s], RFC 7518 requires %q with %s", tc.name, alg, h, tc.alg, tc.hash)
		}
	}
	c.c49report(&v, "C49.alg-table", "jwsHasher", f, "RS256/SHA-256, ES256/SHA-256, ES384/SHA-384, ES512/SHA-512; everything else unsupported")
}

// ---- jwkEncode: RFC 7517 / 7518 section 6 / 7638 section 3

var c49memberRE = regexp.MustCompile(`"([A-Za-z0-9_]+)":"([^"]*)"`)
var c49segRE = regexp.MustCompile(`^([^\[\]]+)\[(\d+):(\d+)\]`)

// c49parseJWK splits {"a":"..","b":".."} into member names (in order) and values.
func c49parseJWK(s string) (names []string, vals map[string]string, ok bool) {
	vals = map[string]string{}
	var parts []string
	for _, mt := range c49memberRE.FindAllStringSubmatch(s, -1) {
		names = append(names, mt[1])
		vals[mt[1]] = mt[2]
		parts = append(parts, mt[0])
	}
	return names, vals, "{"+strings.Join(parts, ",")+"}" == s
}

func c49parseSegs(s string) ([]c49seg, bool) {
	var out []c49seg
	for s != "" {
		mt := c49segRE.FindStringSubmatch(s)
		if mt == nil {
			return nil, false
		}
		var lo, hi int64
		fmt.Sscan(mt[2], &lo)
		fmt.Sscan(mt[3], &hi)
		out = append(out, c49seg{mt[1], lo, hi})
		s = s[len(mt[0]):]
	}
	return out, true
}

// c49b64arg: the argument of b64u(...)
func c49b64arg(s string) (string, bool) {
	if strings.HasPrefix(s, "b64u(") && strings.HasSuffix(s, ")") {
		return s[5 : len(s)-1], true
	}
	return "", false
}

func c49pad(sym string, width, l int64) string {
	return c49render(append(c49zeros(width-l), c49seg{sym, 0, l}))
}

func c49Join(xs []string) string { return "[" + strings.Join(xs, " ") + "]" }

func c49JWK(c *Ctx, f *ssa.Function) {
	var tmpl, width, padv c49verdict
	// template facts shared by the RSA and the EC case
	template := func(label, got string, wantNames []string, want map[string]string, src map[string]string) bool {
		names, vals, ok := c49parseJWK(got)
		if !ok {
			tmpl.fail("%s: the JWK is not a flat JSON object of string members: %s", label, got)
			return false
		}
		if !sort.StringsAreSorted(names) {
			tmpl.fail("JWK members %s are not in lexicographic order (RFC 7638 section 3.3)", c49Join(names))
			return false
		}
		if c49Join(names) != c49Join(wantNames) {
			tmpl.fail("%s: JWK members are %s, RFC 7638 requires exactly %s", label, c49Join(names), c49Join(wantNames))
			return false
		}
		for _, n := range names {
			if s, bound := src[n]; bound {
				arg, isB := c49b64arg(vals[n])
				if !isB {
					tmpl.fail("%s: JWK member %q is not base64url without padding: %s", label, n, vals[n])
					return false
				}
				segs, okS := c49parseSegs(arg)
				found := false
				for _, sg := range segs {
					if sg.sym != "0" && sg.sym != s {
						okS = false
					}
					if sg.sym == s {
						found = true
					}
				}
				if !okS || !found {
					tmpl.fail("JWK member %q is not filled from the key's %s (it is %s)", n, s, vals[n])
					return false
				}
			} else if vals[n] != want[n] {
				tmpl.fail("%s: JWK member %q is %q, required %q", label, n, vals[n], want[n])
				return false
			}
		}
		return true
	}
	// RSA
	{
		m := newC49M()
		m.kind = "rsa"
		m.lens["N"], m.lens["big(‹E›)"] = 256, 3
		r := c49walk(m, f, []c49v{c49pub()})
		if isErr, known := r.failed(1); r.end != "return" || !known || isErr {
			tmpl.cannot("RSA key: jwkEncode could not be interpreted (%s)", r.problem())
		} else if template("RSA key", r.retStr(0), []string{"e", "kty", "n"}, map[string]string{"kty": "RSA"}, map[string]string{"e": "big(‹E›)", "n": "N"}) {
			want := `{"e":"b64u(big(‹E›)[0:3])","kty":"RSA","n":"b64u(N[0:256])"}`
			if got := r.retStr(0); got != want {
				tmpl.fail("RSA key: the JWK is %s, RFC 7518 section 6.3.1 requires %s", got, want)
			}
		}
	}
	// unsupported
	{
		m := newC49M()
		m.kind = "other"
		r := c49walk(m, f, []c49v{c49pub()})
		if isErr, known := r.failed(1); r.end != "return" || !known {
			tmpl.cannot("unsupported key: jwkEncode could not be interpreted (%s)", r.problem())
		} else if !isErr {
			tmpl.fail("a key that is neither RSA nor ECDSA is encoded as %s instead of being rejected", r.retStr(0))
		}
	}
	// EC
	for _, cv := range c49curves {
		w := cv.width
		for _, ls := range [][2]int64{{w - 1, w - 1}, {w, w}, {w - 1, w - 3}, {w - 2, w}, {w, w - 1}} {
			lx, ly := ls[0], ls[1]
			label := fmt.Sprintf("%d-bit curve, %d-octet X, %d-octet Y", cv.bits, lx, ly)
			m := newC49M()
			m.kind, m.bits, m.crv = "ec", cv.bits, cv.name
			m.lens["X"], m.lens["Y"] = lx, ly
			r := c49walk(m, f, []c49v{c49pub()})
			which := &padv
			if lx == ly {
				which = &width
			}
			if isErr, known := r.failed(1); r.end != "return" || !known || isErr {
				which.cannot("%s: jwkEncode could not be interpreted (%s)", label, r.problem())
				continue
			}
			got := r.retStr(0)
			if !template(label, got, []string{"crv", "kty", "x", "y"}, map[string]string{"crv": "‹crv›", "kty": "EC"}, map[string]string{"x": "X", "y": "Y"}) {
				continue
			}
			_, vals, _ := c49parseJWK(got)
			for _, co := range []struct {
				member, sym string
				own, other  int64
			}{{"x", "X", lx, ly}, {"y", "Y", ly, lx}} {
				arg, _ := c49b64arg(vals[co.member])
				want := c49pad(co.sym, w, co.own)
				if arg == want {
					continue
				}
				segs, _ := c49parseSegs(arg)
				total, _ := c49total(segs)
				switch {
				case lx == ly && total != w:
					width.fail("%d-bit curve: coordinate width evaluates to %d (a %d-octet %s is encoded as %s), RFC 7518 requires %d octets", cv.bits, total, co.own, co.member, arg, w)
				case arg == c49render(append(c49zeros(w-co.other), c49seg{co.sym, 0, co.own})):
					padv.fail("%s: coordinate %s is padded by the width minus the length of a different value (%s, required %s)", label, co.member, arg, want)
				default:
					padv.fail("%s: coordinate %s is encoded as %s (%d octets), required %s: left-padded with zeros to %d octets by its own length", label, co.member, arg, total, want, w)
				}
			}
		}
	}
	c.c49report(&width, "C49.width", "jwkEncode coordinate width", f, "32/48/66 octets for P-256/384/521")
	c.c49report(&padv, "C49.width", "jwkEncode coordinate padding", f, "x and y are each left-padded by width minus their own length")
	c.c49report(&tmpl, "C49.jwk-template", "jwkEncode templates", f, "members in lexicographic order, each bound to its key component")
}

// ---- jwsSign: RFC 7518 section 3.4 (R||S, fixed width)

func c49Sign(c *Ctx, f *ssa.Function) {
	var kinds, width, align c49verdict
	params := func(m *c49M) []c49v {
		return []c49v{c49key(), {s: "‹hash›", n: 5, hasN: true}, m.newBuf([]c49seg{{"P", 0, -1}})}
	}
	const wantSig = "sig(‹key›,P,‹hash›)"
	{
		m := newC49M()
		m.kind = "rsa"
		r := c49walk(m, f, params(m))
		if r.end != "return" || len(r.rets) != 2 {
			kinds.cannot("RSA key: jwsSign could not be interpreted (%s)", r.problem())
		} else if got := c49render(r.retBytes(0)); got != wantSig {
			kinds.fail("RSA key: jwsSign returns %s, required the crypto.SignMessage signature of the payload under the given hash", got)
		}
	}
	{
		m := newC49M()
		m.kind = "other"
		r := c49walk(m, f, params(m))
		if isErr, known := r.failed(1); r.end != "return" || !known {
			kinds.cannot("unsupported key: jwsSign could not be interpreted (%s)", r.problem())
		} else if !isErr {
			kinds.fail("a key that is neither RSA nor ECDSA is signed with (%s) instead of being rejected", c49render(r.retBytes(0)))
		}
	}
	for _, cv := range c49curves {
		w := cv.width
		for _, ls := range [][2]int64{{w - 1, w - 1}, {w, w}, {w - 1, w - 3}, {w, w - 2}, {w - 2, w}} {
			lr, lsv := ls[0], ls[1]
			label := fmt.Sprintf("%d-bit curve, %d-octet R, %d-octet S", cv.bits, lr, lsv)
			m := newC49M()
			m.kind, m.bits, m.crv = "ec", cv.bits, cv.name
			m.lens["R"], m.lens["S"] = lr, lsv
			r := c49walk(m, f, params(m))
			which := &align
			if lr == lsv {
				which = &width
			}
			if isErr, known := r.failed(1); r.end != "return" || !known || isErr {
				which.cannot("%s: jwsSign could not be interpreted (%s)", label, r.problem())
				continue
			}
			if srcs := m.calls["asn1"]; len(srcs) != 1 || srcs[0][0] != wantSig {
				kinds.fail("ECDSA key: R and S are not parsed from the crypto.SignMessage signature of the payload under the given hash (%v)", srcs)
			}
			segs := r.retBytes(0)
			got := c49render(segs)
			var wantSegs []c49seg
			wantSegs = append(wantSegs, c49zeros(w-lr)...)
			wantSegs = append(wantSegs, c49seg{"R", 0, lr})
			wantSegs = append(wantSegs, c49zeros(w-lsv)...)
			wantSegs = append(wantSegs, c49seg{"S", 0, lsv})
			want := c49render(wantSegs)
			if got == want {
				continue
			}
			total, known := c49total(segs)
			if !known || total != 2*w {
				if known && total%2 == 0 {
					width.fail("%d-bit curve: R||S half width evaluates to %d, RFC 7518 section 3.4 requires %d octets", cv.bits, total/2, w)
				} else {
					width.fail("%d-bit curve: the signature is %s, RFC 7518 section 3.4 requires %d octets", cv.bits, got, 2*w)
				}
				continue
			}
			align.fail("%s: the signature is %s, required %s (R and S right-aligned in %d-octet halves)", label, got, want, w)
		}
	}
	c.c49report(&width, "C49.width", "jwsSign R||S half width", f, "32/48/66 octets for P-256/384/521")
	c.c49report(&align, "C49.width", "jwsSign R||S alignment", f, "R and S are right-aligned in fixed-width halves")
	c.c49report(&kinds, "C49.alg-table", "jwsSign key kinds", f, "RSA and ECDSA keys sign the payload with crypto.SignMessage under the given hash; other keys are rejected")
}

// ---- jwsEncodeJSON: RFC 7515 section 7.2.2, RFC 8555 section 6.2

func c49names(ms []c49member) []string {
	var out []string
	for _, x := range ms {
		out = append(out, x.name)
	}
	return out
}

func c49member1(ms []c49member, name string) (string, bool) {
	for _, x := range ms {
		if x.name == name {
			return x.val, true
		}
	}
	return "", false
}

func c49Encode(c *Ctx, f *ssa.Function) {
	var members, xor, prov, input, output c49verdict
	const alg, sha = "jwsHasher(pub(‹key›))#0", "jwsHasher(pub(‹key›))#1"
	const jwk = "jwkEncode(pub(‹key›))"
	for cs := 0; cs < 16; cs++ {
		hasKid, hasNonce, hasURL, claimStr := cs&1 != 0, cs&2 != 0, cs&4 == 0, cs&8 != 0
		label := fmt.Sprintf("kid empty=%v, nonce empty=%v, url empty=%v, string claimset=%v", !hasKid, !hasNonce, !hasURL, claimStr)
		m := newC49M()
		m.kind = "rsa"
		m.claimStr = claimStr
		m.opaque = map[string]bool{"jwsHasher": true, "jwkEncode": true, "jwsSign": true}
		str := func(on bool, s string) c49v {
			if !on {
				return c49v{s: "", n: 0, hasN: true}
			}
			return m.strVal(s)
		}
		r := c49walk(m, f, []c49v{{s: "‹claimset›", n: 1, hasN: true}, c49key(), str(hasKid, "‹kid›"), str(hasNonce, "‹nonce›"), str(hasURL, "‹url›")})
		if isErr, known := r.failed(1); r.end != "return" || !known || isErr {
			for _, v := range []*c49verdict{&members, &xor, &prov, &input, &output} {
				v.cannot("%s: jwsEncodeJSON could not be interpreted (%s)", label, r.problem())
			}
			continue
		}
		// the signing input
		sg := m.calls["jwsSign"]
		if len(sg) != 1 || len(sg[0]) != 3 {
			for _, v := range []*c49verdict{&members, &xor, &prov, &input, &output} {
				v.fail("%s: jwsSign is called %d times, expected once", label, len(sg))
			}
			continue
		}
		payload := "b64u(S:json(‹claimset›))"
		if claimStr {
			payload = "‹claimstr›"
		}
		// the protected header: the marshalled struct whose base64url form starts the signing input
		// (or, when the signing input is malformed, the marshalled struct that has an alg member)
		var hdr []c49member
		found := false
		for _, js := range m.jsons {
			if strings.HasPrefix(sg[0][2], "S:b64u(S:"+c49json(js)+")") {
				hdr, found = js, true
			}
		}
		if !found {
			for _, js := range m.jsons {
				if _, has := c49member1(js, "alg"); has && !found {
					hdr, found = js, true
				}
			}
		}
		if !found {
			for _, v := range []*c49verdict{&members, &xor, &prov, &input} {
				v.fail("the protected header is not serialised by encoding/json from a header struct (hand-built JSON is not valid JSON for arbitrary kid/nonce/url values); %s: the signing input is %s", label, sg[0][2])
			}
			continue
		}
		phead := "b64u(S:" + c49json(hdr) + ")"
		want := []string{"alg"}
		if hasKid {
			want = append(want, "kid")
		} else {
			want = append(want, "jwk")
		}
		if hasNonce {
			want = append(want, "nonce")
		}
		want = append(want, "url")
		if got := c49names(hdr); c49Join(got) != c49Join(want) {
			members.fail("%s: protected header members are %s, RFC 8555 section 6.2 requires %s", label, c49Join(got), c49Join(want))
		}
		vj, okJ := c49member1(hdr, "jwk")
		vk, okK := c49member1(hdr, "kid")
		switch {
		case okJ == okK:
			xor.fail("kid empty=%v: jwk member set=%v, kid member set=%v (RFC 8555 section 6.2: exactly one of them)", !hasKid, okJ, okK)
		case okJ != !hasKid:
			xor.fail("kid empty=%v: jwk member set=%v, kid member set=%v (jwk is for requests without a key id, kid for all others)", !hasKid, okJ, okK)
		case okK && vk != "q(‹kid›)":
			xor.fail("the kid member is %s, not the kid parameter", vk)
		case okJ && vj != "raw("+jwk+")":
			xor.fail("the jwk member is %s, not the JWK of key.Public()", vj)
		}
		if va, _ := c49member1(hdr, "alg"); va != "q("+alg+")" {
			prov.fail("%s: alg in the protected header is %s, not the algorithm jwsHasher returned for key.Public()", label, va)
		}
		if vn, has := c49member1(hdr, "nonce"); has && vn != "q(‹nonce›)" {
			prov.fail("%s: nonce in the protected header is %s, not the nonce parameter", label, vn)
		}
		wantURL := "q()"
		if hasURL {
			wantURL = "q(‹url›)"
		}
		if vu, has := c49member1(hdr, "url"); has && vu != wantURL {
			prov.fail("%s: url in the protected header is %s, not the url parameter", label, vu)
		}
		wantIn := []string{"‹key›", sha, "S:" + phead + "." + payload}
		if strings.Join(sg[0], " | ") != strings.Join(wantIn, " | ") {
			input.fail("%s: jwsSign is called with (%s), required (%s): the key, the hash of its algorithm, and protected || '.' || payload", label, strings.Join(sg[0], " | "), strings.Join(wantIn, " | "))
		}
		sigTerm := "jwsSign(" + strings.Join(sg[0], ",") + ")"
		wantOut := `S:json{"payload":q(` + payload + `),"protected":q(` + phead + `),"signature":q(b64u(` + sigTerm + `))}`
		if got := c49render(r.retBytes(0)); got != wantOut {
			output.fail("%s: the result is %s, required the flattened JWS %s", label, got, wantOut)
		}
	}
	c.c49report(&members, "C49.header", "jwsEncodeJSON header members", f, "alg, kid or jwk, nonce (omitted when empty), url")
	c.c49report(&xor, "C49.header", "jwsEncodeJSON jwk xor kid", f, "jwk when no key id is known, kid otherwise, never both")
	c.c49report(&prov, "C49.header", "jwsEncodeJSON alg/nonce/url", f, "alg from jwsHasher, nonce and url from the parameters")
	c.c49report(&input, "C49.signing-input", "jwsEncodeJSON", f, "signs protected || '.' || payload with the key and the hash of its algorithm")
	c.c49report(&output, "C49.signing-input", "jwsEncodeJSON flattened JWS", f, "{protected, payload, signature} carry exactly what was signed and the base64url signature")
}

// ---- JWKThumbprint: RFC 7638

func c49Thumb(c *Ctx, f *ssa.Function) {
	var v c49verdict
	m := newC49M()
	m.kind = "rsa"
	m.opaque = map[string]bool{"jwkEncode": true}
	r := c49walk(m, f, []c49v{c49pub()})
	const want = "b64u(sha256(S:jwkEncode(‹pub›))[0:32])"
	if isErr, known := r.failed(1); r.end != "return" || !known || isErr {
		v.cannot("JWKThumbprint could not be interpreted (%s)", r.problem())
	} else if got := r.retStr(0); got != want {
		v.fail("the thumbprint is %s, RFC 7638 requires %s: base64url of SHA-256 of the jwkEncode output", got, want)
	}
	c.c49report(&v, "C49.thumbprint", "JWKThumbprint", f, "SHA-256 over exactly the canonical JWK string")
}

// ---- jwsWithMAC: RFC 8555 section 7.3.4

func c49MAC(c *Ctx, f *ssa.Function) {
	var hdr, mac c49verdict
	m := newC49M()
	m.kind = "rsa"
	r := c49walk(m, f, []c49v{m.newBuf([]c49seg{{"K", 0, 32}}), m.strVal("‹kid›"), m.strVal("‹url›"), m.newBuf([]c49seg{{"RP", 0, -1}})})
	st := derefStruct(f.Signature.Results().At(0).Type())
	if isErr, known := r.failed(1); r.end != "return" || !known || isErr || st == nil || !strings.HasPrefix(r.retStr(0), "&") {
		hdr.cannot("jwsWithMAC could not be interpreted (%s)", r.problem())
		mac.cannot("jwsWithMAC could not be interpreted (%s)", r.problem())
	} else {
		got := map[string]string{}
		for i := 0; i < st.NumFields(); i++ {
			tag := strings.Split(reflect.StructTag(st.Tag(i)).Get("json"), ",")[0]
			got[tag] = m.mem[r.retStr(0)[1:]+"."+st.Field(i).Name()].s
		}
		const wantP = `b64u(S:json{"alg":q(HS256),"kid":q(‹kid›),"url":q(‹url›)})`
		const wantPL = "b64u(RP)"
		const wantS = "b64u(hmac-sha256[K[0:32]](S:" + wantP + "." + wantPL + ")[0:32])"
		if got["protected"] != wantP {
			hdr.fail("the external-account-binding JWS header is not {alg=HS256, kid, url}: protected is %s, required %s", got["protected"], wantP)
		}
		if got["payload"] != wantPL {
			mac.fail("the payload member is %s, required %s", got["payload"], wantPL)
		} else if got["signature"] != wantS && got["protected"] == wantP {
			mac.fail("the signature member is %s, required %s: base64url of HMAC-SHA256 under the MAC key over protected || '.' || payload", got["signature"], wantS)
		} else if !strings.HasPrefix(got["signature"], "b64u(hmac-sha256[K[0:32]](S:"+got["protected"]+"."+got["payload"]+")") {
			mac.fail("the signature member is %s: not base64url of HMAC-SHA256 under the MAC key over protected || '.' || payload", got["signature"])
		}
	}
	c.c49report(&hdr, "C49.mac-header", "jwsWithMAC", f, "header {alg: HS256, kid, url}, no jwk")
	c.c49report(&mac, "C49.mac-header", "jwsWithMAC MAC", f, "signature = base64url(HMAC-SHA256(key, protected || '.' || base64url(payload)))")
}
