package main

import (
	"fmt"
	"go/token"
	"reflect"
	"regexp"
	"sort"
	"strings"

	"golang.org/x/tools/go/ssa"
)

func init() {
	register(&propDef{
		id: "C49", run: runC49, minOblig: 12,
		explanation: "Decides header/algorithm/width tables of ACME request signing: (protected header) jwsEncodeJSON's header struct has members alg, kid, jwk, nonce, url with omitempty on kid, jwk and nonce only; the jwk member is stored exactly when kid == noKeyID and the kid member exactly otherwise (evaluated), alg is the algorithm jwsHasher returned, url and nonce are the parameters; the signature is computed over protected || '.' || payload with the hash jwsHasher returned; (algorithms) jwsHasher maps RSA to RS256/SHA-256 and P-256/384/521 to ES256/384/512 with SHA-256/384/512, anything else to unsupported (evaluated per arm), and jwsSign handles exactly those key kinds; (fixed-width encodings) the coordinate width in jwkEncode and the R||S half-width in jwsSign evaluate to 32/48/66 bytes for 256/384/521-bit curves, each coordinate is left-padded by width minus ITS OWN length, and R, S are right-aligned in their halves; (thumbprint) the JWK templates list members in the lexicographic order of RFC 7638 and bind each verb to the matching key component; JWKThumbprint is SHA-256 of exactly that string; jwsWithMAC uses a header with alg=HS256, kid, url and no jwk. NOT decided: signature validity under an independent JOSE implementation.",
		assumptions: []string{"encoding/json honours struct tags", "RFC 7518 table transcribed in c49.go"},
	})
	tech("C49", "struct-tag table via go/types, finite-domain evaluation of arm conditions and integer width expressions, argument-provenance rules for padding and templates")
}

func runC49(c *Ctx) {
	const pk = "acme"
	if f := c.fn(pk, "jwsEncodeJSON"); f != nil {
		// header struct: the alloc with a field tagged json:"alg"
		var hdr *ssa.Alloc
		allInstrs(f, func(in ssa.Instruction) {
			if al, ok := in.(*ssa.Alloc); ok {
				if st := derefStruct(al.Type()); st != nil {
					for i := 0; i < st.NumFields(); i++ {
						if reflect.StructTag(st.Tag(i)).Get("json") == "alg" {
							hdr = al
						}
					}
				}
			}
		})
		if hdr == nil {
			c.fail("C49.header", "jwsEncodeJSON header struct", f, "protected header struct not found")
		} else {
			st := derefStruct(hdr.Type())
			got := map[string]string{}
			for i := 0; i < st.NumFields(); i++ {
				got[st.Field(i).Name()] = reflect.StructTag(st.Tag(i)).Get("json")
			}
			want := map[string]string{"Alg": "alg", "KID": "kid,omitempty", "JWK": "jwk,omitempty", "Nonce": "nonce,omitempty", "URL": "url"}
			ok := len(got) == len(want)
			for k, v := range want {
				if got[k] != v {
					ok = false
				}
			}
			c.check(ok, "C49.header", "jwsEncodeJSON header members", hdr, "alg, kid(omitempty), jwk(omitempty), nonce(omitempty), url", fmt.Sprintf("protected header members/tags are %v", got))
			// jwk xor kid
			var cmp *ssa.BinOp
			allInstrs(f, func(in ssa.Instruction) {
				if bo, okb := in.(*ssa.BinOp); okb && (bo.Op == token.EQL || bo.Op == token.NEQ) && bo.X == ssa.Value(f.Params[2]) {
					if s, isC := constString(bo.Y); isC && s == "" {
						cmp = bo
					}
				}
			})
			// the literal is built in a temporary and copied into the variable:
			// look at every alloc of the header struct type
			var hdrs []*ssa.Alloc
			allInstrs(f, func(in ssa.Instruction) {
				if al, oka := in.(*ssa.Alloc); oka && al.Type().String() == hdr.Type().String() {
					hdrs = append(hdrs, al)
				}
			})
			fieldStore := func(name string) *ssa.Store {
				var out *ssa.Store
				for _, h := range hdrs {
					for _, r := range *h.Referrers() {
						if fa, okf := r.(*ssa.FieldAddr); okf && st.Field(fa.Field).Name() == name {
							for _, rr := range *fa.Referrers() {
								if s, oks := rr.(*ssa.Store); oks {
									out = s
								}
							}
						}
					}
				}
				return out
			}
			jwk, kid := fieldStore("JWK"), fieldStore("KID")
			bad := ""
			if cmp == nil || jwk == nil || kid == nil {
				bad = "kid == noKeyID test or the jwk/kid stores not found"
			} else {
				for _, isNo := range []int64{0, 1} {
					e := newEnv()
					v := isNo
					if cmp.Op == token.NEQ {
						v = 1 - isNo
					}
					e.bind(cmp, v)
					cut := e.cuts(f)
					r := reachAfter(cmp, cut)
					if r[jwk.Block()] != (isNo == 1) || r[kid.Block()] != (isNo == 0) {
						bad = fmt.Sprintf("kid empty=%d: jwk member set=%v, kid member set=%v (RFC 8555 section 6.2: exactly one of them)", isNo, r[jwk.Block()], r[kid.Block()])
					}
				}
				if stripConv(kid.Val) != ssa.Value(f.Params[2]) {
					bad = "the kid member is not the kid parameter"
				}
			}
			c.check(bad == "", "C49.header", "jwsEncodeJSON jwk xor kid", f, "jwk when no key id is known, kid otherwise, never both", bad)
			// alg/url/nonce provenance
			hs := callsNamed(f, "acme.jwsHasher")
			okP := len(hs) == 1
			if okP {
				alg := resultN(hs[0].(*ssa.Call), 0)
				a, n, u := fieldStore("Alg"), fieldStore("Nonce"), fieldStore("URL")
				okP = a != nil && n != nil && u != nil && len(alg) == 1 && a.Val == alg[0] && n.Val == ssa.Value(f.Params[3]) && u.Val == ssa.Value(f.Params[4])
			}
			c.check(okP, "C49.header", "jwsEncodeJSON alg/nonce/url", f, "alg from jwsHasher, nonce and url from the parameters", "alg, nonce or url in the protected header do not come from jwsHasher / the parameters")
			// signing input and hash
			sg := callsNamed(f, "acme.jwsSign")
			okS := len(sg) == 1 && len(hs) == 1
			if okS {
				sha := resultN(hs[0].(*ssa.Call), 1)
				okS = len(sha) == 1 && sg[0].Common().Args[1] == sha[0] && sg[0].Common().Args[0] == ssa.Value(f.Params[1])
				// payload: phead + "." + payload
				in := stripConv(sg[0].Common().Args[2])
				dot := false
				var walk func(v ssa.Value, d int)
				walk = func(v ssa.Value, d int) {
					if d > 4 {
						return
					}
					if bo, isB := v.(*ssa.BinOp); isB && bo.Op == token.ADD {
						if s, isC := constString(bo.Y); isC && s == "." {
							dot = true
						}
						walk(bo.X, d+1)
						walk(bo.Y, d+1)
					}
				}
				walk(in, 0)
				okS = okS && dot
			}
			c.check(okS, "C49.signing-input", "jwsEncodeJSON", f, "signs protected || '.' || payload with the key and the hash of its algorithm", "the JWS signing input is not protected.payload signed with the key's algorithm hash")
		}
	}
	// ---- jwsHasher table
	if f := c.fn(pk, "jwsHasher"); f != nil {
		var nameCmps []*ssa.BinOp
		var arms []*ssa.Extract
		var armT []string
		allInstrs(f, func(in ssa.Instruction) {
			if bo, ok := in.(*ssa.BinOp); ok && bo.Op == token.EQL {
				if _, isC := constString(bo.Y); isC {
					nameCmps = append(nameCmps, bo)
				}
			}
			if ta, ok := in.(*ssa.TypeAssert); ok && ta.CommaOk {
				for _, r := range *ta.Referrers() {
					if ex, isE := r.(*ssa.Extract); isE && ex.Index == 1 {
						arms = append(arms, ex)
						armT = append(armT, ta.AssertedType.String())
					}
				}
			}
		})
		hashName := map[int64]string{5: "SHA256", 6: "SHA384", 7: "SHA512", 0: "none"}
		want := map[string][2]string{"rsa": {"RS256", "SHA256"}, "P-256": {"ES256", "SHA256"}, "P-384": {"ES384", "SHA384"}, "P-521": {"ES512", "SHA512"}, "P-224": {"", "none"}, "other": {"", "none"}}
		bad := ""
		for caseName, w := range want {
			e := newEnv()
			for i, a := range arms {
				isRSA := strings.Contains(armT[i], "rsa.")
				switch {
				case caseName == "rsa":
					e.bind(a, b2i(isRSA))
				case caseName == "other":
					e.bind(a, 0)
				default:
					e.bind(a, b2i(!isRSA))
				}
			}
			for _, bo := range nameCmps {
				s, _ := constString(bo.Y)
				e.bind(bo, b2i(s == caseName))
			}
			e.solve(f)
			var gotAlg, gotHash []string
			for _, r := range returnsOf(f) {
				if !e.reach[r.Block()] {
					continue
				}
				s, _ := constString(retVal(r, 0))
				k, _ := constInt(retVal(r, 1))
				gotAlg = append(gotAlg, s)
				gotHash = append(gotHash, hashName[k])
			}
			if len(gotAlg) != 1 || gotAlg[0] != w[0] || gotHash[0] != w[1] {
				bad = fmt.Sprintf("key %s: algorithm %v hash %v, RFC 7518 requires %q with %s", caseName, gotAlg, gotHash, w[0], w[1])
			}
		}
		c.check(bad == "" && len(arms) == 2, "C49.alg-table", "jwsHasher", f, "RS256/SHA-256, ES256/SHA-256, ES384/SHA-384, ES512/SHA-512; everything else unsupported", bad)
	}
	// ---- widths
	for _, spec := range []struct{ fn, what string }{{"jwkEncode", "coordinate width"}, {"jwsSign", "R||S half width"}} {
		f := c.fn(pk, spec.fn)
		if f == nil {
			continue
		}
		var bits []ssa.Value
		bits = loadsOfPathSuffix(f, "BitSize")
		// width value: the phi/int that is used in a make() length (possibly multiplied by 2) or SUB with len
		var width ssa.Value
		allInstrs(f, func(in ssa.Instruction) {
			if bo, ok := in.(*ssa.BinOp); ok && bo.Op == token.SUB {
				if lc, isC := bo.Y.(*ssa.Call); isC && calleeName(&lc.Call) == "builtin:len" {
					if _, isPhi := bo.X.(*ssa.Phi); isPhi && width == nil {
						width = bo.X
					}
				}
			}
		})
		bad := ""
		if len(bits) == 0 || width == nil {
			bad = "BitSize read or width value not found"
		} else {
			for _, tc := range [][2]int64{{256, 32}, {384, 48}, {521, 66}} {
				e := newEnv()
				for _, b := range bits {
					e.bind(b, tc[0])
				}
				// arm: ecdsa
				allInstrs(f, func(in ssa.Instruction) {
					if ta, ok := in.(*ssa.TypeAssert); ok && ta.CommaOk {
						for _, r := range *ta.Referrers() {
							if ex, isE := r.(*ssa.Extract); isE && ex.Index == 1 {
								e.bind(ex, b2i(strings.Contains(ta.AssertedType.String(), "ecdsa.")))
							}
						}
					}
				})
				e.solve(f)
				v, ok := e.eval(width)
				if !ok || v != tc[1] {
					bad = fmt.Sprintf("%d-bit curve: %s evaluates to %d (ok=%v), RFC 7518 requires %d octets", tc[0], spec.what, v, ok, tc[1])
				}
			}
		}
		c.check(bad == "", "C49.width", spec.fn+" "+spec.what, f, "32/48/66 octets for P-256/384/521", bad)
	}
	if f := c.fn(pk, "jwkEncode"); f != nil {
		// each pad: append(make([]byte, n-len(w)), v...) requires w == v
		n := 0
		okPad := true
		for _, ci := range calls(f, nameIs("builtin:append")) {
			mk, isM := ci.Common().Args[0].(*ssa.MakeSlice)
			if !isM {
				continue
			}
			sub, isS := mk.Len.(*ssa.BinOp)
			if !isS || sub.Op != token.SUB {
				continue
			}
			lc, isC := sub.Y.(*ssa.Call)
			if !isC || calleeName(&lc.Call) != "builtin:len" {
				continue
			}
			n++
			if lc.Call.Args[0] != ci.Common().Args[1] {
				okPad = false
			}
		}
		c.check(okPad && n == 2, "C49.width", "jwkEncode coordinate padding", f, "x and y are each left-padded by width minus their own length", fmt.Sprintf("a coordinate is padded by the width minus the length of a different value (%d pads found)", n))
		// templates
		re := regexp.MustCompile(`"([a-z]+)":`)
		nT := 0
		okT := true
		detail := ""
		for _, ci := range callsNamed(f, "fmt.Sprintf") {
			s, isC := constString(ci.Common().Args[0])
			if !isC || !strings.HasPrefix(s, "{") {
				continue
			}
			nT++
			var names []string
			for _, m := range re.FindAllStringSubmatch(s, -1) {
				names = append(names, m[1])
			}
			if !sort.StringsAreSorted(names) {
				okT = false
				detail = fmt.Sprintf("JWK members %v are not in lexicographic order (RFC 7638 section 3.3)", names)
			}
			// verb binding: collect the variadic args in order
			var args []ssa.Value
			if sl, isS := ci.Common().Args[1].(*ssa.Slice); isS {
				if al, isA := sl.X.(*ssa.Alloc); isA {
					tmp := map[int64]ssa.Value{}
					for _, r := range *al.Referrers() {
						if ia, isI := r.(*ssa.IndexAddr); isI {
							k, _ := constInt(ia.Index)
							for _, rr := range *ia.Referrers() {
								if st, isSt := rr.(*ssa.Store); isSt {
									tmp[k] = st.Val
								}
							}
						}
					}
					for i := int64(0); i < int64(len(tmp)); i++ {
						args = append(args, tmp[i])
					}
				}
			}
			// members with %s verbs in order
			var verbMembers []string
			for _, m := range regexp.MustCompile(`"([a-z]+)":"%s"`).FindAllStringSubmatch(s, -1) {
				verbMembers = append(verbMembers, m[1])
			}
			wantSrc := map[string]string{"e": "E", "n": "N", "crv": "Name", "x": "X", "y": "Y"}
			if len(args) != len(verbMembers) {
				okT = false
				detail = "template verbs and arguments differ in number"
			} else {
				for i, mname := range verbMembers {
					if !derivesFromField(args[i], wantSrc[mname], 0) {
						okT = false
						detail = fmt.Sprintf("JWK member %q is not filled from the key's %s", mname, wantSrc[mname])
					}
				}
			}
		}
		c.check(okT && nT == 2, "C49.jwk-template", "jwkEncode templates", f, "members in lexicographic order, each bound to its key component", detail)
	}
	if f := c.fn(pk, "jwsSign"); f != nil {
		// R right-aligned in first half, S in second: copy(sig[size-len(rb):], rb), copy(sig[size*2-len(sb):], sb)
		n := 0
		ok := true
		for _, ci := range calls(f, nameIs("builtin:copy")) {
			dst, isS := ci.Common().Args[0].(*ssa.Slice)
			if !isS || dst.Low == nil {
				continue
			}
			sub, isB := dst.Low.(*ssa.BinOp)
			if !isB || sub.Op != token.SUB {
				continue
			}
			lc, isC := sub.Y.(*ssa.Call)
			if !isC || calleeName(&lc.Call) != "builtin:len" || lc.Call.Args[0] != ci.Common().Args[1] {
				ok = false
				continue
			}
			n++
		}
		c.check(ok && n == 2, "C49.width", "jwsSign R||S alignment", f, "R and S are right-aligned in fixed-width halves", "R or S is not right-aligned by its own length")
	}
	if f := c.fn(pk, "JWKThumbprint"); f != nil {
		ok := false
		enc := callsNamed(f, "acme.jwkEncode")
		for _, ci := range callsNamed(f, "crypto/sha256.Sum256") {
			if len(enc) == 1 {
				for _, v := range resultN(enc[0].(*ssa.Call), 0) {
					if stripConv(ci.Common().Args[0]) == v {
						ok = true
					}
				}
			}
		}
		c.check(ok, "C49.thumbprint", "JWKThumbprint", f, "SHA-256 over exactly the canonical JWK string", "the thumbprint is not SHA-256 of the jwkEncode output")
	}
	if f := c.fn(pk, "jwsWithMAC"); f != nil {
		var hdr *ssa.Alloc
		allInstrs(f, func(in ssa.Instruction) {
			if al, ok := in.(*ssa.Alloc); ok {
				if st := derefStruct(al.Type()); st != nil {
					for i := 0; i < st.NumFields(); i++ {
						if reflect.StructTag(st.Tag(i)).Get("json") == "alg" {
							hdr = al
						}
					}
				}
			}
		})
		ok := hdr != nil
		if ok {
			st := derefStruct(hdr.Type())
			var tags []string
			for i := 0; i < st.NumFields(); i++ {
				tags = append(tags, strings.Split(reflect.StructTag(st.Tag(i)).Get("json"), ",")[0])
			}
			sort.Strings(tags)
			ok = strings.Join(tags, ",") == "alg,kid,url"
			alg := ""
			for _, r := range *hdr.Referrers() {
				if fa, okf := r.(*ssa.FieldAddr); okf && reflect.StructTag(st.Tag(fa.Field)).Get("json") == "alg" {
					for _, rr := range *fa.Referrers() {
						if s, oks := rr.(*ssa.Store); oks {
							alg, _ = constString(s.Val)
						}
					}
				}
			}
			ok = ok && alg == "HS256"
		}
		c.check(ok, "C49.mac-header", "jwsWithMAC", f, "header {alg: HS256, kid, url}, no jwk", "the external-account-binding JWS header is not {alg=HS256, kid, url}")
	}
}

func b2i(b bool) int64 {
	if b {
		return 1
	}
	return 0
}

// derivesFromField: v is computed (through calls/conversions/phis) from a load of a field with the given name.
func derivesFromField(v ssa.Value, field string, depth int) bool {
	if depth > 10 || v == nil {
		return false
	}
	if _, f, _, ok := fieldOf(v); ok && f == field {
		return true
	}
	in, ok := v.(ssa.Instruction)
	if !ok {
		return false
	}
	switch in.(type) {
	case *ssa.Alloc:
		return false
	}
	for _, op := range in.Operands(nil) {
		if *op != nil && derivesFromField(*op, field, depth+1) {
			return true
		}
	}
	return false
}
