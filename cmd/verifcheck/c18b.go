package main

import (
	"fmt"
	"strings"

	"golang.org/x/tools/go/ssa"
)

// c18Read: hkdfReader.Read as a whole, interpreted (helpers inlined, slices by
// length, the reader's counter / size / buffered length / previous-block
// length as tracked state) for counters across the whole byte range, four hash
// sizes, two buffered lengths and request sizes around every boundary. The
// transcript of the call is compared with RFC 5869 section 2.3:
//   - a request for more than buffered + ((256-counter) mod 256)*size bytes is
//     refused with (0, error) before any expander call, copy, or change of state;
//   - otherwise min(need, buffered) bytes come from the buffer, then one block per
//     missing chunk: [Reset() unless it is T(1)] Write(prev) Write(info)
//     Write(byte counter) Sum(prev[:0]) -> prev; the counter advances by one per
//     block (wrapping to 0 after T(255)); the unread tail of the last block stays
//     buffered; the result is (need, nil).
//
// Values are identified by the receiver field they come from, not by names of
// locals or helpers, so the step may live in Read or in a helper.
func c18Read(c *Ctx, f *ssa.Function) {
	recv := f.Params[0].Name()
	p := f.Params[1]
	field := func(v ssa.Value) string {
		ap := accessPath(v)
		if i := strings.LastIndex(ap, "."); i >= 0 {
			return ap[i+1:]
		}
		return ""
	}
	cases, bad := 0, ""
	ctrs := []int64{0, 1, 2, 3, 100, 128, 253, 254, 255}
	for _, ctr := range ctrs {
		for _, size := range []int64{20, 32, 48, 64} {
			for _, buffered := range []int64{0, 7} {
				avail := buffered + ((256-ctr)%256)*size
				needs := map[int64]bool{0: true, 1: true, buffered: true, buffered + 1: true, size: true, buffered + size: true, buffered + size + 1: true, buffered + 2*size + 3: true, avail - 1: true, avail: true, avail + 1: true, avail + size: true}
				for need := range needs {
					if need < 0 || bad != "" {
						continue
					}
					// long expansions only for one (counter, size) pair per size
					if need > buffered+3*size+3 && (256-ctr)%256 > 3 && !(ctr == 1 && buffered == 0) {
						continue
					}
					prevLen := size
					if ctr == 1 {
						prevLen = 0
					}
					w := &pathWalker{env: newEnv(), lengths: true, maxSteps: 200000}
					w.env.bind(p, need)
					w.state = map[string]int64{recv + ".counter": ctr, recv + ".size": size, recv + ".buf": buffered, recv + ".prev": prevLen}
					var toks []string
					lits := map[*ssa.Alloc]int64{}
					copied := []int64{}
					w.onStore = func(w *pathWalker, st *ssa.Store) string {
						if ia, ok := st.Addr.(*ssa.IndexAddr); ok {
							if al, isAlloc := ia.X.(*ssa.Alloc); isAlloc {
								if n, ok := w.env.eval(st.Val); ok {
									lits[al] = n
								} else {
									lits[al] = -1
								}
							}
						}
						return ""
					}
					w.onCall = func(w *pathWalker, ci ssa.CallInstruction) string {
						cc := ci.Common()
						if calleeName(cc) == "builtin:copy" {
							d, ok1 := w.env.eval(cc.Args[0])
							s, ok2 := w.env.eval(cc.Args[1])
							if !ok1 || !ok2 {
								copied = append(copied, -1)
							} else {
								copied = append(copied, min(d, s))
							}
							return ""
						}
						if !cc.IsInvoke() || field(cc.Value) != "expander" {
							return ""
						}
						m := cc.Method.Name()
						arg := ""
						if len(cc.Args) == 1 {
							a := cc.Args[0]
							base := a
							if sl, ok := a.(*ssa.Slice); ok {
								base = sl.X
							}
							switch field(base) {
							case "prev":
								arg = "prev"
								if sl, ok := a.(*ssa.Slice); ok {
									if l, okl := w.env.eval(sl); okl && l == 0 && (sl.Low == nil) {
										arg = "prev[:0]"
									}
								}
							case "info":
								arg = "info"
							default:
								if sl, ok := a.(*ssa.Slice); ok {
									if al, isAlloc := sl.X.(*ssa.Alloc); isAlloc {
										if l, _ := w.env.eval(sl); l == 1 {
											arg = fmt.Sprintf("byte %d", lits[al])
										}
									}
								}
							}
						}
						if m == "Sum" {
							if v, ok := ci.(ssa.Value); ok {
								l, _ := w.env.eval(cc.Args[0])
								w.env.bind(v, l+size)
							}
						}
						toks = append(toks, m+"("+arg+")")
						return ""
					}
					end := w.walk(f.Blocks[0], nil)
					cases++
					id := fmt.Sprintf("counter=%d size=%d buffered=%d request=%d", ctr, size, buffered, need)
					if end != "return" {
						bad = id + ": evaluation ended with " + end + " " + w.why
						continue
					}
					ret := w.last.(*ssa.Return)
					n, okN := w.env.eval(retVal(ret, 0))
					errNil := isNilConst(retVal(ret, 1))
					got := strings.Join(toks, " ")
					if need > avail {
						switch {
						case errNil:
							bad = fmt.Sprintf("%s: accepted although only %d bytes remain of the 255-block stream", id, avail)
						case !okN || n != 0:
							bad = id + ": the limit error is returned with a non-zero byte count"
						case got != "" || len(copied) > 0 && (copied[0] != 0 || len(copied) > 1):
							bad = fmt.Sprintf("%s: before failing with the limit error Read performs [%s] copies %v — a refused Read must leave the stream unchanged", id, got, copied)
						case w.state[recv+".counter"] != ctr || w.state[recv+".buf"] != buffered:
							bad = id + ": a refused Read changes the reader's state"
						}
						continue
					}
					if !errNil {
						bad = fmt.Sprintf("%s: refused although %d bytes remain of the 255-block stream", id, avail)
						continue
					}
					n0 := min(need, buffered)
					rest := need - n0
					blocks := (rest + size - 1) / size
					var want []string
					wantCopied := []int64{n0}
					for i := int64(0); i < blocks; i++ {
						k := (ctr + i) % 256
						if k > 1 || k == 0 {
							want = append(want, "Reset()")
						}
						want = append(want, "Write(prev)", "Write(info)", fmt.Sprintf("Write(byte %d)", k), "Sum(prev[:0])")
						wantCopied = append(wantCopied, min(size, rest-i*size))
					}
					wantBuf := buffered - n0
					if blocks > 0 {
						wantBuf = blocks*size - rest
					}
					// copies of zero bytes are immaterial
					strip := func(xs []int64) string {
						var ys []int64
						for _, x := range xs {
							if x != 0 {
								ys = append(ys, x)
							}
						}
						return fmt.Sprint(ys)
					}
					switch {
					case got != strings.Join(want, " "):
						bad = fmt.Sprintf("%s: code performs [%s]; RFC 5869 expansion is [%s]", id, got, strings.Join(want, " "))
					case strip(copied) != strip(wantCopied):
						bad = fmt.Sprintf("%s: bytes delivered per step %v, expected %v", id, copied, wantCopied)
					case !okN || n != need:
						bad = fmt.Sprintf("%s: returns n=%d", id, n)
					case w.state[recv+".counter"] != (ctr+blocks)%256:
						bad = fmt.Sprintf("%s: counter afterwards %d, expected %d", id, w.state[recv+".counter"], (ctr+blocks)%256)
					case w.state[recv+".buf"] != wantBuf:
						bad = fmt.Sprintf("%s: %d bytes stay buffered, expected %d", id, w.state[recv+".buf"], wantBuf)
					case w.oob:
						bad = id + ": a slice expression leaves its bounds"
					}
				}
			}
		}
	}
	c.check(bad == "" && cases > 300, "C18.read", "(*hkdfReader).Read transcript", f, fmt.Sprintf("%d (counter, size, buffered, request) cases agree with RFC 5869 2.3 and the 255-block limit", cases), bad)
}
