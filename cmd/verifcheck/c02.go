package main

import (
	"fmt"
	"go/types"

	"golang.org/x/tools/go/ssa"
)

func init() {
	register(&propDef{
		id: "C02", run: runC02, minOblig: 18,
		explanation: "Decides the verify-before-release behaviour of every authenticated Open by abstract interpretation from the EXPORTED entry points (every method of package chacha20poly1305 with the cipher.AEAD Open signature — the 12-byte-nonce and the 24-byte-nonce one must both exist, nonce length read off the sibling NonceSize method —, secretbox.Open, sign.Open, box.Open / OpenAfterPrecomputation / OpenAnonymous; helpers of the same package are interpreted in place, so the result does not depend on how the code is factored or how types, receivers, parameters and locals are named). Each Open is run for every input length of a boundary domain (around the overhead, the block sizes and every constant the code compares a length with), for an empty and a non-empty dst prefix, for a dst capacity that is too small / fits exactly / has spare room, and for BOTH outcomes of every content-dependent call (tag verification, overlap tests, the CPU-feature flag selecting assembly or generic code). Slices are (base, offset, length, capacity) regions; every byte is untouched, dirty (written by a decrypting routine — XORKeyStream, subtle.XORBytes, the fused assembly open — or by a data-dependent store) or zeroed. Read off every path: (short input) inputs shorter than the overhead return the failure value without reaching a verification, a slice expression out of range or a panic, longer inputs always reach a verification; (tag gate) a non-nil plaintext or a success indication is returned only when the verification — Poly1305 MAC.Verify / poly1305.Verify / a constant-time or bytes comparison against a tag computed by poly1305 Sum / the assembly routine's boolean / ed25519.Verify / the inner secretbox.Open modelled by its own checked contract — accepted; (nothing released on failure) on every rejecting exit no dirty byte remains in the caller's memory, both ChaCha20-Poly1305 implementations have overwritten exactly dst[len(dst):len(dst)+len(plaintext)] with zeros whenever that region lies in the caller's buffer, and no decrypting routine other than the fused assembly open writes caller memory before the tag is accepted; (failure value) rejected inputs yield (nil, non-nil error) resp. (nil, false); (what is verified) the bytes authenticated and the tag compared are exactly the received ciphertext, additional data and tag positions of the input parameter (region provenance through helpers, reslicing and copies into local arrays). NOT decided: that a modified input actually changes the tag (Poly1305/Ed25519 algebra); lengths outside the boundary domain are covered only through the constants harvested from the code.",
		assumptions: []string{"the amd64 assembly routine returns false iff the tag mismatches and writes only dst[:len(src)] (not analysable here)"},
	})
	tech("C02", "path-walker interpretation of the exported Open functions with region/byte-state tracking over a boundary domain of lengths, capacities and verification outcomes")
}

func c02IsByteSlice(t types.Type) bool {
	s, ok := t.Underlying().(*types.Slice)
	if !ok {
		return false
	}
	b, ok := s.Elem().Underlying().(*types.Basic)
	return ok && b.Kind() == types.Byte
}

// c02IsAEADOpen: the cipher.AEAD Open signature.
func c02IsAEADOpen(f *ssa.Function) bool {
	sig := f.Signature
	if sig.Params().Len() != 4 || sig.Results().Len() != 2 {
		return false
	}
	for i := 0; i < 4; i++ {
		if !c02IsByteSlice(sig.Params().At(i).Type()) {
			return false
		}
	}
	return c02IsByteSlice(sig.Results().At(0).Type()) && c02IsErrorType(sig.Results().At(1).Type())
}

// c02NonceSize: the constant returned by the NonceSize method of Open's receiver type.
func c02NonceSize(c *Ctx, pkg string, open *ssa.Function) (int64, bool) {
	for _, g := range c.funcsOfPkg(pkg) {
		if g.Name() != "NonceSize" || g.Signature.Recv() == nil || len(g.Blocks) == 0 {
			continue
		}
		deref := func(t types.Type) types.Type {
			if p, ok := t.(*types.Pointer); ok {
				return p.Elem()
			}
			return t
		}
		if !types.Identical(deref(g.Signature.Recv().Type()), deref(open.Signature.Recv().Type())) {
			continue
		}
		var val int64
		n := 0
		for _, r := range returnsOf(g) {
			if len(r.Results) == 1 {
				if k, ok := constInt(r.Results[0]); ok {
					val = k
					n++
					continue
				}
			}
			return 0, false
		}
		return val, n >= 1
	}
	return 0, false
}

func runC02(c *Ctx) {
	const cp = "chacha20poly1305"
	aeadTag := func(in int) func(cs c02Case) (c02Span, bool) {
		return func(cs c02Case) (c02Span, bool) { return c02Span{fmt.Sprintf("p%d", in), cs.n - 16, 16}, true }
	}
	aeadData := func(in, ad int) func(cs c02Case) []c02Span {
		return func(cs c02Case) []c02Span {
			return []c02Span{{fmt.Sprintf("p%d", ad), 0, cs.a}, {fmt.Sprintf("p%d", in), 0, cs.n - 16}}
		}
	}
	prefixTag := func(in int, k int64) func(cs c02Case) (c02Span, bool) {
		return func(cs c02Case) (c02Span, bool) { return c02Span{fmt.Sprintf("p%d", in), 0, k}, true }
	}
	suffixData := func(in int, k int64) func(cs c02Case) []c02Span {
		return func(cs c02Case) []c02Span { return []c02Span{{fmt.Sprintf("p%d", in), k, cs.n - k}} }
	}
	noTag := func(cs c02Case) (c02Span, bool) { return c02Span{}, false }
	var roots []*c02Root
	// cipher.AEAD: Open(dst, nonce, ciphertext, additionalData) on a pointer receiver
	// (found by signature — every method Open(dst, nonce, ciphertext, ad []byte) ([]byte, error) of the
	// package — with the nonce length read off the sibling NonceSize method, not by type name)
	naead := 0
	nonces := map[int64]bool{}
	for _, f := range c.funcsOfPkg(cp) {
		if f.Name() != "Open" || f.Signature.Recv() == nil || len(f.Blocks) == 0 || !c02IsAEADOpen(f) {
			continue
		}
		nl, ok := c02NonceSize(c, cp, f)
		if !ok {
			c.fail("anchor", cp+"."+fnName(f), f, "the NonceSize method of this AEAD does not return a constant; the rule cannot be evaluated")
			continue
		}
		naead++
		nonces[nl] = true
		if c.funcsSeen == nil {
			c.funcsSeen = map[string]bool{}
		}
		c.funcsSeen[cp+"."+fnName(f)] = true
		roots = append(roots, &c02Root{pkg: cp, name: fnName(f), f: f, out: 1, nonce: 2, in: 3, ad: 4, nonceLen: nl, over: 16, aead: true,
			wantTag: aeadTag(3), wantData: aeadData(3, 4),
			sourceOK: "the MAC covers the received additional data and ciphertext[:len-16], the tag compared is ciphertext[len-16:]",
			src:      "the tag verified is not the trailing 16 bytes of the received ciphertext / the MAC input is not the received data"})
	}
	if !nonces[12] || !nonces[24] {
		c.fail("anchor", cp+" AEAD Open methods", nil, fmt.Sprintf("expected the Open methods of ChaCha20-Poly1305 (12-byte nonce) and XChaCha20-Poly1305 (24-byte nonce); found %d AEAD Open method(s)", naead))
	}
	roots = append(roots, &c02Root{pkg: "nacl/secretbox", name: "Open", out: 0, in: 1, ad: -1, nonce: -1, over: 16,
		wantTag: prefixTag(1, 16), wantData: suffixData(1, 16),
		sourceOK: "the MAC covers box[16:], the tag compared is box[:16]",
		src:      "the MAC is not verified over the received ciphertext box[16:] against box[:16]"})
	roots = append(roots, &c02Root{pkg: "nacl/sign", name: "Open", out: 0, in: 1, ad: -1, nonce: -1, over: 64,
		wantTag: prefixTag(1, 64), wantData: suffixData(1, 64),
		sourceOK: "signature = first 64 bytes, message = the rest",
		src:      "the signature/message split verified is not signedMessage[:64] / signedMessage[64:]"})
	for _, name := range []string{"Open", "OpenAfterPrecomputation"} {
		roots = append(roots, &c02Root{pkg: "nacl/box", name: name, out: 0, in: 1, ad: -1, nonce: -1, over: 16,
			wantTag: noTag, wantData: suffixData(1, 0),
			sourceOK: "the authenticated opener receives the whole box",
			src:      "box." + name + " does not hand the received box to the authenticated opener"})
	}
	if over, ok := pkgConstInt(c, "nacl/box", "AnonymousOverhead"); ok {
		roots = append(roots, &c02Root{pkg: "nacl/box", name: "OpenAnonymous", out: 0, in: 1, ad: -1, nonce: -1, over: over,
			wantTag: noTag, wantData: suffixData(1, over-16),
			sourceOK: "the authenticated opener receives the box without the ephemeral public key",
			src:      "box.OpenAnonymous does not hand box[32:] to the authenticated opener"})
	} else {
		c.fail("anchor", "nacl/box.AnonymousOverhead", nil, "constant not found in the current tree; the rule cannot be evaluated")
	}
	for _, r := range roots {
		if r.f == nil {
			r.f = c.fn(r.pkg, r.name)
		}
		if r.f == nil {
			continue
		}
		if len(r.f.Params) <= max(r.out, r.in, r.ad, r.nonce) || len(r.f.Blocks) == 0 {
			c.fail("anchor", r.pkg+"."+r.name, r.f, "the exported Open does not have the expected signature")
			continue
		}
		r.check(c)
	}
}
