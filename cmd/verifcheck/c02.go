package main

import (
	"fmt"
	"go/token"
	"strings"

	"golang.org/x/tools/go/ssa"
)

func init() {
	register(&propDef{
		id: "C02", run: runC02, minOblig: 18,
		explanation: "Decides the verify-before-release structure of every authenticated Open: (short input) chacha20poly1305.Open and xchacha20poly1305.Open reach the internal open only for len(ciphertext) >= 16, secretbox.Open / sign.Open / box.OpenAnonymous index the tag/overhead only behind len >= Overhead (evaluated); (tag gate) every path to a non-nil plaintext return crosses the success edge of the tag verification — Poly1305 MAC.Verify in the generic AEAD, the assembly routine's boolean in the amd64 AEAD, poly1305.Verify in secretbox, ed25519.Verify in sign — and box.Open*/XChaCha Open return the verdict of those functions verbatim; (nothing released on failure) on the failure edge both ChaCha20-Poly1305 implementations return (nil, errOpen) after a loop that stores zero into every element of exactly the output region the decryption writes (the same SSA value that is handed to the decrypting routine); in the generic AEAD and in secretbox/sign the plaintext-producing calls lie behind the success edge, so no decrypted byte exists before the tag is accepted; the verified bytes are the received ciphertext and tag (argument provenance). NOT decided: that a modified input actually changes the tag (Poly1305/Ed25519 algebra).",
		assumptions: []string{"the amd64 assembly routine returns false iff the tag mismatches (not analysable here)"},
	})
	tech("C02", "must-cross CFG rules on the verification's success edge, failure-edge zeroing-loop shape with value identity of the wiped region, finite-domain evaluation of the length guards")
}

func runC02(c *Ctx) {
	const cp = "chacha20poly1305"
	// ---- short-input guards of the exported AEAD methods
	for _, name := range []string{"(*chacha20poly1305).Open", "(*xchacha20poly1305).Open"} {
		f := c.fn(cp, name)
		if f == nil {
			continue
		}
		inner := callsNamed(f, "(*chacha20poly1305.chacha20poly1305).open")
		ct := param(f, "ciphertext")
		bad := ""
		if len(inner) != 1 || ct == nil {
			bad = "internal open call or ciphertext parameter not found"
		} else {
			for _, n := range []int64{0, 1, 15, 16, 17, 100} {
				e := newEnv()
				e.bindLen(f, ct, n)
				e.bindLen(f, param(f, "nonce"), map[bool]int64{true: 24, false: 12}[strings.Contains(name, "xchacha")])
				e.solve(f)
				if e.reach[inner[0].Block()] != (n >= 16) {
					bad = fmt.Sprintf("ciphertext of %d bytes: internal open reached=%v", n, e.reach[inner[0].Block()])
				}
			}
			// verdict returned verbatim
			okV := false
			for _, r := range returnsOf(f) {
				if ex, ok := retVal(r, 1).(*ssa.Extract); ok && ex.Tuple == callValue(inner[0]) {
					okV = true
				}
			}
			if !okV {
				bad = "the internal open's error is not returned"
			}
			if inner[0].Common().Args[3] != ssa.Value(ct) {
				bad = "the internal open is not given the received ciphertext"
			}
		}
		c.check(bad == "", "C02.short-input", cp+"."+name, f, "inputs shorter than the tag are rejected before any slicing; the inner verdict is returned", bad)
	}
	// ---- the two internal opens
	for _, name := range []string{"(*chacha20poly1305).openGeneric", "(*chacha20poly1305).open"} {
		if c.cfg != "" && name == "(*chacha20poly1305).open" {
			// build configurations without the amd64 assembly: open is a one-line
			// wrapper returning openGeneric's verdict (checked as a delegation)
			if f := c.fn(cp, name); f != nil {
				cs := calls(f, func(n string) bool { return strings.HasSuffix(n, "chacha20poly1305).openGeneric") })
				ok := len(cs) == 1 && len(f.Blocks) == 1
				if ok {
					for _, r := range returnsOf(f) {
						for i := range r.Results {
							ex, isE := retVal(r, i).(*ssa.Extract)
							if !isE || ex.Tuple != callValue(cs[0]) || ex.Index != i {
								ok = false
							}
						}
					}
				}
				c.check(ok, "C02.tag-gate", cp+"."+name+" (portable build)", f, "returns openGeneric's result verbatim", "the portable open does not return openGeneric's verdict verbatim")
			}
			continue
		}
		f := c.fn(cp, name)
		if f == nil {
			continue
		}
		acc := valueReturns(f, 0)
		var ver []ssa.CallInstruction
		ver = append(ver, calls(f, func(n string) bool { return strings.HasSuffix(n, "internal/poly1305.MAC).Verify") })...)
		ver = append(ver, callsNamed(f, "chacha20poly1305.chacha20Poly1305Open")...)
		pass := callSuccess(ver, 0, isTrue)
		fail := callFailure(ver, 0, isTrue)
		// returns that forward the generic implementation's result are conditional on it
		var direct []ssa.Instruction
		for _, t := range acc {
			r := t.(*ssa.Return)
			if ex, ok := retVal(r, 0).(*ssa.Extract); ok {
				if call, ok := ex.Tuple.(*ssa.Call); ok && strings.HasSuffix(calleeName(&call.Call), ".openGeneric") {
					continue
				}
			}
			direct = append(direct, t)
		}
		c.mustCross("C02.tag-gate", cp+"."+name, f, direct, pass, "the tag verification's success edge")
		// failure edge: zeroing loop over the decryption's output region, then (nil, errOpen)
		if len(ver) == 1 && len(fail) > 0 {
			// output region: the value handed to the decrypting routine
			var outV ssa.Value
			if strings.HasSuffix(calleeName(ver[0].Common()), "chacha20Poly1305Open") {
				outV = ver[0].Common().Args[0]
			} else {
				for _, ci := range calls(f, func(n string) bool { return strings.HasSuffix(n, ").XORKeyStream") }) {
					a := ci.Common().Args
					if _, isEx := rootOf(a[1]).(*ssa.Extract); isEx {
						outV = a[1]
					}
				}
			}
			okZero := outV != nil
			var wipeAt *ssa.BasicBlock
			detail := "decryption output region not found"
			if okZero {
				okZero = false
				detail = "on authentication failure the output region is not wiped (a store of 0 into every element of exactly the decryption's output slice)"
				r := reach([]*ssa.BasicBlock{fail[0].to()}, nil)
				allInstrs(f, func(in ssa.Instruction) {
					st, ok := in.(*ssa.Store)
					if !ok || !r[st.Block()] {
						return
					}
					ia, ok := st.Addr.(*ssa.IndexAddr)
					if !ok {
						return
					}
					if k, isC := constInt(st.Val); !isC || k != 0 {
						return
					}
					if ia.X != outV {
						detail = "the wipe after a failed authentication clears a different slice than the one the decryption wrote (unauthenticated plaintext can remain in the caller's buffer)"
						return
					}
					// index runs 0..len(out)-1: phi index with +1 step bounded by len(outV)
					bound := false
					allInstrs(f, func(in2 ssa.Instruction) {
						if call, ok := in2.(*ssa.Call); ok && calleeName(&call.Call) == "builtin:len" && call.Call.Args[0] == outV {
							bound = true
						}
					})
					if bound {
						okZero = true
						wipeAt = innermostLoopHeader(st.Block())
					}
				})
				// clear(out) builtin form
				for _, ci := range calls(f, nameIs("builtin:clear")) {
					if ci.Common().Args[0] == outV && r[ci.Block()] {
						okZero = true
						wipeAt = ci.Block()
					}
				}
				// the wipe is unconditional: no path from the failure edge to a return
				// goes around the zeroing loop (its header) / the clear call
				if okZero && wipeAt != nil && fail[0].to() != wipeAt {
					ra := reachAvoiding([]*ssa.BasicBlock{fail[0].to()}, nil, map[*ssa.BasicBlock]bool{wipeAt: true})
					for _, ret := range returnsOf(f) {
						if ra[ret.Block()] {
							okZero = false
							detail = "the wipe of the output region after a failed authentication is conditional: a path from the failure edge to the return goes around it, leaving unauthenticated plaintext in the caller's buffer"
						}
					}
				}
			}
			c.check(okZero, "C02.wipe-on-failure", cp+"."+name, f, "the decryption's output region is zeroed before errOpen is returned", detail)
			// failure returns nil, errOpen
			okRet := true
			rr := reach([]*ssa.BasicBlock{fail[0].to()}, nil)
			n := 0
			for _, ret := range returnsOf(f) {
				if !rr[ret.Block()] {
					continue
				}
				// only returns not reachable from the success edge
				if reach([]*ssa.BasicBlock{pass[0].to()}, nil)[ret.Block()] {
					continue
				}
				n++
				if !isNilConst(retVal(ret, 0)) || accessPath(retVal(ret, 1)) != "errOpen" {
					okRet = false
				}
			}
			c.check(okRet && n >= 1, "C02.fail-result", cp+"."+name, f, "a rejected input yields (nil, errOpen)", "authentication failure does not return (nil, errOpen)")
		} else {
			c.fail("C02.wipe-on-failure", cp+"."+name, f, "tag verification call not found")
		}
	}
	if f := c.fn(cp, "(*chacha20poly1305).openGeneric"); f != nil {
		// no plaintext before the tag is accepted: XORKeyStream into out behind Verify
		ver := calls(f, func(n string) bool { return strings.HasSuffix(n, "internal/poly1305.MAC).Verify") })
		var dec []ssa.Instruction
		for _, ci := range calls(f, func(n string) bool { return strings.HasSuffix(n, ").XORKeyStream") }) {
			if _, isEx := rootOf(ci.Common().Args[1]).(*ssa.Extract); isEx {
				dec = append(dec, ci)
			}
		}
		c.mustCross("C02.decrypt-after-verify", cp+".(*chacha20poly1305).openGeneric", f, dec, callSuccess(ver, 0, isTrue), "MAC.Verify(tag) == true")
		// tag verified = last 16 bytes of the received ciphertext; MAC over the rest
		okTag := false
		if len(ver) == 1 {
			if sl, ok := ver[0].Common().Args[1].(*ssa.Slice); ok && rootOf(sl) == ssa.Value(param(f, "ciphertext")) && sl.Low != nil {
				if sub, ok := sl.Low.(*ssa.BinOp); ok && sub.Op == token.SUB {
					if k, ok := constInt(sub.Y); ok && k == 16 {
						okTag = true
					}
				}
			}
		}
		c.check(okTag, "C02.tag-source", cp+".openGeneric", f, "the tag checked is the last 16 bytes of the input", "the tag verified is not the trailing 16 bytes of the received ciphertext")
	}
	// ---- secretbox
	if f := c.fn("nacl/secretbox", "Open"); f != nil {
		acc := valueReturns(f, 0)
		ver := callsNamed(f, "internal/poly1305.Verify")
		c.mustCross("C02.tag-gate", "secretbox.Open", f, acc, callSuccess(ver, 0, isTrue), "poly1305.Verify == true")
		var dec []ssa.Instruction
		for _, ci := range callsNamed(f, "salsa20/salsa.XORKeyStream") {
			if _, isEx := rootOf(ci.Common().Args[0]).(*ssa.Extract); isEx {
				dec = append(dec, ci)
			}
		}
		allInstrs(f, func(in ssa.Instruction) {
			if st, ok := in.(*ssa.Store); ok {
				if ia, ok := st.Addr.(*ssa.IndexAddr); ok {
					if _, isEx := rootOf(ia.X).(*ssa.Extract); isEx {
						dec = append(dec, st)
					}
				}
			}
		})
		c.mustCross("C02.decrypt-after-verify", "secretbox.Open", f, dec, callSuccess(ver, 0, isTrue), "poly1305.Verify == true")
		c02Short(c, f, "secretbox.Open", param(f, "box"), 16, ver)
		// verified bytes: tag = box[:16] (copy), message = box[16:]
		okSrc := false
		if len(ver) == 1 {
			if sl, ok := ver[0].Common().Args[1].(*ssa.Slice); ok && rootOf(sl) == ssa.Value(param(f, "box")) && sl.Low != nil {
				if k, ok := constInt(sl.Low); ok && k == 16 {
					okSrc = true
				}
			}
		}
		c.check(okSrc, "C02.tag-source", "secretbox.Open", f, "the MAC covers box[16:]", "the MAC is not verified over the received ciphertext box[16:]")
	}
	if f := c.fn("nacl/sign", "Open"); f != nil {
		acc := valueReturns(f, 0)
		ver := callsNamed(f, "crypto/ed25519.Verify")
		c.mustCross("C02.tag-gate", "sign.Open", f, acc, callSuccess(ver, 0, isTrue), "ed25519.Verify == true")
		c02Short(c, f, "sign.Open", param(f, "signedMessage"), 64, ver)
		okSrc := false
		if len(ver) == 1 {
			m, isM := ver[0].Common().Args[1].(*ssa.Slice)
			s, isS := ver[0].Common().Args[2].(*ssa.Slice)
			if isM && isS && rootOf(m) == ssa.Value(param(f, "signedMessage")) && rootOf(s) == ssa.Value(param(f, "signedMessage")) {
				lo, _ := constInt(m.Low)
				hi, _ := constInt(s.High)
				okSrc = m.Low != nil && lo == 64 && s.High != nil && hi == 64
			}
		}
		c.check(okSrc, "C02.tag-source", "sign.Open", f, "signature = first 64 bytes, message = the rest", "the signature/message split verified is not signedMessage[:64] / signedMessage[64:]")
	}
	// ---- box wrappers return secretbox's verdict verbatim
	for _, name := range []string{"Open", "OpenAfterPrecomputation", "OpenAnonymous"} {
		f := c.fn("nacl/box", name)
		if f == nil {
			continue
		}
		ok := true
		n := 0
		for _, r := range returnsOf(f) {
			v := retVal(r, 0)
			if isNilConst(v) {
				continue
			}
			n++
			ex, isE := v.(*ssa.Extract)
			if !isE {
				ok = false
				continue
			}
			call, isC := ex.Tuple.(*ssa.Call)
			if !isC || !(strings.HasSuffix(calleeName(&call.Call), "secretbox.Open") || strings.HasSuffix(calleeName(&call.Call), "box.Open")) {
				ok = false
			}
			if ex2, isE2 := retVal(r, 1).(*ssa.Extract); !isE2 || ex2.Tuple != ex.Tuple {
				ok = false
			}
		}
		c.check(ok && n >= 1, "C02.tag-gate", "box."+name, f, "returns the authenticated opener's result and verdict verbatim", "box."+name+" can return plaintext that did not come from the authenticated opener")
	}
	if f := c.fn("nacl/box", "OpenAnonymous"); f != nil {
		over, _ := pkgConstInt(c, "nacl/box", "AnonymousOverhead")
		inner := callsNamed(f, "nacl/box.Open")
		bad := ""
		if len(inner) != 1 {
			bad = "inner Open not found"
		} else {
			for _, n := range []int64{0, 31, over - 1, over, over + 1} {
				e := newEnv()
				e.bindLen(f, param(f, "box"), n)
				e.solve(f)
				if e.reach[inner[0].Block()] && n < over {
					bad = fmt.Sprintf("box of %d bytes (overhead %d) reaches slicing", n, over)
				}
			}
		}
		c.check(bad == "", "C02.short-input", "box.OpenAnonymous", f, "boxes shorter than the anonymous overhead are rejected before slicing", bad)
	}
}

func c02Short(c *Ctx, f *ssa.Function, name string, in *ssa.Parameter, over int64, ver []ssa.CallInstruction) {
	bad := ""
	if in == nil || len(ver) != 1 {
		bad = "input parameter or verification call not found"
	} else {
		for _, n := range []int64{0, 1, over - 1, over, over + 1} {
			e := newEnv()
			e.bindLen(f, in, n)
			e.solve(f)
			if e.reach[ver[0].Block()] != (n >= over) {
				bad = fmt.Sprintf("input of %d bytes (overhead %d): verification/slicing reached=%v", n, over, e.reach[ver[0].Block()])
			}
		}
	}
	c.check(bad == "", "C02.short-input", name, f, fmt.Sprintf("inputs shorter than %d bytes are rejected before any slicing", over), bad)
}
