package main

import (
	"fmt"
	"go/token"
	"go/types"
	"sort"
	"strings"

	"golang.org/x/tools/go/ssa"
)

// Interpretation model shared by the C08 rules.
//
// Every rule of C08 is decided by abstractly interpreting a public function
// of golang.org/x/crypto/sha3 with the path walker (slices by length, the
// scalar fields of the receiver tracked as state) and comparing the observed
// EFFECT TRANSCRIPT with the specification computed here. Helpers of the
// package are interpreted in place, so a piece of logic reads the same in the
// function, in a helper extracted from it, or after a helper was inlined;
// nothing depends on the names of locals, parameters, receivers or helpers.
//
// Effects (tokens in w.events; they travel with the walker, so effects of a
// discarded trial inlining are forgotten):
//
//	P a<g>                  the Keccak-f core ran on the state array of a sponge of generation g
//	C a<g> i v              constant v XORed into byte i of that array
//	X a<g> i <src> j k      bytes j..j+k of buffer <src> XORed into bytes i..i+k
//	O <dst> j a<g> i k      bytes i..i+k of the array copied to bytes j..j+k of buffer <dst>
//	W <dst> j [v]           any other write to a tracked buffer / plain store into the state array
//	S.<op> ...              calls into crypto/sha3 (constructors, methods of *SHAKE)
//	BAD <text>              something the model cannot follow (always a failure)
//
// "Generation": the state array of the receiver's sponge carries a marker
// (a shadow entry of the tracked state next to the array); a whole-value copy
// of the sponge — or of the array alone — copies the marker and increments it,
// so effects on the running state (a77) and on a faithful copy of it (a78)
// are told apart without naming either, and a sponge whose array was not
// copied from the receiver's has no marker at all (a?).
const (
	c08Unk     = int64(-0x7eadbeef) // tracked location with unknown content
	c08Gen     = int64(77)          // generation marker of the receiver's sponge
	c08DS      = int64(0x5d)        // abstract domain-separation byte of the walks
	c08ObjBase = int64(100000)      // heap objects reached through call results
	c08FnBase  = int64(50000)       // function values
	c08GenKey  = "§gen"             // suffix of the state key that holds the generation of a state array
)

type c08M struct {
	c   *Ctx
	pkg *ssa.Package
	// legacy sponge record and its field roles
	sponge                         *types.Named
	fA, fN, fRate, fDS, fOut, fDir string
	wrap                           *types.Named
	wSHAKE, wOut, wSq, wNew        string
	core                           map[string]bool // functions the walks do not enter: the Keccak-f core
	fnID                           map[ssa.Value]int64
	fnByID                         map[int64]ssa.Value
	closure                        map[*ssa.Function]*ssa.MakeClosure
	cell                           map[*ssa.Alloc]int64 // captured variables: value stored last
	objType                        map[int64]types.Type
	next                           int64
	errMarshal, errUnmarshal       int64 // scenario: error values returned by (*SHAKE).MarshalBinary / UnmarshalBinary
	factory                        int64 // scenario: value of the receiver's factory field
}

func c08NewModel(c *Ctx) *c08M {
	m := &c08M{c: c, pkg: c.ssaPkg("sha3"), core: map[string]bool{}, fnID: map[ssa.Value]int64{}, fnByID: map[int64]ssa.Value{},
		closure: map[*ssa.Function]*ssa.MakeClosure{}, cell: map[*ssa.Alloc]int64{}, objType: map[int64]types.Type{}, next: c08ObjBase}
	if m.pkg == nil {
		return m
	}
	// the permutation core: a plain function over *[25]uint64
	for _, f := range c.funcsOfPkg("sha3") {
		if f.Signature.Recv() == nil && len(f.Params) == 1 && f.Parent() == nil {
			// the 25 lanes by pointer, or as a slice
			t := f.Params[0].Type().Underlying()
			if pt, ok := t.(*types.Pointer); ok {
				t = pt.Elem().Underlying()
			}
			var elem types.Type
			switch x := t.(type) {
			case *types.Array:
				if x.Len() == 25 {
					elem = x.Elem()
				}
			case *types.Slice:
				elem = x.Elem()
			}
			if elem != nil {
				if b, ok := elem.Underlying().(*types.Basic); ok && b.Kind() == types.Uint64 {
					m.core[f.Name()] = true
				}
			}
		}
		// function values and closures of the package get identities
		allInstrs(f, func(in ssa.Instruction) {
			if mc, ok := in.(*ssa.MakeClosure); ok {
				m.idOfFn(mc)
				if fn, ok := mc.Fn.(*ssa.Function); ok {
					m.closure[fn] = mc
				}
			}
			for _, op := range in.Operands(nil) {
				if fn, ok := (*op).(*ssa.Function); ok {
					m.idOfFn(fn)
				}
			}
		})
	}
	return m
}

func (m *c08M) idOfFn(v ssa.Value) int64 {
	if id, ok := m.fnID[v]; ok {
		return id
	}
	id := c08FnBase + int64(len(m.fnID))
	m.fnID[v] = id
	m.fnByID[id] = v
	return id
}

func (m *c08M) newID() int64 {
	m.next++
	return m.next
}

// recordWith: the struct type declared in the package that has a field of the
// given kind (the legacy sponge is the record with the [200]byte state array,
// the wrapper the record holding a *crypto/sha3.SHAKE).
func (m *c08M) recordWith(has func(types.Type) bool) *types.Named {
	var found []*types.Named
	sc := m.pkg.Pkg.Scope()
	for _, name := range sc.Names() {
		tn, ok := sc.Lookup(name).(*types.TypeName)
		if !ok || tn.IsAlias() {
			continue
		}
		n, ok := tn.Type().(*types.Named)
		if !ok {
			continue
		}
		st, ok := n.Underlying().(*types.Struct)
		if !ok {
			continue
		}
		for i := 0; i < st.NumFields(); i++ {
			if has(st.Field(i).Type()) {
				found = append(found, n)
				break
			}
		}
	}
	if len(found) == 1 {
		return found[0]
	}
	return nil
}

func c08IsStateArray(t types.Type) bool {
	a, ok := t.Underlying().(*types.Array)
	return ok && a.Len() == 200 && types.Identical(a.Elem().Underlying(), types.Typ[types.Uint8])
}

func c08IsShakePtr(t types.Type) bool {
	p, ok := t.(*types.Pointer)
	if !ok {
		return false
	}
	n, ok := p.Elem().(*types.Named)
	return ok && n.Obj().Pkg() != nil && n.Obj().Pkg().Path() == "crypto/sha3" && n.Obj().Name() == "SHAKE"
}

// resolveTypes finds the two records of the package and the roles of their
// fields: by the documented name when a field of that name and of the right
// type exists, otherwise by type (the only byte array, the only func field, ...).
func (m *c08M) resolveTypes() bool {
	m.sponge = m.recordWith(c08IsStateArray)
	m.wrap = m.recordWith(c08IsShakePtr)
	ok := true
	if m.sponge == nil {
		m.c.fail("anchor", "sha3 legacy sponge record", nil, "no single struct type of the package holds a [200]byte state array")
		ok = false
	} else {
		st := m.sponge.Underlying().(*types.Struct)
		isByteArr := c08IsStateArray
		isByte := func(t types.Type) bool { b, ok := t.Underlying().(*types.Basic); return ok && b.Kind() == types.Uint8 }
		isPlainInt := func(t types.Type) bool { b, ok := t.(*types.Basic); return ok && b.Kind() == types.Int }
		isNamedInt := func(t types.Type) bool {
			_, named := t.(*types.Named)
			b, ok := t.Underlying().(*types.Basic)
			return named && ok && b.Info()&types.IsInteger != 0
		}
		m.fA = c08Field(st, "a", isByteArr)
		m.fDS = c08Field(st, "dsbyte", isByte)
		m.fDir = c08Field(st, "state", isNamedInt)
		if m.fDir == "" {
			// the direction kept as a flag: false = absorbing, true = squeezing
			m.fDir = c08Field(st, "squeezing", func(t types.Type) bool { b, ok := t.Underlying().(*types.Basic); return ok && b.Kind() == types.Bool })
		}
		m.fN = c08Field(st, "n", isPlainInt)
		m.fRate = c08Field(st, "rate", isPlainInt)
		m.fOut = c08Field(st, "outputLen", isPlainInt)
		if m.fN == "" || m.fRate == "" || m.fOut == "" {
			m.fN, m.fRate, m.fOut = m.intRoles(st, isPlainInt)
		}
		for role, f := range map[string]string{"state array [200]byte": m.fA, "domain byte": m.fDS, "direction": m.fDir, "fill level n": m.fN, "rate": m.fRate, "output length": m.fOut} {
			if f == "" {
				m.c.fail("anchor", "sha3 legacy sponge field: "+role, nil, "the field with this role cannot be identified in the legacy sponge record")
				ok = false
			}
		}
	}
	if m.wrap == nil {
		m.c.fail("anchor", "sha3 SHAKE wrapper record", nil, "no single struct type of the package holds a *crypto/sha3.SHAKE")
		ok = false
	} else {
		st := m.wrap.Underlying().(*types.Struct)
		m.wSHAKE = c08Field(st, "SHAKE", c08IsShakePtr)
		m.wNew = c08Field(st, "newSHAKE", func(t types.Type) bool { _, ok := t.Underlying().(*types.Signature); return ok })
		m.wSq = c08Field(st, "squeezing", func(t types.Type) bool { b, ok := t.Underlying().(*types.Basic); return ok && b.Kind() == types.Bool })
		m.wOut = c08Field(st, "outputLen", func(t types.Type) bool { b, ok := t.Underlying().(*types.Basic); return ok && b.Kind() == types.Int })
		for role, f := range map[string]string{"embedded *crypto/sha3.SHAKE": m.wSHAKE, "re-creation function": m.wNew, "squeezing flag": m.wSq, "output length": m.wOut} {
			if f == "" {
				m.c.fail("anchor", "sha3 SHAKE wrapper field: "+role, nil, "the field with this role cannot be identified in the wrapper record")
				ok = false
			}
		}
	}
	return ok
}

// intRoles tells the three plain int fields of the legacy sponge apart by what
// the Keccak-256 constructor puts into them: the rate (136), the output length
// (32) and the fill level (left zero).
func (m *c08M) intRoles(st *types.Struct, isPlainInt func(types.Type) bool) (n, rate, out string) {
	f := m.c.fnOpt("sha3", "NewLegacyKeccak256")
	if f == nil || len(f.Blocks) == 0 {
		return
	}
	w := m.walker(f)
	if w.walk(f.Blocks[0], nil) != "return" {
		return
	}
	p := m.path2(w, c08Strip(w.last.(*ssa.Return).Results[0]))
	if p == "" {
		return
	}
	cnt := 0
	for i := 0; i < st.NumFields(); i++ {
		if !isPlainInt(st.Field(i).Type()) {
			continue
		}
		cnt++
		switch w.state[p+"."+st.Field(i).Name()] {
		case 136:
			rate = st.Field(i).Name()
		case 32:
			out = st.Field(i).Name()
		case 0:
			n = st.Field(i).Name()
		}
	}
	if cnt != 3 {
		return "", "", ""
	}
	return
}

// c08Field: the field called name if it has the wanted type, else the only
// field of the wanted type.
func c08Field(st *types.Struct, name string, want func(types.Type) bool) string {
	var cands []string
	for i := 0; i < st.NumFields(); i++ {
		if want(st.Field(i).Type()) {
			if st.Field(i).Name() == name {
				return name
			}
			cands = append(cands, st.Field(i).Name())
		}
	}
	if len(cands) == 1 {
		return cands[0]
	}
	return ""
}

func (m *c08M) isSponge(t types.Type) bool {
	if p, ok := t.Underlying().(*types.Pointer); ok {
		t = p.Elem()
	}
	return m.sponge != nil && types.Identical(t, m.sponge)
}

func c08IsAggregate(t types.Type) bool {
	switch t.Underlying().(type) {
	case *types.Struct, *types.Array:
		return true
	}
	return false
}

func c08CopyKeys(dst map[string]int64, dp string, src map[string]int64, sp string) {
	type kv struct {
		k string
		v int64
	}
	var add []kv
	for k, v := range src {
		if strings.HasPrefix(k, sp+".") || strings.HasPrefix(k, sp+"[") {
			add = append(add, kv{dp + k[len(sp):], v})
		}
	}
	for _, e := range add {
		dst[e.k] = e.v
	}
}

// c08ZeroFill: the scalar fields of a freshly allocated record that were never
// stored hold their zero value (every store to a field of such a record is
// tracked, so "no entry" means "never stored").
func c08ZeroFill(st map[string]int64, p string, t *types.Struct) {
	if t == nil {
		return
	}
	for i := 0; i < t.NumFields(); i++ {
		if b, ok := t.Field(i).Type().Underlying().(*types.Basic); ok && b.Info()&(types.IsInteger|types.IsBoolean) != 0 {
			if _, has := st[p+"."+t.Field(i).Name()]; !has {
				st[p+"."+t.Field(i).Name()] = 0
			}
		}
	}
}

func c08HasKeys(st map[string]int64, p string) bool {
	for k := range st {
		if strings.HasPrefix(k, p+".") || strings.HasPrefix(k, p+"[") {
			return true
		}
	}
	return false
}

// walker returns a path walker for f with the model's hooks installed.
func (m *c08M) walker(f *ssa.Function) *pathWalker {
	w := &pathWalker{env: newEnv(), lengths: true, maxSteps: 20000, opaque: m.core,
		state: map[string]int64{}, cls: map[ssa.Value]string{}, off: map[ssa.Value]int64{}}
	w.absVal = func(v ssa.Value) (int64, bool) {
		// content outside the finite domain: bytes and reference values become
		// "unknown"; an integer or boolean field must always evaluate
		if b, ok := v.Type().Underlying().(*types.Basic); ok && b.Kind() != types.Uint8 && b.Kind() != types.UnsafePointer {
			return 0, false
		}
		return c08Unk, true
	}
	w.onCall = m.onCall
	w.onStore = m.onStore
	w.onSlice = func(w *pathWalker, sl *ssa.Slice) {
		delete(w.cls, sl)
		delete(w.off, sl)
		if cl, o, ok := m.region(w, sl); ok {
			w.cls[sl], w.off[sl] = cl, o
		}
	}
	w.onPhi = func(w *pathWalker, ph *ssa.Phi, in ssa.Value) {
		switch ph.Type().Underlying().(type) {
		case *types.Slice, *types.Pointer:
		default:
			return
		}
		if cl, o, ok := m.region(w, in); ok {
			w.cls[ph], w.off[ph] = cl, o
		} else {
			delete(w.cls, ph)
			delete(w.off, ph)
		}
	}
	w.onLoad = func(w *pathWalker, u *ssa.UnOp) (int64, bool) {
		p := m.path2(w, u.X)
		if p == "" {
			return 0, false
		}
		if n, ok := w.state[p]; ok && n != c08Unk {
			return n, true
		}
		return 0, false
	}
	w.onInline = m.onInline
	w.onReturn = m.onReturn
	m.enter(w.env, w.state, f)
	return w
}

// enter prepares the bindings of one function body: nil constants are 0 (an
// error value is represented by an integer, 0 = nil), function values have
// their identities, and local byte arrays are tracked byte by byte (zeroed).
func (m *c08M) enter(env *penv, state map[string]int64, f *ssa.Function) {
	for v, id := range m.fnID {
		env.bind(v, id)
	}
	allInstrs(f, func(in ssa.Instruction) {
		for _, op := range in.Operands(nil) {
			if k, ok := (*op).(*ssa.Const); ok && k.Value == nil {
				switch k.Type().Underlying().(type) {
				case *types.Interface, *types.Pointer, *types.Signature:
					env.bind(k, 0)
				}
			}
		}
		if al, ok := in.(*ssa.Alloc); ok && al.Comment != "" {
			if at, ok := al.Type().Underlying().(*types.Pointer).Elem().Underlying().(*types.Array); ok && at.Len() <= 256 {
				if b, ok := at.Elem().Underlying().(*types.Basic); ok && b.Kind() == types.Uint8 {
					for i := int64(0); i < at.Len(); i++ {
						state[al.Comment+"["+itoa(i)+"]"] = 0
					}
				}
			}
		}
	})
}

func c08Strip(v ssa.Value) ssa.Value {
	for {
		switch x := v.(type) {
		case *ssa.ChangeType:
			v = x.X
		case *ssa.ChangeInterface:
			v = x.X
		case *ssa.MakeInterface:
			v = x.X
		case *ssa.TypeAssert:
			if x.CommaOk {
				return v
			}
			v = x.X
		default:
			return v
		}
	}
}

// objOf: the identity of the heap object a pointer / interface value denotes,
// when it was produced by an interpreted call.
func (m *c08M) objOf(w *pathWalker, v ssa.Value) (int64, bool) {
	n, ok := w.env.eval(c08Strip(v))
	if ok && n > c08ObjBase {
		return n, true
	}
	return 0, false
}

// path2 is pathWalker.path extended to objects reached through call results.
func (m *c08M) path2(w *pathWalker, v ssa.Value) string {
	switch x := v.(type) {
	case *ssa.FieldAddr:
		st := derefStruct(x.X.Type())
		b := m.path2(w, x.X)
		if st == nil || b == "" {
			return ""
		}
		return b + "." + st.Field(x.Field).Name()
	case *ssa.IndexAddr:
		b := m.path2(w, x.X)
		if b == "" {
			return ""
		}
		if n, ok := w.env.eval(x.Index); ok {
			return b + "[" + itoa(n) + "]"
		}
		return b + "[?]"
	case *ssa.Slice:
		if x.Low == nil {
			return m.path2(w, x.X)
		}
		if k, ok := w.env.eval(x.Low); ok && k == 0 {
			return m.path2(w, x.X)
		}
		return ""
	}
	if p := w.path(v); p != "" {
		return p
	}
	if id, ok := m.objOf(w, v); ok {
		return "#" + itoa(id)
	}
	if u, ok := v.(*ssa.UnOp); ok && u.Op == token.MUL {
		return m.path2(w, u.X)
	}
	return ""
}

// region names the buffer a slice (or pointer to array) value denotes and the
// offset of its first element in that buffer.
func (m *c08M) region(w *pathWalker, v ssa.Value) (string, int64, bool) {
	if _, isSl := v.(*ssa.Slice); !isSl {
		if cl, ok := w.cls[v]; ok {
			return cl, w.off[v], true
		}
	}
	switch x := v.(type) {
	case *ssa.MakeSlice:
		return "mk:" + x.Parent().Name() + "." + x.Name(), 0, true
	case *ssa.ChangeType:
		return m.region(w, x.X)
	case *ssa.Convert:
		return m.region(w, x.X)
	case *ssa.Slice:
		cl, o, ok := m.region(w, x.X)
		if !ok {
			return "", 0, false
		}
		lo := int64(0)
		if x.Low != nil {
			if lo, ok = w.env.eval(x.Low); !ok {
				return "", 0, false
			}
		}
		return cl, o + lo, true
	case *ssa.IndexAddr:
		// the address of an element: the buffer from that element on
		if cl, o, ok := m.region(w, x.X); ok {
			if k, ok := w.env.eval(x.Index); ok {
				return cl, o + k, true
			}
		}
	case *ssa.FieldAddr:
		st := derefStruct(x.X.Type())
		if st != nil && m.isSponge(x.X.Type()) && st.Field(x.Field).Name() == m.fA {
			if g, ok := w.state[m.path2(w, x)+c08GenKey]; ok && g != c08Unk {
				return "a" + itoa(g), 0, true
			}
			return "a?", 0, true
		}
	case *ssa.Alloc:
		if at, ok := x.Type().Underlying().(*types.Pointer).Elem().Underlying().(*types.Array); ok {
			if b, ok := at.Elem().Underlying().(*types.Basic); ok && b.Kind() == types.Uint8 {
				return "s:" + x.Parent().Name() + "." + x.Comment, 0, true
			}
		}
	}
	return "", 0, false
}

func (m *c08M) elemRegion(w *pathWalker, ia *ssa.IndexAddr) (string, int64, bool, bool) {
	cl, o, ok := m.region(w, ia.X)
	if !ok {
		return "", 0, false, false
	}
	k, okI := w.env.eval(ia.Index)
	return cl, o + k, true, okI
}

// scratchBytes: the tracked content of k bytes of a local buffer.
func (m *c08M) scratchBytes(w *pathWalker, v ssa.Value, k int64) ([]int64, bool) {
	var base string
	off := int64(0)
	for base == "" {
		switch x := v.(type) {
		case *ssa.Slice:
			if x.Low != nil {
				lo, ok := w.env.eval(x.Low)
				if !ok {
					return nil, false
				}
				off += lo
			}
			v = x.X
		case *ssa.ChangeType:
			v = x.X
		case *ssa.Alloc:
			base = w.path(x)
			if base == "" {
				return nil, false
			}
		case *ssa.Parameter:
			base = x.Name()
		default:
			return nil, false
		}
	}
	out := make([]int64, k)
	for i := int64(0); i < k; i++ {
		b, ok := w.state[base+"["+itoa(off+i)+"]"]
		if !ok || b == c08Unk {
			return nil, false
		}
		out[i] = b
	}
	return out, true
}

// forget marks the tracked bytes of a local buffer as unknown (it was written
// by something that is not modelled byte by byte).
func (m *c08M) forget(w *pathWalker, v ssa.Value) {
	for {
		switch x := v.(type) {
		case *ssa.Slice:
			v = x.X
			continue
		case *ssa.ChangeType:
			v = x.X
			continue
		case *ssa.Alloc:
			if p := w.path(x); p != "" {
				for k := range w.state {
					if strings.HasPrefix(k, p+"[") {
						w.state[k] = c08Unk
					}
				}
			}
		case *ssa.Parameter:
			for k := range w.state {
				if strings.HasPrefix(k, x.Name()+"[") {
					w.state[k] = c08Unk
				}
			}
		}
		return
	}
}

func (m *c08M) onStore(w *pathWalker, st *ssa.Store) string {
	if al, ok := st.Addr.(*ssa.Alloc); ok {
		if n, ok := w.env.eval(st.Val); ok {
			m.cell[al] = n
		} else {
			delete(m.cell, al)
		}
	}
	p := w.path(st.Addr)
	alias := false
	if p == "" {
		p = m.path2(w, st.Addr)
		alias = p != ""
	}
	if u, ok := st.Val.(*ssa.UnOp); ok && u.Op == token.MUL && p != "" && c08IsAggregate(u.Type()) {
		q := w.path(u.X)
		if alias || q == "" {
			if q2 := m.path2(w, u.X); q2 != "" {
				c08CopyKeys(w.state, p, w.state, q2)
			}
		}
		if m.isSponge(u.Type()) {
			k := p + "." + m.fA + c08GenKey
			if g, ok := w.state[k]; ok && g != c08Unk {
				w.state[k] = g + 1
			}
		} else if fa, ok := st.Addr.(*ssa.FieldAddr); ok && m.isSponge(fa.X.Type()) && derefStruct(fa.X.Type()).Field(fa.Field).Name() == m.fA {
			// the state array copied on its own (a copy built field by field)
			if q2 := m.path2(w, u.X); q2 != "" {
				if g, ok := w.state[q2+c08GenKey]; ok && g != c08Unk {
					w.state[p+c08GenKey] = g + 1
				}
			}
		}
	}
	if _, isLoad := st.Val.(*ssa.UnOp); !isLoad && p != "" && c08IsAggregate(st.Val.Type()) {
		// a record value produced by an interpreted call
		if id, ok := m.objOf(w, st.Val); ok && c08HasKeys(w.state, "#"+itoa(id)) {
			c08CopyKeys(w.state, p, w.state, "#"+itoa(id))
			if m.isSponge(st.Val.Type()) {
				k := p + "." + m.fA + c08GenKey
				if g, ok := w.state[k]; ok && g != c08Unk {
					w.state[k] = g + 1
				}
			}
		}
	}
	if _, ok := st.Addr.(*ssa.Alloc); ok && p != "" && !alias && !c08IsAggregate(st.Val.Type()) {
		// a local variable that lives in memory (captured by a closure, or
		// address-taken): its value is forwarded to later loads
		if _, tracked := w.state[p]; !tracked {
			if n, ok := w.env.eval(st.Val); ok {
				w.state[p] = n
			}
		}
	}
	if _, ok := st.Addr.(*ssa.FieldAddr); ok && p != "" && !c08IsAggregate(st.Val.Type()) {
		if _, tracked := w.state[p]; !tracked || alias {
			if n, ok := w.env.eval(st.Val); ok {
				w.state[p] = n
			} else {
				w.state[p] = c08Unk
			}
		}
	}
	ia, ok := st.Addr.(*ssa.IndexAddr)
	if !ok {
		return ""
	}
	cl, idx, okR, okI := m.elemRegion(w, ia)
	if !okR {
		return ""
	}
	isState := strings.HasPrefix(cl, "a")
	if !okI {
		if isState {
			return "BAD store into the sponge state at an index that does not evaluate"
		}
		if strings.HasPrefix(cl, "s:") {
			m.forget(w, ia.X)
		}
		return "W " + cl + " ?"
	}
	// the value: a load of a state byte, of an input byte, or a constant
	loadOf := func(v ssa.Value) (string, int64, bool) {
		ld, ok := v.(*ssa.UnOp)
		if !ok || ld.Op != token.MUL {
			return "", 0, false
		}
		ia2, ok := ld.X.(*ssa.IndexAddr)
		if !ok {
			return "", 0, false
		}
		c2, o2, okR, okI := m.elemRegion(w, ia2)
		return c2, o2, okR && okI
	}
	if isState {
		if bo, ok := st.Val.(*ssa.BinOp); ok && bo.Op == token.XOR {
			for _, pr := range [][2]ssa.Value{{bo.X, bo.Y}, {bo.Y, bo.X}} {
				c2, o2, ok := loadOf(pr[0])
				if !ok || c2 != cl || o2 != idx {
					continue
				}
				if n, ok := w.env.eval(pr[1]); ok && n != c08Unk {
					return fmt.Sprintf("C %s %d %d", cl, idx, n&0xff)
				}
				if c3, o3, ok := loadOf(pr[1]); ok && !strings.HasPrefix(c3, "a") && !strings.HasPrefix(c3, "s:") {
					return fmt.Sprintf("X %s %d %s %d 1", cl, idx, c3, o3)
				}
				return fmt.Sprintf("BAD a value the model cannot follow is XORed into state byte %d", idx)
			}
		}
		if n, ok := w.env.eval(st.Val); ok && n != c08Unk {
			return fmt.Sprintf("W %s %d %d", cl, idx, n&0xff)
		}
		return fmt.Sprintf("W %s %d", cl, idx)
	}
	if c2, o2, ok := loadOf(st.Val); ok && strings.HasPrefix(c2, "a") {
		return fmt.Sprintf("O %s %d %s %d 1", cl, idx, c2, o2)
	}
	if strings.HasPrefix(cl, "s:") {
		// content of local buffers is tracked by the walker itself when the
		// address resolves; through a reslice it is tracked here
		if w.path(st.Addr) == "" {
			if base, o, ok := m.scratchKey(w, ia.X); ok {
				k, _ := w.env.eval(ia.Index)
				key := base + "[" + itoa(o+k) + "]"
				if n, ok := w.env.eval(st.Val); ok {
					w.state[key] = n
				} else {
					w.state[key] = c08Unk
				}
			} else {
				m.forget(w, ia.X)
			}
		}
		return ""
	}
	return fmt.Sprintf("W %s %d", cl, idx)
}

func (m *c08M) scratchKey(w *pathWalker, v ssa.Value) (string, int64, bool) {
	off := int64(0)
	for {
		switch x := v.(type) {
		case *ssa.Slice:
			if x.Low != nil {
				lo, ok := w.env.eval(x.Low)
				if !ok {
					return "", 0, false
				}
				off += lo
			}
			v = x.X
		case *ssa.ChangeType:
			v = x.X
		case *ssa.Alloc:
			p := w.path(x)
			return p, off, p != ""
		case *ssa.Parameter:
			return x.Name(), off, true
		default:
			return "", 0, false
		}
	}
}

func (m *c08M) onInline(parent, child *pathWalker, callee *ssa.Function, args []ssa.Value) {
	m.enter(child.env, child.state, callee)
	for i, p := range callee.Params {
		if i >= len(args) {
			break
		}
		if parent.path(args[i]) == "" {
			// a record the walker does not see behind this argument: an object
			// produced by an interpreted call, or a record boxed in an interface
			if id, ok := m.objOf(parent, args[i]); ok {
				child.env.bind(p, id)
			}
			if src := m.path2(parent, c08Strip(args[i])); src != "" {
				c08CopyKeys(child.state, p.Name(), parent.state, src)
			}
		}
		switch p.Type().Underlying().(type) {
		case *types.Slice, *types.Pointer:
			if _, has := parent.cls[p]; !has {
				if cl, o, ok := m.region(parent, args[i]); ok {
					parent.cls[p], parent.off[p] = cl, o
				}
			}
		}
	}
	if mc := m.closure[callee]; mc != nil {
		for j, fv := range callee.FreeVars {
			if j < len(mc.Bindings) {
				if al, ok := mc.Bindings[j].(*ssa.Alloc); ok {
					if n, ok := m.cell[al]; ok {
						child.state[fv.Name()] = n
					}
				}
			}
		}
	}
}

func (m *c08M) onReturn(parent, child *pathWalker, call *ssa.Call, results []ssa.Value) {
	if callee := call.Call.StaticCallee(); callee != nil {
		for i, p := range callee.Params {
			if i >= len(call.Call.Args) {
				break
			}
			a := call.Call.Args[i]
			if parent.path(a) != "" {
				// the walker copied the callee's view back; local buffers handed down
				// as a reslice are not mapped: forget their content
				continue
			}
			if src := m.path2(parent, c08Strip(a)); src != "" {
				if _, isPtr := c08Strip(a).Type().Underlying().(*types.Pointer); isPtr {
					c08CopyKeys(parent.state, src, child.state, p.Name())
				}
			} else if cl, _, ok := m.region(parent, a); ok && strings.HasPrefix(cl, "s:") {
				m.forget(parent, a)
			}
		}
	}
	for k, v := range child.state {
		if strings.HasPrefix(k, "#") {
			parent.state[k] = v
		}
	}
	if len(results) != 1 {
		return
	}
	r := c08Strip(results[0])
	switch r.Type().Underlying().(type) {
	case *types.Struct:
		// a record returned by value: its tracked fields travel with the call value
		if cp := child.valPath(r); cp != "" && c08HasKeys(child.state, cp) {
			id := m.newID()
			m.objType[id] = r.Type()
			c08CopyKeys(parent.state, "#"+itoa(id), child.state, cp)
			if u, ok := r.(*ssa.UnOp); ok {
				if _, fresh := u.X.(*ssa.Alloc); fresh {
					c08ZeroFill(parent.state, "#"+itoa(id), derefStruct(r.Type()))
				}
			}
			parent.env.bind(call, id)
		}
	case *types.Pointer:
		if derefStruct(r.Type()) == nil {
			return
		}
		if id, ok := m.objOf(child, r); ok {
			parent.env.bind(call, id)
			return
		}
		if cp := child.path(r); cp != "" {
			id := m.newID()
			m.objType[id] = r.Type()
			c08CopyKeys(parent.state, "#"+itoa(id), child.state, cp)
			parent.state["#"+itoa(id)+".§"] = 1
			if _, fresh := r.(*ssa.Alloc); fresh {
				c08ZeroFill(parent.state, "#"+itoa(id), derefStruct(r.Type()))
			}
			parent.env.bind(call, id)
		}
	case *types.Slice:
		if _, has := parent.cls[call]; !has {
			if cl, o, ok := m.region(child, results[0]); ok {
				parent.cls[call], parent.off[call] = cl, o
			}
		}
	}
}

// concrete: the dynamic type of an interface value that holds a record of the
// package — an object produced by an interpreted call, or a pointer boxed in
// the function itself — and the value to pass as the receiver.
func (m *c08M) concrete(w *pathWalker, v ssa.Value) (types.Type, ssa.Value) {
	if id, ok := m.objOf(w, v); ok && m.objType[id] != nil {
		return m.objType[id], v
	}
	r := c08Strip(v)
	if p, ok := r.Type().(*types.Pointer); ok {
		if n, ok := p.Elem().(*types.Named); ok && n.Obj().Pkg() == m.pkg.Pkg && m.path2(w, r) != "" {
			return r.Type(), r
		}
	}
	return nil, nil
}

// inlineAs interprets callee in place of the call instruction ci with the
// given argument values (used for calls the walker does not resolve itself:
// interface methods of a known object, function values).
func (m *c08M) inlineAs(w *pathWalker, ci ssa.CallInstruction, callee *ssa.Function, args []ssa.Value) string {
	if callee == nil || len(callee.Blocks) == 0 || w.depth >= 8 {
		name := "a function value"
		if callee != nil {
			name = callee.Name()
		}
		return "BAD call of " + name + " cannot be interpreted"
	}
	fake := &ssa.Call{}
	fake.Call.Value = callee
	fake.Call.Args = args
	trial := w.clone()
	trial.root = w.root
	end := trial.inlineCall(fake, callee)
	if end != "return" {
		return "BAD " + callee.Name() + " called here ends with " + end + " " + trial.why
	}
	root := w.root
	*w = *trial
	w.root = root
	if v, ok := ci.(ssa.Value); ok {
		if n, ok := w.env.vals[fake]; ok {
			w.env.bind(v, n)
		}
		if t, ok := w.tuple[fake]; ok {
			w.tuple[v] = t
		}
		if cl, ok := w.cls[fake]; ok {
			w.cls[v], w.off[v] = cl, w.off[fake]
		}
	}
	return ""
}

func (m *c08M) evalArgs(w *pathWalker, args []ssa.Value) string {
	var s []string
	for _, a := range args {
		if n, ok := w.env.eval(a); ok {
			s = append(s, itoa(n))
		} else {
			s = append(s, "?")
		}
	}
	return strings.Join(s, ",")
}

func (m *c08M) onCall(w *pathWalker, ci ssa.CallInstruction) string {
	cc := ci.Common()
	nm := short(calleeName(cc))
	val, _ := ci.(ssa.Value)
	callee := cc.StaticCallee()
	if w.tuple == nil {
		w.tuple = map[ssa.Value][]optInt{}
	}
	length := func(v ssa.Value) (int64, bool) { return w.env.eval(v) }
	if _, isCall := ci.(*ssa.Call); !isCall {
		return "BAD a deferred or concurrent call is not modelled: " + nm
	}
	switch {
	case callee != nil && callee.Pkg == m.pkg && m.core[callee.Name()]:
		cl, o, ok := m.region(w, cc.Args[0])
		if !ok || o != 0 {
			cl = "?"
		}
		return "P " + cl
	case nm == "crypto/subtle.XORBytes":
		ld, ok1 := length(cc.Args[0])
		lx, ok2 := length(cc.Args[1])
		ly, ok3 := length(cc.Args[2])
		if !ok1 || !ok2 || !ok3 {
			return "BAD XORBytes with lengths that do not evaluate"
		}
		k := min(lx, ly)
		if val != nil {
			w.env.bind(val, k)
		}
		if ld < k {
			return "BAD XORBytes destination shorter than its inputs (panics)"
		}
		dcl, doff, dok := m.region(w, cc.Args[0])
		if !dok {
			return "BAD XORBytes into a buffer the model cannot follow"
		}
		if !strings.HasPrefix(dcl, "a") {
			m.forget(w, cc.Args[0])
			return fmt.Sprintf("W %s %d", dcl, doff)
		}
		var src ssa.Value
		for _, pr := range [][2]ssa.Value{{cc.Args[1], cc.Args[2]}, {cc.Args[2], cc.Args[1]}} {
			if c2, o2, ok := m.region(w, pr[0]); ok && c2 == dcl && o2 == doff {
				src = pr[1]
				break
			}
		}
		if src == nil {
			return "BAD XORBytes overwrites the sponge state (its destination is not one of its operands)"
		}
		if k == 0 {
			return ""
		}
		if bs, ok := m.scratchBytes(w, src, k); ok {
			var toks []string
			for i, b := range bs {
				if b != 0 {
					toks = append(toks, fmt.Sprintf("C %s %d %d", dcl, doff+int64(i), b&0xff))
				}
			}
			return strings.Join(toks, ";")
		}
		scl, soff, sok := m.region(w, src)
		if !sok || strings.HasPrefix(scl, "a") || strings.HasPrefix(scl, "s:") {
			return "BAD bytes the model cannot follow are XORed into the sponge state"
		}
		return fmt.Sprintf("X %s %d %s %d %d", dcl, doff, scl, soff, k)
	case nm == "builtin:copy":
		ld, ok1 := length(cc.Args[0])
		ls, ok2 := length(cc.Args[1])
		if !ok1 || !ok2 {
			return "BAD copy with lengths that do not evaluate"
		}
		k := min(ld, ls)
		dcl, doff, dok := m.region(w, cc.Args[0])
		scl, soff, sok := m.region(w, cc.Args[1])
		if dok && strings.HasPrefix(dcl, "a") {
			return "BAD copy overwrites the sponge state"
		}
		if dok && strings.HasPrefix(dcl, "s:") {
			m.forget(w, cc.Args[0])
		}
		if k == 0 {
			return ""
		}
		if sok && strings.HasPrefix(scl, "a") {
			if !dok {
				return "BAD state bytes copied to a buffer the model cannot follow"
			}
			return fmt.Sprintf("O %s %d %s %d %d", dcl, doff, scl, soff, k)
		}
		if dok {
			return fmt.Sprintf("W %s %d", dcl, doff)
		}
		return ""
	case nm == "builtin:append":
		if len(cc.Args) != 2 || val == nil {
			return ""
		}
		l0, ok1 := length(cc.Args[0])
		l1, ok2 := length(cc.Args[1])
		if !ok1 || !ok2 {
			return ""
		}
		w.env.bind(val, l0+l1)
		c0, o0, k0 := m.region(w, cc.Args[0])
		c1, o1, k1 := m.region(w, cc.Args[1])
		if k0 && k1 {
			w.cls[val], w.off[val] = fmt.Sprintf("app(%s+%d+%d|%s+%d+%d)", c0, o0, l0, c1, o1, l1), 0
		}
		return ""
	case nm == "builtin:clear":
		if cl, o, ok := m.region(w, cc.Args[0]); ok {
			if strings.HasPrefix(cl, "a") {
				return "BAD clear() on the sponge state"
			}
			if strings.HasPrefix(cl, "s:") {
				m.forget(w, cc.Args[0])
			}
			return fmt.Sprintf("W %s %d", cl, o)
		}
		return ""
	case strings.HasPrefix(nm, "builtin:"):
		return ""
	case strings.HasPrefix(nm, "(encoding/binary.") && len(cc.Args) >= 2:
		// the state array loaded into / stored back from lanes around the core
		// (the portable form of the permutation wrapper)
		meth := nm[strings.LastIndex(nm, ".")+1:]
		width := map[string]int64{"Uint64": 8, "PutUint64": 8, "Uint32": 4, "PutUint32": 4, "Uint16": 2, "PutUint16": 2}[meth]
		cl, o, ok := m.region(w, cc.Args[1])
		if width == 0 || !ok {
			return ""
		}
		put := strings.HasPrefix(meth, "Put")
		switch {
		case strings.HasPrefix(cl, "a") && put:
			return fmt.Sprintf("U %s %d %d", cl, o, width)
		case strings.HasPrefix(cl, "a"):
			return fmt.Sprintf("L %s %d %d", cl, o, width)
		case put && strings.HasPrefix(cl, "s:"):
			if _, _, tracked := w.bytePath(cc.Args[1]); !tracked {
				m.forget(w, cc.Args[1])
			}
			return ""
		case put:
			return fmt.Sprintf("W %s %d", cl, o)
		}
		return ""
	case nm == "io.ReadFull" && len(cc.Args) == 2:
		// io.ReadFull(r, buf) on a known reader: r.Read(buf) (a sponge always fills the buffer)
		if t, recv := m.concrete(w, cc.Args[0]); t != nil {
			return m.inlineAs(w, ci, m.pkg.Prog.LookupMethod(t, nil, "Read"), []ssa.Value{recv, cc.Args[1]})
		}
		return "CALL " + nm
	case callee != nil && callee.Pkg != nil && callee.Pkg.Pkg.Path() == "crypto/sha3":
		return m.stdCall(w, ci, callee, cc.Args)
	case cc.IsInvoke():
		t, recv := m.concrete(w, cc.Value)
		if t == nil {
			return "CALL invoke " + cc.Method.Name()
		}
		impl := m.pkg.Prog.LookupMethod(t, cc.Method.Pkg(), cc.Method.Name())
		return m.inlineAs(w, ci, impl, append([]ssa.Value{recv}, cc.Args...))
	case callee == nil:
		id, ok := w.env.eval(cc.Value)
		if !ok {
			return "CALL dynamic"
		}
		if m.factory != 0 && id == m.factory {
			x := m.newID()
			if val != nil {
				w.env.bind(val, x)
			}
			return fmt.Sprintf("S.new %d -> %d", id, x)
		}
		switch fv := m.fnByID[id].(type) {
		case *ssa.Function:
			if fv.Pkg != nil && fv.Pkg.Pkg.Path() == "crypto/sha3" {
				return m.stdCall(w, ci, fv, cc.Args)
			}
			return m.inlineAs(w, ci, fv, cc.Args)
		case *ssa.MakeClosure:
			return m.inlineAs(w, ci, fv.Fn.(*ssa.Function), cc.Args)
		}
		return "CALL dynamic"
	case callee != nil && callee.Pkg == m.pkg:
		// the walker tried to interpret it in place and gave up, or the nesting
		// is deeper than it follows on its own
		if w.depth >= 4 {
			return m.inlineAs(w, ci, callee, cc.Args)
		}
		why := ""
		if call, ok := ci.(*ssa.Call); ok && len(callee.Blocks) > 0 {
			t := w.clone()
			t.root = w.root
			if end := t.inlineCall(call, callee); end != "return" && end != "panic" {
				why = ": " + t.why
			}
		}
		return "BAD call of " + callee.Name() + " cannot be interpreted" + why
	}
	return "CALL " + nm
}

// stdCall: a function or method of crypto/sha3 (trusted, not entered).
func (m *c08M) stdCall(w *pathWalker, ci ssa.CallInstruction, callee *ssa.Function, args []ssa.Value) string {
	val, _ := ci.(ssa.Value)
	if callee.Signature.Recv() == nil {
		id := m.newID()
		if val != nil {
			w.env.bind(val, id)
		}
		return fmt.Sprintf("S.ctor %s %s -> %d", callee.Name(), m.evalArgs(w, args), id)
	}
	recv := "?"
	if n, ok := w.env.eval(args[0]); ok {
		recv = itoa(n)
	}
	bufArg := func(i int) string {
		if i >= len(args) {
			return "? 0 0"
		}
		cl, o, ok := m.region(w, args[i])
		if !ok {
			cl = "?"
		}
		l, _ := w.env.eval(args[i])
		return fmt.Sprintf("%s %d %d", cl, o, l)
	}
	switch callee.Name() {
	case "MarshalBinary":
		b := m.newID()
		if val != nil {
			w.tuple[val] = []optInt{{b, true}, {m.errMarshal, true}}
		}
		return fmt.Sprintf("S.marshal %s -> %d", recv, b)
	case "UnmarshalBinary":
		if val != nil {
			w.env.bind(val, m.errUnmarshal)
		}
		return fmt.Sprintf("S.unmarshal %s %s", recv, m.evalArgs(w, args[1:]))
	case "Read", "Write":
		if val != nil {
			l, _ := w.env.eval(args[1])
			w.tuple[val] = []optInt{{l, true}, {0, true}}
		}
		return fmt.Sprintf("S.%s %s %s", strings.ToLower(callee.Name()), recv, bufArg(1))
	}
	return fmt.Sprintf("S.%s %s %s", strings.ToLower(callee.Name()), recv, m.evalArgs(w, args[1:]))
}

// tokens of a finished walk
func c08Tokens(w *pathWalker) []string {
	var out []string
	for _, e := range w.events {
		for _, t := range strings.Split(e, ";") {
			if t != "" {
				out = append(out, t)
			}
		}
	}
	return out
}

// ---------------------------------------------------------------------------
// sponge transcript

type c08Phase struct {
	cxor map[int64]int64    // state byte -> XOR of the constants merged into it
	pxor map[int64][]string // state byte -> input bytes ("io+17") merged into it
}

type c08Script struct {
	phases []c08Phase
	permOn []string
	outs   map[string]map[int64][2]int64 // buffer -> byte -> (permutations before, state byte)
	gens   map[string]bool
	plain  []string
	bad    string
	std    []string
	other  []string
}

// c08Lanes rewrites "the whole state array of one sponge is loaded into lanes,
// the core runs on the lanes, the lanes are stored back into the same array"
// into the permutation of that array.
func c08Lanes(toks []string) []string {
	cover := func(ts []string, kind string) (string, bool) {
		got := map[int64]bool{}
		cl := ""
		for _, t := range ts {
			f := strings.Fields(t)
			if len(f) != 4 || f[0] != kind || (cl != "" && f[1] != cl) {
				return "", false
			}
			cl = f[1]
			var o, n int64
			fmt.Sscan(f[2], &o)
			fmt.Sscan(f[3], &n)
			for i := o; i < o+n; i++ {
				got[i] = true
			}
		}
		for i := int64(0); i < 200; i++ {
			if !got[i] {
				return "", false
			}
		}
		return cl, true
	}
	var out []string
	for i := 0; i < len(toks); i++ {
		if toks[i] != "P ?" {
			out = append(out, toks[i])
			continue
		}
		lo := len(out)
		for lo > 0 && strings.HasPrefix(out[lo-1], "L ") {
			lo--
		}
		hi := i + 1
		for hi < len(toks) && strings.HasPrefix(toks[hi], "U ") {
			hi++
		}
		c1, ok1 := cover(out[lo:], "L")
		c2, ok2 := cover(toks[i+1:hi], "U")
		if ok1 && ok2 && c1 == c2 {
			out = append(out[:lo], "P "+c1)
			i = hi - 1
			continue
		}
		out = append(out, toks[i])
	}
	return out
}

func c08Parse(toks []string) *c08Script {
	toks = c08Lanes(toks)
	s := &c08Script{outs: map[string]map[int64][2]int64{}, gens: map[string]bool{}}
	newPhase := func() { s.phases = append(s.phases, c08Phase{map[int64]int64{}, map[int64][]string{}}) }
	newPhase()
	for _, t := range toks {
		f := strings.Fields(t)
		cur := &s.phases[len(s.phases)-1]
		num := func(i int) int64 {
			var n int64
			if i < len(f) {
				fmt.Sscan(f[i], &n)
			}
			return n
		}
		switch {
		case f[0] == "BAD":
			if s.bad == "" {
				s.bad = strings.TrimPrefix(t, "BAD ")
			}
		case f[0] == "P":
			s.permOn = append(s.permOn, f[1])
			s.gens[f[1]] = true
			newPhase()
		case f[0] == "C":
			s.gens[f[1]] = true
			cur.cxor[num(2)] ^= num(3)
			if cur.cxor[num(2)] == 0 {
				delete(cur.cxor, num(2))
			}
		case f[0] == "X":
			s.gens[f[1]] = true
			for i := int64(0); i < num(5); i++ {
				cur.pxor[num(2)+i] = append(cur.pxor[num(2)+i], fmt.Sprintf("%s+%d", f[3], num(4)+i))
			}
		case f[0] == "O":
			s.gens[f[3]] = true
			if s.outs[f[1]] == nil {
				s.outs[f[1]] = map[int64][2]int64{}
			}
			for i := int64(0); i < num(5); i++ {
				s.outs[f[1]][num(2)+i] = [2]int64{int64(len(s.phases) - 1), num(4) + i}
			}
		case f[0] == "W":
			if strings.HasPrefix(f[1], "a") {
				s.gens[f[1]] = true
				s.plain = append(s.plain, t)
			} else {
				s.other = append(s.other, t)
			}
		case strings.HasPrefix(f[0], "S."):
			s.std = append(s.std, t)
		default:
			s.other = append(s.other, t)
		}
	}
	return s
}

func c08SortedKeys[V any](m map[int64]V) []int64 {
	var ks []int64
	for k := range m {
		ks = append(ks, k)
	}
	sort.Slice(ks, func(i, j int) bool { return ks[i] < ks[j] })
	return ks
}

func c08ShowC(m map[int64]int64) string {
	if len(m) == 0 {
		return "nothing"
	}
	var s []string
	for _, k := range c08SortedKeys(m) {
		v := fmt.Sprintf("%#02x", m[k])
		switch m[k] {
		case c08DS:
			v = "dsbyte"
		case c08DS ^ 0x80:
			v = "dsbyte^0x80"
		}
		s = append(s, fmt.Sprintf("a[%d]^=%s", k, v))
	}
	return strings.Join(s, ", ")
}
