package main

import (
	"fmt"
	"strings"

	"golang.org/x/tools/go/ssa"
)

// c25RC4Discard: RFC 4345 arcfour128/arcfour256 discard the first 1536 bytes
// of key stream. The closure built by streamCipherMode(skip, …) is interpreted
// (slices by length) for several skip values: the XORKeyStream calls made on
// the fresh stream before the packet cipher is returned must consume exactly
// `skip` bytes, each on a scratch buffer (dst == src). The cipherModes table
// must request 1536 for the two RFC 4345 names and 0 for plain arcfour and
// the AES-CTR modes. Go-to-Go tests cannot see a wrong amount (both sides
// share it); a peer implementation would.
func c25RC4Discard(c *Ctx) {
	outer := c.fn("ssh", "streamCipherMode")
	if outer == nil {
		return
	}
	// the closure that captures the first parameter (the amount to discard) —
	// identified by the binding, not by the variable's name
	var f *ssa.Function
	var skipFV *ssa.FreeVar
	nClosures := 0
	if len(outer.Params) >= 1 {
		skipParam := ssa.Value(outer.Params[0])
		holdsSkip := func(v ssa.Value) bool {
			if v == skipParam {
				return true
			}
			al, ok := v.(*ssa.Alloc)
			if !ok || al.Referrers() == nil {
				return false
			}
			for _, r := range *al.Referrers() {
				if st, ok := r.(*ssa.Store); ok && st.Addr == ssa.Value(al) && st.Val == skipParam {
					return true
				}
			}
			return false
		}
		allInstrs(outer, func(in ssa.Instruction) {
			mc, ok := in.(*ssa.MakeClosure)
			if !ok {
				return
			}
			fn, _ := mc.Fn.(*ssa.Function)
			if fn == nil {
				return
			}
			for i, b := range mc.Bindings {
				if i < len(fn.FreeVars) && holdsSkip(b) {
					f, skipFV = fn, fn.FreeVars[i]
					nClosures++
				}
			}
		})
	}
	if nClosures != 1 || f == nil || skipFV == nil {
		c.undecided("C25.rc4-discard", "streamCipherMode closure", outer, "constructor closure capturing the discard amount not found")
		return
	}
	bad := ""
	for _, skip := range []int64{0, 1, 511, 512, 513, 1024, 1535, 1536, 1537, 3000} {
		w := &pathWalker{env: newEnv(), lengths: true, maxSteps: 5000, assumeErrNil: true}
		// skip may be captured by value or by reference
		w.env.bind(skipFV, skip)
		allInstrs(f, func(in ssa.Instruction) {
			if u, ok := in.(*ssa.UnOp); ok && u.X == ssa.Value(skipFV) {
				w.env.bind(u, skip)
			}
		})
		total := int64(0)
		problem := ""
		w.onCall = func(w *pathWalker, ci ssa.CallInstruction) string {
			cc := ci.Common()
			if cc.IsInvoke() && cc.Method.Name() == "XORKeyStream" {
				d, ok1 := w.env.eval(cc.Args[0])
				s, ok2 := w.env.eval(cc.Args[1])
				if !ok1 || !ok2 || d != s {
					problem = "discard call with unevaluated or unequal lengths"
				}
				total += s
			}
			return ""
		}
		end := w.walk(f.Blocks[0], nil)
		switch {
		case end != "return":
			bad = fmt.Sprintf("skip=%d: evaluation ended with %s %s", skip, end, w.why)
		case problem != "":
			bad = fmt.Sprintf("skip=%d: %s", skip, problem)
		case total != skip:
			bad = fmt.Sprintf("skip=%d: %d key-stream bytes are discarded", skip, total)
		case w.oob:
			bad = fmt.Sprintf("skip=%d: a slice expression leaves its bounds", skip)
		}
		if bad != "" {
			break
		}
	}
	c.check(bad == "", "C25.rc4-discard", "streamCipherMode discards exactly skip bytes", f, "for skip in {0,1,511,512,513,1024,1535,1536,1537,3000} exactly skip key-stream bytes are consumed before the first packet", bad)
	// table
	want := map[string]int64{"arcfour128": 1536, "arcfour256": 1536, "arcfour": 0, "aes128-ctr": 0, "aes192-ctr": 0, "aes256-ctr": 0}
	seen := 0
	for _, me := range c.mapUpdates("ssh", "cipherModes") {
		w, ok := want[me.key]
		if !ok {
			continue
		}
		lf := litFields(stripConv(me.val))
		okRow := false
		if cl, isC := lf["create"].(*ssa.Call); isC && strings.HasSuffix(short(calleeName(&cl.Call)), "ssh.streamCipherMode") {
			if k, isK := constInt(cl.Call.Args[0]); isK && k == w {
				okRow = true
			}
		}
		seen++
		c.check(okRow, "C25.rc4-discard", "cipherModes["+me.key+"]", me.at, fmt.Sprintf("stream mode with %d discarded bytes", w), fmt.Sprintf("%s is not registered as a stream cipher discarding %d bytes (RFC 4345)", me.key, w))
	}
	c.check(seen == len(want), "C25.rc4-discard", "stream cipher table", nil, fmt.Sprintf("%d stream modes", seen), fmt.Sprintf("only %d of the %d stream cipher names are registered", seen, len(want)))
}
