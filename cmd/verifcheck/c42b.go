package main

import (
	"fmt"

	"golang.org/x/tools/go/ssa"
)

// c42PatternTable: hostPatterns.match is interpreted (hostPattern.match
// inlined, wildcardMatch treated as an oracle whose verdict per pattern is part
// of the assignment) for pattern lists of length 0, 1 and 2, every combination
// of (negated, host wildcard matches, port equal) per pattern. OpenSSH's
// match_hostname semantics: a pattern applies only when the host wildcard
// matches AND the port is equal; an applying negated pattern rejects the line
// wherever it stands; otherwise the line matches iff some applying pattern is
// positive. A negated pattern for another port does not apply.
//
// Returns the wildcard matcher(s) the list matcher consults, for c42Wildcard.
func c42PatternTable(c *Ctx) []*ssa.Function {
	f := c.fn("ssh/knownhosts", "(hostPatterns).match")
	if f == nil {
		return nil
	}
	psP, aP := f.Params[0], f.Params[1]
	oracle := map[string]*ssa.Function{}
	cases, bad := 0, ""
	for n := 0; n <= 2 && bad == ""; n++ {
		combos := 1
		for i := 0; i < n; i++ {
			combos *= 8
		}
		for m := 0; m < combos && bad == ""; m++ {
			neg, hostM, portEq := make([]bool, n), make([]bool, n), make([]bool, n)
			x := m
			for i := 0; i < n; i++ {
				neg[i], hostM[i], portEq[i] = x&1 != 0, x&2 != 0, x&4 != 0
				x >>= 3
			}
			w := &pathWalker{env: newEnv(), lengths: true, maxSteps: 4000}
			w.env.bind(psP, int64(n))
			w.state = map[string]int64{aP.Name() + ".host": 7, aP.Name() + ".port": 22}
			hostID := map[int64]int{}
			for i := 0; i < n; i++ {
				pre := fmt.Sprintf("%s[%d]", psP.Name(), i)
				w.state[pre+".negate"] = b2i(neg[i])
				w.state[pre+".addr.host"] = int64(100 + i)
				hostID[int64(100+i)] = i
				if portEq[i] {
					w.state[pre+".addr.port"] = 22
				} else {
					w.state[pre+".addr.port"] = 2222
				}
			}
			// helpers of the package (hostPattern.match or whatever the list
			// matcher is split into) are interpreted in place; the wildcard
			// matcher is the oracle. It is recognised by its role — the function
			// of the package that is handed a pattern's host and the queried host —
			// and is never interpreted here (it has its own table).
			w.inline = func(callee *ssa.Function) bool {
				return callee.Pkg == f.Pkg && !c42GlobShape(callee)
			}
			problem := ""
			w.onCall = func(w *pathWalker, ci ssa.CallInstruction) string {
				cc := ci.Common()
				callee := cc.StaticCallee()
				val, isVal := ci.(ssa.Value)
				if callee == nil || callee.Pkg != f.Pkg || len(cc.Args) != 2 || !isVal || val.Type().String() != "bool" {
					return ""
				}
				pid, ok1 := w.env.eval(stripConv(cc.Args[0]))
				sid, ok2 := w.env.eval(stripConv(cc.Args[1]))
				if !ok1 || !ok2 {
					return ""
				}
				idx, known := hostID[pid]
				if sid != 7 || !known {
					problem = callee.Name() + " is not called with (pattern host, queried host)"
					return ""
				}
				oracle[callee.Name()] = callee
				w.env.bind(val, b2i(hostM[idx]))
				return ""
			}
			end := w.walk(f.Blocks[0], nil)
			cases++
			id := fmt.Sprintf("patterns %v", describePatterns(neg, hostM, portEq))
			if end != "return" || problem != "" {
				bad = fmt.Sprintf("%s: %s %s %s", id, end, w.why, problem)
				break
			}
			got, ok := w.env.eval(retVal(w.last.(*ssa.Return), 0))
			want := false
			rejected := false
			for i := 0; i < n; i++ {
				if hostM[i] && portEq[i] {
					if neg[i] {
						rejected = true
					} else {
						want = true
					}
				}
			}
			if rejected {
				want = false
			}
			if !ok || (got != 0) != want {
				bad = fmt.Sprintf("%s: match returns %v, OpenSSH semantics give %v", id, got != 0, want)
			}
		}
	}
	c.check(bad == "" && cases == 73, "C42.pattern-table", "(hostPatterns).match decision table", f, fmt.Sprintf("%d pattern-list assignments (0-2 patterns x negate x host-match x port-equal) agree with OpenSSH's host-pattern semantics", cases), bad)
	var out []*ssa.Function
	for _, g := range oracle {
		out = append(out, g)
	}
	return out
}

// c42GlobShape: a plain function of two strings / byte slices to bool — the
// shape of the wildcard matcher, which the pattern table treats as an oracle.
func c42GlobShape(f *ssa.Function) bool {
	sig := f.Signature
	if sig.Recv() != nil || sig.Params().Len() != 2 || sig.Results().Len() != 1 || sig.Results().At(0).Type().String() != "bool" {
		return false
	}
	for i := 0; i < 2; i++ {
		if t := sig.Params().At(i).Type().String(); t != "[]byte" && t != "string" {
			return false
		}
	}
	return true
}

func describePatterns(neg, hostM, portEq []bool) []string {
	var out []string
	for i := range neg {
		s := ""
		if neg[i] {
			s = "!"
		}
		s += map[bool]string{true: "host-matches", false: "host-differs"}[hostM[i]] + "/" + map[bool]string{true: "same-port", false: "other-port"}[portEq[i]]
		out = append(out, s)
	}
	return out
}

var _ = ssa.Value(nil)
