package main

import (
	"fmt"
	"strings"

	"golang.org/x/tools/go/ssa"
)

// c42PatternTable: hostPatterns.match is interpreted (hostPattern.match
// inlined, wildcardMatch treated as an oracle whose verdict per pattern is part
// of the assignment) for pattern lists of length 0, 1 and 2, every combination
// of (negated, host wildcard matches, port equal) per pattern. OpenSSH's
// match_hostname semantics: a pattern applies only when the host wildcard
// matches AND the port is equal; an applying negated pattern rejects the line
// wherever it stands; otherwise the line matches iff some applying pattern is
// positive. A negated pattern for another port does not apply.
func c42PatternTable(c *Ctx) {
	f := c.fn("ssh/knownhosts", "(hostPatterns).match")
	if f == nil {
		return
	}
	psP, aP := f.Params[0], f.Params[1]
	cases, bad := 0, ""
	for n := 0; n <= 2 && bad == ""; n++ {
		combos := 1
		for i := 0; i < n; i++ {
			combos *= 8
		}
		for m := 0; m < combos && bad == ""; m++ {
			neg, hostM, portEq := make([]bool, n), make([]bool, n), make([]bool, n)
			x := m
			for i := 0; i < n; i++ {
				neg[i], hostM[i], portEq[i] = x&1 != 0, x&2 != 0, x&4 != 0
				x >>= 3
			}
			w := &pathWalker{env: newEnv(), lengths: true, maxSteps: 4000}
			w.env.bind(psP, int64(n))
			w.state = map[string]int64{aP.Name() + ".host": 7, aP.Name() + ".port": 22}
			hostID := map[int64]int{}
			for i := 0; i < n; i++ {
				pre := fmt.Sprintf("%s[%d]", psP.Name(), i)
				w.state[pre+".negate"] = b2i(neg[i])
				w.state[pre+".addr.host"] = int64(100 + i)
				hostID[int64(100+i)] = i
				if portEq[i] {
					w.state[pre+".addr.port"] = 22
				} else {
					w.state[pre+".addr.port"] = 2222
				}
			}
			w.inline = func(callee *ssa.Function) bool {
				return strings.HasSuffix(callee.String(), "hostPattern).match")
			}
			problem := ""
			w.onCall = func(w *pathWalker, ci ssa.CallInstruction) string {
				cc := ci.Common()
				if !strings.HasSuffix(short(calleeName(cc)), "knownhosts.wildcardMatch") {
					return ""
				}
				pid, ok1 := w.env.eval(stripConv(cc.Args[0]))
				sid, ok2 := w.env.eval(stripConv(cc.Args[1]))
				if !ok1 || !ok2 || sid != 7 {
					problem = "wildcardMatch is not called with (pattern host, queried host)"
					return ""
				}
				idx, known := hostID[pid]
				if !known {
					problem = "wildcardMatch called with an unknown pattern"
					return ""
				}
				w.env.bind(ci.(ssa.Value), b2i(hostM[idx]))
				return ""
			}
			end := w.walk(f.Blocks[0], nil)
			cases++
			id := fmt.Sprintf("patterns %v", describePatterns(neg, hostM, portEq))
			if end != "return" || problem != "" {
				bad = fmt.Sprintf("%s: %s %s %s", id, end, w.why, problem)
				break
			}
			got, ok := w.env.eval(retVal(w.last.(*ssa.Return), 0))
			want := false
			rejected := false
			for i := 0; i < n; i++ {
				if hostM[i] && portEq[i] {
					if neg[i] {
						rejected = true
					} else {
						want = true
					}
				}
			}
			if rejected {
				want = false
			}
			if !ok || (got != 0) != want {
				bad = fmt.Sprintf("%s: match returns %v, OpenSSH semantics give %v", id, got != 0, want)
			}
		}
	}
	c.check(bad == "" && cases == 73, "C42.pattern-table", "(hostPatterns).match decision table", f, fmt.Sprintf("%d pattern-list assignments (0-2 patterns x negate x host-match x port-equal) agree with OpenSSH's host-pattern semantics", cases), bad)
}

func describePatterns(neg, hostM, portEq []bool) []string {
	var out []string
	for i := range neg {
		s := ""
		if neg[i] {
			s = "!"
		}
		s += map[bool]string{true: "host-matches", false: "host-differs"}[hostM[i]] + "/" + map[bool]string{true: "same-port", false: "other-port"}[portEq[i]]
		out = append(out, s)
	}
	return out
}

var _ = ssa.Value(nil)
