package main

import (
	"go/token"
	"go/types"
	"strings"

	"golang.org/x/tools/go/ssa"
)

// C17.compare. The two facts are decided wherever the comparison sits:
// directly in CompareHashAndPassword or in a helper of the package that
// wraps it (a bool / error function whose positive result lies behind the
// constant-time match — it then establishes the match for its caller).

const c17ctc = "crypto/subtle.ConstantTimeCompare"

func c17allCalls(string) bool { return true }

// c17isMatchTest: v is `ConstantTimeCompare(...) == 1` (or `!= 0`).
func c17isMatchTest(v ssa.Value) bool {
	bo, ok := v.(*ssa.BinOp)
	if !ok {
		return false
	}
	x, y := bo.X, bo.Y
	if _, isC := x.(*ssa.Const); isC {
		x, y = y, x
	}
	call, ok := x.(*ssa.Call)
	if !ok || short(calleeName(&call.Call)) != c17ctc {
		return false
	}
	k, ok := constInt(y)
	return ok && (bo.Op == token.EQL && k == 1 || bo.Op == token.NEQ && k == 0)
}

// c17impliesMatch: a bool value that can only be true when the match test held.
func c17impliesMatch(v ssa.Value, depth int) bool {
	if depth > 6 {
		return false
	}
	if b, ok := constBool(v); ok {
		return !b
	}
	if c17isMatchTest(v) {
		return true
	}
	if ph, ok := v.(*ssa.Phi); ok {
		for _, e := range ph.Edges {
			if !c17impliesMatch(e, depth+1) {
				return false
			}
		}
		return true
	}
	return false
}

// c17matchEdges: the CFG edges of f on which a constant-time match is established.
func c17matchEdges(f *ssa.Function, depth int) []edge {
	var out []edge
	for _, ci := range calls(f, c17allCalls) {
		call, ok := ci.(*ssa.Call)
		if !ok {
			continue
		}
		if short(calleeName(&call.Call)) == c17ctc {
			out = append(out, edgesImplying(call, []int64{0, 1}, func(d int64) bool { return d == 1 })...)
			continue
		}
		switch c17matchWrapper(call.Call.StaticCallee(), f, depth+1) {
		case "bool":
			y, _ := boolEdges(call, true)
			out = append(out, y...)
		case "error":
			y, _ := errSuccessEdges(call)
			out = append(out, y...)
		}
	}
	return out
}

// c17matchWrapper: g (a function of from's package) returns true / a nil error
// only when a constant-time match was established inside it.
func c17matchWrapper(g, from *ssa.Function, depth int) string {
	if g == nil || g.Pkg != from.Pkg || len(g.Blocks) == 0 || depth > 3 || g.Signature.Results().Len() != 1 {
		return ""
	}
	rt := g.Signature.Results().At(0).Type()
	inner := c17matchEdges(g, depth)
	cut := edgeSet{}
	cut.addAll(inner)
	found := len(inner) > 0
	if b, ok := rt.Underlying().(*types.Basic); ok && b.Kind() == types.Bool {
		for _, r := range returnsOf(g) {
			v := retVal(r, 0)
			if c17impliesMatch(v, 0) {
				if bb, isC := constBool(v); !isC || bb {
					found = true
				}
				continue
			}
			if len(inner) == 0 || pathFromEntry(r, cut) {
				return ""
			}
		}
		if found {
			return "bool"
		}
		return ""
	}
	if c17isErr(rt) {
		for _, r := range returnsOf(g) {
			if c17nilOnlyAfterMatch(g, r, 0, cut, len(inner) > 0, depth) {
				continue
			}
			return ""
		}
		if found {
			return "error"
		}
	}
	return ""
}

// c17nilOnlyAfterMatch: the error returned by r (result idx) is non-nil, or r
// lies behind the match edges, or it is the result of a wrapper itself.
func c17nilOnlyAfterMatch(f *ssa.Function, r *ssa.Return, idx int, cut edgeSet, have bool, depth int) bool {
	v := retVal(r, idx)
	if errNilness(v, r.Block(), 0) == neverNil {
		return true
	}
	if have && !pathFromEntry(r, cut) {
		return true
	}
	var viaWrapper func(v ssa.Value, d int) bool
	viaWrapper = func(v ssa.Value, d int) bool {
		if d > 4 {
			return false
		}
		switch x := v.(type) {
		case *ssa.Call:
			return c17matchWrapper(x.Call.StaticCallee(), f, depth+1) == "error"
		case *ssa.Phi:
			for i, e := range x.Edges {
				if errNilness(e, x.Block().Preds[i], 0) == neverNil {
					continue
				}
				if !viaWrapper(e, d+1) {
					return false
				}
			}
			return true
		}
		return false
	}
	return viaWrapper(v, 0)
}

type c17site struct {
	call  *ssa.Call     // the ConstantTimeCompare call
	fn    *ssa.Function // the function it sits in
	outer *ssa.Call     // the call to fn in CompareHashAndPassword (nil when fn is CompareHashAndPassword)
}

func (s c17site) resolve(v ssa.Value) ssa.Value {
	if s.outer == nil {
		return v
	}
	if p, ok := v.(*ssa.Parameter); ok {
		for i, q := range s.fn.Params {
			if q == p && i < len(s.outer.Call.Args) {
				return s.outer.Call.Args[i]
			}
		}
	}
	return v
}

func c17compareSites(f *ssa.Function) []c17site {
	var out []c17site
	for _, ci := range callsNamed(f, c17ctc) {
		if call, ok := ci.(*ssa.Call); ok {
			out = append(out, c17site{call: call, fn: f})
		}
	}
	for _, ci := range calls(f, c17allCalls) {
		oc, ok := ci.(*ssa.Call)
		g := ci.Common().StaticCallee()
		if !ok || g == nil || g.Pkg != f.Pkg || g == f || len(g.Blocks) == 0 {
			continue
		}
		for _, cj := range callsNamed(g, c17ctc) {
			if call, ok := cj.(*ssa.Call); ok {
				out = append(out, c17site{call: call, fn: g, outer: oc})
			}
		}
	}
	return out
}

func c17Compare(c *Ctx, hashers map[*ssa.Function]bool, roles map[*ssa.Function]c17roles) {
	f := c.fn("bcrypt", "CompareHashAndPassword")
	if f == nil || len(f.Params) < 2 {
		return
	}
	pass := c17matchEdges(f, 0)
	cut := edgeSet{}
	cut.addAll(pass)
	ok := true
	nres := f.Signature.Results().Len()
	for _, r := range returnsOf(f) {
		if !c17nilOnlyAfterMatch(f, r, nres-1, cut, len(pass) > 0, 0) {
			ok = false
		}
	}
	sites := c17compareSites(f)
	c.check(ok && len(sites) > 0, "C17.compare", "nil only after the constant-time match", f, "every return that may be nil lies behind ConstantTimeCompare(...) == 1 (directly or through a wrapper whose positive result lies behind it)", "CompareHashAndPassword can return nil without the constant-time comparison having matched")
	if len(sites) != 1 {
		c.fail("C17.compare", "compared values", f, "expected one constant-time comparison on the verification path, found "+itoa(int64(len(sites))))
		return
	}
	site := sites[0]
	parserRoots := c17parserRoots(c, hashers)
	isParsed := func(v ssa.Value) bool {
		ex, ok := v.(*ssa.Extract)
		if !ok || ex.Index != 0 {
			return false
		}
		cl, ok := ex.Tuple.(*ssa.Call)
		if !ok {
			return false
		}
		q, isRoot := parserRoots[cl.Call.StaticCallee()]
		return isRoot && q < len(cl.Call.Args) && isParamVal(cl.Call.Args[q], f, 0)
	}
	hashRecv := func(v ssa.Value) (ssa.Value, bool) {
		cl, ok := v.(*ssa.Call)
		if !ok || !strings.HasSuffix(short(calleeName(&cl.Call)), "bcrypt.hashed).Hash") || len(cl.Call.Args) == 0 {
			return nil, false
		}
		return site.resolve(cl.Call.Args[0]), true
	}
	a := site.call.Call.Args
	r0, ok0 := hashRecv(a[0])
	r1, ok1 := hashRecv(a[1])
	why := ""
	switch {
	case !ok0 || !ok1:
		why = "an operand is not a complete re-encoded hash (Hash())"
	case r0 == r1:
		why = "both operands are the same value"
	}
	var parsed, other ssa.Value
	if why == "" {
		for _, r := range []ssa.Value{r0, r1} {
			if isParsed(r) {
				parsed = r
			} else {
				other = r
			}
		}
		if parsed == nil || other == nil {
			why = "one operand must be the parsed stored hash, the other the re-computed one"
		}
	}
	if why == "" {
		why = c17recomputed(f, site, other, parsed, hashers, roles)
	}
	c.check(why == "", "C17.compare", "compared values", site.call, "stored hash re-encoded vs hash of (candidate password, stored cost, stored salt) re-encoded with the stored version", "the comparison is not between the stored hash and the hash of the candidate password under the stored salt, cost and version: "+why)
}

// c17recomputed: other is a hashed record whose hash field is the result of
// the hashing core applied to (candidate password, parsed cost, parsed salt)
// and whose every other field is parsed's field of the same name (set field
// by field, or by copying *parsed and replacing the hash). When the
// comparison sits in a helper, the helper's parameters stand for the
// arguments CompareHashAndPassword passes (site.resolve).
func c17recomputed(f *ssa.Function, site c17site, other, parsed ssa.Value, hashers map[*ssa.Function]bool, roles map[*ssa.Function]c17roles) string {
	al, ok := other.(*ssa.Alloc)
	if !ok {
		return "the re-computed record is not built on the verification path"
	}
	st := derefStruct(al.Type())
	if st == nil {
		return "the re-computed record is not a struct"
	}
	lf := litFields(al)
	copied := false
	if refs := al.Referrers(); refs != nil {
		for _, r := range *refs {
			if s, ok := r.(*ssa.Store); ok && s.Addr == ssa.Value(al) {
				if u, ok := s.Val.(*ssa.UnOp); ok && u.Op == token.MUL && site.resolve(u.X) == parsed {
					copied = true
				}
			}
		}
	}
	fromParsed := func(v ssa.Value, field string) bool {
		_, fn, base, isF := fieldOf(stripConv(v))
		return isF && fn == field && site.resolve(base) == parsed
	}
	nHash := 0
	for i := 0; i < st.NumFields(); i++ {
		name := st.Field(i).Name()
		v, has := lf[name]
		if !has {
			if !copied {
				return "field " + name + " of the re-computed record is not set"
			}
			continue
		}
		if fromParsed(v, name) {
			continue
		}
		// the one field that is not the stored one: the fresh hash
		var cl *ssa.Call
		switch x := v.(type) {
		case *ssa.Extract:
			if x.Index == 0 {
				cl, _ = x.Tuple.(*ssa.Call)
			}
		case *ssa.Call:
			cl = x
		}
		if cl == nil || !hashers[cl.Call.StaticCallee()] {
			return "field " + name + " of the re-computed record is neither the stored value nor the result of the hashing core"
		}
		nHash++
		g := cl.Call.StaticCallee()
		ro, known := roles[g]
		if !known {
			// the core's own rules failed (reported there): fall back to "the
			// candidate password is one of the arguments"
			ro.pw = -1
			for i, arg := range cl.Call.Args {
				if isParamVal(site.resolve(arg), f, 1) {
					ro.pw = i
				}
			}
		}
		if ro.pw < 0 || ro.pw >= len(cl.Call.Args) || !isParamVal(site.resolve(cl.Call.Args[ro.pw]), f, 1) {
			return "the hashing core is not applied to the candidate password (parameter 1)"
		}
		for i, arg := range cl.Call.Args {
			if i == ro.pw {
				continue
			}
			_, _, isInt := intBits(arg.Type())
			switch {
			case c17isByteSlice(arg.Type()):
				if !fromParsed(arg, "salt") {
					return "the salt given to the hashing core is not the stored salt"
				}
			case isInt:
				if !fromParsed(arg, "cost") {
					return "the cost given to the hashing core is not the stored cost"
				}
			}
		}
	}
	if nHash != 1 {
		return "the re-computed record does not hold exactly one freshly computed field"
	}
	return ""
}
