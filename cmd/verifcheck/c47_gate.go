package main

import (
	"go/token"

	"golang.org/x/tools/go/ssa"
)

// Value-sensitive, interprocedural gate facts for C47 (same construction as
// the gate analysis of C34, kept private to this property).
//
// isGate recognises, by role, a boolean value whose being true (pol=true) or
// being false (pol=false) implies that the condition holds.
// implies(v, st): whenever v is in state st the condition has been established
// — v is the gate, a negation / nil comparison of such a value, a phi whose
// every incoming edge carries such a value or can only be taken behind a pass
// edge, or the result of a helper of the package all of whose returns satisfy
// the same (`return a && b`, `func check(...) error`). passOf(F): the edges of
// F behind which the condition holds.

type c47St int

const (
	c47True c47St = iota
	c47False
	c47Nil
	c47NonNil
)

func (s c47St) flip() c47St {
	switch s {
	case c47True:
		return c47False
	case c47False:
		return c47True
	case c47Nil:
		return c47NonNil
	}
	return c47Nil
}

type c47GKey struct {
	v  ssa.Value
	st c47St
}

type c47Gate struct {
	c      *Ctx
	isGate func(v ssa.Value) (pol bool, ok bool)
	pass   map[*ssa.Function]edgeSet
	done   map[*ssa.Function]bool
	busy   map[*ssa.Function]bool
	stack  map[c47GKey]bool
}

func (c *Ctx) c47NewGate(isGate func(v ssa.Value) (bool, bool)) *c47Gate {
	return &c47Gate{c: c, isGate: isGate, pass: map[*ssa.Function]edgeSet{}, done: map[*ssa.Function]bool{}, busy: map[*ssa.Function]bool{}, stack: map[c47GKey]bool{}}
}

func (g *c47Gate) passOf(F *ssa.Function) edgeSet {
	if F == nil {
		return edgeSet{}
	}
	if g.done[F] || g.busy[F] {
		return g.pass[F]
	}
	g.busy[F] = true
	g.pass[F] = edgeSet{}
	for changed := true; changed; {
		changed = false
		for _, b := range F.Blocks {
			if len(b.Instrs) == 0 {
				continue
			}
			iff, ok := b.Instrs[len(b.Instrs)-1].(*ssa.If)
			if !ok {
				continue
			}
			if !g.pass[F][edge{b, 0}] && g.implies(iff.Cond, c47True) {
				g.pass[F][edge{b, 0}] = true
				changed = true
			}
			if !g.pass[F][edge{b, 1}] && g.implies(iff.Cond, c47False) {
				g.pass[F][edge{b, 1}] = true
				changed = true
			}
		}
	}
	g.busy[F] = false
	g.done[F] = true
	return g.pass[F]
}

// passDeep: the pass edges of fn and of the helpers of its package.
func (g *c47Gate) passDeep(fn *ssa.Function) edgeSet {
	out := edgeSet{}
	for _, h := range deepFuncs(fn) {
		for e := range g.passOf(h) {
			out[e] = true
		}
	}
	return out
}

func (g *c47Gate) blockGated(b *ssa.BasicBlock) bool {
	F := b.Parent()
	return !reach([]*ssa.BasicBlock{F.Blocks[0]}, g.passOf(F))[b]
}

func (g *c47Gate) edgeGated(pred, succ *ssa.BasicBlock) bool {
	cut := g.passOf(pred.Parent())
	open := false
	for i, s := range pred.Succs {
		if s == succ && !cut[edge{pred, i}] {
			open = true
		}
	}
	if !open {
		return true
	}
	return g.blockGated(pred)
}

func (g *c47Gate) implies(v ssa.Value, st c47St) bool {
	k := c47GKey{v, st}
	if g.stack[k] {
		return true // loop-carried flag: decided by its other sources
	}
	if len(g.stack) > 64 {
		return false
	}
	g.stack[k] = true
	defer delete(g.stack, k)

	if pol, ok := g.isGate(v); ok {
		switch st {
		case c47True:
			return pol
		case c47False:
			return !pol
		}
		return false
	}
	switch x := v.(type) {
	case *ssa.Const:
		if b, ok := constBool(x); ok {
			return (st == c47True && !b) || (st == c47False && b) // cannot be in that state
		}
		if x.IsNil() {
			return st == c47NonNil
		}
		return false
	case *ssa.UnOp:
		if x.Op == token.NOT {
			return g.implies(x.X, st.flip())
		}
		return false
	case *ssa.BinOp:
		if (x.Op != token.EQL && x.Op != token.NEQ) || (st != c47True && st != c47False) {
			return false
		}
		equal := (x.Op == token.EQL) == (st == c47True)
		for _, pair := range [][2]ssa.Value{{x.X, x.Y}, {x.Y, x.X}} {
			cst, ok := pair[1].(*ssa.Const)
			if !ok {
				continue
			}
			if cst.IsNil() {
				if equal {
					return g.implies(pair[0], c47Nil)
				}
				return g.implies(pair[0], c47NonNil)
			}
			if b, ok := constBool(cst); ok {
				if equal == b {
					return g.implies(pair[0], c47True)
				}
				return g.implies(pair[0], c47False)
			}
		}
		return false
	case *ssa.Phi:
		for i, e := range x.Edges {
			if g.implies(e, st) {
				continue
			}
			if g.edgeGated(x.Block().Preds[i], x.Block()) {
				continue
			}
			return false
		}
		return true
	case *ssa.Extract:
		if call, ok := x.Tuple.(*ssa.Call); ok {
			return g.calleeImplies(call, x.Index, st)
		}
		return false
	case *ssa.Call:
		if x.Call.Signature().Results().Len() == 1 {
			return g.calleeImplies(x, 0, st)
		}
		return false
	case *ssa.MakeInterface, *ssa.Alloc, *ssa.MakeSlice, *ssa.MakeMap, *ssa.MakeClosure, *ssa.Function:
		return st == c47Nil // never nil
	case *ssa.ChangeInterface:
		return g.implies(x.X, st)
	case *ssa.ChangeType:
		return g.implies(x.X, st)
	case *ssa.Parameter:
		if o := g.c.origin(x); o != ssa.Value(x) {
			return g.implies(o, st)
		}
		return false
	}
	return false
}

// calleeImplies: result #idx of the call is in state st only if the condition
// was established inside the (same-package, static) callee.
func (g *c47Gate) calleeImplies(call *ssa.Call, idx int, st c47St) bool {
	H := samePkgCallee(call.Parent(), &call.Call)
	if H == nil {
		if st == c47Nil {
			switch calleeName(&call.Call) {
			case "fmt.Errorf", "errors.New":
				return true // never nil
			}
		}
		return false
	}
	if g.busy[H] {
		return false
	}
	for _, r := range returnsOf(H) {
		if idx >= len(r.Results) {
			return false
		}
		if g.implies(retVal(r, idx), st) || g.blockGated(r.Block()) {
			continue
		}
		return false
	}
	return true
}

// c47IntTest: v compares the integer value x with a constant; returns the
// comparison as a predicate on x.
func c47IntTest(v ssa.Value) (x ssa.Value, holds func(int64) bool, ok bool) {
	bo, isB := v.(*ssa.BinOp)
	if !isB {
		return nil, nil, false
	}
	if k, isK := constInt(bo.Y); isK {
		if _, isC := bo.X.(*ssa.Const); !isC {
			op := bo.Op
			return bo.X, func(d int64) bool { r, _ := evalCmp(op, d, k); return r }, opIsCmp(op)
		}
	}
	if k, isK := constInt(bo.X); isK {
		if _, isC := bo.Y.(*ssa.Const); !isC {
			op := bo.Op
			return bo.Y, func(d int64) bool { r, _ := evalCmp(op, k, d); return r }, opIsCmp(op)
		}
	}
	return nil, nil, false
}

func opIsCmp(op token.Token) bool {
	_, ok := evalCmp(op, 0, 0)
	return ok
}

// c47DomainGate: isGate for "the integer result of a call selected by isCall
// satisfies P", the result ranging over dom: a comparison with a constant whose
// being true (pol=true) or being false (pol=false) implies P on that domain.
func c47DomainGate(isCall func(call *ssa.Call) bool, dom []int64, P func(int64) bool) func(v ssa.Value) (bool, bool) {
	return func(v ssa.Value) (bool, bool) {
		x, holds, ok := c47IntTest(v)
		if !ok {
			return false, false
		}
		call, isCall2 := x.(*ssa.Call)
		if !isCall2 || !isCall(call) {
			return false, false
		}
		// pol is the state of v that implies P (one direction is enough)
		trueImplies, falseImplies, nTrue, nFalse := true, true, 0, 0
		for _, d := range dom {
			if holds(d) {
				nTrue++
				if !P(d) {
					trueImplies = false
				}
			} else {
				nFalse++
				if !P(d) {
					falseImplies = false
				}
			}
		}
		switch {
		case trueImplies && nTrue > 0:
			return true, true
		case falseImplies && nFalse > 0:
			return false, true
		}
		return false, false
	}
}
