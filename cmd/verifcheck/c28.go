package main

import (
	"fmt"
	"go/types"
	"strings"
)

func init() {
	register(&propDef{
		id: "C28", run: runC28, minOblig: 20,
		explanation: "Decides RFC 4253 section 7.1 negotiation by EVALUATING the SSA of ssh.findCommon and ssh.findAgreedAlgorithms (with every function they reach: helpers, closures, instantiated generics such as slices.Contains, package-level tables such as aeadCiphers rebuilt from the package initializer) on concrete inputs and comparing the outcome with the RFC rule computed independently in the checker; nothing is matched against the shape of the code. (findCommon) for ALL pairs of client/server lists of length <= 3 over a 3-letter alphabet and both roles: on success the returned algorithm is an entry of the client's list (findcommon-result) that the server also offers, and the call fails exactly when no entry is common (findcommon-match); it is the FIRST such client entry (findcommon-order); a failure is an *AlgorithmNegotiationError whose SupportedAlgorithms/RequestedAlgorithms are the own/peer lists for the given role (findcommon-errlabel). (findAgreedAlgorithms) for both roles over two families of KEXINIT pairs — the full product of {no common entry, client-preferred entry wins} for kex, host key, both MAC and both compression lists with {no common, AES128-GCM, AES256-GCM, ChaCha20-Poly1305, AES-CTR wins} for each cipher direction, and every pair of lists of length <= 2 over a 3-letter alphabet for one field at a time on two base messages —: each of KeyExchange, HostKey and Cipher/MAC/compression of both directions holds the first entry of the client's list of exactly that KEXINIT field that the server's list of the same field contains, client-to-server values in Write for a client and in Read for a server, server-to-client values in the opposite record (agreed-value); the MAC of a direction is negotiated exactly when the cipher chosen for THAT direction is not one of the three AEAD ciphers, otherwise it stays empty and its lists are irrelevant (mac-gate); the call fails exactly when a required negotiation has no common entry (agreed-fail), with the error labelled for the role (agreed-errlabel); the client's and the server's computation on the same two messages both fail or agree on every algorithm with Read and Write exchanged (agreed-symmetric). An evaluation that meets something outside the model (concurrency, floating point, a branch on the result of a function without body or of a function outside the module and the pure helper packages slices/maps/strings/bytes/sort/cmp/strconv — such calls are not followed) is reported as undecided. NOT decided: lists longer than 3 (findCommon) / outside the two families (findAgreedAlgorithms); the text of the error.",
		assumptions: []string{
			"kexInitMsg field names reflect RFC 4253 field order (checked under C24 against the wire tags)",
			"findCommon takes the client's list before the server's list and findAgreedAlgorithms the client's KEXINIT before the server's (parameter order is the contract with the callers)",
			"package-level tables keep the value given by their initializer (aeadCiphers is never written after init)",
		},
	})
	tech("C28", "concrete evaluation of the SSA of findCommon / findAgreedAlgorithms (interprocedural, including closures and instantiated generics) over finite families of KEXINIT list pairs, compared with RFC 4253 section 7.1 computed in the checker")
}

var c28fields = [8]string{"KexAlgos", "ServerHostKeyAlgos", "CiphersClientServer", "CiphersServerClient",
	"MACsClientServer", "MACsServerClient", "CompressionClientServer", "CompressionServerClient"}

// slot of field k: record ("" = NegotiatedAlgorithms itself, "ctos", "stoc") and field
var c28slots = [8][2]string{{"", "KeyExchange"}, {"", "HostKey"}, {"ctos", "Cipher"}, {"stoc", "Cipher"},
	{"ctos", "MAC"}, {"stoc", "MAC"}, {"ctos", "compression"}, {"stoc", "compression"}}

// ground truth, independent of the code under test (RFC 5647, openssh PROTOCOL.chacha20poly1305)
var c28aead = map[string]bool{"aes128-gcm@openssh.com": true, "aes256-gcm@openssh.com": true, "chacha20-poly1305@openssh.com": true}

func c28firstCommon(client, server []string) (string, bool) {
	for _, c := range client {
		for _, s := range server {
			if c == s {
				return c, true
			}
		}
	}
	return "", false
}

func c28contains(l []string, s string) bool {
	for _, x := range l {
		if x == s {
			return true
		}
	}
	return false
}

func c28strs(l []string) c28val {
	if len(l) == 0 {
		return []c28val(nil)
	}
	out := make([]c28val, len(l))
	for i, s := range l {
		out[i] = s
	}
	return out
}

func c28goStrs(v c28val) ([]string, bool) {
	s, ok := v.([]c28val)
	if !ok {
		return nil, false
	}
	var out []string
	for _, e := range s {
		str, ok := e.(string)
		if !ok {
			return nil, false
		}
		out = append(out, str)
	}
	return out, true
}

func c28sameList(a, b []string) bool {
	if len(a) != len(b) {
		return false
	}
	for i := range a {
		if a[i] != b[i] {
			return false
		}
	}
	return true
}

// all lists of length <= n over the alphabet
func c28lists(alpha []string, n int) [][]string {
	out := [][]string{nil}
	prev := [][]string{nil}
	for l := 1; l <= n; l++ {
		var cur [][]string
		for _, p := range prev {
			for _, a := range alpha {
				cur = append(cur, append(append([]string(nil), p...), a))
			}
		}
		out = append(out, cur...)
		prev = cur
	}
	return out
}

func c28fieldIndex(st *types.Struct, name string) int {
	for i := 0; i < st.NumFields(); i++ {
		if st.Field(i).Name() == name {
			return i
		}
	}
	return -1
}

// c28errLabels reads SupportedAlgorithms / RequestedAlgorithms of a failure
// reported as *AlgorithmNegotiationError.
func c28errLabels(err c28iface) (supported, requested []string, ok bool) {
	pt, isP := err.t.(*types.Pointer)
	if !isP {
		return nil, nil, false
	}
	named, isN := pt.Elem().(*types.Named)
	if !isN || named.Obj().Name() != "AlgorithmNegotiationError" {
		return nil, nil, false
	}
	st, isS := named.Underlying().(*types.Struct)
	p, isPtr := err.v.(*c28val)
	if !isS || !isPtr || p == nil {
		return nil, nil, false
	}
	val, isV := (*p).(c28struct)
	si, ri := c28fieldIndex(st, "SupportedAlgorithms"), c28fieldIndex(st, "RequestedAlgorithms")
	if !isV || si < 0 || ri < 0 {
		return nil, nil, false
	}
	supported, ok1 := c28goStrs(val[si])
	requested, ok2 := c28goStrs(val[ri])
	return supported, requested, ok1 && ok2
}

type c28tally struct {
	order []string
	first map[string]string
}

func (t *c28tally) fail(rule, construct, detail string) {
	k := rule + "\x00" + construct
	if t.first == nil {
		t.first = map[string]string{}
	}
	if _, seen := t.first[k]; !seen {
		t.first[k] = detail
		t.order = append(t.order, k)
	}
}

func (t *c28tally) get(rule, construct string) string { return t.first[rule+"\x00"+construct] }

func runC28(c *Ctx) {
	it := c28newInterp(c.ld.prog)
	c28checkFindCommon(c, it)
	c28checkAgreed(c, it)
}

func c28role(isClient bool) string {
	if isClient {
		return "client"
	}
	return "server"
}

// ---------------------------------------------------------------- findCommon

func c28checkFindCommon(c *Ctx, it *c28interp) {
	f := c.fn("ssh", "findCommon")
	if f == nil {
		return
	}
	var listIdx, strIdx []int
	boolIdx := -1
	for i, p := range f.Params {
		switch t := p.Type().Underlying().(type) {
		case *types.Slice:
			if b, ok := t.Elem().Underlying().(*types.Basic); ok && b.Kind() == types.String {
				listIdx = append(listIdx, i)
			}
		case *types.Basic:
			if t.Kind() == types.Bool {
				boolIdx = i
			} else if t.Kind() == types.String {
				strIdx = append(strIdx, i)
			}
		}
	}
	res := f.Signature.Results()
	if len(listIdx) != 2 || res.Len() != 2 || len(listIdx)+len(strIdx)+c28btoi(boolIdx >= 0) != len(f.Params) {
		c.fail("anchor", "ssh.findCommon", f, "signature is no longer (label, client list, server list, role) -> (algorithm, error); the rule cannot be evaluated")
		return
	}
	var t c28tally
	const construct = "findCommon"
	lists := c28lists([]string{"alg-a", "alg-b", "alg-c"}, 3)
	runs := 0
	for _, cl := range lists {
		for _, sv := range lists {
			for _, isClient := range []bool{true, false} {
				if boolIdx < 0 && !isClient {
					continue
				}
				args := make([]c28val, len(f.Params))
				for _, i := range strIdx {
					args[i] = "test list"
				}
				args[listIdx[0]], args[listIdx[1]] = c28strs(cl), c28strs(sv)
				if boolIdx >= 0 {
					args[boolIdx] = isClient
				}
				r, end, why := it.run(f, args)
				runs++
				in := fmt.Sprintf("client list %q, server list %q, role %s", cl, sv, c28role(isClient))
				if end == "undecided" {
					c.undecided("C28.findcommon-result", construct, f, "evaluation left the model for "+in+": "+why)
					return
				}
				if end == "panic" {
					t.fail("C28.findcommon-match", construct, why+" — "+in)
					continue
				}
				tup, ok := r.(c28tuple)
				if !ok || len(tup) != 2 {
					c.undecided("C28.findcommon-result", construct, f, "result is not (algorithm, error)")
					return
				}
				got, okS := tup[0].(string)
				err, okE := tup[1].(c28iface)
				if !okS || !okE {
					c.undecided("C28.findcommon-result", construct, f, "result for "+in+" is not a known string and error")
					return
				}
				want, common := c28firstCommon(cl, sv)
				switch {
				case common && err.t != nil:
					t.fail("C28.findcommon-match", construct, fmt.Sprintf("fails although %q is offered by both sides — %s", want, in))
				case common && got != want && !c28contains(cl, got):
					t.fail("C28.findcommon-result", construct, fmt.Sprintf("returns %q, which is not an entry of the client's list — %s", got, in))
				case common && got != want && !c28contains(sv, got):
					t.fail("C28.findcommon-match", construct, fmt.Sprintf("returns the client entry %q that the server does not offer — %s", got, in))
				case common && got != want:
					t.fail("C28.findcommon-order", construct, fmt.Sprintf("returns %q, but the first entry of the client's list that the server also offers is %q (the client's order of preference is not followed) — %s", got, want, in))
				case !common && err.t == nil:
					t.fail("C28.findcommon-match", construct, fmt.Sprintf("no common entry, yet %q is returned without error — %s", got, in))
				case !common:
					sup, req, ok := c28errLabels(err)
					own, peer := cl, sv
					if !isClient {
						own, peer = sv, cl
					}
					if !ok {
						t.fail("C28.findcommon-errlabel", construct, "the failure is not reported as *AlgorithmNegotiationError with SupportedAlgorithms and RequestedAlgorithms — "+in)
					} else if !c28sameList(sup, own) || !c28sameList(req, peer) {
						t.fail("C28.findcommon-errlabel", construct, fmt.Sprintf("error says supported %q / requested %q; for this role the own list is %q and the peer's %q — %s", sup, req, own, peer, in))
					}
				}
			}
		}
	}
	n := fmt.Sprintf(" (%d evaluations: all list pairs of length <= 3 over 3 names, both roles)", runs)
	c.check(t.get("C28.findcommon-result", construct) == "", "C28.findcommon-result", construct, f, "the algorithm returned on success is an entry of the client's list"+n, t.get("C28.findcommon-result", construct))
	c.check(t.get("C28.findcommon-match", construct) == "", "C28.findcommon-match", construct, f, "succeeds exactly when some client entry is also offered by the server, and returns such an entry"+n, t.get("C28.findcommon-match", construct))
	c.check(t.get("C28.findcommon-order", construct) == "", "C28.findcommon-order", construct, f, "the result is the FIRST client entry the server offers, whatever the server's order"+n, t.get("C28.findcommon-order", construct))
	c.check(t.get("C28.findcommon-errlabel", construct) == "", "C28.findcommon-errlabel", construct, f, "a failure names the own list as supported and the peer's as requested for the role"+n, t.get("C28.findcommon-errlabel", construct))
}

func c28btoi(b bool) int {
	if b {
		return 1
	}
	return 0
}

// ------------------------------------------------------ findAgreedAlgorithms

type c28scenario struct{ cl, sv [8][]string }

// c28outcome is what one evaluation (one role) produced.
type c28outcome struct {
	failed bool
	err    c28iface
	got    [8]string // by RFC slot (ctos/stoc resolved for the role)
}

func c28checkAgreed(c *Ctx, it *c28interp) {
	f := c.fn("ssh", "findAgreedAlgorithms")
	if f == nil {
		return
	}
	// signature by type: one bool (role), two pointers to the KEXINIT struct (client first)
	boolIdx := -1
	var msgIdx []int
	var msgT *types.Struct
	for i, p := range f.Params {
		if b, ok := p.Type().Underlying().(*types.Basic); ok && b.Kind() == types.Bool {
			boolIdx = i
		} else if st := derefStruct(p.Type()); st != nil {
			if _, isPtr := p.Type().Underlying().(*types.Pointer); isPtr {
				msgIdx = append(msgIdx, i)
				msgT = st
			}
		}
	}
	res := f.Signature.Results()
	var resT *types.Struct
	if res.Len() == 2 {
		resT = derefStruct(res.At(0).Type())
	}
	if boolIdx < 0 || len(msgIdx) != 2 || len(f.Params) != 3 || resT == nil {
		c.fail("anchor", "ssh.findAgreedAlgorithms", f, "signature is no longer (role, client KEXINIT, server KEXINIT) -> (*NegotiatedAlgorithms, error); the rule cannot be evaluated")
		return
	}
	var inIdx [8]int
	for k, name := range c28fields {
		inIdx[k] = c28fieldIndex(msgT, name)
		if inIdx[k] < 0 {
			c.fail("anchor", "ssh.kexInitMsg."+name, f, "KEXINIT field not found; the rule cannot be evaluated")
			return
		}
	}
	iKex, iHost, iRead, iWrite := c28fieldIndex(resT, "KeyExchange"), c28fieldIndex(resT, "HostKey"), c28fieldIndex(resT, "Read"), c28fieldIndex(resT, "Write")
	var dirT *types.Struct
	if iRead >= 0 {
		dirT, _ = resT.Field(iRead).Type().Underlying().(*types.Struct)
	}
	if iKex < 0 || iHost < 0 || iRead < 0 || iWrite < 0 || dirT == nil {
		c.fail("anchor", "ssh.NegotiatedAlgorithms", f, "fields KeyExchange/HostKey/Read/Write not found; the rule cannot be evaluated")
		return
	}
	iCipher, iMAC, iComp := c28fieldIndex(dirT, "Cipher"), c28fieldIndex(dirT, "MAC"), c28fieldIndex(dirT, "compression")
	if iCipher < 0 || iMAC < 0 || iComp < 0 {
		c.fail("anchor", "ssh.DirectionAlgorithms", f, "fields Cipher/MAC/compression not found; the rule cannot be evaluated")
		return
	}
	langCS, langSC := c28fieldIndex(msgT, "LanguagesClientServer"), c28fieldIndex(msgT, "LanguagesServerClient")

	mkMsg := func(lists [8][]string, side string) c28val {
		m := c28zero(msgT).(c28struct)
		for k := range lists {
			m[inIdx[k]] = c28strs(lists[k])
		}
		// the language lists are not negotiated; a value that turns up in a result is a wiring error
		if langCS >= 0 {
			m[langCS] = c28strs([]string{"lang-" + side, "lang-x"})
		}
		if langSC >= 0 {
			m[langSC] = c28strs([]string{"lang-x", "lang-" + side})
		}
		p := new(c28val)
		*p = m
		return p
	}

	undecided := ""
	eval := func(sc *c28scenario, isClient bool) (out c28outcome, panicked string) {
		args := make([]c28val, 3)
		args[boolIdx] = isClient
		args[msgIdx[0]], args[msgIdx[1]] = mkMsg(sc.cl, "c"), mkMsg(sc.sv, "s")
		r, end, why := it.run(f, args)
		if end == "undecided" {
			undecided = why
			return
		}
		if end == "panic" {
			return out, why
		}
		tup, ok := r.(c28tuple)
		if !ok || len(tup) != 2 {
			undecided = "result is not (*NegotiatedAlgorithms, error)"
			return
		}
		err, okE := tup[1].(c28iface)
		ptr, okP := tup[0].(*c28val)
		if !okE || !okP {
			undecided = "result is not a known pointer and error"
			return
		}
		out.err = err
		if err.t != nil {
			out.failed = true
			return
		}
		if ptr == nil {
			return out, "returns (nil, nil)"
		}
		top, ok := (*ptr).(c28struct)
		if !ok {
			undecided = "result record outside the model"
			return
		}
		ctos, stoc := top[iRead].(c28struct), top[iWrite].(c28struct)
		if isClient {
			ctos, stoc = stoc, ctos
		}
		vals := [8]c28val{top[iKex], top[iHost], ctos[iCipher], stoc[iCipher], ctos[iMAC], stoc[iMAC], ctos[iComp], stoc[iComp]}
		for k, v := range vals {
			s, ok := v.(string)
			if !ok {
				undecided = "negotiated " + c28fields[k] + " value is not a known string"
				return
			}
			out.got[k] = s
		}
		return out, ""
	}

	var t c28tally
	const whole = "findAgreedAlgorithms"
	slotName := func(k int, isClient bool) string {
		rec := c28slots[k][0]
		switch {
		case rec == "":
			return c28slots[k][1]
		case (rec == "ctos") == isClient:
			return "Write." + c28slots[k][1]
		}
		return "Read." + c28slots[k][1]
	}
	runs := 0
	check := func(sc *c28scenario) bool {
		// RFC 4253 section 7.1 (+ AEAD rule)
		var want [8]string
		var common, needed [8]bool
		for k := range c28fields {
			want[k], common[k] = c28firstCommon(sc.cl[k], sc.sv[k])
			needed[k] = true
		}
		needed[4], needed[5] = !c28aead[want[2]], !c28aead[want[3]]
		var failing []int
		for k := range c28fields {
			if !needed[k] {
				want[k] = ""
			} else if !common[k] && !((k == 4 && !common[2]) || (k == 5 && !common[3])) {
				failing = append(failing, k)
			}
		}
		var outs [2]c28outcome
		for ri, isClient := range []bool{true, false} {
			out, panicked := eval(sc, isClient)
			runs++
			if undecided != "" {
				return false
			}
			outs[ri] = out
			in := fmt.Sprintf("role %s, client KEXINIT %s, server KEXINIT %s", c28role(isClient), c28show(sc.cl), c28show(sc.sv))
			if panicked != "" {
				t.fail("C28.agreed-fail", whole, panicked+" — "+in)
				continue
			}
			switch {
			case len(failing) > 0 && !out.failed:
				for _, k := range failing {
					d := fmt.Sprintf("the lists of %s have no common entry, yet the negotiation succeeds (%s = %q)", c28fields[k], slotName(k, isClient), out.got[k])
					if k == 4 || k == 5 {
						d += fmt.Sprintf("; the %s cipher %q is not an AEAD, so a MAC is required", c28slots[k][0], want[k-2])
					}
					t.fail("C28.agreed-fail", c28fields[k], d+" — "+in)
				}
			case len(failing) == 0 && out.failed:
				blamed := false
				// the error itself tells which negotiation failed (when it carries the lists)
				culprit := -1
				if sup, req, ok := c28errLabels(out.err); ok {
					for _, k := range []int{4, 5} {
						if (c28sameList(sup, sc.cl[k]) && c28sameList(req, sc.sv[k])) || (c28sameList(sup, sc.sv[k]) && c28sameList(req, sc.cl[k])) {
							culprit = k
						}
					}
				}
				for _, k := range []int{4, 5} {
					if !needed[k] && !common[k] && (culprit < 0 || culprit == k) {
						t.fail("C28.mac-gate", c28slots[k][0]+" MAC negotiation", fmt.Sprintf("fails for lack of a common %s although the %s cipher %q is an AEAD and needs no MAC (the opposite direction's cipher is %q) — %s", c28fields[k], c28slots[k][0], want[k-2], want[7-k], in))
						blamed = true
					}
				}
				if !blamed {
					t.fail("C28.agreed-fail", whole, "fails although every required list pair has a common entry — "+in)
				}
			case out.failed:
				sup, req, ok := c28errLabels(out.err)
				if !ok {
					t.fail("C28.agreed-errlabel", whole, "the failure is not reported as *AlgorithmNegotiationError with SupportedAlgorithms and RequestedAlgorithms — "+in)
					break
				}
				good := false
				for k := range c28fields {
					own, peer := sc.cl[k], sc.sv[k]
					if !isClient {
						own, peer = peer, own
					}
					if !common[k] && c28sameList(sup, own) && c28sameList(req, peer) {
						good = true
					}
				}
				if !good {
					t.fail("C28.agreed-errlabel", whole, fmt.Sprintf("error says supported %q / requested %q, which is not (own list, peer's list) of a field without common entry for this role — %s", sup, req, in))
				}
			default:
				for k := range c28fields {
					if out.got[k] == want[k] {
						continue
					}
					slot := slotName(k, isClient)
					if k == 4 || k == 5 {
						dir, construct := c28slots[k][0], c28slots[k][0]+" MAC negotiation"
						switch {
						case !needed[k]:
							d := fmt.Sprintf("%s = %q although the %s cipher %q is an AEAD (no MAC is negotiated for AEAD ciphers)", slot, out.got[k], dir, want[k-2])
							if !c28aead[want[7-k]] {
								d += fmt.Sprintf(" (the opposite direction's cipher %q is not an AEAD: either the gate looks at the wrong direction or the AEAD table lacks this cipher)", want[7-k])
							}
							t.fail("C28.mac-gate", construct, d+" — "+in)
							continue
						case out.got[k] == "":
							d := fmt.Sprintf("%s is empty although the %s cipher %q is not an AEAD; %q must be negotiated", slot, dir, want[k-2], want[k])
							if c28aead[want[7-k]] {
								d += fmt.Sprintf(" (the opposite direction's cipher %q is an AEAD: either the gate looks at the wrong direction or its sense is inverted)", want[7-k])
							}
							t.fail("C28.mac-gate", construct, d+" — "+in)
							continue
						}
					}
					d := fmt.Sprintf("%s = %q; RFC 4253 7.1 requires %q, the first entry of the client's %s that the server's %s contains", slot, out.got[k], want[k], c28fields[k], c28fields[k])
					if sw, ok := c28firstCommon(sc.sv[k], sc.cl[k]); ok && sw == out.got[k] {
						d += " (the value follows the SERVER's order of preference: client and server lists exchanged)"
					}
					for j := range c28fields {
						if j != k && want[j] == out.got[k] && want[j] != "" {
							d += fmt.Sprintf(" (this is the value negotiated from %s, which belongs into %s)", c28fields[j], slotName(j, isClient))
						}
					}
					t.fail("C28.agreed-value", c28fields[k], d+" — "+in)
				}
			}
		}
		// symmetry, directly on the two computations
		cli, srv := outs[0], outs[1]
		in := fmt.Sprintf("client KEXINIT %s, server KEXINIT %s", c28show(sc.cl), c28show(sc.sv))
		if cli.failed != srv.failed {
			t.fail("C28.agreed-symmetric", whole, fmt.Sprintf("client fails=%v but server fails=%v — %s", cli.failed, srv.failed, in))
		} else if !cli.failed && cli.got != srv.got {
			for k := range c28fields {
				if cli.got[k] != srv.got[k] {
					t.fail("C28.agreed-symmetric", whole, fmt.Sprintf("the client puts %q into %s but the server %q into %s — %s", cli.got[k], slotName(k, true), srv.got[k], slotName(k, false), in))
				}
			}
		}
		return true
	}

	// family 1: full product of outcomes
	ok2 := func(p string) [2][2][]string { // {fail, client-preferred wins}
		return [2][2][]string{{{p + "-a"}, {p + "-b"}}, {{p + "-a", p + "-b"}, {p + "-b", p + "-a"}}}
	}
	win := func(x, other string) [2][]string { return [2][]string{{x, other}, {other, x}} }
	ciph := [][2][]string{
		win("aes128-ctr", "aes128-gcm@openssh.com"),
		win("aes128-gcm@openssh.com", "aes128-ctr"),
		{{"aes128-ctr"}, {"aes256-ctr"}},
		win("aes256-gcm@openssh.com", "aes128-cbc"),
		win("chacha20-poly1305@openssh.com", "aes256-ctr"),
	}
	pref := [8]string{"kex", "hostkey", "", "", "mac-cs", "mac-sc", "comp-cs", "comp-sc"}
	var fam [8][][2][]string
	for k := range c28fields {
		if k == 2 || k == 3 {
			fam[k] = ciph
		} else {
			o := ok2(pref[k])
			fam[k] = [][2][]string{o[1], o[0]}
		}
	}
	done := false
	var product func(k int, sc *c28scenario)
	product = func(k int, sc *c28scenario) {
		if done {
			return
		}
		if k == 8 {
			if !check(sc) {
				done = true
			}
			return
		}
		for _, m := range fam[k] {
			sc.cl[k], sc.sv[k] = m[0], m[1]
			product(k+1, sc)
		}
	}
	product(0, &c28scenario{})
	// family 2: every pair of short lists for one field at a time
	if !done {
		for _, base := range [][2]int{{0, 1}, {1, 0}} {
			for k := range c28fields {
				alpha := []string{pref[k] + "-a", pref[k] + "-b", pref[k] + "-c"}
				if k == 2 || k == 3 {
					alpha = []string{"aes128-ctr", "aes128-gcm@openssh.com", "chacha20-poly1305@openssh.com"}
				}
				ls := c28lists(alpha, 2)
				for _, cl := range ls {
					for _, sv := range ls {
						if done {
							break
						}
						var sc c28scenario
						for j := range c28fields {
							sc.cl[j], sc.sv[j] = fam[j][0][0], fam[j][0][1]
						}
						sc.cl[2], sc.sv[2] = ciph[base[0]][0], ciph[base[0]][1]
						sc.cl[3], sc.sv[3] = ciph[base[1]][0], ciph[base[1]][1]
						sc.cl[k], sc.sv[k] = cl, sv
						if !check(&sc) {
							done = true
						}
					}
				}
			}
		}
	}
	if undecided != "" {
		c.undecided("C28.agreed-value", whole, f, "evaluation left the model: "+undecided)
		return
	}
	n := fmt.Sprintf(" (%d evaluations)", runs)
	for k, name := range c28fields {
		rec := c28slots[k][0]
		where := "NegotiatedAlgorithms." + c28slots[k][1]
		if rec == "ctos" {
			where = "Write." + c28slots[k][1] + " of a client / Read." + c28slots[k][1] + " of a server"
		} else if rec == "stoc" {
			where = "Read." + c28slots[k][1] + " of a client / Write." + c28slots[k][1] + " of a server"
		}
		c.check(t.get("C28.agreed-value", name) == "", "C28.agreed-value", name, f, "first entry of the client's "+name+" that the server's "+name+" contains, stored in "+where+n, t.get("C28.agreed-value", name))
	}
	for _, dir := range []string{"ctos", "stoc"} {
		construct := dir + " MAC negotiation"
		c.check(t.get("C28.mac-gate", construct) == "", "C28.mac-gate", construct, f, "negotiated exactly when this direction's cipher is not an AEAD, independent of the other direction and of the MAC lists when it is"+n, t.get("C28.mac-gate", construct))
	}
	for _, name := range c28fields {
		c.check(t.get("C28.agreed-fail", name) == "", "C28.agreed-fail", name, f, "no common entry in a required negotiation makes the call fail for both roles"+n, t.get("C28.agreed-fail", name))
	}
	c.check(t.get("C28.agreed-fail", whole) == "", "C28.agreed-fail", whole, f, "never fails or panics when every required list pair has a common entry"+n, t.get("C28.agreed-fail", whole))
	c.check(t.get("C28.agreed-errlabel", whole) == "", "C28.agreed-errlabel", whole, f, "a failure names own/peer lists of a field without common entry according to the role"+n, t.get("C28.agreed-errlabel", whole))
	c.check(t.get("C28.agreed-symmetric", whole) == "", "C28.agreed-symmetric", whole, f, "client and server computations both fail or agree on all eight algorithms with Read/Write exchanged"+n, t.get("C28.agreed-symmetric", whole))
}

func c28show(l [8][]string) string {
	var sb strings.Builder
	sb.WriteString("{")
	for k, name := range c28fields {
		if k > 0 {
			sb.WriteString(" ")
		}
		fmt.Fprintf(&sb, "%s:%q", name, l[k])
	}
	sb.WriteString("}")
	return sb.String()
}
