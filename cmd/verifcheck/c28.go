package main

import (
	"fmt"
	"go/token"
	"strings"

	"golang.org/x/tools/go/ssa"
)

func init() {
	register(&propDef{
		id: "C28", run: runC28, minOblig: 20,
		explanation: "Decides RFC 4253 section 7.1 negotiation structure: (findCommon) the algorithm returned on success is an element loaded from the CLIENT list, the return lies behind the equality test of that element with an element of the SERVER list, the client loop is the outer loop and both indices run over all elements in increasing order — hence the first client entry also offered by the server; (findAgreedAlgorithms) each of the 8 findCommon calls takes field F of the client KEXINIT as list 1 and the same field F of the server KEXINIT as list 2, and its result is stored into the slot prescribed for F: client-to-server fields into the record that is Write for a client and Read for a server, server-to-client fields into the opposite record (direction resolved by evaluating the isClient branch); each MAC negotiation is reachable exactly when the aeadCiphers lookup on the cipher of the SAME direction is false, independent of the other direction (finite-domain evaluation over both lookups); every failed negotiation returns the error. NOT decided: nothing numeric is involved.",
		assumptions: []string{"kexInitMsg field names reflect RFC 4253 field order (checked under C24 against the wire tags)"},
	})
	tech("C28", "SSA provenance of the returned element, loop-nesting structure, argument/destination table agreement, finite-domain evaluation of the AEAD/MAC gates")
}

func runC28(c *Ctx) {
	// ---------------- findCommon
	if f := c.fn("ssh", "findCommon"); f != nil {
		client, server := param(f, "client"), param(f, "server")
		if client == nil || server == nil {
			if len(f.Params) >= 3 {
				client, server = f.Params[1], f.Params[2]
			}
		}
		loadOf := func(v ssa.Value) (base ssa.Value, idx ssa.Value, ok bool) {
			u, isU := v.(*ssa.UnOp)
			if !isU || u.Op != token.MUL {
				return nil, nil, false
			}
			ia, isIA := u.X.(*ssa.IndexAddr)
			if !isIA {
				return nil, nil, false
			}
			return ia.X, ia.Index, true
		}
		succ := retTargets(f, func(r *ssa.Return) bool { return errNilness(r.Results[1], r.Block(), 0) != neverNil })
		okAll := len(succ) > 0
		for _, r := range succ {
			b, idx, ok := loadOf(r.Results[0])
			if !ok || b != ssa.Value(client) {
				c.fail("C28.findcommon-result", "findCommon success return", r, "the algorithm returned on success is not an element of the client's list")
				okAll = false
				continue
			}
			// equality gate: this value == element of server list
			var eq []edge
			var sidx ssa.Value
			allInstrs(f, func(in ssa.Instruction) {
				bo, isB := in.(*ssa.BinOp)
				if !isB || (bo.Op != token.EQL && bo.Op != token.NEQ) {
					return
				}
				for _, pr := range [][2]ssa.Value{{bo.X, bo.Y}, {bo.Y, bo.X}} {
					b1, i1, ok1 := loadOf(pr[0])
					b2, i2, ok2 := loadOf(pr[1])
					if ok1 && ok2 && b1 == ssa.Value(client) && i1 == idx && b2 == ssa.Value(server) {
						y, _ := boolEdges(bo, bo.Op == token.EQL)
						eq = append(eq, y...)
						sidx = i2
					}
				}
			})
			if !c.mustCross("C28.findcommon-match", "findCommon success return", f, []ssa.Instruction{r}, eq, "client[i] == server[j]") {
				okAll = false
				continue
			}
			// loop structure
			ci, ok1 := idx.(*ssa.BinOp)
			si, ok2 := sidx.(*ssa.BinOp)
			var cphi, sphi *ssa.Phi
			if ok1 && ok2 && ci.Op == token.ADD && si.Op == token.ADD {
				cphi, _ = ci.X.(*ssa.Phi)
				sphi, _ = si.X.(*ssa.Phi)
			} else {
				cphi, _ = idx.(*ssa.Phi)
				sphi, _ = sidx.(*ssa.Phi)
			}
			if cphi == nil || sphi == nil {
				c.fail("C28.findcommon-order", "findCommon loops", f, "index variables of the client/server loops not recognised")
				okAll = false
				continue
			}
			incOK := func(p *ssa.Phi) bool {
				seenInit, seenInc := false, false
				for _, e := range p.Edges {
					if k, ok := constInt(e); ok && (k == -1 || k == 0) {
						seenInit = true
						continue
					}
					if bo, ok := e.(*ssa.BinOp); ok && bo.Op == token.ADD && bo.X == ssa.Value(p) {
						if k, ok := constInt(bo.Y); ok && k == 1 {
							seenInc = true
							continue
						}
					}
					return false
				}
				return seenInit && seenInc
			}
			outer := cphi.Block().Dominates(sphi.Block()) && cphi.Block() != sphi.Block() && reach([]*ssa.BasicBlock{sphi.Block()}, nil)[cphi.Block()]
			c.check(outer && incOK(cphi) && incOK(sphi), "C28.findcommon-order", "findCommon loops", cphi,
				"client list is the outer loop; both indices start at the first element and advance by one", "loop nesting or index progression changed: the result is no longer the first client entry supported by the server")
		}
		if okAll {
			c.ok("C28.findcommon-result", "findCommon success return", succ[0], "returns client[i] for the first i with client[i] == server[j]")
		}
	}

	// ---------------- findAgreedAlgorithms
	f := c.fn("ssh", "findAgreedAlgorithms")
	if f == nil {
		return
	}
	isClient, cli, srv := f.Params[0], f.Params[1], f.Params[2]
	type slot struct{ rec, field string }
	want := map[string]slot{
		"KexAlgos":                {"result", "KeyExchange"},
		"ServerHostKeyAlgos":      {"result", "HostKey"},
		"CiphersClientServer":     {"ctos", "Cipher"},
		"CiphersServerClient":     {"stoc", "Cipher"},
		"MACsClientServer":        {"ctos", "MAC"},
		"MACsServerClient":        {"stoc", "MAC"},
		"CompressionClientServer": {"ctos", "compression"},
		"CompressionServerClient": {"stoc", "compression"},
	}
	// resolve a record pointer to "Write"/"Read" for isClient=1 and 0
	recName := func(v ssa.Value, ic int64) string {
		switch x := v.(type) {
		case *ssa.FieldAddr:
			_, fld, _, _ := fieldOf(x)
			return fld
		case *ssa.Phi:
			e := newEnv()
			e.bind(isClient, ic)
			e.solve(f)
			name := ""
			for i, ed := range x.Edges {
				pred := x.Block().Preds[i]
				if e.reach[pred] && e.edgeFeasible(pred, x.Block()) {
					if fa, ok := ed.(*ssa.FieldAddr); ok {
						_, fld, _, _ := fieldOf(fa)
						if name != "" && name != fld {
							return "?"
						}
						name = fld
					}
				}
			}
			return name
		}
		return ""
	}
	callsFC := callsNamed(f, "ssh.findCommon")
	c.check(len(callsFC) == 8, "C28.agreed-calls", "findAgreedAlgorithms", f, "8 negotiations", fmt.Sprintf("expected 8 findCommon calls, found %d", len(callsFC)))
	macCalls := map[string]*ssa.Call{}
	recOf := map[string]ssa.Value{} // "ctos"/"stoc" -> pointer value
	for _, ci := range callsFC {
		call := ci.(*ssa.Call)
		_, f1, b1, ok1 := fieldOf(call.Call.Args[1])
		_, f2, b2, ok2 := fieldOf(call.Call.Args[2])
		name := "findCommon(" + f1 + ")"
		if !ok1 || !ok2 || f1 != f2 || b1 != ssa.Value(cli) || b2 != ssa.Value(srv) {
			c.fail("C28.agreed-args", name, call, fmt.Sprintf("lists are %s of %s and %s of %s; must be the same field of the client and the server KEXINIT, in that order", f1, valName(b1), f2, valName(b2)))
			continue
		}
		c.check(call.Call.Args[3] == ssa.Value(isClient), "C28.agreed-args", name+" isClient", call, "error labelling follows isClient", "isClient is not forwarded to findCommon")
		w, known := want[f1]
		if !known {
			c.fail("C28.agreed-args", name, call, "KEXINIT field not in the RFC 4253 table of negotiated lists")
			continue
		}
		// destination of result #0
		var dst *ssa.FieldAddr
		for _, v := range resultN(call, 0) {
			for _, r := range *v.Referrers() {
				if st, ok := r.(*ssa.Store); ok {
					dst, _ = st.Addr.(*ssa.FieldAddr)
				}
			}
		}
		if dst == nil {
			c.fail("C28.agreed-dest", name, call, "the negotiated value is not stored")
			continue
		}
		_, dfield, dbase, _ := fieldOf(dst)
		good := dfield == w.field
		detail := ""
		switch w.rec {
		case "result":
			if typeName(dbase.Type()) != "NegotiatedAlgorithms" {
				good = false
			}
		case "ctos":
			r1, r0 := recName(dbase, 1), recName(dbase, 0)
			if r1 != "Write" || r0 != "Read" {
				good = false
			}
			detail = fmt.Sprintf("client: %s, server: %s", r1, r0)
			recOf["ctos"] = dbase
		case "stoc":
			r1, r0 := recName(dbase, 1), recName(dbase, 0)
			if r1 != "Read" || r0 != "Write" {
				good = false
			}
			detail = fmt.Sprintf("client: %s, server: %s", r1, r0)
			recOf["stoc"] = dbase
		}
		c.check(good, "C28.agreed-dest", name, call, "stored into "+w.rec+"."+w.field+" ("+detail+")",
			"the negotiated "+f1+" value is stored into the wrong slot/direction: field "+dfield+" "+detail+"; expected "+w.rec+"."+w.field)
		if strings.HasPrefix(f1, "MACs") {
			macCalls[w.rec] = call
		}
		// failure returns the error
		fails := callFailure([]ssa.CallInstruction{call}, -1, isNil)
		okRet := len(fails) > 0
		for _, e := range fails {
			blk := e.to()
			if _, isRet := blk.Instrs[len(blk.Instrs)-1].(*ssa.Return); !isRet {
				okRet = false
			}
		}
		c.check(okRet, "C28.agreed-fail", name, call, "a failed negotiation returns immediately", "a failed negotiation does not return its error")
	}
	// AEAD gates
	lookups := map[string]*ssa.Lookup{}
	allInstrs(f, func(in ssa.Instruction) {
		lk, ok := in.(*ssa.Lookup)
		if !ok || accessPath(lk.X) != "aeadCiphers" {
			return
		}
		_, fld, base, ok := fieldOf(lk.Index)
		if !ok || fld != "Cipher" {
			return
		}
		for rec, ptr := range recOf {
			if base == ptr {
				lookups[rec] = lk
			}
		}
	})
	for _, rec := range []string{"ctos", "stoc"} {
		other := "stoc"
		if rec == "stoc" {
			other = "ctos"
		}
		call, lk, lko := macCalls[rec], lookups[rec], lookups[other]
		name := rec + " MAC negotiation"
		if call == nil || lk == nil || lko == nil {
			c.fail("C28.mac-gate", name, f, "no aeadCiphers lookup keyed by the "+rec+" cipher guards the "+rec+" MAC negotiation (the gate tests a different direction's cipher, or is missing)")
			continue
		}
		bad := ""
		for a := int64(0); a < 2; a++ {
			for b := int64(0); b < 2; b++ {
				e := newEnv()
				e.bind(lk, a)
				e.bind(lko, b)
				// all findCommon calls succeed
				for _, ci := range callsFC {
					for _, ev := range errResult(ci.(*ssa.Call)) {
						for _, r := range *ev.Referrers() {
							if bo, ok := r.(*ssa.BinOp); ok && (bo.Op == token.NEQ || bo.Op == token.EQL) {
								if bo.Op == token.NEQ {
									e.bind(bo, 0)
								} else {
									e.bind(bo, 1)
								}
							}
						}
					}
				}
				e.solve(f)
				got := e.reach[call.Block()]
				want := a == 0
				if got != want {
					bad = fmt.Sprintf("aead(%s cipher)=%d aead(%s cipher)=%d: %s MAC negotiated=%v, RFC 4253/AEAD rule requires %v", rec, a, other, b, rec, got, want)
				}
			}
		}
		c.check(bad == "", "C28.mac-gate", name, call, "negotiated exactly when this direction's cipher is not an AEAD, independent of the other direction (4 cases)", bad)
	}
}

func valName(v ssa.Value) string {
	if v == nil {
		return "<nil>"
	}
	if p, ok := v.(*ssa.Parameter); ok {
		return p.Name()
	}
	return v.Name()
}
