package main

import (
	"fmt"
	"go/token"
	"go/types"
	"strings"

	"golang.org/x/tools/go/ssa"
)

// Octet-level memory and hash-transcript model for the C20 rules.
//
// The rules interpret the s2k functions with pathWalker (slices by length) and
// need to know, independently of how the code is factored, WHICH octets reach
// the hash and the output. c20sim keeps that knowledge outside the walker:
//
//   - every byte buffer (a []byte parameter, a local or captured byte array, a
//     make([]byte, n), a never-written global byte array, the result of append /
//     slices.Concat / Hash.Sum) has an id and a content: one token per octet;
//     a token is either a concrete octet value 0..255 or a symbolic octet
//     (salt[k], passphrase[k], octet k of the digest of hash context c);
//   - slice values carry (buffer id, offset) in the walker's side tables
//     w.cls / w.off (which follow arguments into helpers) and their length in
//     the walker's bindings;
//   - address-taken scalars, slice headers, interface values and closures
//     (variables captured by a function literal) live in cells keyed by their
//     Alloc; a captured variable is resolved statically to the Alloc it binds;
//   - a value classified "hash" records Reset / Write / Sum as hash contexts,
//     "reader" hands out the octets of a modelled input stream to io.ReadFull,
//     "writer" collects what is written.
//
// Nothing here depends on names of locals, parameters or helpers.

const (
	c20Unknown = int64(-1)
	c20OutInit = int64(-2)
	c20SaltTok = int64(1000)
	c20PassTok = int64(2000)
	c20DigTok  = int64(1000000)
)

func c20Tok(t int64) string {
	switch {
	case t == c20Unknown:
		return "an unknown octet"
	case t == c20OutInit:
		return "the caller's octet (never written)"
	case t == 0:
		return "a zero octet"
	case t >= c20DigTok:
		return fmt.Sprintf("octet %d of the digest of context %d", (t-c20DigTok)%1000, (t-c20DigTok)/1000)
	case t >= c20PassTok:
		return fmt.Sprintf("passphrase octet %d", t-c20PassTok)
	case t >= c20SaltTok:
		return fmt.Sprintf("salt octet %d", t-c20SaltTok)
	}
	return fmt.Sprintf("octet value %#x", t)
}

func c20Seq(base, n int64) []int64 {
	out := make([]int64, n)
	for i := range out {
		out[i] = base + int64(i)
	}
	return out
}

func c20Fill(tok, n int64) []int64 {
	if n < 0 {
		n = 0
	}
	out := make([]int64, n)
	for i := range out {
		out[i] = tok
	}
	return out
}

type c20cell struct {
	n      int64
	nok    bool
	cls    string
	off    int64
	hasCls bool
	fn     ssa.Value
}

type c20ctx struct {
	stream []int64
	sumAt  int // len(stream) when the digest was last taken, -1: never
	early  bool
}

type c20sim struct {
	c      *Ctx
	pkg    string
	hs     int64
	bufs   map[string][]int64
	frozen map[string]bool
	valBuf map[ssa.Value]string
	cells  map[ssa.Value]*c20cell
	fnOf   map[ssa.Value]ssa.Value
	lists  map[ssa.Value]map[int64]ssa.Value
	tupCls map[ssa.Value][]string
	tupFn  map[ssa.Value][]ssa.Value
	tupNil map[ssa.Value][]nilState
	nilOf  map[ssa.Value]nilState           // error values returned by interpreted helpers
	gtab   map[*ssa.Global]map[int64]optInt // integer tables being built by the package initializer
	ctxs   []*c20ctx
	notes  []string
	nbuf   int
	// reader / writer model
	input   func(pos int64) int64
	rpos    int64
	written []int64
	extra   func(w *pathWalker, ci ssa.CallInstruction) bool
}

func newC20sim(c *Ctx, pkg string, hs int64) *c20sim {
	return &c20sim{c: c, pkg: pkg, hs: hs, bufs: map[string][]int64{"nil": {}}, frozen: map[string]bool{"nil": true},
		valBuf: map[ssa.Value]string{}, cells: map[ssa.Value]*c20cell{}, fnOf: map[ssa.Value]ssa.Value{},
		lists: map[ssa.Value]map[int64]ssa.Value{}, tupCls: map[ssa.Value][]string{},
		tupFn: map[ssa.Value][]ssa.Value{}, tupNil: map[ssa.Value][]nilState{}, nilOf: map[ssa.Value]nilState{}}
}

func (s *c20sim) note(format string, a ...interface{}) {
	if len(s.notes) < 8 {
		s.notes = append(s.notes, fmt.Sprintf(format, a...))
	}
}

func (s *c20sim) newBuf(content []int64) string {
	s.nbuf++
	id := fmt.Sprintf("b#%d", s.nbuf)
	s.bufs[id] = content
	return id
}

// param declares a []byte parameter of the interpreted function as buffer id
// with the given content.
func (s *c20sim) param(w *pathWalker, p ssa.Value, id string, content []int64, frozen bool) {
	s.bufs[id] = content
	s.frozen[id] = frozen
	w.cls[p], w.off[p] = id, 0
	w.env.bind(p, int64(len(content)))
}

func (s *c20sim) walker(steps int) *pathWalker {
	w := &pathWalker{env: newEnv(), lengths: true, maxSteps: steps, assumeErrNil: true}
	w.cls, w.off = map[ssa.Value]string{}, map[ssa.Value]int64{}
	w.rootPkg = s.c.ssaPkg(s.pkg)
	w.onSlice, w.onPhi, w.onLoad, w.onStore, w.onCall = s.onSlice, s.onPhi, s.onLoad, s.onStore, s.onCall
	w.onInline, w.onExtract, w.onReturn = s.onInline, s.onExtract, s.onReturn
	return w
}

func c20ByteArray(t types.Type) (int64, bool) {
	if p, ok := t.Underlying().(*types.Pointer); ok {
		t = p.Elem()
	}
	a, ok := t.Underlying().(*types.Array)
	if !ok {
		return 0, false
	}
	b, ok := a.Elem().Underlying().(*types.Basic)
	if !ok || b.Kind() != types.Uint8 {
		return 0, false
	}
	return a.Len(), true
}

func c20IsByteSlice(t types.Type) bool {
	sl, ok := t.Underlying().(*types.Slice)
	if !ok {
		return false
	}
	b, ok := sl.Elem().Underlying().(*types.Basic)
	return ok && b.Kind() == types.Uint8
}

// c20Binding resolves a captured variable to the value the function literal
// was closed over (the variable's Alloc in the enclosing function).
func c20Binding(fv *ssa.FreeVar) ssa.Value {
	fn := fv.Parent()
	if fn == nil || fn.Parent() == nil {
		return nil
	}
	idx := -1
	for i, x := range fn.FreeVars {
		if x == fv {
			idx = i
		}
	}
	var out ssa.Value
	allInstrs(fn.Parent(), func(in ssa.Instruction) {
		if mc, ok := in.(*ssa.MakeClosure); ok && mc.Fn == ssa.Value(fn) && idx >= 0 && idx < len(mc.Bindings) {
			out = mc.Bindings[idx]
		}
	})
	return out
}

func (s *c20sim) ptrRoot(v ssa.Value) ssa.Value {
	for d := 0; d < 8 && v != nil; d++ {
		switch x := v.(type) {
		case *ssa.Alloc:
			return x
		case *ssa.FreeVar:
			v = c20Binding(x)
		default:
			return nil
		}
	}
	return nil
}

// zeroGlobal: a package-level byte array that nothing in the package writes
// (only loads of its elements and slices that are not the destination of copy).
func (s *c20sim) zeroGlobal(g *ssa.Global) bool {
	sp := s.c.ssaPkg(s.pkg)
	if sp == nil || g.Pkg != sp {
		return false
	}
	fns := s.c.funcsOfPkg(s.pkg)
	if in := sp.Func("init"); in != nil {
		fns = append(fns, in)
	}
	ok := true
	for _, f := range fns {
		allInstrs(f, func(in ssa.Instruction) {
			uses := false
			for _, op := range in.Operands(nil) {
				if *op == ssa.Value(g) {
					uses = true
				}
			}
			if !uses {
				return
			}
			switch x := in.(type) {
			case *ssa.IndexAddr:
				for _, r := range *x.Referrers() {
					if u, isU := r.(*ssa.UnOp); !isU || u.Op != token.MUL {
						ok = false
					}
				}
			case *ssa.Slice:
				for _, r := range *x.Referrers() {
					cc := callCommon(r)
					if cc == nil {
						ok = false
						continue
					}
					if n := calleeName(cc); (n == "builtin:copy" || n == "builtin:append") && len(cc.Args) > 0 && cc.Args[0] == ssa.Value(x) {
						ok = false
					}
				}
			default:
				ok = false
			}
		})
	}
	return ok
}

func (s *c20sim) lenOf(w *pathWalker, v ssa.Value) (int64, bool) {
	if n, ok := w.env.eval(v); ok {
		return n, true
	}
	if isNilConst(v) {
		return 0, true
	}
	return 0, false
}

// bufOf: the buffer and offset a slice value / pointer to a byte array denotes.
func (s *c20sim) bufOf(w *pathWalker, v ssa.Value) (string, int64, bool) {
	if v == nil {
		return "", 0, false
	}
	if id, ok := w.cls[v]; ok {
		if _, isBuf := s.bufs[id]; isBuf {
			return id, w.off[v], true
		}
		return "", 0, false
	}
	if id, ok := s.valBuf[v]; ok {
		stale := false
		if ms, isMake := v.(*ssa.MakeSlice); isMake {
			// a make executed again (in a loop, in a helper called again) with another
			// length is a fresh zeroed buffer
			if n, nok := w.env.eval(ms); nok && n != int64(len(s.bufs[id])) {
				stale = true
			}
		}
		if !stale {
			return id, 0, true
		}
	}
	switch x := v.(type) {
	case *ssa.Alloc:
		if n, ok := c20ByteArray(x.Type()); ok && n <= 4096 {
			id := s.newBuf(c20Fill(0, n))
			s.valBuf[x] = id
			return id, 0, true
		}
	case *ssa.FreeVar:
		if r := s.ptrRoot(x); r != nil {
			return s.bufOf(w, r)
		}
	case *ssa.Global:
		if n, ok := c20ByteArray(x.Type()); ok && n <= 4096 && s.zeroGlobal(x) {
			id := s.newBuf(c20Fill(0, n))
			s.frozen[id] = true
			s.valBuf[x] = id
			return id, 0, true
		}
	case *ssa.MakeSlice:
		if n, ok := w.env.eval(x); ok && c20IsByteSlice(x.Type()) && n >= 0 && n <= 1<<20 {
			id := s.newBuf(c20Fill(0, n))
			s.valBuf[x] = id
			return id, 0, true
		}
	case *ssa.Slice:
		id, o, ok := s.bufOf(w, x.X)
		if !ok {
			return "", 0, false
		}
		lo := int64(0)
		if x.Low != nil {
			n, lok := w.env.eval(x.Low)
			if !lok {
				return "", 0, false
			}
			lo = n
		}
		return id, o + lo, true
	case *ssa.Const:
		if x.IsNil() && c20IsByteSlice(x.Type()) {
			return "nil", 0, true
		}
	case *ssa.ChangeType:
		return s.bufOf(w, x.X)
	}
	return "", 0, false
}

// read returns n tokens of the buffer v denotes (unknown tokens when v is not modelled).
func (s *c20sim) read(w *pathWalker, v ssa.Value, n int64) []int64 {
	out := c20Fill(c20Unknown, n)
	id, o, ok := s.bufOf(w, v)
	if !ok {
		return out
	}
	b := s.bufs[id]
	for i := int64(0); i < n; i++ {
		if o+i >= 0 && o+i < int64(len(b)) {
			out[i] = b[o+i]
		}
	}
	return out
}

func (s *c20sim) write(id string, o int64, toks []int64) {
	if s.frozen[id] {
		if len(toks) > 0 {
			s.note("octets are written into a buffer that must stay constant (%s)", id)
		}
		return
	}
	b := s.bufs[id]
	for i, t := range toks {
		if k := o + int64(i); k >= 0 && k < int64(len(b)) {
			b[k] = t
		}
	}
}

func (s *c20sim) fnValue(v ssa.Value) ssa.Value {
	switch x := v.(type) {
	case *ssa.MakeClosure, *ssa.Function:
		return x
	}
	return s.fnOf[v]
}

func (s *c20sim) onSlice(w *pathWalker, sl *ssa.Slice) {
	delete(w.cls, sl)
	delete(w.off, sl)
	if id, o, ok := s.bufOf(w, sl); ok {
		w.cls[sl], w.off[sl] = id, o
	}
}

func (s *c20sim) onPhi(w *pathWalker, ph *ssa.Phi, in ssa.Value) {
	if id, o, ok := s.bufOf(w, in); ok {
		w.cls[ph], w.off[ph] = id, o
	} else if cl, ok := w.cls[in]; ok {
		w.cls[ph], w.off[ph] = cl, w.off[in]
	} else {
		delete(w.cls, ph)
		delete(w.off, ph)
	}
	if isNilConst(in) && c20IsByteSlice(in.Type()) {
		w.env.bind(in, 0)
	}
	if f := s.fnValue(in); f != nil {
		s.fnOf[ph] = f
	} else {
		delete(s.fnOf, ph)
	}
}

func (s *c20sim) onExtract(w *pathWalker, ex *ssa.Extract) {
	if cl := s.tupCls[ex.Tuple]; ex.Index < len(cl) && cl[ex.Index] != "" {
		w.cls[ex] = cl[ex.Index]
	}
	delete(s.fnOf, ex)
	if fs := s.tupFn[ex.Tuple]; ex.Index < len(fs) && fs[ex.Index] != nil {
		s.fnOf[ex] = fs[ex.Index]
	}
	delete(s.nilOf, ex)
	if ns := s.tupNil[ex.Tuple]; ex.Index < len(ns) && ns[ex.Index] != maybeNil {
		s.nilOf[ex] = ns[ex.Index]
	}
}

// errState: can the error value v be nil where it is used in block at? Values
// handed back by an interpreted helper carry the state of the return taken.
func (s *c20sim) errState(v ssa.Value, at *ssa.BasicBlock) nilState {
	if st, ok := s.nilOf[v]; ok {
		return st
	}
	return errNilness(v, at, 0)
}

// onReturn: function values, buffer classes and error states of an interpreted
// helper's results reach the call (single result) or its extracts (tuple).
func (s *c20sim) onReturn(parent, child *pathWalker, call *ssa.Call, results []ssa.Value) {
	errT := types.Universe.Lookup("error").Type()
	fns := make([]ssa.Value, len(results))
	nils := make([]nilState, len(results))
	cls := make([]string, len(results))
	for i, r := range results {
		fns[i] = s.fnValue(r)
		nils[i] = maybeNil
		if types.Identical(r.Type(), errT) && child.last != nil {
			nils[i] = s.errState(r, child.last.Block())
		}
		cls[i] = parent.cls[r]
	}
	if len(results) == 1 {
		delete(s.fnOf, call)
		delete(s.nilOf, call)
		if fns[0] != nil {
			s.fnOf[call] = fns[0]
		}
		if nils[0] != maybeNil {
			s.nilOf[call] = nils[0]
		}
		return
	}
	s.tupFn[call], s.tupNil[call], s.tupCls[call] = fns, nils, cls
}

func (s *c20sim) onInline(parent, child *pathWalker, callee *ssa.Function, args []ssa.Value) {
	for i, p := range callee.Params {
		if i >= len(args) {
			break
		}
		if isNilConst(args[i]) && c20IsByteSlice(args[i].Type()) {
			child.env.bind(p, 0)
			parent.cls[p], parent.off[p] = "nil", 0
		} else if _, has := parent.cls[args[i]]; !has {
			// a pointer to a modelled byte array / a fresh make: give the parameter the buffer
			if id, o, ok := s.bufOf(parent, args[i]); ok {
				parent.cls[p], parent.off[p] = id, o
			}
		}
		if f := s.fnValue(args[i]); f != nil {
			s.fnOf[p] = f
		} else {
			delete(s.fnOf, p)
		}
	}
}

func (s *c20sim) onLoad(w *pathWalker, u *ssa.UnOp) (int64, bool) {
	if ia, ok := u.X.(*ssa.IndexAddr); ok {
		k, kok := w.env.eval(ia.Index)
		if !kok {
			return 0, false
		}
		if g, isG := ia.X.(*ssa.Global); isG {
			if n, ok := s.tableEntry(g, k); ok {
				return n, true
			}
		}
		id, o, ok := s.bufOf(w, ia.X)
		if !ok {
			return 0, false
		}
		b := s.bufs[id]
		if o+k < 0 || o+k >= int64(len(b)) {
			return 0, false
		}
		if t := b[o+k]; t >= 0 && t < 256 {
			return t, true
		}
		return 0, false
	}
	if g, ok := u.X.(*ssa.Global); ok && s.gtab != nil && strings.HasPrefix(g.Name(), "init$guard") {
		return 0, true // the package initializer runs once
	}
	r := s.ptrRoot(u.X)
	if r == nil {
		return 0, false
	}
	cell := s.cells[r]
	if cell == nil {
		return 0, false
	}
	delete(w.cls, u)
	delete(w.off, u)
	if cell.hasCls {
		w.cls[u], w.off[u] = cell.cls, cell.off
	}
	if cell.fn != nil {
		s.fnOf[u] = cell.fn
	}
	return cell.n, cell.nok
}

func (s *c20sim) onStore(w *pathWalker, st *ssa.Store) string {
	if ia, ok := st.Addr.(*ssa.IndexAddr); ok {
		k, kok := w.env.eval(ia.Index)
		if g, isG := ia.X.(*ssa.Global); isG && s.gtab != nil {
			if _, _, isInt := intBits(st.Val.Type()); isInt {
				if s.gtab[g] == nil {
					s.gtab[g] = map[int64]optInt{}
				}
				if !kok {
					s.gtab[g][-1] = optInt{}
					return ""
				}
				n, nok := w.env.eval(st.Val)
				s.gtab[g][k] = optInt{n, nok}
			}
			return ""
		}
		if c20IsByteSlice(st.Val.Type()) {
			if a, isA := ia.X.(*ssa.Alloc); isA && kok {
				if s.lists[a] == nil {
					s.lists[a] = map[int64]ssa.Value{}
				}
				s.lists[a][k] = st.Val
			}
			return ""
		}
		id, o, ok := s.bufOf(w, ia.X)
		if !ok {
			return ""
		}
		if !kok {
			s.write(id, 0, c20Fill(c20Unknown, int64(len(s.bufs[id]))))
			return ""
		}
		t := c20Unknown
		if n, nok := w.env.eval(st.Val); nok {
			t = n & 0xff
		}
		s.write(id, o+k, []int64{t})
		return ""
	}
	r := s.ptrRoot(st.Addr)
	if r == nil {
		return ""
	}
	cell := &c20cell{}
	cell.n, cell.nok = s.lenOf(w, st.Val)
	if id, o, ok := s.bufOf(w, st.Val); ok {
		cell.cls, cell.off, cell.hasCls = id, o, true
	} else if cl, ok := w.cls[st.Val]; ok {
		cell.cls, cell.off, cell.hasCls = cl, w.off[st.Val], true
	}
	cell.fn = s.fnValue(st.Val)
	s.cells[r] = cell
	return ""
}

// callFn interprets a function value (function literal with its captured
// variables, or a plain function) on integer arguments; setup may bind more.
func (s *c20sim) callFn(w *pathWalker, fv ssa.Value, depth int, setup func(ch *pathWalker, fn *ssa.Function)) (*pathWalker, *ssa.Function, string) {
	fv = s.fnValue(fv)
	var fn *ssa.Function
	var binds []ssa.Value
	switch x := fv.(type) {
	case *ssa.MakeClosure:
		fn, _ = x.Fn.(*ssa.Function)
		binds = x.Bindings
	case *ssa.Function:
		fn = x
	}
	if fn == nil || len(fn.Blocks) == 0 {
		return nil, nil, "undecided"
	}
	ch := s.walker(40000)
	if w != nil {
		ch.maxSteps = max(w.maxSteps, 4000)
		ch.depth = depth
		ch.root = w.rootW()
		// captured VALUES (pointers to captured variables are resolved statically)
		for i, fvar := range fn.FreeVars {
			if i >= len(binds) {
				break
			}
			if _, isPtr := binds[i].Type().Underlying().(*types.Pointer); isPtr {
				continue
			}
			if n, ok := s.lenOf(w, binds[i]); ok {
				ch.env.bind(fvar, n)
			}
			if id, o, ok := s.bufOf(w, binds[i]); ok {
				ch.cls[fvar], ch.off[fvar] = id, o
			} else if cl, ok := w.cls[binds[i]]; ok {
				ch.cls[fvar], ch.off[fvar] = cl, w.off[binds[i]]
			}
		}
	}
	if setup != nil {
		setup(ch, fn)
	}
	end := ch.walk(fn.Blocks[0], nil)
	if w != nil && ch.oob {
		w.markOOB(ch.oobAt)
	}
	return ch, fn, end
}

// pred evaluates a func(int) bool value on n.
func (s *c20sim) pred(w *pathWalker, f ssa.Value, n int64) (bool, bool) {
	ch, fn, end := s.callFn(w, f, w.depth+1, func(ch *pathWalker, fn *ssa.Function) {
		if len(fn.Params) == 1 {
			ch.env.bind(fn.Params[0], n)
		}
	})
	if end != "return" || len(fn.Params) != 1 {
		return false, false
	}
	ret := ch.last.(*ssa.Return)
	if len(ret.Results) != 1 {
		return false, false
	}
	r, ok := ch.env.eval(ret.Results[0])
	return r != 0, ok
}

func (s *c20sim) cur() *c20ctx {
	if len(s.ctxs) == 0 {
		s.ctxs = append(s.ctxs, &c20ctx{sumAt: -1, early: true})
	}
	return s.ctxs[len(s.ctxs)-1]
}

func (s *c20sim) onCall(w *pathWalker, ci ssa.CallInstruction) string {
	cc := ci.Common()
	name := calleeName(cc)
	val, _ := ci.(ssa.Value)
	bindRes := func(id string, n int64) {
		if val != nil {
			w.cls[val], w.off[val] = id, 0
			w.env.bind(val, n)
		}
	}
	switch {
	case name == "builtin:copy" && len(cc.Args) == 2:
		did, doff, ok := s.bufOf(w, cc.Args[0])
		if !ok {
			return ""
		}
		dl, ok1 := s.lenOf(w, cc.Args[0])
		sl, ok2 := s.lenOf(w, cc.Args[1])
		if !ok1 || !ok2 {
			s.note("a copy of unknown length into a modelled buffer")
			s.write(did, 0, c20Fill(c20Unknown, int64(len(s.bufs[did]))))
			return ""
		}
		s.write(did, doff, s.read(w, cc.Args[1], min(dl, sl)))
	case name == "builtin:append" && len(cc.Args) == 2 && c20IsByteSlice(cc.Args[0].Type()):
		xl, ok1 := s.lenOf(w, cc.Args[0])
		yl, ok2 := s.lenOf(w, cc.Args[1])
		if !ok1 || !ok2 || val == nil {
			if val != nil {
				delete(w.cls, val)
				delete(w.env.vals, val)
			}
			return ""
		}
		content := append(s.read(w, cc.Args[0], xl), s.read(w, cc.Args[1], yl)...)
		bindRes(s.newBuf(content), xl+yl)
	case strings.HasPrefix(name, "slices.Concat") && len(cc.Args) == 1 && val != nil && c20IsByteSlice(val.Type()):
		var content []int64
		okAll := false
		if sl, isS := cc.Args[0].(*ssa.Slice); isS {
			if a, isA := sl.X.(*ssa.Alloc); isA && sl.Low == nil && sl.High == nil {
				if arr, isArr := a.Type().Underlying().(*types.Pointer).Elem().Underlying().(*types.Array); isArr {
					okAll = true
					for k := int64(0); k < arr.Len(); k++ {
						e := s.lists[a][k]
						l, ok := int64(0), e != nil
						if ok {
							l, ok = s.lenOf(w, e)
						}
						if !ok {
							okAll = false
							break
						}
						content = append(content, s.read(w, e, l)...)
					}
				}
			}
		} else if isNilConst(cc.Args[0]) {
			okAll = true
		}
		if okAll {
			bindRes(s.newBuf(content), int64(len(content)))
		}
	case (name == "io.ReadFull" || name == "io.ReadAtLeast") && len(cc.Args) >= 2:
		if w.cls[cc.Args[0]] != "reader" || s.input == nil {
			s.note("a read from something other than the modelled input")
			return ""
		}
		l, ok := s.lenOf(w, cc.Args[1])
		id, o, bok := s.bufOf(w, cc.Args[1])
		if name == "io.ReadAtLeast" {
			if m, mok := w.env.eval(cc.Args[2]); !mok || m != l {
				ok = false
			}
		}
		if !ok || !bok {
			s.note("a read of unknown extent from the input")
			return ""
		}
		toks := make([]int64, l)
		for i := range toks {
			toks[i] = s.input(s.rpos + int64(i))
		}
		s.rpos += l
		s.write(id, o, toks)
		if val != nil {
			if w.tuple == nil {
				w.tuple = map[ssa.Value][]optInt{}
			}
			w.tuple[val] = []optInt{{l, true}, {0, false}}
		}
	case name == "sort.Search" && len(cc.Args) == 2 && val != nil:
		n, ok := w.env.eval(cc.Args[0])
		f := s.fnValue(cc.Args[1])
		delete(w.env.vals, val)
		if !ok || f == nil || n < 0 || n > 1<<20 {
			return ""
		}
		// sort.Search as documented and implemented: binary search for the
		// smallest index in [0, n) at which the predicate holds, n if none
		i, j := int64(0), n
		for i < j {
			h := int64(uint64(i+j) >> 1)
			p, pok := s.pred(w, f, h)
			if !pok {
				return ""
			}
			if !p {
				i = h + 1
			} else {
				j = h
			}
		}
		w.env.bind(val, i)
	case cc.IsInvoke() && w.cls[cc.Value] == "hash":
		switch cc.Method.Name() {
		case "Reset":
			s.ctxs = append(s.ctxs, &c20ctx{sumAt: -1})
		case "Write":
			cx := s.cur()
			l, ok := s.lenOf(w, cc.Args[0])
			if !ok {
				s.note("a hash write of unknown length")
				cx.stream = append(cx.stream, c20Unknown)
				return ""
			}
			cx.stream = append(cx.stream, s.read(w, cc.Args[0], l)...)
			if val != nil {
				if w.tuple == nil {
					w.tuple = map[ssa.Value][]optInt{}
				}
				w.tuple[val] = []optInt{{l, true}, {0, false}}
			}
		case "Sum":
			cx := s.cur()
			cx.sumAt = len(cx.stream)
			bl, ok := s.lenOf(w, cc.Args[0])
			if !ok {
				s.note("Sum appends to a slice of unknown length")
				return ""
			}
			content := append(s.read(w, cc.Args[0], bl), c20Seq(c20DigTok+int64(len(s.ctxs)-1)*1000, s.hs)...)
			bindRes(s.newBuf(content), bl+s.hs)
		case "Size":
			if val != nil {
				w.env.bind(val, s.hs)
			}
		}
	case cc.IsInvoke() && w.cls[cc.Value] == "writer" && cc.Method.Name() == "Write":
		l, ok := s.lenOf(w, cc.Args[0])
		if !ok {
			s.note("a write of unknown length to the output stream")
			return ""
		}
		s.written = append(s.written, s.read(w, cc.Args[0], l)...)
		if val != nil {
			if w.tuple == nil {
				w.tuple = map[ssa.Value][]optInt{}
			}
			w.tuple[val] = []optInt{{l, true}, {0, false}}
		}
	default:
		if !cc.IsInvoke() && cc.StaticCallee() == nil {
			// a call of a function VALUE (parameter, captured or local variable)
			if f := s.fnValue(cc.Value); f != nil {
				s.callValue(w, ci, f)
				return ""
			}
		}
		if s.extra != nil && s.extra(w, ci) {
			return ""
		}
		// a helper of the package reaches this point only when its interpretation
		// in place left the finite domain: whatever it does is then unknown
		if callee := cc.StaticCallee(); callee != nil && len(callee.Blocks) > 0 && callee.Pkg != nil && callee.Pkg == w.rootPkg {
			s.note("the call of %s could not be interpreted over the finite domain", callee.Name())
		}
	}
	return ""
}

// callValue interprets the call of a known function value in place: arguments
// (lengths / integers, buffers, function values) are bound to its parameters,
// a single result comes back to the call.
func (s *c20sim) callValue(w *pathWalker, ci ssa.CallInstruction, f ssa.Value) {
	cc := ci.Common()
	if w.depth >= 6 {
		s.note("function values are called more than 6 levels deep")
		return
	}
	ch, fn, end := s.callFn(w, f, w.depth+1, func(ch *pathWalker, fn *ssa.Function) {
		for i, p := range fn.Params {
			if i >= len(cc.Args) {
				break
			}
			a := cc.Args[i]
			if n, ok := s.lenOf(w, a); ok {
				ch.env.bind(p, n)
			}
			if id, o, ok := s.bufOf(w, a); ok {
				ch.cls[p], ch.off[p] = id, o
			} else if cl, ok := w.cls[a]; ok {
				ch.cls[p], ch.off[p] = cl, w.off[a]
			}
			if g := s.fnValue(a); g != nil {
				s.fnOf[p] = g
			} else {
				delete(s.fnOf, p)
			}
		}
	})
	if end != "return" {
		why := ""
		if ch != nil {
			why = ch.why
		}
		s.note("the call of a function value ended with %s %s", end, why)
		return
	}
	val, _ := ci.(ssa.Value)
	ret := ch.last.(*ssa.Return)
	if val == nil || len(ret.Results) != 1 || len(fn.Params) != len(cc.Args) {
		return
	}
	r := ret.Results[0]
	delete(w.env.vals, val)
	delete(w.cls, val)
	if n, ok := s.lenOf(ch, r); ok {
		w.env.bind(val, n)
	}
	if id, o, ok := s.bufOf(ch, r); ok {
		w.cls[val], w.off[val] = id, o
	} else if cl, ok := ch.cls[r]; ok {
		w.cls[val], w.off[val] = cl, ch.off[r]
	}
	if g := s.fnValue(r); g != nil {
		s.fnOf[val] = g
	}
}

// ---------------------------------------------------------------------------
// integer tables filled by the package initializer

var c20Tables = map[*ssa.Global]map[int64]optInt{}

// tableEntry: element k of a package-level integer array that only the
// package initializer (var initializers, init functions) writes. The
// initializer is interpreted once, elements starting at zero.
func (s *c20sim) tableEntry(g *ssa.Global, k int64) (int64, bool) {
	if s.gtab != nil {
		// inside the initializer itself: the value stored so far
		if e, ok := s.gtab[g][k]; ok {
			return e.n, e.ok
		}
		if _, poisoned := s.gtab[g][-1]; poisoned {
			return 0, false
		}
		return 0, c20IntArray(g) >= 0
	}
	n := c20IntArray(g)
	if n < 0 || k < 0 || k >= n {
		return 0, false
	}
	tab, done := c20Tables[g]
	if !done {
		tab = s.buildTable(g)
		c20Tables[g] = tab
	}
	if tab == nil {
		return 0, false
	}
	if _, poisoned := tab[-1]; poisoned {
		return 0, false
	}
	if e, ok := tab[k]; ok {
		return e.n, e.ok
	}
	return 0, true
}

func c20IntArray(g *ssa.Global) int64 {
	p, ok := g.Type().Underlying().(*types.Pointer)
	if !ok {
		return -1
	}
	a, ok := p.Elem().Underlying().(*types.Array)
	if !ok {
		return -1
	}
	if _, _, isInt := intBits(a.Elem()); !isInt || a.Len() > 4096 {
		return -1
	}
	return a.Len()
}

func (s *c20sim) buildTable(g *ssa.Global) map[int64]optInt {
	sp := s.c.ssaPkg(s.pkg)
	if sp == nil || g.Pkg != sp {
		return nil
	}
	initFn := sp.Func("init")
	if initFn == nil || len(initFn.Blocks) == 0 {
		return nil
	}
	// nothing but initializer code may write the table
	for _, f := range s.c.funcsOfPkg(s.pkg) {
		isInit := f.Parent() == nil && f.Signature.Recv() == nil && strings.HasPrefix(f.Name(), "init#")
		if isInit {
			continue
		}
		clean := true
		allInstrs(f, func(in ssa.Instruction) {
			for _, op := range in.Operands(nil) {
				if *op != ssa.Value(g) {
					continue
				}
				ia, isIA := in.(*ssa.IndexAddr)
				if !isIA {
					clean = false
					continue
				}
				for _, r := range *ia.Referrers() {
					if u, isU := r.(*ssa.UnOp); !isU || u.Op != token.MUL {
						clean = false
					}
				}
			}
		})
		if !clean {
			return nil
		}
	}
	t := newC20sim(s.c, s.pkg, s.hs)
	t.gtab = map[*ssa.Global]map[int64]optInt{g: {}}
	w := t.walker(200000)
	if end := w.walk(initFn.Blocks[0], nil); end != "return" {
		return nil
	}
	return t.gtab[g]
}

// ---------------------------------------------------------------------------
// RFC 4880 section 3.7.1 transcript

// c20Spec: the octets each hash context must be fed and the octets of the
// derived key, for the given salt / passphrase octets.
func c20Spec(hs, outLen int64, salt, pass []int64, iter bool, count int64) (ctxs [][]int64, out []int64) {
	data := append(append([]int64{}, salt...), pass...)
	total := int64(len(data))
	if iter && count > total {
		total = count
	}
	rounds := (outLen + hs - 1) / hs
	for i := int64(0); i < rounds; i++ {
		st := c20Fill(0, i)
		for n := int64(0); n < total && len(data) > 0; n++ {
			st = append(st, data[n%int64(len(data))])
		}
		ctxs = append(ctxs, st)
	}
	for j := int64(0); j < outLen; j++ {
		out = append(out, c20DigTok+(j/hs)*1000+j%hs)
	}
	return
}

// compare reports the first disagreement between what was interpreted and the
// RFC transcript ("" when they agree). outID names the output buffer.
func (s *c20sim) compare(outID string, hs, outLen int64, salt, pass []int64, iter bool, count int64) string {
	if len(s.notes) > 0 {
		return strings.Join(s.notes, "; ")
	}
	want, wantOut := c20Spec(hs, outLen, salt, pass, iter, count)
	if len(s.ctxs) != len(want) {
		return fmt.Sprintf("%d hash contexts used, %d needed", len(s.ctxs), len(want))
	}
	for i, cx := range s.ctxs {
		if cx.early {
			return fmt.Sprintf("context %d is written before it is reset", i)
		}
		z := 0
		for z < len(cx.stream) && cx.stream[z] == 0 {
			z++
		}
		if z != i {
			return fmt.Sprintf("context %d is preloaded with %d zero octets", i, z)
		}
		if len(cx.stream) != len(want[i]) {
			return fmt.Sprintf("context %d hashes %d octets, RFC 4880 requires %d", i, len(cx.stream)-z, len(want[i])-i)
		}
		for k := range cx.stream {
			if cx.stream[k] != want[i][k] {
				return fmt.Sprintf("context %d: hashed octet %d is %s, RFC 4880 requires %s", i, k, c20Tok(cx.stream[k]), c20Tok(want[i][k]))
			}
		}
		if cx.sumAt != len(cx.stream) {
			return fmt.Sprintf("context %d: the digest is not taken after the complete input", i)
		}
	}
	got := s.bufs[outID]
	if int64(len(got)) != outLen {
		return "the output buffer is not modelled"
	}
	for j := range got {
		if got[j] != wantOut[j] {
			return fmt.Sprintf("key octet %d is %s, expected %s", j, c20Tok(got[j]), c20Tok(wantOut[j]))
		}
	}
	return ""
}
