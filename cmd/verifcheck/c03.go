package main

import (
	"fmt"
	"strings"

	"golang.org/x/tools/go/ssa"
)

func init() {
	register(&propDef{
		id: "C03", run: runC03, minOblig: 5,
		explanation: "Decides the stream-position bookkeeping of chacha20.Cipher (everything except the block function's arithmetic) by flow-sensitive finite-domain interpretation of the code, with slices represented by their lengths and the fields counter / len / overflow tracked through stores and loads. The abstract stream position of a cipher is P = 64*counter - len (len buffered, unused key-stream bytes that end at block 'counter'). (SetCounter) for counters {0,1,2,5,6,2^32-1}, every buffered length 0..bufSize, both overflow values and targets around the current block: it panics exactly when overflow is set or the target is below the first block that still has unread bytes (counter - floor(len/64)); otherwise the new position is 64*target. (XORKeyStream) for buffered lengths across 0..bufSize, counters at 0, mid-range and within 9 blocks of 2^32, both overflow values, input lengths {0,1,63,64,65,100,127,128,129,200} and destination lengths shorter/equal/longer: it panics exactly when the destination is shorter than the input, or when — after the buffered bytes are used up — more blocks are needed than remain below 2^32 (or overflow is already set); otherwise the bytes are taken, in order, from the buffer tail at position P, from whole blocks generated at the then-current counter, and from a freshly generated buffer whose unused tail is kept right-aligned, so that the position after the call is exactly P + len(src), and overflow is set exactly when block 2^32-1 has been generated. (block function) xorKeyStreamBlocksGeneric advances the counter by exactly len/64, uses the counter word before incrementing it, and rejects unequal or non-multiple-of-64 lengths. NOT decided: the key-stream values themselves (quarter rounds, precomputed first-round values).",
		assumptions: []string{"bufSize of the analysed build configuration (64 on amd64; arm64/ppc64/s390x assembly variants are loaded in the thorough tier for the Go part only)", "xorKeyStreamBlocks advances the counter by len/64 (checked for the generic implementation)"},
	})
	tech("C03", "flow-sensitive finite-domain interpretation of SetCounter / XORKeyStream / the block loop with a slice-length abstraction, compared with the stream-position reference over an enumerated state space")
}

const two32 = int64(1) << 32

func runC03(c *Ctx) {
	bufSize, ok := c.pkgConst("chacha20", "bufSize")
	if !ok {
		c.fail("C03.position", "bufSize", nil, "constant not found")
		return
	}
	c03SetCounter(c, bufSize)
	c03Blocks(c)
	c03XOR(c, bufSize)
}

func c03SetCounter(c *Ctx, bufSize int64) {
	f := c.fn("chacha20", "(*Cipher).SetCounter")
	if f == nil {
		return
	}
	cases, bad := 0, ""
	for _, C := range []int64{0, 1, 2, 5, 6, two32 - 1} {
		for L := int64(0); L <= bufSize; L++ {
			if L > 64*C && C < 100 {
				continue // cannot have buffered more than was generated
			}
			for _, ovf := range []int64{0, 1} {
				for _, X := range []int64{0, 1, C - 9, C - 2, C - 1, C, C + 1, C + 7, two32 - 1} {
					if X < 0 || X >= two32 {
						continue
					}
					w := &pathWalker{env: newEnv()}
					w.env.bind(f.Params[1], X)
					w.state = map[string]int64{"s.counter": C, "s.len": L, "s.overflow": ovf}
					end := w.walk(f.Blocks[0], nil)
					cases++
					firstUnread := C - L/64
					wantPanic := ovf == 1 || X < firstUnread
					switch {
					case end == "undecided":
						bad = fmt.Sprintf("counter=%d len=%d overflow=%d target=%d: %s", C, L, ovf, X, w.why)
					case wantPanic != (end == "panic"):
						bad = fmt.Sprintf("counter=%d len=%d overflow=%d SetCounter(%d): panics=%v, but the first block with unread key stream is %d", C, L, ovf, X, end == "panic", firstUnread)
					case end == "return":
						if p := 64*w.state["s.counter"] - w.state["s.len"]; p != 64*X {
							bad = fmt.Sprintf("counter=%d len=%d SetCounter(%d): new stream position %d, expected %d", C, L, X, p, 64*X)
						}
					}
					if bad != "" {
						break
					}
				}
			}
		}
	}
	c.check(bad == "" && cases > 200, "C03.position", "SetCounter", f, fmt.Sprintf("%d (counter, buffered, overflow, target) cases: rollback panic and new position as specified", cases), bad)
}

// c03Blocks: the generic block loop advances the counter by len/64.
func c03Blocks(c *Ctx) {
	f := c.fn("chacha20", "(*Cipher).xorKeyStreamBlocksGeneric")
	if f == nil {
		return
	}
	bad := ""
	for _, n := range []int64{0, 64, 128, 192} {
		for _, C := range []int64{0, 7, two32 - 1} {
			w := &pathWalker{env: newEnv(), lengths: true, maxSteps: 60000}
			w.env.bind(f.Params[1], n)
			w.env.bind(f.Params[2], n)
			w.state = map[string]int64{"s.counter": C, "s.precompDone": 1}
			// the counter word must be read (for the block) before it is incremented
			end := w.walk(f.Blocks[0], nil)
			if end != "return" {
				bad = fmt.Sprintf("len=%d: evaluation ended with %q (%s)", n, end, w.why)
				break
			}
			if got := w.state["s.counter"]; got != (C+n/64)%two32 {
				bad = fmt.Sprintf("len=%d counter=%d: counter afterwards %d, expected %d", n, C, got, (C+n/64)%two32)
			}
		}
	}
	// unequal / unaligned lengths panic
	for _, pr := range [][2]int64{{64, 128}, {63, 63}, {1, 1}} {
		w := &pathWalker{env: newEnv(), lengths: true, maxSteps: 60000}
		w.env.bind(f.Params[1], pr[0])
		w.env.bind(f.Params[2], pr[1])
		w.state = map[string]int64{"s.counter": 0, "s.precompDone": 1}
		if end := w.walk(f.Blocks[0], nil); end != "panic" {
			bad = fmt.Sprintf("dst length %d, src length %d: no panic (%s)", pr[0], pr[1], end)
		}
	}
	c.check(bad == "", "C03.block-loop", "xorKeyStreamBlocksGeneric counter", f, "counter advances by len/64 (mod 2^32); unequal or unaligned lengths panic", bad)
	// counter word used before the increment within an iteration
	var inc *ssa.Store
	for _, st := range storesTo(f, "Cipher", "counter") {
		inc = st
	}
	okOrder := inc != nil
	if okOrder {
		n := 0
		allInstrs(f, func(in ssa.Instruction) {
			if u, ok := in.(*ssa.UnOp); ok {
				if _, fld, _, okf := fieldOf(u); okf && fld == "counter" && u.Block() == inc.Block() {
					// loads in the same block as the increment must precede it, except the load feeding the increment itself
					if !precedes(u, inc) {
						okOrder = false
					}
					n++
				}
			}
		})
		okOrder = okOrder && n >= 1
	}
	c.check(okOrder, "C03.block-loop", "counter word read before increment", f, "the block uses the counter value and then increments it", "the counter is incremented before the block that should use it is computed")
	// the noasm wrapper forwards to the generic routine
	if g := c.fnOpt("chacha20", "(*Cipher).xorKeyStreamBlocks"); g != nil && len(g.Blocks) > 0 {
		cs := calls(g, func(n string) bool { return strings.HasSuffix(n, "Cipher).xorKeyStreamBlocksGeneric") })
		callsAsm := false
		allInstrs(g, func(in ssa.Instruction) {
			if cc := callCommon(in); cc != nil {
				if cal := cc.StaticCallee(); cal != nil && len(cal.Blocks) == 0 && cal.Pkg == g.Pkg {
					callsAsm = true
				}
			}
		})
		ok := len(cs) == 1 && cs[0].Common().Args[1] == ssa.Value(g.Params[1]) && cs[0].Common().Args[2] == ssa.Value(g.Params[2])
		if callsAsm {
			// an assembly-backed wrapper (arm64, ppc64, s390x ...): its counter
			// advance is inside the assembly and is an assumption of C03.position
			c.ok("C03.block-loop", "xorKeyStreamBlocks (assembly build)", g, "assembly-backed; the counter advance by len/64 is assumed, not decided")
			return
		}
		c.check(ok, "C03.block-loop", "xorKeyStreamBlocks (portable build)", g, "forwards (dst, src) to the generic routine", "the portable xorKeyStreamBlocks does not forward to the generic routine")
	}
}

func c03XOR(c *Ctx, bufSize int64) {
	f := c.fn("chacha20", "(*Cipher).XORKeyStream")
	if f == nil {
		return
	}
	dstP, srcP := f.Params[1], f.Params[2]
	var overlap []ssa.Value
	for _, ci := range calls(f, func(n string) bool { return strings.HasSuffix(n, "alias.InexactOverlap") }) {
		overlap = append(overlap, callValue(ci))
	}
	Ls := []int64{0, 1, 63, 64}
	for _, l := range []int64{65, bufSize - 1, bufSize} {
		if l <= bufSize && l > 64 {
			Ls = append(Ls, l)
		}
	}
	cases, bad := 0, ""
	for _, C := range []int64{0, 1, 3, 1000, two32 - 9, two32 - 8, two32 - 3, two32 - 2, two32 - 1} {
		for _, L := range Ls {
			if C < 100 && L > 64*C {
				continue
			}
			for _, ovf := range []int64{0, 1} {
				for _, n := range []int64{0, 1, 63, 64, 65, 100, 127, 128, 129, 200} {
					for _, dd := range []int64{-1, 0, 5} {
						if n+dd < 0 {
							continue
						}
						if bad != "" {
							break
						}
						w := &pathWalker{env: newEnv(), lengths: true, maxSteps: 60000, opaque: map[string]bool{"xorKeyStreamBlocks": true, "xorKeyStreamBlocksGeneric": true}}
						w.env.bind(dstP, n+dd)
						w.env.bind(srcP, n)
						for _, v := range overlap {
							w.env.bind(v, 0)
						}
						w.state = map[string]int64{"s.counter": C, "s.len": L, "s.overflow": ovf}
						P := 64*C - L
						// the buffered bytes are consumed first: min(n, L) bytes from buf[bufSize-L:]
						k0 := int64(0)
						if n > 0 && dd >= 0 {
							k0 = min(n, L)
						}
						pos := P + k0
						problem := ""
						genEnd := int64(-1) // buffer offset where the last generated region ends
						regionLow := map[ssa.Value]int64{}
						w.onSlice = func(w *pathWalker, sl *ssa.Slice) {
							if accessPath(sl.X) == "s.buf" {
								lo := int64(0)
								if sl.Low != nil {
									lo, _ = w.env.eval(sl.Low)
								}
								regionLow[sl] = lo
							} else if base, ok := regionLow[sl.X]; ok {
								lo := int64(0)
								if sl.Low != nil {
									lo, _ = w.env.eval(sl.Low)
								}
								regionLow[sl] = base + lo
							}
						}
						drained := false
						w.onCall = func(w *pathWalker, ci ssa.CallInstruction) string {
							cc := ci.Common()
							name := short(calleeName(cc))
							switch {
							case strings.HasSuffix(name, "Cipher).xorKeyStreamBlocks"), strings.HasSuffix(name, "Cipher).xorKeyStreamBlocksGeneric"):
								dl, ok1 := w.env.eval(cc.Args[1])
								sl, ok2 := w.env.eval(cc.Args[2])
								if !ok1 || !ok2 || dl != sl || sl%64 != 0 {
									problem = fmt.Sprintf("block function called with lengths %d/%d", dl, sl)
									return ""
								}
								cb := w.state["s.counter"]
								if w.state["s.overflow"] == 1 && cb+sl/64 > two32 {
									problem = "blocks generated past 2^32"
								}
								if lo, isBuf := regionLow[cc.Args[1]]; isBuf {
									// generation into the internal buffer: remember where the region ends
									genEnd = lo + sl
									if 64*cb != pos {
										problem = fmt.Sprintf("buffer refilled at counter %d while the stream position is %d", cb, pos)
									}
								} else {
									if 64*cb != pos {
										problem = fmt.Sprintf("whole blocks generated at counter %d while the stream position is %d", cb, pos)
									}
									pos += sl
								}
								w.state["s.counter"] = (cb + sl/64) % two32
							case name == "builtin:copy":
								// copy(dst, buf-region): delivery of the head of the freshly generated region
								if lo, isBuf := regionLow[cc.Args[1]]; isBuf {
									if d, isDst := w.env.eval(cc.Args[0]); isDst {
										s, _ := w.env.eval(cc.Args[1])
										k := min(d, s)
										if genEnd < 0 {
											problem = "bytes delivered from the buffer before it was generated"
										} else if lo+s != genEnd {
											problem = "delivered region is not the generated region"
										}
										pos += k
									}
								}
							}
							return ""
						}
						// the drain loop reads s.buf[bufSize-len:] — detect via the range over the key stream
						w.onStore = func(w *pathWalker, st *ssa.Store) string { return "" }
						end := w.walk(f.Blocks[0], nil)
						cases++
						rest := n - k0
						need := (rest + 63) / 64
						wantPanic := n > 0 && (n+dd < n || rest > 0 && (ovf == 1 || C+need > two32))
						id := fmt.Sprintf("counter=%d buffered=%d overflow=%d len(src)=%d len(dst)=%d", C, L, ovf, n, n+dd)
						_ = drained
						switch {
						case end == "undecided":
							bad = id + ": " + w.why
						case wantPanic != (end == "panic"):
							bad = fmt.Sprintf("%s: panics=%v, expected %v (blocks needed %d, blocks left below 2^32: %d)", id, end == "panic", wantPanic, need, two32-C)
						case end == "return":
							if problem != "" {
								bad = id + ": " + problem
								break
							}
							// drained bytes come from the right-aligned tail: check the slice offset
							okDrain := k0 == 0
							for sl, lo := range regionLow {
								_ = sl
								if lo == bufSize-L {
									okDrain = true
								}
							}
							if !okDrain {
								bad = id + ": buffered key stream is not read from the right-aligned tail of the buffer"
								break
							}
							if pos != P+n {
								bad = fmt.Sprintf("%s: %d key-stream bytes accounted for, %d consumed", id, pos-P, n)
								break
							}
							Cn, Ln := w.state["s.counter"], w.state["s.len"]
							blocksMade := (Cn - C + two32) % two32
							if 64*(C+blocksMade)-Ln != P+n {
								bad = fmt.Sprintf("%s: position afterwards %d (counter %d, buffered %d), expected %d", id, 64*(C+blocksMade)-Ln, Cn, Ln, P+n)
								break
							}
							if Ln > 0 && genEnd >= 0 && genEnd != bufSize {
								bad = id + ": the leftover key stream is not right-aligned in the buffer"
								break
							}
							wantOvf := ovf == 1 || C+blocksMade == two32
							if (w.state["s.overflow"] == 1) != wantOvf {
								bad = fmt.Sprintf("%s: overflow flag %d after generating up to block %d", id, w.state["s.overflow"], C+blocksMade)
							}
							if w.oob {
								bad = id + ": a slice expression leaves its bounds"
							}
						}
					}
				}
			}
		}
	}
	c.check(bad == "" && cases > 1000, "C03.position", "XORKeyStream", f, fmt.Sprintf("%d (counter, buffered, overflow, len(src), len(dst)) cases: panics and stream position as specified", cases), bad)
}
