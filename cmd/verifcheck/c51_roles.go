package main

import (
	"go/token"
	"go/types"
	"strings"

	"golang.org/x/tools/go/ssa"
)

// Roles of C51: which semantic test an instruction performs, decided from the
// provenance of its operands in the calling context (c51Resolve / c51Chain).

type c51Role struct {
	kind   string // timecmp host parse pubtype prvtype cmp flag orglen orgname policy validcert
	a, b   string // timecmp: the two instants; cmp: component; flag: field; *type: key class
	method string // timecmp: Before After Equal Compare Sub
	neg    bool   // orgname: the comparison is !=
}

type c51Site struct {
	in ssa.Instruction
	cx *c51Cx
}

type c51Kit struct {
	c     *Ctx
	root  *c51Cx
	cache map[c51Site]c51Role
	sites map[string][]c51Site // role kind (+ detail) -> where it was seen
}

func c51NewKit(c *Ctx, root *ssa.Function) *c51Kit {
	return &c51Kit{c: c, root: &c51Cx{fn: root}, cache: map[c51Site]c51Role{}, sites: map[string][]c51Site{}}
}

func (k *c51Kit) role(in ssa.Instruction, cx *c51Cx) c51Role {
	key := c51Site{in, cx}
	if r, ok := k.cache[key]; ok {
		return r
	}
	r := k.classify(in, cx)
	k.cache[key] = r
	if r.kind != "" {
		tag := r.kind
		switch r.kind {
		case "timecmp":
			a, b := r.a, r.b
			if a > b {
				a, b = b, a
			}
			tag += ":" + a + "," + b
		case "cmp", "flag", "pubtype", "prvtype":
			tag += ":" + r.a
		}
		k.sites[tag] = append(k.sites[tag], key)
	}
	return r
}

func (k *c51Kit) nSites(tag string) int { return len(k.sites[tag]) }

// isLeaf: the value is element 0 of the chain returned by
// x509.ParseCertificates (the certificate that is served).
func (k *c51Kit) isLeaf(r c51Val) bool {
	u, ok := r.v.(*ssa.UnOp)
	if !ok || u.Op != token.MUL {
		return false
	}
	ia, ok := u.X.(*ssa.IndexAddr)
	if !ok {
		return false
	}
	if n, isK := constInt(ia.Index); !isK || n != 0 {
		return false
	}
	src := c51Resolve(ia.X, r.cx)
	ex, ok := src.v.(*ssa.Extract)
	if !ok || ex.Index != 0 {
		return false
	}
	call, ok := ex.Tuple.(*ssa.Call)
	return ok && short(calleeName(&call.Call)) == "crypto/x509.ParseCertificates"
}

func c51Eq(a []string, b ...string) bool {
	if len(a) != len(b) {
		return false
	}
	for i := range a {
		if a[i] != b[i] {
			return false
		}
	}
	return true
}

// instant names a time.Time value: "now" (the root's time parameter), "nb" /
// "na" (the leaf's validity bounds), "fix" (a package-level time constant).
func (k *c51Kit) instant(v ssa.Value, cx *c51Cx) string {
	root, fields := c51Chain(v, cx)
	if len(fields) == 0 {
		if c51RootParam(root, "time", "Time") {
			return "now"
		}
		if u, ok := root.v.(*ssa.UnOp); ok && u.Op == token.MUL {
			if g, ok := u.X.(*ssa.Global); ok && g.Pkg == k.root.fn.Pkg {
				if p, n := c51Named(u.Type()); p == "time" && n == "Time" {
					return "fix"
				}
			}
		}
		return ""
	}
	if k.isLeaf(root) {
		if c51Eq(fields, "NotBefore") {
			return "nb"
		}
		if c51Eq(fields, "NotAfter") {
			return "na"
		}
	}
	return ""
}

// keySide: which key object a value is a component of. "pub:<class>" — the
// leaf's PublicKey asserted to a concrete type, "prv:<class>" — the root's
// crypto.Signer parameter asserted to a concrete type.
func (k *c51Kit) keySide(r c51Val) string {
	var ta *ssa.TypeAssert
	switch x := r.v.(type) {
	case *ssa.Extract:
		if t, ok := x.Tuple.(*ssa.TypeAssert); ok && x.Index == 0 {
			ta = t
		}
	case *ssa.TypeAssert:
		if !x.CommaOk {
			ta = x
		}
	}
	if ta == nil {
		return ""
	}
	side := k.assertOperand(ta, r.cx)
	if side == "" {
		return ""
	}
	return side + ":" + c51KeyClass(ta.AssertedType)
}

// assertOperand: "pub" when the asserted value is leaf.PublicKey, "prv" when
// it is the root's crypto.Signer parameter.
func (k *c51Kit) assertOperand(ta *ssa.TypeAssert, cx *c51Cx) string {
	root, fields := c51Chain(ta.X, cx)
	if c51Eq(fields, "PublicKey") && k.isLeaf(root) {
		return "pub"
	}
	if len(fields) == 0 && c51RootParam(root, "crypto", "Signer") {
		return "prv"
	}
	return ""
}

func c51KeyClass(t types.Type) string {
	p, n := c51Named(t)
	switch {
	case p == "crypto/rsa" && (n == "PublicKey" || n == "PrivateKey"):
		return "rsa"
	case p == "crypto/ecdsa" && (n == "PublicKey" || n == "PrivateKey"):
		return "ecdsa"
	}
	return "other"
}

// fromManagerPolicy: the function value derives from Manager.HostPolicy
// (directly, or through a same-package accessor that may substitute a default).
func (k *c51Kit) fromManagerPolicy(v ssa.Value, cx *c51Cx, d int) bool {
	if d > 6 || v == nil {
		return false
	}
	root, fields := c51Chain(v, cx)
	if len(fields) > 0 && fields[len(fields)-1] == "HostPolicy" {
		return true
	}
	switch x := root.v.(type) {
	case *ssa.Phi:
		for _, e := range x.Edges {
			if e != ssa.Value(x) && k.fromManagerPolicy(e, root.cx, d+1) {
				return true
			}
		}
	case *ssa.Call:
		if H := samePkgCallee(x.Parent(), &x.Call); H != nil && root.cx != nil && !root.cx.active(H) {
			kid := root.cx.kid(x, H)
			for _, r := range returnsOf(H) {
				if k.fromManagerPolicy(retVal(r, 0), kid, d+1) {
					return true
				}
			}
		}
	}
	return false
}

func (k *c51Kit) classify(in ssa.Instruction, cx *c51Cx) c51Role {
	switch x := in.(type) {
	case *ssa.Call:
		name := short(calleeName(&x.Call))
		args := x.Call.Args
		switch name {
		case "(time.Time).Before", "(time.Time).After", "(time.Time).Equal", "(time.Time).Compare", "(time.Time).Sub":
			if len(args) == 2 {
				a, b := k.instant(args[0], cx), k.instant(args[1], cx)
				if a != "" && b != "" && a != b {
					return c51Role{kind: "timecmp", a: a, b: b, method: name[strings.LastIndex(name, ".")+1:]}
				}
			}
		case "(*crypto/x509.Certificate).VerifyHostname":
			if len(args) == 2 && k.isLeaf(c51Resolve(args[0], cx)) {
				root, fields := c51Chain(args[1], cx)
				if c51Eq(fields, "domain") && c51RootParam(root, k.root.fn.Pkg.Pkg.Path(), "certKey") {
					return c51Role{kind: "host"}
				}
			}
		case "(*math/big.Int).Cmp":
			if len(args) == 2 {
				ra, fa := c51Chain(args[0], cx)
				rb, fb := c51Chain(args[1], cx)
				if len(fa) == 0 || len(fb) == 0 || fa[len(fa)-1] != fb[len(fb)-1] {
					break
				}
				sa, sb := k.keySide(ra), k.keySide(rb)
				if sa == "" || sb == "" || sa[:3] == sb[:3] || sa[4:] != sb[4:] {
					break
				}
				// the private side reaches the component through its embedded
				// public key; nothing else may be selected on the way
				for _, f := range append(append([]string{}, fa[:len(fa)-1]...), fb[:len(fb)-1]...) {
					if f != "PublicKey" {
						return c51Role{}
					}
				}
				comp := fa[len(fa)-1]
				cls := sa[4:]
				if (cls == "rsa" && comp == "N") || (cls == "ecdsa" && (comp == "X" || comp == "Y")) {
					return c51Role{kind: "cmp", a: comp}
				}
			}
		case "builtin:len":
			if len(args) == 1 {
				root, fields := c51Chain(args[0], cx)
				if c51Eq(fields, "Issuer", "Organization") && k.isLeaf(root) {
					return c51Role{kind: "orglen"}
				}
			}
		}
		if sc := x.Call.StaticCallee(); sc != nil && sc.Pkg == k.root.fn.Pkg && sc.Name() == "validCert" {
			return c51Role{kind: "validcert-call"}
		}
		// a call through a HostPolicy function value of the Manager
		if x.Call.StaticCallee() == nil && !x.Call.IsInvoke() {
			if p, n := c51Named(x.Call.Value.Type()); n == "HostPolicy" && p == k.root.fn.Pkg.Pkg.Path() {
				if k.fromManagerPolicy(x.Call.Value, cx, 0) {
					return c51Role{kind: "policy"}
				}
			}
		}
	case *ssa.Extract:
		switch t := x.Tuple.(type) {
		case *ssa.Call:
			name := short(calleeName(&t.Call))
			if name == "crypto/x509.ParseCertificates" && x.Index == 1 {
				return c51Role{kind: "parse"}
			}
			if x.Index == t.Call.Signature().Results().Len()-1 && k.role(t, cx).kind == "validcert-call" {
				return c51Role{kind: "validcert"}
			}
		case *ssa.TypeAssert:
			if x.Index == 1 {
				if side := k.assertOperand(t, cx); side != "" {
					return c51Role{kind: side + "type", a: c51KeyClass(t.AssertedType)}
				}
			}
		}
	case *ssa.UnOp:
		if x.Op == token.MUL {
			if _, ok := x.X.(*ssa.FieldAddr); ok {
				return k.flag(x, cx)
			}
		}
	case *ssa.Field:
		return k.flag(x, cx)
	case *ssa.BinOp:
		if x.Op == token.EQL || x.Op == token.NEQ {
			for _, p := range [][2]ssa.Value{{x.X, x.Y}, {x.Y, x.X}} {
				if s, ok := constString(p[1]); !ok || s != "Let's Encrypt" {
					continue
				}
				u, ok := c51Resolve(p[0], cx).v.(*ssa.UnOp)
				if !ok || u.Op != token.MUL {
					continue
				}
				ia, ok := u.X.(*ssa.IndexAddr)
				if !ok {
					continue
				}
				if n, isK := constInt(ia.Index); !isK || n != 0 {
					continue
				}
				root, fields := c51Chain(ia.X, c51Resolve(p[0], cx).cx)
				if c51Eq(fields, "Issuer", "Organization") && k.isLeaf(root) {
					return c51Role{kind: "orgname", neg: x.Op == token.NEQ}
				}
			}
		}
	}
	return c51Role{}
}

// flag: a load of ck.isRSA / ck.isToken of the root's certKey parameter.
func (k *c51Kit) flag(v ssa.Value, cx *c51Cx) c51Role {
	if b, ok := v.Type().Underlying().(*types.Basic); !ok || b.Kind() != types.Bool {
		return c51Role{}
	}
	root, fields := c51Chain(v, cx)
	if len(fields) == 1 && (fields[0] == "isRSA" || fields[0] == "isToken") && c51RootParam(root, k.root.fn.Pkg.Pkg.Path(), "certKey") {
		return c51Role{kind: "flag", a: fields[0]}
	}
	return c51Role{}
}

// ---------------------------------------------------------------------------
// scenarios over roles

type c51World struct {
	rel                 map[[2]string]int64 // ordering of instants: rel[{a,b}] = sign(a - b)
	hostBad, parseBad   bool
	policyBad, validBad bool
	org                 bool // the leaf's issuer organisation is exactly {"Let's Encrypt"}
	keys                bool // the key fields below are set
	pub, prv            string
	cmp                 map[string]int64
	isRSA, isToken      int64
}

func (w *c51World) relOf(a, b string) (int64, bool) {
	if r, ok := w.rel[[2]string{a, b}]; ok {
		return r, true
	}
	if r, ok := w.rel[[2]string{b, a}]; ok {
		return -r, true
	}
	return 0, false
}

// scen builds the engine scenario for a world.
func (k *c51Kit) scen(w *c51World, opaque ...string) *c51Scen {
	s := &c51Scen{c: k.c}
	s.opaque = func(callee *ssa.Function) bool {
		for _, n := range opaque {
			if callee.Name() == n || fnName(callee) == n {
				return true
			}
		}
		return false
	}
	s.bind = func(in ssa.Instruction, cx *c51Cx) (int64, int) {
		r := k.role(in, cx)
		switch r.kind {
		case "timecmp":
			rel, ok := w.relOf(r.a, r.b)
			if !ok {
				return 0, c51None
			}
			switch r.method {
			case "Before":
				return c51B2I(rel < 0), c51Value
			case "After":
				return c51B2I(rel > 0), c51Value
			case "Equal":
				return c51B2I(rel == 0), c51Value
			case "Compare", "Sub":
				return rel, c51Value
			}
		case "host":
			if w.hostBad {
				return 1, c51NilSt
			}
		case "parse":
			if w.parseBad {
				return 1, c51NilSt
			}
		case "policy":
			if w.policyBad {
				return 1, c51NilSt
			}
		case "validcert":
			if w.validBad {
				return 1, c51NilSt
			}
		case "orglen":
			if w.org {
				return 1, c51Value
			}
		case "orgname":
			if w.org {
				return c51B2I(!r.neg), c51Value
			}
		case "pubtype":
			if w.keys {
				return c51B2I(r.a == w.pub), c51Value
			}
		case "prvtype":
			if w.keys {
				return c51B2I(r.a == w.prv), c51Value
			}
		case "cmp":
			if w.keys {
				if n, ok := w.cmp[r.a]; ok {
					return n, c51Value
				}
			}
		case "flag":
			if w.keys {
				if r.a == "isRSA" {
					return w.isRSA, c51Value
				}
				return w.isToken, c51Value
			}
		}
		return 0, c51None
	}
	return s
}
