package main

import (
	"go/token"
	"go/types"
	"strings"

	"golang.org/x/tools/go/ssa"
)

// Interprocedural finite-domain evaluation for the C30 rules.
//
// The block-level evaluator (fd.go) cuts the contradicted edge of every branch
// whose condition evaluates under an assignment of designated SSA values. Here
// the same is done for a function AND the helpers of its package it calls
// (deepFuncs), so that a rule decides the same fact whether a predicate or an
// action sits in the function or in a helper extracted from it:
//
//   - the rule's binder is applied to every function of the tree (it binds by
//     ROLE: loads of a field, bytes of the packet, nil-ness of a result);
//   - a helper's parameter takes the value its argument evaluates to at the
//     (reachable) call sites inside the tree, when they agree;
//   - a helper call takes the value its reachable returns agree on (booleans,
//     integers, and nil / non-nil for errors and other nilable results).
//
// nil is the value 0, a non-nil pointer/slice/interface is 1 (slices: their
// length), so `x == nil` evaluates like any other comparison and nil-ness
// travels through parameters, phis and results.
// The union of the cut edges is then used with deepReach / deepReachFrom.
type c30Deep struct {
	root  *ssa.Function
	funcs []*ssa.Function
	in    map[*ssa.Function]bool
	sites map[*ssa.Function][]*ssa.Call
	envs  map[*ssa.Function]*penv
	cut   edgeSet
}

// c30BindNil binds every nil constant operand of g to 0.
func c30BindNil(e *penv, g *ssa.Function) {
	allInstrs(g, func(in ssa.Instruction) {
		for _, op := range in.Operands(nil) {
			if op != nil && *op != nil && isNilConst(*op) {
				e.vals[*op] = 0
			}
		}
	})
}

func c30DeepSolve(root *ssa.Function, bind func(e *penv, g *ssa.Function)) *c30Deep {
	d := &c30Deep{root: root, funcs: deepFuncs(root), in: map[*ssa.Function]bool{}, sites: map[*ssa.Function][]*ssa.Call{}, envs: map[*ssa.Function]*penv{}}
	for _, g := range d.funcs {
		d.in[g] = true
	}
	for _, g := range d.funcs {
		allInstrs(g, func(in ssa.Instruction) {
			if call, ok := in.(*ssa.Call); ok {
				if h := samePkgCallee(root, &call.Call); h != nil && d.in[h] {
					d.sites[h] = append(d.sites[h], call)
				}
			}
		})
	}
	for iter := 0; iter < 4; iter++ {
		for _, g := range d.funcs {
			e := newEnv()
			c30BindNil(e, g)
			bind(e, g)
			if g != root {
				d.bindParams(e, g)
			}
			d.bindCalls(e, g)
			// a bound slice value stands for its length (nil = 0)
			allInstrs(g, func(in ssa.Instruction) {
				if call, ok := in.(*ssa.Call); ok && calleeName(&call.Call) == "builtin:len" && len(call.Call.Args) == 1 {
					if _, isSlice := call.Call.Args[0].Type().Underlying().(*types.Slice); isSlice {
						if n, has := e.vals[call.Call.Args[0]]; has {
							if _, done := e.vals[call]; !done {
								e.vals[call] = n
							}
						}
					}
				}
			})
			e.solve(g)
			d.envs[g] = e
		}
	}
	d.cut = edgeSet{}
	for _, g := range d.funcs {
		for k := range d.envs[g].cut {
			d.cut[k] = true
		}
	}
	return d
}

// bindParams: a parameter of a helper is the value of its argument at the
// reachable call sites inside the tree (all sites must agree).
func (d *c30Deep) bindParams(e *penv, g *ssa.Function) {
	sites := d.sites[g]
	if len(sites) == 0 {
		return
	}
	for i, p := range g.Params {
		var val int64
		have, okAll := false, true
		for _, cs := range sites {
			ce := d.envs[cs.Parent()]
			if ce == nil || i >= len(cs.Call.Args) {
				okAll = false
				break
			}
			if ce.reach != nil && !ce.reach[cs.Block()] {
				continue
			}
			n, ok := ce.eval(cs.Call.Args[i])
			if !ok || (have && n != val) {
				okAll = false
				break
			}
			val, have = n, true
		}
		if okAll && have {
			e.bind(p, val)
		}
	}
}

// retValue: the abstract value of result v at return r under e.
func c30RetValue(e *penv, r *ssa.Return, v ssa.Value) (int64, bool) {
	if isNilConst(v) {
		return 0, true
	}
	if n, ok := e.eval(v); ok {
		return n, true
	}
	if c30Nilable(v.Type()) && errNilness(v, r.Block(), 0) == neverNil {
		return 1, true
	}
	return 0, false
}

func c30Nilable(t types.Type) bool {
	switch t.Underlying().(type) {
	case *types.Interface, *types.Pointer, *types.Slice, *types.Map, *types.Chan, *types.Signature:
		return true
	}
	return false
}

// bindCalls: a call of a helper of the tree is the value its reachable returns
// agree on.
func (d *c30Deep) bindCalls(e *penv, g *ssa.Function) {
	allInstrs(g, func(in ssa.Instruction) {
		call, ok := in.(*ssa.Call)
		if !ok {
			return
		}
		h := samePkgCallee(d.root, &call.Call)
		if h == nil || !d.in[h] || h == g {
			return
		}
		he := d.envs[h]
		if he == nil || he.reach == nil {
			return
		}
		nres := h.Signature.Results().Len()
		for i := 0; i < nres; i++ {
			var val int64
			have, okAll := false, true
			for _, r := range returnsOf(h) {
				if !he.reach[r.Block()] || i >= len(r.Results) {
					continue
				}
				n, ok := c30RetValue(he, r, r.Results[i])
				if !ok || (have && n != val) {
					okAll = false
					break
				}
				val, have = n, true
			}
			if !okAll || !have {
				continue
			}
			for _, rv := range resultN(call, i) {
				e.bind(rv, val)
			}
		}
	})
}

// c30Flow: the set of SSA values that ARE one of the seed values, followed
// through helper parameters (argument -> parameter), conversions and
// reslicings from the start.
func c30Flow(funcs []*ssa.Function, seeds []ssa.Value) map[ssa.Value]bool {
	set := map[ssa.Value]bool{}
	for _, s := range seeds {
		set[s] = true
	}
	same := func(v ssa.Value) bool {
		for i := 0; i < 6; i++ {
			if set[v] {
				return true
			}
			switch x := v.(type) {
			case *ssa.ChangeType:
				v = x.X
			case *ssa.Slice:
				if x.Low != nil {
					if k, ok := constInt(x.Low); !ok || k != 0 {
						return false
					}
				}
				v = x.X
			default:
				return false
			}
		}
		return false
	}
	in := map[*ssa.Function]bool{}
	for _, g := range funcs {
		in[g] = true
	}
	for changed, n := true, 0; changed && n < 8; n++ {
		changed = false
		for _, g := range funcs {
			allInstrs(g, func(ins ssa.Instruction) {
				call, ok := ins.(*ssa.Call)
				if !ok {
					return
				}
				h := call.Call.StaticCallee()
				if h == nil || !in[h] {
					return
				}
				for i, a := range call.Call.Args {
					if i < len(h.Params) && same(a) && !set[h.Params[i]] {
						set[h.Params[i]] = true
						changed = true
					}
				}
			})
		}
	}
	return set
}

// c30BindLenField binds len(x) for every load x of field typ.field in g.
func c30BindLenField(e *penv, g *ssa.Function, typ, field string, n int64) {
	allInstrs(g, func(in ssa.Instruction) {
		if call, ok := in.(*ssa.Call); ok && calleeName(&call.Call) == "builtin:len" && len(call.Call.Args) == 1 {
			if isField(call.Call.Args[0], typ, field) {
				e.vals[call] = n
			}
		}
	})
}

// c30Callees: fn, its closures, and the functions of its package that they call
// or defer, transitively (depth 3): the code that runs as part of one call of fn.
func c30Callees(fn *ssa.Function) []*ssa.Function {
	seen := map[*ssa.Function]bool{}
	var out []*ssa.Function
	var rec func(f *ssa.Function, d int)
	rec = func(f *ssa.Function, d int) {
		if f == nil || seen[f] || d > deepDepth {
			return
		}
		seen[f] = true
		out = append(out, f)
		for _, a := range f.AnonFuncs {
			rec(a, d)
		}
		allInstrs(f, func(in ssa.Instruction) {
			switch in.(type) {
			case *ssa.Call, *ssa.Defer:
				if g := samePkgCallee(fn, callCommon(in)); g != nil {
					rec(g, d+1)
				}
			}
		})
	}
	rec(fn, 0)
	return out
}

// c30BindNilField binds, in g, every load of the slice field typ.field as nil
// (nonNil = 0) or as a non-empty slice (nonNil = 1): the value for comparisons
// with nil AND its length, so that `x == nil` and `len(x) == 0` read the same.
func c30BindNilField(e *penv, g *ssa.Function, typ, field string, nonNil int64) {
	e.bindField(g, typ, field, nonNil)
	c30BindLenField(e, g, typ, field, nonNil)
}

// c30BindPacket binds, in g, the length and the first byte of every value of the
// packet set.
func c30BindPacket(e *penv, g *ssa.Function, pkt map[ssa.Value]bool, ln, p0 int64) {
	for v := range pkt {
		e.bindLen(g, v, ln)
	}
	e.bindIndexLoads(g, func(b ssa.Value) bool { return pkt[b] }, 0, p0)
}

// c30Strings: the constant strings v can be on the paths that are feasible
// under the tree's bindings (phis over feasible edges only, parameters through
// the call sites of the tree); "?" stands for anything else.
func (d *c30Deep) c30Strings(v ssa.Value, depth int, out map[string]bool) {
	if depth > 6 {
		out["?"] = true
		return
	}
	switch x := v.(type) {
	case *ssa.Const:
		if s, ok := constString(x); ok {
			out[s] = true
			return
		}
	case *ssa.Phi:
		e := d.envs[x.Parent()]
		for i, ed := range x.Edges {
			if e != nil && e.reach != nil {
				pred := x.Block().Preds[i]
				if !e.reach[pred] || !e.edgeFeasible(pred, x.Block()) {
					continue
				}
			}
			if ed != ssa.Value(x) {
				d.c30Strings(ed, depth+1, out)
			}
		}
		return
	case *ssa.Parameter:
		g := x.Parent()
		idx := -1
		for k, p := range g.Params {
			if p == x {
				idx = k
			}
		}
		sites := d.sites[g]
		if idx >= 0 && len(sites) > 0 {
			for _, cs := range sites {
				if ce := d.envs[cs.Parent()]; ce != nil && ce.reach != nil && !ce.reach[cs.Block()] {
					continue
				}
				if idx < len(cs.Call.Args) {
					d.c30Strings(cs.Call.Args[idx], depth+1, out)
				}
			}
			return
		}
	case *ssa.ChangeType:
		d.c30Strings(x.X, depth+1, out)
		return
	case *ssa.Call:
		// a helper of the tree that returns the string: its reachable returns
		if h := x.Call.StaticCallee(); h != nil && d.in[h] && h.Signature.Results().Len() == 1 {
			he := d.envs[h]
			any := false
			for _, r := range returnsOf(h) {
				if he != nil && he.reach != nil && !he.reach[r.Block()] {
					continue
				}
				if len(r.Results) == 1 {
					any = true
					d.c30Strings(r.Results[0], depth+1, out)
				}
			}
			if any {
				return
			}
		}
	}
	out["?"] = true
}

// c30MayBeMarker: v can be (through phis and, inside the tree, parameters) a
// constant string starting with prefix. Flow-insensitive; used to FIND the
// places where a marker is put into a list.
func c30MayBeMarker(v ssa.Value, prefix string, seen map[ssa.Value]bool) bool {
	if seen[v] {
		return false
	}
	seen[v] = true
	switch x := v.(type) {
	case *ssa.Const:
		s, ok := constString(x)
		return ok && strings.HasPrefix(s, prefix)
	case *ssa.Phi:
		for _, ed := range x.Edges {
			if c30MayBeMarker(ed, prefix, seen) {
				return true
			}
		}
	case *ssa.ChangeType:
		return c30MayBeMarker(x.X, prefix, seen)
	case *ssa.Call:
		// a helper that returns the marker
		if h := x.Call.StaticCallee(); h != nil && len(h.Blocks) > 0 && h.Signature.Results().Len() == 1 {
			for _, r := range returnsOf(h) {
				if len(r.Results) == 1 && c30MayBeMarker(r.Results[0], prefix, seen) {
					return true
				}
			}
		}
	case *ssa.Parameter:
		// a helper that is handed the marker: decided at its call sites by c30Strings
	}
	return false
}

// c30RootSite: the instruction of root through which inner (an instruction of
// root or of one of its helpers) is executed: inner itself, or the call in root
// whose callee tree contains it.
func c30RootSite(root *ssa.Function, inner ssa.Instruction) ssa.Instruction {
	if inner.Parent() == root {
		return inner
	}
	var site ssa.Instruction
	allInstrs(root, func(in ssa.Instruction) {
		if site != nil {
			return
		}
		if call, ok := in.(*ssa.Call); ok {
			if h := samePkgCallee(root, &call.Call); h != nil {
				for _, g := range deepFuncs(h) {
					if g == inner.Parent() {
						site = in
					}
				}
			}
		}
	})
	return site
}

// c30IsLoadOfIndex0: v is a load of element 0 of a value of the set.
func c30IsLoadOfIndex0(v ssa.Value, set map[ssa.Value]bool) bool {
	u, ok := v.(*ssa.UnOp)
	if !ok || u.Op != token.MUL {
		return false
	}
	ia, ok := u.X.(*ssa.IndexAddr)
	if !ok {
		return false
	}
	if k, ok := constInt(ia.Index); !ok || k != 0 {
		return false
	}
	return set[ia.X]
}
