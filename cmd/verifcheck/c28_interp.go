package main

// c28_interp.go: a small evaluator of go/ssa function bodies over CONCRETE
// values (strings, integers, booleans, pointers, structs, slices, maps,
// closures, interfaces). The C28 rules use it to tabulate what findCommon and
// findAgreedAlgorithms compute for every member of a finite family of KEXINIT
// list pairs and compare the table with RFC 4253 section 7.1 computed in Go.
// Because the function bodies are evaluated (not pattern-matched), the verdict
// does not depend on how the code is factored: helpers, closures, loop forms,
// tables, renamed locals, slices.Contains/Index, map-based sets all read the
// same. Anything the evaluator cannot model (goroutines, channels, floating
// point, calls without a body whose result decides a branch) stops the
// evaluation as UNDECIDED — never as a silent pass.

import (
	"fmt"
	"go/constant"
	"go/token"
	"go/types"
	"strings"

	"golang.org/x/tools/go/ssa"
)

type c28val = any

type c28struct []c28val // value semantics: copied on load / store
type c28array []c28val  // value semantics
type c28tuple []c28val
type c28map struct {
	m    map[any]c28val
	keys []any // insertion order (iteration order of the model)
}
type c28iface struct {
	t types.Type // nil: the nil interface
	v c28val
}
type c28closure struct {
	fn *ssa.Function
	fv []c28val
}
type c28opaque struct{ what string }
type c28iter struct {
	m    *c28map
	keys []any
	str  []rune
	pos  int
	isS  bool
}

// c28stop is thrown (Go panic) to leave the evaluation.
type c28stop struct {
	kind string // "undecided" | "panic"
	msg  string
}

type c28interp struct {
	prog     *ssa.Program
	globals  map[*ssa.Global]*c28val
	initMemo map[ssa.Value]c28val
	consts   map[*ssa.Const]c28val
	numbers  map[*ssa.Function]map[ssa.Value]int
	steps    int
	maxSteps int
	depth    int
}

func c28newInterp(prog *ssa.Program) *c28interp {
	return &c28interp{prog: prog, globals: map[*ssa.Global]*c28val{}, initMemo: map[ssa.Value]c28val{}, consts: map[*ssa.Const]c28val{}, numbers: map[*ssa.Function]map[ssa.Value]int{}, maxSteps: 20000}
}

func c28undecided(format string, a ...any) {
	panic(c28stop{"undecided", fmt.Sprintf(format, a...)})
}
func c28panic(format string, a ...any) { panic(c28stop{"panic", fmt.Sprintf(format, a...)}) }

// run evaluates fn(args...) and reports how it ended: "return" (res valid),
// "panic" or "undecided" (why says what was met).
func (it *c28interp) run(fn *ssa.Function, args []c28val) (res c28val, end string, why string) {
	it.steps, it.depth = 0, 0
	defer func() {
		if r := recover(); r != nil {
			if s, ok := r.(c28stop); ok {
				end, why = s.kind, s.msg
				return
			}
			end, why = "undecided", fmt.Sprintf("evaluator: %v", r)
		}
	}()
	return it.callFn(fn, args, nil), "return", ""
}

func c28zero(t types.Type) c28val {
	switch u := t.Underlying().(type) {
	case *types.Basic:
		switch {
		case u.Info()&types.IsBoolean != 0:
			return false
		case u.Info()&types.IsString != 0:
			return ""
		case u.Info()&types.IsInteger != 0:
			return int64(0)
		case u.Kind() == types.UnsafePointer:
			return (*c28val)(nil)
		case u.Kind() == types.UntypedNil:
			return c28iface{}
		}
		return c28opaque{"value of type " + t.String()}
	case *types.Pointer:
		return (*c28val)(nil)
	case *types.Slice:
		return []c28val(nil)
	case *types.Map:
		return (*c28map)(nil)
	case *types.Signature:
		return (*c28closure)(nil)
	case *types.Interface:
		return c28iface{}
	case *types.Struct:
		s := make(c28struct, u.NumFields())
		for i := range s {
			s[i] = c28zero(u.Field(i).Type())
		}
		return s
	case *types.Array:
		a := make(c28array, u.Len())
		for i := range a {
			a[i] = c28zero(u.Elem())
		}
		return a
	}
	return c28opaque{"value of type " + t.String()}
}

func c28copy(v c28val) c28val {
	switch x := v.(type) {
	case c28struct:
		n := make(c28struct, len(x))
		for i := range x {
			n[i] = c28copy(x[i])
		}
		return n
	case c28array:
		n := make(c28array, len(x))
		for i := range x {
			n[i] = c28copy(x[i])
		}
		return n
	}
	return v
}

// c28store writes v to *p; aggregates are written in place so that pointers
// to their fields / elements stay valid.
func c28store(p *c28val, v c28val) {
	switch x := v.(type) {
	case c28struct:
		if cur, ok := (*p).(c28struct); ok && len(cur) == len(x) {
			for i := range x {
				c28store(&cur[i], x[i])
			}
			return
		}
	case c28array:
		if cur, ok := (*p).(c28array); ok && len(cur) == len(x) {
			for i := range x {
				c28store(&cur[i], x[i])
			}
			return
		}
	}
	*p = c28copy(v)
}

func c28const(c *ssa.Const) c28val {
	if c.Value == nil {
		return c28zero(c.Type())
	}
	if b, ok := c.Type().Underlying().(*types.Basic); ok {
		switch {
		case b.Info()&types.IsBoolean != 0:
			return constant.BoolVal(c.Value)
		case b.Info()&types.IsString != 0:
			return constant.StringVal(c.Value)
		case b.Info()&types.IsInteger != 0:
			if n, ok := constant.Int64Val(constant.ToInt(c.Value)); ok {
				return n
			}
			if n, ok := constant.Uint64Val(constant.ToInt(c.Value)); ok {
				return int64(n)
			}
		}
	}
	return c28opaque{"constant " + c.String()}
}

func c28isUnsigned(t types.Type) bool {
	b, ok := t.Underlying().(*types.Basic)
	return ok && b.Info()&types.IsUnsigned != 0
}

func c28wrap(t types.Type, n int64) int64 {
	b, ok := t.Underlying().(*types.Basic)
	if !ok {
		return n
	}
	switch b.Kind() {
	case types.Int8:
		return int64(int8(n))
	case types.Int16:
		return int64(int16(n))
	case types.Int32:
		return int64(int32(n))
	case types.Uint8:
		return int64(uint8(n))
	case types.Uint16:
		return int64(uint16(n))
	case types.Uint32:
		return int64(uint32(n))
	}
	return n
}

func c28equal(a, b c28val) bool {
	if o, ok := a.(c28opaque); ok {
		c28undecided("comparison of %s", o.what)
	}
	if o, ok := b.(c28opaque); ok {
		c28undecided("comparison of %s", o.what)
	}
	switch x := a.(type) {
	case int64:
		return x == b.(int64)
	case string:
		return x == b.(string)
	case bool:
		return x == b.(bool)
	case *c28val:
		return x == b.(*c28val)
	case *c28map:
		return x == b.(*c28map)
	case *c28closure:
		return x == b.(*c28closure)
	case []c28val:
		y := b.([]c28val)
		if x != nil && y != nil {
			c28undecided("comparison of two non-nil slices")
		}
		return x == nil && y == nil
	case c28iface:
		y := b.(c28iface)
		if x.t == nil || y.t == nil {
			return x.t == nil && y.t == nil
		}
		return types.Identical(x.t, y.t) && c28equal(x.v, y.v)
	case c28struct:
		y := b.(c28struct)
		for i := range x {
			if !c28equal(x[i], y[i]) {
				return false
			}
		}
		return true
	case c28array:
		y := b.(c28array)
		for i := range x {
			if !c28equal(x[i], y[i]) {
				return false
			}
		}
		return true
	}
	c28undecided("comparison of values of kind %T", a)
	return false
}

func c28key(k c28val) any {
	switch x := k.(type) {
	case int64, string, bool:
		return x
	case c28iface:
		if x.t == nil {
			return nil
		}
		return c28key(x.v)
	}
	c28undecided("map key of kind %T", k)
	return nil
}

func (m *c28map) set(k, v c28val) {
	kk := c28key(k)
	if _, ok := m.m[kk]; !ok {
		m.keys = append(m.keys, kk)
	}
	m.m[kk] = c28copy(v)
}

// ---------------------------------------------------------------------------
// package-level variables: their value is what the package initializer stores
// into them (composite literals of constants are rebuilt on demand from the
// init function's instructions; anything computed by a call stays opaque).

func (it *c28interp) global(g *ssa.Global) *c28val {
	if p, ok := it.globals[g]; ok {
		return p
	}
	p := new(c28val)
	*p = c28zero(g.Type().(*types.Pointer).Elem())
	it.globals[g] = p
	if g.Pkg == nil {
		return p
	}
	if init := g.Pkg.Func("init"); init != nil {
		for _, b := range init.Blocks {
			for _, in := range b.Instrs {
				if st, ok := in.(*ssa.Store); ok && st.Addr == ssa.Value(g) {
					c28store(p, it.initEval(st.Val, 0))
				}
			}
		}
	}
	return p
}

func (it *c28interp) initEval(v ssa.Value, depth int) c28val {
	if r, ok := it.initMemo[v]; ok {
		return r
	}
	if depth > 12 {
		return c28opaque{"deeply nested initializer"}
	}
	var r c28val
	switch x := v.(type) {
	case *ssa.Const:
		return c28const(x)
	case *ssa.Global:
		return it.global(x)
	case *ssa.Function:
		return &c28closure{fn: x}
	case *ssa.MakeMap:
		m := &c28map{m: map[any]c28val{}}
		it.initMemo[v] = m
		for _, ref := range *x.Referrers() {
			if mu, ok := ref.(*ssa.MapUpdate); ok && mu.Map == v {
				k, val := it.initEval(mu.Key, depth+1), it.initEval(mu.Value, depth+1)
				if _, op := k.(c28opaque); op {
					return c28opaque{"map with a computed key"}
				}
				m.set(k, val)
			}
		}
		return m
	case *ssa.Alloc:
		p := new(c28val)
		*p = c28zero(x.Type().(*types.Pointer).Elem())
		it.initMemo[v] = p
		it.initStores(x, p, depth+1)
		return p
	case *ssa.Slice:
		base := it.initEval(x.X, depth+1)
		if p, ok := base.(*c28val); ok && p != nil && x.Low == nil && x.High == nil {
			if a, ok := (*p).(c28array); ok {
				r = []c28val(a)
			}
		}
	case *ssa.UnOp:
		if x.Op == token.MUL {
			if p, ok := it.initEval(x.X, depth+1).(*c28val); ok && p != nil {
				r = c28copy(*p)
			}
		}
	case *ssa.MakeInterface:
		r = c28iface{t: x.X.Type(), v: it.initEval(x.X, depth+1)}
	case *ssa.ChangeType:
		r = it.initEval(x.X, depth+1)
	case *ssa.FieldAddr:
		if p, ok := it.initEval(x.X, depth+1).(*c28val); ok && p != nil {
			if s, ok := (*p).(c28struct); ok {
				r = &s[x.Field]
			}
		}
	case *ssa.IndexAddr:
		if k, ok := it.initEval(x.Index, depth+1).(int64); ok {
			switch b := it.initEval(x.X, depth+1).(type) {
			case *c28val:
				if b != nil {
					if a, ok := (*b).(c28array); ok && k >= 0 && k < int64(len(a)) {
						r = &a[k]
					}
				}
			case []c28val:
				if k >= 0 && k < int64(len(b)) {
					r = &b[k]
				}
			}
		}
	}
	if r == nil {
		r = c28opaque{"package-level value computed by " + v.String()}
	}
	it.initMemo[v] = r
	return r
}

// initStores replays the stores of a composite literal into the cell p that
// stands for the address value addr.
func (it *c28interp) initStores(addr ssa.Value, p *c28val, depth int) {
	if depth > 12 || addr.Referrers() == nil {
		return
	}
	for _, ref := range *addr.Referrers() {
		switch x := ref.(type) {
		case *ssa.Store:
			if x.Addr == addr {
				c28store(p, it.initEval(x.Val, depth+1))
			}
		case *ssa.FieldAddr:
			if s, ok := (*p).(c28struct); ok && x.X == addr {
				it.initStores(x, &s[x.Field], depth+1)
			}
		case *ssa.IndexAddr:
			if a, ok := (*p).(c28array); ok && x.X == addr {
				if k, ok := it.initEval(x.Index, depth+1).(int64); ok && k >= 0 && k < int64(len(a)) {
					it.initStores(x, &a[k], depth+1)
				}
			}
		}
	}
}

// ---------------------------------------------------------------------------

type c28frame struct {
	it     *c28interp
	fn     *ssa.Function
	idx    map[ssa.Value]int
	vals   []c28val
	defers []func()
}

func (fr *c28frame) put(v ssa.Value, val c28val) {
	if val == nil {
		val = c28tuple{}
	}
	fr.vals[fr.idx[v]] = val
}

// numbering assigns a slot to every parameter, free variable and value-producing
// instruction of fn (computed once per function).
func (it *c28interp) numbering(fn *ssa.Function) map[ssa.Value]int {
	if m, ok := it.numbers[fn]; ok {
		return m
	}
	m := map[ssa.Value]int{}
	for _, p := range fn.Params {
		m[p] = len(m)
	}
	for _, f := range fn.FreeVars {
		m[f] = len(m)
	}
	for _, b := range fn.Blocks {
		for _, in := range b.Instrs {
			if v, ok := in.(ssa.Value); ok {
				m[v] = len(m)
			}
		}
	}
	it.numbers[fn] = m
	return m
}

func (fr *c28frame) get(v ssa.Value) c28val {
	switch x := v.(type) {
	case *ssa.Const:
		if _, agg := x.Type().Underlying().(*types.Basic); agg {
			if r, ok := fr.it.consts[x]; ok {
				return r
			}
			r := c28const(x)
			fr.it.consts[x] = r
			return r
		}
		return c28const(x)
	case *ssa.Global:
		return fr.it.global(x)
	case *ssa.Function:
		return &c28closure{fn: x}
	case *ssa.Builtin:
		c28undecided("builtin %s used as a value", x.Name())
	}
	i, ok := fr.idx[v]
	var r c28val
	if ok {
		r = fr.vals[i]
	}
	if r == nil {
		c28undecided("value %s (%s) of %s not computed", v.Name(), v.String(), fr.fn.Name())
	}
	return r
}

func (fr *c28frame) int(v ssa.Value) int64 {
	switch n := fr.get(v).(type) {
	case int64:
		return n
	case c28opaque:
		c28undecided("integer use of %s", n.what)
	}
	c28undecided("integer expected for %s", v.String())
	return 0
}

func c28deref(p c28val, at ssa.Instruction) *c28val {
	switch x := p.(type) {
	case *c28val:
		if x == nil {
			c28panic("nil pointer dereference at %s", at.String())
		}
		return x
	case c28opaque:
		c28undecided("dereference of %s", x.what)
	}
	c28undecided("pointer expected at %s", at.String())
	return nil
}

func (it *c28interp) callFn(fn *ssa.Function, args []c28val, fv []c28val) c28val {
	if r, ok := it.modelled(fn, args); ok {
		return r
	}
	if len(fn.Blocks) == 0 {
		return c28opaqueResult(fn.Signature.Results(), "result of "+fn.String()+" (no body)")
	}
	it.depth++
	defer func() { it.depth-- }()
	if it.depth > 60 {
		c28undecided("call depth bound exceeded in %s", fn.Name())
	}
	idx := it.numbering(fn)
	fr := &c28frame{it: it, fn: fn, idx: idx, vals: make([]c28val, len(idx))}
	for i, p := range fn.Params {
		if i < len(args) {
			fr.put(p, args[i])
		}
	}
	for i, f := range fn.FreeVars {
		if i < len(fv) {
			fr.put(f, fv[i])
		}
	}
	b := fn.Blocks[0]
	var pred *ssa.BasicBlock
	for {
		// phis: parallel assignment
		if pred != nil {
			idx := -1
			for i, p := range b.Preds {
				if p == pred {
					idx = i
				}
			}
			var phis []*ssa.Phi
			var vals []c28val
			for _, in := range b.Instrs {
				ph, ok := in.(*ssa.Phi)
				if !ok {
					break
				}
				phis = append(phis, ph)
				vals = append(vals, fr.get(ph.Edges[idx]))
			}
			for i, ph := range phis {
				fr.put(ph, vals[i])
			}
		}
		var next *ssa.BasicBlock
		for _, in := range b.Instrs {
			it.steps++
			if it.steps > it.maxSteps {
				c28undecided("step bound exceeded in %s", fn.Name())
			}
			switch x := in.(type) {
			case *ssa.Phi, *ssa.DebugRef:
			case *ssa.Jump:
				next = b.Succs[0]
			case *ssa.If:
				switch cv := fr.get(x.Cond).(type) {
				case bool:
					if cv {
						next = b.Succs[0]
					} else {
						next = b.Succs[1]
					}
				case c28opaque:
					c28undecided("branch in %s depends on %s", fn.Name(), cv.what)
				default:
					c28undecided("non-boolean branch condition in %s", fn.Name())
				}
			case *ssa.Return:
				fr.runDefers()
				switch len(x.Results) {
				case 0:
					return nil
				case 1:
					return fr.get(x.Results[0])
				}
				t := make(c28tuple, len(x.Results))
				for i, r := range x.Results {
					t[i] = fr.get(r)
				}
				return t
			case *ssa.Panic:
				c28panic("panic in %s", fn.Name())
			case *ssa.RunDefers:
				fr.runDefers()
			case *ssa.Defer:
				call := fr.prepareCall(x.Common(), x)
				fr.defers = append(fr.defers, func() { call() })
			case *ssa.Store:
				c28store(c28deref(fr.get(x.Addr), x), fr.get(x.Val))
			case *ssa.MapUpdate:
				m, _ := fr.get(x.Map).(*c28map)
				if m == nil {
					c28panic("assignment to entry in nil map in %s", fn.Name())
				}
				m.set(fr.get(x.Key), fr.get(x.Value))
			case *ssa.Go, *ssa.Send, *ssa.Select:
				c28undecided("concurrency instruction %s in %s", in.String(), fn.Name())
			case ssa.Value:
				fr.put(x, fr.eval(x, in))
			default:
				c28undecided("instruction %s in %s not modelled", in.String(), fn.Name())
			}
		}
		if next == nil {
			c28undecided("block without terminator in %s", fn.Name())
		}
		pred, b = b, next
	}
}

func (fr *c28frame) runDefers() {
	for len(fr.defers) > 0 {
		d := fr.defers[len(fr.defers)-1]
		fr.defers = fr.defers[:len(fr.defers)-1]
		d()
	}
}

func c28opaqueResult(res *types.Tuple, what string) c28val {
	switch res.Len() {
	case 0:
		return nil
	case 1:
		return c28opaque{what}
	}
	t := make(c28tuple, res.Len())
	for i := range t {
		t[i] = c28opaque{what}
	}
	return t
}

// c28pkgPath: the import path of the package a function (also an instantiation
// of a generic function, or a function literal) belongs to.
func c28pkgPath(fn *ssa.Function) string {
	for f := fn; f != nil; f = f.Parent() {
		if f.Pkg != nil && f.Pkg.Pkg != nil {
			return f.Pkg.Pkg.Path()
		}
		if o := f.Origin(); o != nil && o.Pkg != nil && o.Pkg.Pkg != nil {
			return o.Pkg.Pkg.Path()
		}
		if obj := f.Object(); obj != nil && obj.Pkg() != nil {
			return obj.Pkg().Path()
		}
	}
	return ""
}

// pure data-structure packages of the standard library whose bodies are
// evaluated like the module's own code
var c28evalStd = map[string]bool{"slices": true, "maps": true, "strings": true, "bytes": true, "sort": true, "cmp": true,
	"iter": true, "unicode": true, "unicode/utf8": true, "strconv": true, "math/bits": true, "internal/stringslite": true, "internal/bytealg": true}

// modelled: functions whose result is known, or deliberately left unknown,
// without looking at their body. Only the module's own functions and the
// pure helper packages above are evaluated; any other function (fmt, log,
// errors, sync, ...) is not followed: it has no effect on the values the rule
// observes and its result is opaque, so that a branch on it ends the
// evaluation as undecided.
func (it *c28interp) modelled(fn *ssa.Function, args []c28val) (c28val, bool) {
	path := c28pkgPath(fn)
	if path == modPath || strings.HasPrefix(path, modPath+"/") || c28evalStd[path] {
		return nil, false
	}
	switch path + "." + fn.Name() {
	case "fmt.Errorf", "errors.New":
		// a fresh non-nil error whose text is of no interest
		return c28iface{t: types.Typ[types.String], v: c28opaque{"error built by " + fn.Name()}}, true
	}
	return c28opaqueResult(fn.Signature.Results(), "result of "+path+"."+fn.Name()), true
}

// prepareCall evaluates the callee and the arguments of a call now and returns
// the thunk that performs it.
func (fr *c28frame) prepareCall(cc *ssa.CallCommon, at ssa.Instruction) func() c28val {
	it := fr.it
	args := make([]c28val, 0, len(cc.Args)+1)
	if cc.IsInvoke() {
		recv, ok := fr.get(cc.Value).(c28iface)
		if !ok {
			c28undecided("method call on a value outside the model at %s", at.String())
		}
		if recv.t == nil {
			c28panic("method call on nil interface at %s", at.String())
		}
		if _, op := recv.v.(c28opaque); op {
			c28undecided("method %s called on %s", cc.Method.Name(), recv.v.(c28opaque).what)
		}
		m := it.prog.LookupMethod(recv.t, cc.Method.Pkg(), cc.Method.Name())
		if m == nil {
			c28undecided("method %s of %s not found", cc.Method.Name(), recv.t.String())
		}
		args = append(args, recv.v)
		for _, a := range cc.Args {
			args = append(args, fr.get(a))
		}
		return func() c28val { return it.callFn(m, args, nil) }
	}
	for _, a := range cc.Args {
		args = append(args, fr.get(a))
	}
	switch callee := cc.Value.(type) {
	case *ssa.Builtin:
		return func() c28val { return fr.builtin(callee, cc, args, at) }
	case *ssa.Function:
		return func() c28val { return it.callFn(callee, args, nil) }
	}
	switch cl := fr.get(cc.Value).(type) {
	case *c28closure:
		if cl == nil {
			c28panic("call of nil function at %s", at.String())
		}
		return func() c28val { return it.callFn(cl.fn, args, cl.fv) }
	case c28opaque:
		c28undecided("call of %s", cl.what)
	}
	c28undecided("call of a value outside the model at %s", at.String())
	return nil
}

func c28len(v c28val, at ssa.Instruction) int64 {
	switch x := v.(type) {
	case string:
		return int64(len(x))
	case []c28val:
		return int64(len(x))
	case *c28map:
		if x == nil {
			return 0
		}
		return int64(len(x.m))
	case c28array:
		return int64(len(x))
	case *c28val:
		if x != nil {
			if a, ok := (*x).(c28array); ok {
				return int64(len(a))
			}
		}
	case c28opaque:
		c28undecided("len of %s", x.what)
	}
	c28undecided("len of a value outside the model at %s", at.String())
	return 0
}

func (fr *c28frame) builtin(b *ssa.Builtin, cc *ssa.CallCommon, args []c28val, at ssa.Instruction) c28val {
	switch b.Name() {
	case "len":
		return c28len(args[0], at)
	case "cap":
		if s, ok := args[0].([]c28val); ok {
			return int64(cap(s))
		}
		return c28len(args[0], at)
	case "append":
		s, ok := args[0].([]c28val)
		if !ok {
			c28undecided("append to a value outside the model at %s", at.String())
		}
		switch t := args[1].(type) {
		case []c28val:
			if len(t) == 0 {
				return s
			}
			for _, e := range t {
				s = append(s, c28copy(e))
			}
			return s
		case string:
			for i := 0; i < len(t); i++ {
				s = append(s, int64(t[i]))
			}
			return s
		}
		c28undecided("append of a value outside the model at %s", at.String())
	case "copy":
		d, ok := args[0].([]c28val)
		if !ok {
			c28undecided("copy to a value outside the model at %s", at.String())
		}
		switch s := args[1].(type) {
		case []c28val:
			n := min(len(d), len(s))
			tmp := make([]c28val, n)
			for i := 0; i < n; i++ {
				tmp[i] = c28copy(s[i])
			}
			for i := 0; i < n; i++ {
				c28store(&d[i], tmp[i])
			}
			return int64(n)
		case string:
			n := min(len(d), len(s))
			for i := 0; i < n; i++ {
				d[i] = int64(s[i])
			}
			return int64(n)
		}
		c28undecided("copy from a value outside the model at %s", at.String())
	case "delete":
		if m, _ := args[0].(*c28map); m != nil {
			k := c28key(args[1])
			if _, ok := m.m[k]; ok {
				delete(m.m, k)
				for i, kk := range m.keys {
					if kk == k {
						m.keys = append(m.keys[:i:i], m.keys[i+1:]...)
						break
					}
				}
			}
		}
		return nil
	case "clear":
		switch x := args[0].(type) {
		case *c28map:
			if x != nil {
				x.m, x.keys = map[any]c28val{}, nil
			}
		case []c28val:
			if len(x) > 0 {
				et := cc.Args[0].Type().Underlying().(*types.Slice).Elem()
				for i := range x {
					c28store(&x[i], c28zero(et))
				}
			}
		}
		return nil
	case "min", "max":
		best := args[0]
		for _, a := range args[1:] {
			less := false
			switch x := a.(type) {
			case int64:
				less = x < best.(int64)
			case string:
				less = x < best.(string)
			default:
				c28undecided("%s of a value outside the model", b.Name())
			}
			if less == (b.Name() == "min") && !c28equal(a, best) {
				best = a
			}
		}
		return best
	case "recover":
		return c28iface{}
	case "print", "println":
		return nil
	case "ssa:wrapnilchk":
		if p, ok := args[0].(*c28val); ok && p == nil {
			c28panic("nil receiver at %s", at.String())
		}
		return args[0]
	}
	c28undecided("builtin %s not modelled", b.Name())
	return nil
}

func (fr *c28frame) eval(v ssa.Value, at ssa.Instruction) c28val {
	switch x := v.(type) {
	case *ssa.Alloc:
		p := new(c28val)
		*p = c28zero(x.Type().(*types.Pointer).Elem())
		return p
	case *ssa.Call:
		return fr.prepareCall(x.Common(), x)()
	case *ssa.BinOp:
		return fr.binop(x)
	case *ssa.UnOp:
		switch x.Op {
		case token.MUL:
			return c28copy(*c28deref(fr.get(x.X), x))
		case token.NOT:
			switch b := fr.get(x.X).(type) {
			case bool:
				return !b
			case c28opaque:
				return b
			}
		case token.SUB:
			return c28wrap(x.Type(), -fr.int(x.X))
		case token.XOR:
			return c28wrap(x.Type(), ^fr.int(x.X))
		}
		c28undecided("operator %s not modelled", x.String())
	case *ssa.ChangeType:
		return fr.get(x.X)
	case *ssa.ChangeInterface:
		return fr.get(x.X)
	case *ssa.MakeInterface:
		return c28iface{t: x.X.Type(), v: fr.get(x.X)}
	case *ssa.Convert:
		return fr.convert(x)
	case *ssa.Extract:
		switch t := fr.get(x.Tuple).(type) {
		case c28tuple:
			return t[x.Index]
		case c28opaque:
			return t
		}
		c28undecided("extract from a non-tuple at %s", x.String())
	case *ssa.Field:
		switch s := fr.get(x.X).(type) {
		case c28struct:
			return c28copy(s[x.Field])
		case c28opaque:
			return s
		}
		c28undecided("field of a value outside the model at %s", x.String())
	case *ssa.FieldAddr:
		p := c28deref(fr.get(x.X), x)
		s, ok := (*p).(c28struct)
		if !ok {
			c28undecided("field address in a value outside the model at %s", x.String())
		}
		return &s[x.Field]
	case *ssa.IndexAddr:
		k := fr.int(x.Index)
		switch b := fr.get(x.X).(type) {
		case []c28val:
			if k < 0 || k >= int64(len(b)) {
				c28panic("index %d out of range [0,%d) at %s", k, len(b), x.String())
			}
			return &b[k]
		case *c28val:
			a, ok := (*c28deref(b, x)).(c28array)
			if ok {
				if k < 0 || k >= int64(len(a)) {
					c28panic("index %d out of range [0,%d) at %s", k, len(a), x.String())
				}
				return &a[k]
			}
		case c28opaque:
			c28undecided("indexing of %s", b.what)
		}
		c28undecided("indexing of a value outside the model at %s", x.String())
	case *ssa.Index:
		k := fr.int(x.Index)
		switch b := fr.get(x.X).(type) {
		case c28array:
			if k < 0 || k >= int64(len(b)) {
				c28panic("index out of range at %s", x.String())
			}
			return c28copy(b[k])
		case string:
			if k < 0 || k >= int64(len(b)) {
				c28panic("index out of range at %s", x.String())
			}
			return int64(b[k])
		}
		c28undecided("indexing of a value outside the model at %s", x.String())
	case *ssa.Lookup:
		switch m := fr.get(x.X).(type) {
		case string:
			k := fr.int(x.Index)
			if k < 0 || k >= int64(len(m)) {
				c28panic("index out of range at %s", x.String())
			}
			return int64(m[k])
		case *c28map:
			var val c28val
			found := false
			if m != nil {
				val, found = m.m[c28key(fr.get(x.Index))]
			}
			if !found {
				val = c28zero(x.X.Type().Underlying().(*types.Map).Elem())
			}
			if x.CommaOk {
				return c28tuple{c28copy(val), found}
			}
			return c28copy(val)
		case c28opaque:
			c28undecided("lookup in %s", m.what)
		}
		c28undecided("lookup in a value outside the model at %s", x.String())
	case *ssa.Slice:
		return fr.slice(x)
	case *ssa.MakeSlice:
		n, cp := fr.int(x.Len), fr.int(x.Cap)
		if n < 0 || cp < n || cp > 1<<16 {
			c28panic("makeslice: len/cap out of range at %s", x.String())
		}
		s := make([]c28val, n, cp)
		et := x.Type().Underlying().(*types.Slice).Elem()
		full := s[:cp]
		for i := range full {
			full[i] = c28zero(et)
		}
		return s
	case *ssa.MakeMap:
		return &c28map{m: map[any]c28val{}}
	case *ssa.MakeClosure:
		cl := &c28closure{fn: x.Fn.(*ssa.Function)}
		for _, b := range x.Bindings {
			cl.fv = append(cl.fv, fr.get(b))
		}
		return cl
	case *ssa.TypeAssert:
		return fr.typeAssert(x)
	case *ssa.Range:
		switch c := fr.get(x.X).(type) {
		case *c28map:
			itr := &c28iter{m: c}
			if c != nil {
				itr.keys = append([]any(nil), c.keys...)
			}
			return itr
		case string:
			return &c28iter{isS: true, str: []rune(c)}
		}
		c28undecided("range over a value outside the model at %s", x.String())
	case *ssa.Next:
		itr, ok := fr.get(x.Iter).(*c28iter)
		if !ok {
			c28undecided("iterator outside the model at %s", x.String())
		}
		if itr.isS {
			if itr.pos >= len(itr.str) {
				return c28tuple{false, int64(0), int64(0)}
			}
			off := len(string(itr.str[:itr.pos]))
			r := itr.str[itr.pos]
			itr.pos++
			return c28tuple{true, int64(off), int64(r)}
		}
		for itr.pos < len(itr.keys) {
			k := itr.keys[itr.pos]
			itr.pos++
			if val, ok := itr.m.m[k]; ok {
				return c28tuple{true, k, c28copy(val)}
			}
		}
		mt := x.Iter.(*ssa.Range).X.Type().Underlying().(*types.Map)
		return c28tuple{false, c28zero(mt.Key()), c28zero(mt.Elem())}
	}
	c28undecided("instruction %s in %s not modelled", at.String(), fr.fn.Name())
	return nil
}

func (fr *c28frame) typeAssert(x *ssa.TypeAssert) c28val {
	var i c28iface
	switch t := fr.get(x.X).(type) {
	case c28iface:
		i = t
	case c28opaque:
		c28undecided("type assertion on %s", t.what)
	default:
		c28undecided("type assertion on a value outside the model at %s", x.String())
	}
	if _, op := i.v.(c28opaque); op && i.t != nil {
		c28undecided("type assertion on %s", i.v.(c28opaque).what)
	}
	ok := false
	var res c28val
	if it, isI := x.AssertedType.Underlying().(*types.Interface); isI {
		ok = i.t != nil && types.Implements(i.t, it)
		if ok {
			res = i
		} else {
			res = c28iface{}
		}
	} else {
		ok = i.t != nil && types.Identical(i.t, x.AssertedType)
		if ok {
			res = i.v
		} else {
			res = c28zero(x.AssertedType)
		}
	}
	if x.CommaOk {
		return c28tuple{res, ok}
	}
	if !ok {
		c28panic("failed type assertion at %s", x.String())
	}
	return res
}

func (fr *c28frame) slice(x *ssa.Slice) (res c28val) {
	defer func() {
		if r := recover(); r != nil {
			if s, ok := r.(c28stop); ok {
				panic(s)
			}
			c28panic("slice bounds out of range at %s", x.String())
		}
	}()
	opt := func(v ssa.Value, def int) int {
		if v == nil {
			return def
		}
		return int(fr.int(v))
	}
	switch b := fr.get(x.X).(type) {
	case string:
		return b[opt(x.Low, 0):opt(x.High, len(b))]
	case []c28val:
		lo, hi := opt(x.Low, 0), opt(x.High, len(b))
		if x.Max != nil {
			return b[lo:hi:opt(x.Max, 0)]
		}
		return b[lo:hi]
	case *c28val:
		a, ok := (*c28deref(b, x)).(c28array)
		if ok {
			s := []c28val(a)
			lo, hi := opt(x.Low, 0), opt(x.High, len(s))
			if x.Max != nil {
				return s[lo:hi:opt(x.Max, 0)]
			}
			return s[lo:hi]
		}
	case c28opaque:
		c28undecided("slicing of %s", b.what)
	}
	c28undecided("slicing of a value outside the model at %s", x.String())
	return nil
}

func (fr *c28frame) convert(x *ssa.Convert) c28val {
	v := fr.get(x.X)
	from, to := x.X.Type().Underlying(), x.Type().Underlying()
	fb, _ := from.(*types.Basic)
	tb, _ := to.(*types.Basic)
	switch {
	case fb != nil && tb != nil && fb.Info()&types.IsInteger != 0 && tb.Info()&types.IsInteger != 0:
		if n, ok := v.(int64); ok {
			return c28wrap(x.Type(), n)
		}
	case fb != nil && tb != nil && fb.Info()&types.IsString != 0 && tb.Info()&types.IsString != 0:
		return v
	case fb != nil && fb.Info()&types.IsString != 0 && tb == nil:
		if s, ok := v.(string); ok {
			if sl, isSl := to.(*types.Slice); isSl {
				if eb, _ := sl.Elem().Underlying().(*types.Basic); eb != nil && eb.Kind() == types.Uint8 {
					out := make([]c28val, len(s))
					for i := 0; i < len(s); i++ {
						out[i] = int64(s[i])
					}
					return out
				}
			}
		}
	case tb != nil && tb.Info()&types.IsString != 0 && fb == nil:
		if s, ok := v.([]c28val); ok {
			if sl, isSl := from.(*types.Slice); isSl {
				if eb, _ := sl.Elem().Underlying().(*types.Basic); eb != nil && eb.Kind() == types.Uint8 {
					var sb strings.Builder
					for _, e := range s {
						n, ok := e.(int64)
						if !ok {
							c28undecided("conversion of unknown bytes to string")
						}
						sb.WriteByte(byte(n))
					}
					return sb.String()
				}
			}
		}
	case tb != nil && tb.Info()&types.IsString != 0 && fb != nil && fb.Info()&types.IsInteger != 0:
		if n, ok := v.(int64); ok {
			return string(rune(n))
		}
	}
	if o, ok := v.(c28opaque); ok {
		return o
	}
	if _, isPtr := to.(*types.Pointer); isPtr {
		return v
	}
	return c28opaque{"conversion " + x.String()}
}

func (fr *c28frame) binop(x *ssa.BinOp) c28val {
	a, b := fr.get(x.X), fr.get(x.Y)
	if x.Op == token.EQL {
		return c28equal(a, b)
	}
	if x.Op == token.NEQ {
		return !c28equal(a, b)
	}
	if o, ok := a.(c28opaque); ok {
		return o
	}
	if o, ok := b.(c28opaque); ok {
		return o
	}
	switch p := a.(type) {
	case string:
		q, ok := b.(string)
		if !ok {
			break
		}
		switch x.Op {
		case token.ADD:
			return p + q
		case token.LSS:
			return p < q
		case token.LEQ:
			return p <= q
		case token.GTR:
			return p > q
		case token.GEQ:
			return p >= q
		}
	case int64:
		q, ok := b.(int64)
		if !ok {
			break
		}
		uns := c28isUnsigned(x.X.Type())
		switch x.Op {
		case token.ADD:
			return c28wrap(x.Type(), p+q)
		case token.SUB:
			return c28wrap(x.Type(), p-q)
		case token.MUL:
			return c28wrap(x.Type(), p*q)
		case token.QUO:
			if q == 0 {
				c28panic("division by zero")
			}
			if uns {
				return c28wrap(x.Type(), int64(uint64(p)/uint64(q)))
			}
			return c28wrap(x.Type(), p/q)
		case token.REM:
			if q == 0 {
				c28panic("division by zero")
			}
			if uns {
				return c28wrap(x.Type(), int64(uint64(p)%uint64(q)))
			}
			return c28wrap(x.Type(), p%q)
		case token.AND:
			return p & q
		case token.OR:
			return p | q
		case token.XOR:
			return c28wrap(x.Type(), p^q)
		case token.AND_NOT:
			return p &^ q
		case token.SHL:
			if q < 0 {
				c28panic("negative shift")
			}
			if q >= 64 {
				return int64(0)
			}
			return c28wrap(x.Type(), p<<uint(q))
		case token.SHR:
			if q < 0 {
				c28panic("negative shift")
			}
			if uns {
				if q >= 64 {
					return int64(0)
				}
				return int64(uint64(p) >> uint(q))
			}
			if q >= 64 {
				q = 63
			}
			return p >> uint(q)
		case token.LSS:
			if uns {
				return uint64(p) < uint64(q)
			}
			return p < q
		case token.LEQ:
			if uns {
				return uint64(p) <= uint64(q)
			}
			return p <= q
		case token.GTR:
			if uns {
				return uint64(p) > uint64(q)
			}
			return p > q
		case token.GEQ:
			if uns {
				return uint64(p) >= uint64(q)
			}
			return p >= q
		}
	case bool:
		q, ok := b.(bool)
		if !ok {
			break
		}
		switch x.Op {
		case token.AND, token.LAND:
			return p && q
		case token.OR, token.LOR:
			return p || q
		}
	}
	c28undecided("operator %s not modelled", x.String())
	return nil
}
