package main

import (
	"bytes"
	"go/token"
	"go/types"
	"strconv"
	"strings"

	"golang.org/x/tools/go/ssa"
)

// c07Run: outcome of interpreting UnmarshalBinary on one concrete input.
type c07Run struct {
	end    string // "accept" (nil error), "reject" (non-nil error), "panic", "undecided"
	why    string
	oob    bool
	oobAt  ssa.Instruction
	last   ssa.Instruction
	stores map[string]optInt // integer fields of the receiver type: last value stored
}

func c07IsError(t types.Type) bool {
	return types.Identical(t, types.Universe.Lookup("error").Type())
}

// c07Prebind gives the error values that the integer evaluator cannot fold an
// abstract identity: the nil interface constant is 0, a value boxed into an
// interface is non-nil (1).
func c07Prebind(e *penv, f *ssa.Function) {
	var ops []*ssa.Value
	allInstrs(f, func(in ssa.Instruction) {
		if mi, ok := in.(*ssa.MakeInterface); ok {
			e.bind(mi, 1)
		}
		ops = in.Operands(ops[:0])
		for _, op := range ops {
			if op == nil || *op == nil {
				continue
			}
			if k, ok := (*op).(*ssa.Const); ok && k.IsNil() && types.IsInterface(k.Type()) {
				e.bind(k, 0)
			}
		}
		// a byte of a constant string at a constant index
		if lk, ok := in.(*ssa.Index); ok {
			if s, isS := constString(lk.X); isS {
				if i, isI := constInt(lk.Index); isI && i >= 0 && i < int64(len(s)) {
					e.bind(lk, int64(s[i]))
				}
			}
		}
	})
}

// c07ConstBytes: a constant string, or a constant-bounded slice of one.
func c07ConstBytes(e *penv, v ssa.Value) ([]byte, bool) {
	if s, ok := constString(v); ok {
		return []byte(s), true
	}
	sl, ok := v.(*ssa.Slice)
	if !ok {
		return nil, false
	}
	s, ok := c07ConstBytes(e, sl.X)
	if !ok {
		return nil, false
	}
	lo, hi := int64(0), int64(len(s))
	if sl.Low != nil {
		if lo, ok = e.eval(sl.Low); !ok {
			return nil, false
		}
	}
	if sl.High != nil {
		if hi, ok = e.eval(sl.High); !ok {
			return nil, false
		}
	}
	if lo < 0 || hi < lo || hi > int64(len(s)) {
		return nil, false
	}
	return s[lo:hi], true
}

// c07Interp interprets fn (an UnmarshalBinary method: receiver, input) on the
// concrete input `in` with the receiver fields of cfg known. Slices of the
// input are followed by position (w.off) and length, so that every byte load,
// every string/bytes comparison of a part of the input and every range test
// folds to a constant: the walk follows the one path this input takes, through
// same-package helpers as well.
func c07Interp(fn *ssa.Function, typ string, in []byte, cfg map[string]int64, f *c07Format) c07Run {
	res := c07Run{stores: map[string]optInt{}}
	recv, buf := fn.Params[0], fn.Params[1]
	w := &pathWalker{env: newEnv(), lengths: true, maxSteps: 100000, state: map[string]int64{}}
	for k, v := range cfg {
		w.state[recv.Name()+"."+k] = v
	}
	// the restored fields are tracked too (a later test may read them back)
	for _, b := range f.bytes {
		if b.field != "" {
			if _, ok := w.state[recv.Name()+"."+b.field]; !ok {
				w.state[recv.Name()+"."+b.field] = 0
			}
		}
	}
	w.env.bind(buf, int64(len(in)))
	w.off = map[ssa.Value]int64{buf: 0}
	c07Prebind(w.env, fn)

	content := func(off, n int64) ([]byte, bool) {
		if off < 0 || n < 0 || off+n > int64(len(in)) {
			return nil, false
		}
		return in[off : off+n], true
	}
	// bytesOf: the concrete bytes a []byte / string operand denotes.
	var bytesOf func(w *pathWalker, v ssa.Value, depth int) ([]byte, bool)
	bytesOf = func(w *pathWalker, v ssa.Value, depth int) ([]byte, bool) {
		if depth > 6 {
			return nil, false
		}
		if s, ok := c07ConstBytes(w.env, v); ok {
			return s, true
		}
		if o, ok := w.off[v]; ok {
			if n, okn := w.env.eval(v); okn {
				return content(o, n)
			}
			return nil, false
		}
		switch x := v.(type) {
		case *ssa.Convert:
			return bytesOf(w, x.X, depth+1)
		case *ssa.ChangeType:
			return bytesOf(w, x.X, depth+1)
		}
		return nil, false
	}
	// note: v is a part of the input at position off, length n. Comparisons of
	// string(v) with a constant (or with another part of the input) are folded
	// here, because the evaluator has no strings.
	note := func(w *pathWalker, v ssa.Value, off, n int64) {
		mine, ok := content(off, n)
		if !ok || v.Referrers() == nil {
			return
		}
		for _, r := range *v.Referrers() {
			cv, ok := r.(*ssa.Convert)
			if !ok || cv.Referrers() == nil {
				continue
			}
			if b, isB := cv.Type().Underlying().(*types.Basic); !isB || b.Info()&types.IsString == 0 {
				continue
			}
			for _, r2 := range *cv.Referrers() {
				bo, ok := r2.(*ssa.BinOp)
				if !ok {
					continue
				}
				other := bo.Y
				if other == ssa.Value(cv) {
					other = bo.X
				}
				theirs, ok := bytesOf(w, other, 0)
				if !ok {
					continue
				}
				cmp := bytes.Compare(mine, theirs)
				if bo.X != ssa.Value(cv) {
					cmp = -cmp
				}
				var t bool
				switch bo.Op {
				case token.EQL:
					t = cmp == 0
				case token.NEQ:
					t = cmp != 0
				case token.LSS:
					t = cmp < 0
				case token.LEQ:
					t = cmp <= 0
				case token.GTR:
					t = cmp > 0
				case token.GEQ:
					t = cmp >= 0
				default:
					continue
				}
				if t {
					w.env.bind(bo, 1)
				} else {
					w.env.bind(bo, 0)
				}
			}
		}
	}
	note(w, buf, 0, int64(len(in)))

	w.onSlice = func(w *pathWalker, sl *ssa.Slice) {
		base, ok := w.off[sl.X]
		if !ok {
			delete(w.off, sl)
			return
		}
		lo := int64(0)
		if sl.Low != nil {
			v, okl := w.env.eval(sl.Low)
			if !okl {
				delete(w.off, sl)
				return
			}
			lo = v
		}
		w.off[sl] = base + lo
		if n, okn := w.env.eval(sl); okn {
			note(w, sl, base+lo, n)
		}
	}
	w.onPhi = func(w *pathWalker, ph *ssa.Phi, inc ssa.Value) {
		if o, ok := w.off[inc]; ok {
			w.off[ph] = o
			if n, okn := w.env.eval(inc); okn {
				note(w, ph, o, n)
			}
		} else {
			delete(w.off, ph)
		}
		// a loop index into a constant string (byte-wise comparison with the
		// identifier): the looked-up byte follows the index
		if ph.Referrers() != nil {
			if i, ok := w.env.eval(inc); ok {
				for _, r := range *ph.Referrers() {
					if lk, isL := r.(*ssa.Index); isL && lk.Index == ssa.Value(ph) {
						if s, isS := constString(lk.X); isS && i >= 0 && i < int64(len(s)) {
							w.env.bind(lk, int64(s[i]))
						} else {
							delete(w.env.vals, lk)
						}
					}
				}
			}
		}
	}
	w.onLoad = func(w *pathWalker, u *ssa.UnOp) (int64, bool) {
		if ia, ok := u.X.(*ssa.IndexAddr); ok {
			if base, isIn := w.off[ia.X]; isIn {
				if idx, okI := w.env.eval(ia.Index); okI {
					if p := base + idx; p >= 0 && p < int64(len(in)) {
						return int64(in[p]), true
					}
				}
				return 0, false
			}
		}
		// a package-level error variable is a non-nil sentinel
		if _, isG := u.X.(*ssa.Global); isG && c07IsError(u.Type()) {
			return 1, true
		}
		return 0, false
	}
	w.onInline = func(parent, child *pathWalker, callee *ssa.Function, args []ssa.Value) {
		c07Prebind(child.env, callee)
		for _, p := range callee.Params {
			if o, ok := parent.off[p]; ok {
				if n, okn := child.env.eval(p); okn {
					note(child, p, o, n)
				}
			}
		}
	}
	// positions of slices returned as part of a tuple
	tupleOff := map[ssa.Value]map[int]int64{}
	w.onReturn = func(parent, child *pathWalker, call *ssa.Call, results []ssa.Value) {
		if len(results) < 2 {
			return
		}
		m := map[int]int64{}
		for i, r := range results {
			if o, ok := child.off[r]; ok {
				m[i] = o
			}
		}
		tupleOff[call] = m
	}
	w.onExtract = func(w *pathWalker, ex *ssa.Extract) {
		if o, ok := tupleOff[ex.Tuple][ex.Index]; ok {
			w.off[ex] = o
			if n, okn := w.env.eval(ex); okn {
				note(w, ex, o, n)
			}
		} else {
			delete(w.off, ex)
		}
	}
	w.onCall = func(w *pathWalker, ci ssa.CallInstruction) string {
		cc := ci.Common()
		v, isV := ci.(ssa.Value)
		if !isV {
			return ""
		}
		n := short(calleeName(cc))
		bindBool := func(t bool) {
			if t {
				w.env.bind(v, 1)
			} else {
				w.env.bind(v, 0)
			}
		}
		two := func() ([]byte, []byte, bool) {
			if len(cc.Args) != 2 {
				return nil, nil, false
			}
			a, ok1 := bytesOf(w, cc.Args[0], 0)
			b, ok2 := bytesOf(w, cc.Args[1], 0)
			return a, b, ok1 && ok2
		}
		switch {
		case n == "errors.New" || n == "fmt.Errorf":
			w.env.bind(v, 1) // a fresh, non-nil error
		case n == "bytes.Equal":
			if a, b, ok := two(); ok {
				bindBool(bytes.Equal(a, b))
			}
		case n == "bytes.HasPrefix" || n == "strings.HasPrefix":
			if a, b, ok := two(); ok {
				bindBool(bytes.HasPrefix(a, b))
			}
		case n == "bytes.Compare" || n == "strings.Compare":
			if a, b, ok := two(); ok {
				w.env.bind(v, int64(bytes.Compare(a, b)))
			}
		case n == "crypto/subtle.ConstantTimeCompare":
			if a, b, ok := two(); ok {
				bindBool(bytes.Equal(a, b))
			}
		case strings.HasPrefix(n, "(encoding/binary.bigEndian).Uint") || strings.HasPrefix(n, "(encoding/binary.littleEndian).Uint"):
			// a fixed-width read from the input
			width := map[string]int{"Uint16": 2, "Uint32": 4, "Uint64": 8}[n[strings.LastIndex(n, ".")+1:]]
			if width > 0 && len(cc.Args) == 2 {
				if a, ok := bytesOf(w, cc.Args[1], 0); ok && len(a) >= width {
					var x uint64
					for i := 0; i < width; i++ {
						if strings.Contains(n, "bigEndian") {
							x = x<<8 | uint64(a[i])
						} else {
							x |= uint64(a[i]) << (8 * uint(i))
						}
					}
					w.env.bind(v, int64(x))
				}
			}
		}
		return ""
	}
	w.onStore = func(w *pathWalker, st *ssa.Store) string {
		fa, ok := st.Addr.(*ssa.FieldAddr)
		if !ok || typeName(fa.X.Type()) != typ {
			return ""
		}
		s := derefStruct(fa.X.Type())
		if s == nil {
			return ""
		}
		fld := s.Field(fa.Field)
		if _, _, isInt := intBits(fld.Type()); !isInt {
			return ""
		}
		// recorded as an event so that it follows the path (trial inlining)
		if n, okv := w.env.eval(st.Val); okv {
			return "st:" + fld.Name() + ":" + strconv.FormatInt(n, 10)
		}
		return "st:" + fld.Name() + ":?"
	}

	end := w.walk(fn.Blocks[0], nil)
	res.last = w.last
	res.oob = w.oob || w.beyondLen
	res.oobAt = w.oobAt
	for _, ev := range w.events {
		if p := strings.SplitN(ev, ":", 3); len(p) == 3 && p[0] == "st" {
			if p[2] == "?" {
				res.stores[p[1]] = optInt{}
			} else {
				n, _ := strconv.ParseInt(p[2], 10, 64)
				res.stores[p[1]] = optInt{n, true}
			}
		}
	}
	switch end {
	case "return":
		ret, _ := w.last.(*ssa.Return)
		if ret == nil || len(ret.Results) != 1 {
			res.end, res.why = "undecided", "the function does not return a single error"
			break
		}
		n, ok := w.env.eval(ret.Results[0])
		switch {
		case !ok:
			res.end, res.why = "undecided", "the returned error value does not evaluate (nil or not)"
		case n == 0:
			res.end = "accept"
		default:
			res.end = "reject"
		}
	case "panic":
		res.end = "panic"
	default:
		res.end, res.why = "undecided", w.why
		if res.why == "" {
			res.why = "walk ended with " + end
		}
	}
	return res
}
