package main

import (
	"fmt"
	"sort"
	"strings"

	"golang.org/x/tools/go/ssa"
)

const (
	c36Load    = "(*sync/atomic.Bool).Load"
	c36GetChan = "(*ssh.chanList).getChan"
	c36Remove  = "(*ssh.chanList).remove"
	c36HUCP    = "(*ssh.mux).handleUnknownChannelPacket"
	c36HP      = "(*ssh.channel).handlePacket"
	c36WinAdd  = "(*ssh.window).add"
)

// c36Protocol interprets mux.onePacket — the body of the read loop — with every
// relevant helper expanded in place (c36_explore.go) and decides, for every
// execution path:
//
//	reply-gated / reply-nonblocking   every channel send whose value may be a
//	    *channelRequestSuccessMsg / *channelRequestFailureMsg into channel.msg,
//	    and every send into mux.globalResponses, is a non-blocking select, and the
//	    path has seen <flag>.Load() == true on the SAME object before;
//	open-reply   a store to remoteId / maxRemotePayload of a looked-up channel,
//	    and — once the decoded message is known to be an open confirmation or
//	    failure — every chanList.remove, window.add and delivery into channel.msg,
//	    happens only after the path compared the channel's direction against
//	    channelInbound (and it was not) and saw decided == false; such a path
//	    stores decided = true before onePacket returns;
//	unknown-channel   channel.handlePacket is entered only with a receiver known
//	    non-nil; when the looked-up channel is nil, onePacket returns the result of
//	    handleUnknownChannelPacket.
func c36Protocol(c *Ctx) {
	one := c.fn("ssh", "(*mux).onePacket")
	if one == nil {
		return
	}
	inb, _ := pkgConstInt(c, "ssh", "channelInbound")
	rep := &c36Report{c: c, fallback: one}
	const (
		cGlobal = "global replies (mux.globalResponses)"
		cChan   = "channel request replies (channel.msg)"
		cOpen   = "open confirmation / failure effects"
		cUnk    = "(*mux).onePacket channel dispatch"
	)
	delivered := map[string]ssa.Instruction{}
	var openEffects, dispatched, unknownRets int
	var openAt, dispAt ssa.Instruction

	isName := func(in ssa.Instruction, names ...string) bool {
		cc := callCommon(in)
		if cc == nil {
			return false
		}
		n := short(calleeName(cc))
		for _, w := range names {
			if n == w {
				return true
			}
		}
		return false
	}
	typeIs := func(kn c36Know, names ...string) (is, may bool) {
		if kn.exact != nil {
			tn := typeName(kn.exact)
			for _, n := range names {
				if tn == n {
					return true, true
				}
			}
			return false, false
		}
		if kn.nilness == c36Nil {
			return false, false
		}
		for _, n := range names {
			if !strings.Contains(kn.not, "."+n+"|") {
				return false, true
			}
		}
		return false, false
	}
	replyTypes := []string{"channelRequestSuccessMsg", "channelRequestFailureMsg"}
	openTypes := []string{"channelOpenConfirmMsg", "channelOpenFailureMsg"}

	x := &c36X{c: c, root: one,
		tracked: map[string]bool{"channel.direction": true, "channel.decided": true},
		opaque:  map[string]bool{"(*mux).handleUnknownChannelPacket": true},
	}
	x.relevant = func(in ssa.Instruction) bool {
		switch t := in.(type) {
		case *ssa.Send, *ssa.Select, *ssa.TypeAssert:
			return true
		case *ssa.Store:
			if typ, fld, _, ok := fieldOf(t.Addr); ok && typ == "channel" && (fld == "remoteId" || fld == "maxRemotePayload") {
				return true
			}
		case *ssa.Call:
			return isName(in, c36Load, c36GetChan, c36Remove, c36HUCP, c36HP, c36WinAdd)
		}
		return false
	}
	// openCtx: the path knows that some value is an open confirmation / failure
	openCtx := func(st *c36State) bool {
		for _, kn := range st.know {
			if is, _ := typeIs(kn, openTypes...); is {
				return true
			}
		}
		return false
	}
	requireAccepted := func(in ssa.Instruction, base c36Key, what string, st *c36State) *c36State {
		openEffects++
		if openAt == nil {
			openAt = in
		}
		if base.v == nil {
			rep.add("C36.open-reply", cOpen, in, what+": cannot relate the effect to the channel the packet was dispatched to")
			return nil
		}
		dir := st.mem[c36MemKey{"channel.direction", base}]
		dirOK := (dir.hasInt && dir.ival != inb) || dir.excludes(inb)
		undecided := st.facts["undecided@"+x.ks(base)]
		switch {
		case !dirOK && !undecided:
			rep.add("C36.open-reply", cOpen, in, what+" is reachable without the acceptance test for open replies (direction != channelInbound and decided == false, as in responseMessageReceived() == nil) on the path: a duplicate or unsolicited open confirmation / failure is honoured")
		case !undecided:
			rep.add("C36.open-reply", cOpen, in, what+" is reachable without decided == false having been observed on the channel (a duplicate open confirmation / failure is accepted)")
		case !dirOK:
			rep.add("C36.open-reply", cOpen, in, what+" is reachable without the channel's direction having been found different from channelInbound (an open reply is honoured on an inbound channel)")
		}
		ns := st.clone()
		ns.facts["openEffect@"+x.ks(base)] = true
		return ns
	}
	handleSend := func(in ssa.Instruction, ch, val ssa.Value, blocking bool, fr *c36Frame, st *c36State) *c36State {
		name, base, ok := x.fieldAddrOf(ch, fr, st)
		if !ok {
			return nil
		}
		var flag, construct string
		reply := false
		var out *c36State
		switch name {
		case "mux.globalResponses":
			flag, construct, reply = "mux.globalSentPending", cGlobal, true
		case "channel.msg":
			flag, construct = "channel.sentRequestPending", cChan
			kn := x.dynType(val, fr, st)
			_, reply = typeIs(kn, replyTypes...)
			if _, mayOpen := typeIs(kn, openTypes...); mayOpen && !reply {
				out = requireAccepted(in, base, "delivery of an open confirmation / failure into channel.msg", st)
			}
		default:
			return nil
		}
		if !reply {
			return out
		}
		if delivered[name] == nil {
			delivered[name] = in
		}
		if blocking {
			rep.add("C36.reply-nonblocking", construct, in, "a reply message is delivered with a blocking channel send from the read loop (a peer that sends replies nobody reads stalls the connection)")
		}
		if !st.facts["gate:"+flag+"@"+x.ks(base)] {
			rep.add("C36.reply-gated", construct, in, "a reply is delivered into "+name+" on a path that has not seen "+flag+".Load() == true on the same object (replies reach a request that is not waiting)")
		}
		return out
	}
	x.onInstr = func(x *c36X, in ssa.Instruction, fr *c36Frame, st *c36State) *c36State {
		switch t := in.(type) {
		case *ssa.Send:
			return handleSend(in, t.Chan, t.X, true, fr, st)
		case *ssa.Select:
			var out *c36State
			for _, s := range t.States {
				if s.Dir == 1 { // types.SendOnly
					cur := st
					if out != nil {
						cur = out
					}
					if ns := handleSend(in, s.Chan, s.Send, t.Blocking, fr, cur); ns != nil {
						out = ns
					}
				}
			}
			return out
		case *ssa.Store:
			if name, base, ok := x.fieldAddrOf(t.Addr, fr, st); ok && (name == "channel.remoteId" || name == "channel.maxRemotePayload") {
				if call, isCall := base.v.(*ssa.Call); isCall && short(calleeName(&call.Call)) == c36GetChan {
					return requireAccepted(in, base, "a store to "+name+" of an existing channel", st)
				}
			}
		case *ssa.Call:
			switch {
			case isName(in, c36GetChan):
				ns := st.clone()
				ns.vars["chan"] = c36Key{t, fr}
				return ns
			case isName(in, c36HP):
				dispatched++
				if dispAt == nil {
					dispAt = in
				}
				if len(t.Call.Args) == 0 || x.kn(x.resolve(t.Call.Args[0], fr, st), st).nilness != c36NonNil {
					rep.add("C36.unknown-channel", cUnk, in, "channel.handlePacket is reachable on a path that has not established getChan(id) != nil (a packet for an unknown channel id is handled on a nil channel)")
				}
			case isName(in, c36Remove) && openCtx(st):
				return requireAccepted(in, st.vars["chan"], "removal of the channel from the channel list on an open failure", st)
			case isName(in, c36WinAdd) && openCtx(st):
				return requireAccepted(in, st.vars["chan"], "crediting the remote window on an open confirmation", st)
			}
		}
		return nil
	}
	x.onKnow = func(x *c36X, k c36Key, st *c36State) {
		call, ok := k.v.(*ssa.Call)
		if !ok {
			return
		}
		kn := st.know[k]
		switch short(calleeName(&call.Call)) {
		case c36Load:
			if kn.hasInt && kn.ival == 1 && len(call.Call.Args) == 1 {
				if name, base, ok := x.fieldAddrOf(call.Call.Args[0], k.fr, st); ok {
					st.facts["gate:"+name+"@"+x.ks(base)] = true
				}
			}
		case c36GetChan:
			if kn.nilness == c36Nil {
				st.facts["unknown-chan"] = true
			}
		}
	}
	x.onMem = func(x *c36X, mk c36MemKey, st *c36State) {
		if m := st.mem[mk]; mk.field == "channel.decided" && m.hasInt && m.ival == 0 {
			st.facts["undecided@"+x.ks(mk.base)] = true
		}
	}
	x.onStore = func(x *c36X, mk c36MemKey, val c36Know, st *c36State) {
		if mk.field == "channel.decided" && val.hasInt && val.ival == 1 {
			st.facts["decidedSet@"+x.ks(mk.base)] = true
		}
	}
	x.onRootReturn = func(x *c36X, r *ssa.Return, st *c36State) {
		for f := range st.facts {
			if b, ok := strings.CutPrefix(f, "openEffect@"); ok && !st.facts["decidedSet@"+b] {
				rep.add("C36.open-reply", cOpen, r, "an open confirmation / failure is honoured on a path that never stores decided = true (the next duplicate would be honoured again)")
			}
		}
		if st.facts["unknown-chan"] {
			unknownRets++
			if len(r.Results) == 0 || x.kn(x.resolve(retVal(r, 0), x.rootFr, st), st).src != c36HUCP {
				rep.add("C36.unknown-channel", cUnk, r, "onePacket returns for an unknown channel id (getChan(id) == nil) without returning handleUnknownChannelPacket's verdict")
			}
		}
	}
	x.explore()
	if x.exceeded {
		c.undecided("C36.reply-gated", "read loop exploration", one, fmt.Sprintf("exploration of (*mux).onePacket exceeded its budget of %d steps", x.budget))
		return
	}
	var fns []string
	for g := range x.expanded {
		fns = append(fns, fnName(g))
	}
	sort.Strings(fns)
	where := fmt.Sprintf("all paths of onePacket with %d helpers expanded in place (%d states)", len(fns)-1, len(x.seen))

	for _, s := range []struct{ name, construct, flag string }{
		{"mux.globalResponses", cGlobal, "mux.globalSentPending"},
		{"channel.msg", cChan, "channel.sentRequestPending"},
	} {
		for _, rule := range []string{"C36.reply-nonblocking", "C36.reply-gated"} {
			if !rep.flush(rule, s.construct) {
				continue
			}
			if delivered[s.name] == nil {
				c.fail(rule, s.construct, one, "no delivery of a reply into "+s.name+" is reachable from onePacket (rule anchor lost, or replies are never delivered)")
				continue
			}
			detail := "every reply delivery into " + s.name + " is a non-blocking select; " + where
			if rule == "C36.reply-gated" {
				detail = "every reply delivery into " + s.name + " follows " + s.flag + ".Load() == true on the same object; " + where
			}
			c.ok(rule, s.construct, delivered[s.name], detail)
		}
	}
	if rep.flush("C36.open-reply", cOpen) {
		c.check(openEffects > 0, "C36.open-reply", cOpen, openAtOr(openAt, one), fmt.Sprintf("channel state changes and deliveries on OPEN_CONFIRMATION / OPEN_FAILURE happen only for an outbound, undecided channel, which is then marked decided (%d effect visits)", openEffects), "no open-reply effect (store to remoteId / maxRemotePayload, chanList.remove, delivery) is reachable from onePacket (rule anchor lost)")
	}
	if rep.flush("C36.unknown-channel", cUnk) {
		c.check(dispatched > 0 && unknownRets > 0, "C36.unknown-channel", cUnk, openAtOr(dispAt, one), "handlePacket is entered only behind getChan(id) != nil; a nil channel returns handleUnknownChannelPacket's verdict", fmt.Sprintf("dispatch not found: %d reachable calls of channel.handlePacket, %d returns for getChan(id) == nil (rule anchor lost)", dispatched, unknownRets))
	}
}

func openAtOr(in ssa.Instruction, f *ssa.Function) poser {
	if in != nil {
		return in
	}
	return f
}

// c36Shutdown: every path through mux.loop to its return calls chanList.dropAll
// and closes incomingChannels, incomingRequests and globalResponses of the
// receiver (wherever those statements live), and the dropped channels are closed.
func c36Shutdown(c *Ctx) {
	f := c.fn("ssh", "(*mux).loop")
	if f == nil {
		return
	}
	rep := &c36Report{c: c, fallback: f}
	chans := []string{"incomingChannels", "incomingRequests", "globalResponses"}
	closeField := func(x *c36X, in ssa.Instruction, fr *c36Frame, st *c36State) (string, bool) {
		cc := callCommon(in)
		if cc == nil || calleeName(cc) != "builtin:close" || len(cc.Args) != 1 {
			return "", false
		}
		if x == nil {
			if typ, fld, _, ok := fieldOf(cc.Args[0]); ok && typ == "mux" {
				return fld, true
			}
			return "", false
		}
		name, base, ok := x.fieldAddrOf(cc.Args[0], fr, st)
		if !ok || !strings.HasPrefix(name, "mux.") || base != x.resolve(f.Params[0], x.rootFr, st) {
			return "", false
		}
		return strings.TrimPrefix(name, "mux."), true
	}
	rets := 0
	x := &c36X{c: c, root: f}
	isDropAll := func(in ssa.Instruction) bool {
		cc := callCommon(in)
		return cc != nil && short(calleeName(cc)) == "(*ssh.chanList).dropAll"
	}
	x.relevant = func(in ssa.Instruction) bool {
		switch in.(type) {
		case *ssa.Call, *ssa.Defer:
		default:
			return false
		}
		if _, ok := closeField(nil, in, nil, nil); ok {
			return true
		}
		return isDropAll(in)
	}
	// executed: a call, or a deferred call at the moment it runs
	executed := func(x *c36X, in ssa.Instruction, fr *c36Frame, st *c36State) *c36State {
		if fld, ok := closeField(x, in, fr, st); ok {
			ns := st.clone()
			ns.facts["close("+fld+")"] = true
			return ns
		}
		if isDropAll(in) {
			ns := st.clone()
			ns.facts["chanList.dropAll()"] = true
			return ns
		}
		return nil
	}
	x.onInstr = func(x *c36X, in ssa.Instruction, fr *c36Frame, st *c36State) *c36State {
		if _, ok := in.(*ssa.Call); !ok {
			return nil
		}
		return executed(x, in, fr, st)
	}
	x.onDeferred = func(x *c36X, d *ssa.Defer, fr *c36Frame, st *c36State) *c36State {
		return executed(x, d, fr, st)
	}
	x.onRootReturn = func(x *c36X, r *ssa.Return, st *c36State) {
		rets++
		if !st.facts["chanList.dropAll()"] {
			rep.add("C36.shutdown", "(*mux).loop chanList.dropAll()", r, "mux.loop can return without chanList.dropAll() (channels would stay open and their readers hang)")
		}
		for _, chf := range chans {
			if !st.facts["close("+chf+")"] {
				rep.add("C36.shutdown", "(*mux).loop close("+chf+")", r, "mux.loop can return without close("+chf+") (waiters would hang)")
			}
		}
	}
	x.explore()
	if x.exceeded {
		c.undecided("C36.shutdown", "(*mux).loop", f, "exploration exceeded its step budget")
		return
	}
	loopCalls := deepCallsNamed(f, "(*ssh.mux).onePacket")
	for _, what := range append([]string{"chanList.dropAll()"}, "close("+chans[0]+")", "close("+chans[1]+")", "close("+chans[2]+")") {
		construct := "(*mux).loop " + what
		if rep.flush("C36.shutdown", construct) {
			c.check(rets > 0 && len(loopCalls) > 0, "C36.shutdown", construct, f, "on every path through mux.loop to its return (helpers expanded in place)", "mux.loop has no reachable return or no longer runs onePacket (rule anchor lost)")
		}
	}
	// each dropped channel is closed: a call of channel.close in loop (or a helper) on a value that is not the receiver
	cl := deepCallsNamed(f, "(*ssh.channel).close")
	c.check(len(cl) >= 1, "C36.shutdown", "(*mux).loop closes dropped channels", f, "every dropped channel is closed", "dropped channels are not closed at shutdown")
}
