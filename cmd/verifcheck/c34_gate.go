package main

import (
	"go/token"
	"go/types"

	"golang.org/x/tools/go/ssa"
)

// Value-sensitive, interprocedural gate analysis for C34.
//
// A *gate* is a semantic condition recognised on boolean SSA values by role
// (isGate: "this value is true exactly when the condition holds", or false
// exactly when it holds). The engine decides, independently of how the code is
// factored,
//
//   implies(v, st)   whenever value v is in state st (true/false/nil/non-nil)
//                    the gate condition has been established: v IS the gate,
//                    v is a negation / nil comparison / conversion of such a
//                    value, v is a phi whose every incoming edge either carries
//                    such a value or can only be taken behind a pass edge, or v
//                    is the result of a same-package helper all of whose returns
//                    satisfy the same (a helper "establishes the gate" for its
//                    caller: `return a && b`, `func check(...) error`, ...);
//   passOf(F)        the CFG edges of F on which the gate is established: both
//                    edges of every If whose condition implies the gate in the
//                    respective state (this covers if-chains, switches, merged
//                    `a && b` conditions and branches on helper results alike).
//
// Path rules (must-cross, cycle-must-cross, arrival-of-a-value) are then
// evaluated with passOf as the cut set.

type c34St int

const (
	c34True c34St = iota
	c34False
	c34Nil
	c34NonNil
)

func (s c34St) flip() c34St {
	switch s {
	case c34True:
		return c34False
	case c34False:
		return c34True
	case c34Nil:
		return c34NonNil
	}
	return c34Nil
}

type c34Key struct {
	v  ssa.Value
	st c34St
}

type c34Gate struct {
	c      *Ctx
	isGate func(v ssa.Value) (pol bool, ok bool)
	pass   map[*ssa.Function]edgeSet
	done   map[*ssa.Function]bool
	busy   map[*ssa.Function]bool
	stack  map[c34Key]bool
	nGates int // gate values recognised in functions analysed so far
}

func (c *Ctx) c34NewGate(isGate func(v ssa.Value) (bool, bool)) *c34Gate {
	return &c34Gate{c: c, isGate: isGate, pass: map[*ssa.Function]edgeSet{}, done: map[*ssa.Function]bool{}, busy: map[*ssa.Function]bool{}, stack: map[c34Key]bool{}}
}

// passOf: edges of F on which the gate condition is established (fixpoint,
// because a phi-carried flag is justified by pass edges found earlier).
func (g *c34Gate) passOf(F *ssa.Function) edgeSet {
	if F == nil {
		return edgeSet{}
	}
	if g.done[F] || g.busy[F] {
		return g.pass[F]
	}
	g.busy[F] = true
	g.pass[F] = edgeSet{}
	allInstrs(F, func(in ssa.Instruction) {
		if v, ok := in.(ssa.Value); ok {
			if _, is := g.isGate(v); is {
				g.nGates++
			}
		}
	})
	for changed := true; changed; {
		changed = false
		for _, b := range F.Blocks {
			if len(b.Instrs) == 0 {
				continue
			}
			iff, ok := b.Instrs[len(b.Instrs)-1].(*ssa.If)
			if !ok {
				continue
			}
			if !g.pass[F][edge{b, 0}] && g.implies(iff.Cond, c34True) {
				g.pass[F][edge{b, 0}] = true
				changed = true
			}
			if !g.pass[F][edge{b, 1}] && g.implies(iff.Cond, c34False) {
				g.pass[F][edge{b, 1}] = true
				changed = true
			}
		}
	}
	g.busy[F] = false
	g.done[F] = true
	return g.pass[F]
}

// passDeep: union of passOf over fn and its same-package helpers.
func (g *c34Gate) passDeep(fn *ssa.Function) edgeSet {
	out := edgeSet{}
	for _, h := range deepFuncs(fn) {
		for e := range g.passOf(h) {
			out[e] = true
		}
	}
	return out
}

func (g *c34Gate) blockGated(b *ssa.BasicBlock) bool {
	F := b.Parent()
	return !reach([]*ssa.BasicBlock{F.Blocks[0]}, g.passOf(F))[b]
}

// edgeGated: the CFG edge pred->succ can only be taken behind a pass edge.
func (g *c34Gate) edgeGated(pred, succ *ssa.BasicBlock) bool {
	cut := g.passOf(pred.Parent())
	open := false
	for i, s := range pred.Succs {
		if s == succ && !cut[edge{pred, i}] {
			open = true
		}
	}
	if !open {
		return true
	}
	return g.blockGated(pred)
}

func (g *c34Gate) implies(v ssa.Value, st c34St) bool {
	k := c34Key{v, st}
	if g.stack[k] {
		return true // loop-carried flag: decided by its other sources
	}
	if len(g.stack) > 64 {
		return false
	}
	g.stack[k] = true
	defer delete(g.stack, k)

	if pol, ok := g.isGate(v); ok {
		switch st {
		case c34True:
			return pol
		case c34False:
			return !pol
		}
		return false
	}
	switch x := v.(type) {
	case *ssa.Const:
		if b, ok := constBool(x); ok {
			return (st == c34True && !b) || (st == c34False && b) // cannot be in that state
		}
		if x.IsNil() {
			return st == c34NonNil
		}
		return false
	case *ssa.UnOp:
		if x.Op == token.NOT {
			return g.implies(x.X, st.flip())
		}
		return false
	case *ssa.BinOp:
		if (x.Op != token.EQL && x.Op != token.NEQ) || (st != c34True && st != c34False) {
			return false
		}
		equal := (x.Op == token.EQL) == (st == c34True) // in this state the operands are equal
		for _, pair := range [][2]ssa.Value{{x.X, x.Y}, {x.Y, x.X}} {
			cst, ok := pair[1].(*ssa.Const)
			if !ok {
				continue
			}
			if cst.IsNil() {
				if equal {
					return g.implies(pair[0], c34Nil)
				}
				return g.implies(pair[0], c34NonNil)
			}
			if b, ok := constBool(cst); ok {
				if equal == b {
					return g.implies(pair[0], c34True)
				}
				return g.implies(pair[0], c34False)
			}
		}
		return false
	case *ssa.Phi:
		for i, e := range x.Edges {
			if g.implies(e, st) {
				continue
			}
			if g.edgeGated(x.Block().Preds[i], x.Block()) {
				continue
			}
			return false
		}
		return true
	case *ssa.Extract:
		if call, ok := x.Tuple.(*ssa.Call); ok {
			return g.calleeImplies(call, x.Index, st)
		}
		return false
	case *ssa.Call:
		if x.Call.Signature().Results().Len() == 1 {
			return g.calleeImplies(x, 0, st)
		}
		return false
	case *ssa.MakeInterface, *ssa.Alloc, *ssa.MakeSlice, *ssa.MakeMap, *ssa.MakeClosure, *ssa.Function:
		return st == c34Nil // never nil
	case *ssa.ChangeInterface:
		return g.implies(x.X, st)
	case *ssa.ChangeType:
		return g.implies(x.X, st)
	case *ssa.Parameter:
		if o := g.c.origin(x); o != ssa.Value(x) {
			return g.implies(o, st)
		}
		return false
	}
	return false
}

// calleeImplies: result #idx of the call is in state st only if the gate was
// established inside the (same-package, static) callee.
func (g *c34Gate) calleeImplies(call *ssa.Call, idx int, st c34St) bool {
	H := samePkgCallee(call.Parent(), &call.Call)
	if H == nil {
		if st == c34Nil {
			switch calleeName(&call.Call) {
			case "fmt.Errorf", "errors.New":
				return true // never nil
			}
		}
		return false
	}
	if g.busy[H] {
		return false // recursion: not summarised
	}
	for _, r := range returnsOf(H) {
		if idx >= len(r.Results) {
			return false
		}
		if g.implies(retVal(r, idx), st) || g.blockGated(r.Block()) {
			continue
		}
		return false
	}
	return true
}

// ---------------------------------------------------------------------------
// provenance helpers

// c34Org: origin of a value across helper boundaries and interface conversions.
func (c *Ctx) c34Org(v ssa.Value) ssa.Value {
	for i := 0; i < 8; i++ {
		o := c.origin(v)
		if ci, ok := o.(*ssa.ChangeInterface); ok {
			v = ci.X
			continue
		}
		return o
	}
	return v
}

// c34Same: a and b denote the same value (same SSA value after origin
// resolution, or two loads of the same element).
func (c *Ctx) c34Same(a, b ssa.Value) bool {
	a, b = c.c34Org(a), c.c34Org(b)
	if a == b {
		return true
	}
	ua, ok1 := a.(*ssa.UnOp)
	ub, ok2 := b.(*ssa.UnOp)
	if ok1 && ok2 && ua.Op == token.MUL && ub.Op == token.MUL {
		if ia, ok := ua.X.(*ssa.IndexAddr); ok {
			return sameIndexAddr(ub.X, ia)
		}
	}
	return false
}

// c34Invoke: v (origin-resolved) is `recv.<method>()` through an interface;
// returns the receiver.
func (c *Ctx) c34Invoke(v ssa.Value, method string) (ssa.Value, bool) {
	call, ok := c.c34Org(v).(*ssa.Call)
	if !ok || !call.Call.IsInvoke() || call.Call.Method.Name() != method {
		return nil, false
	}
	return call.Call.Value, true
}

// c34StaticCall: v (origin-resolved) is a call of the named function.
func (c *Ctx) c34StaticCall(v ssa.Value, name string) (*ssa.Call, bool) {
	call, ok := c.c34Org(v).(*ssa.Call)
	if !ok || short(calleeName(&call.Call)) != name {
		return nil, false
	}
	return call, true
}

// c34FieldOf: struct type and field name a value is loaded from (origin-resolved).
func (c *Ctx) c34FieldOf(v ssa.Value) (typ, field string, ok bool) {
	typ, field, _, ok = fieldOf(c.c34Org(v))
	return
}

// c34ElemOf: v is a load of an element of a slice/array; returns the indexed value.
func (c *Ctx) c34ElemOf(v ssa.Value) (ssa.Value, bool) {
	u, ok := c.c34Org(v).(*ssa.UnOp)
	if !ok || u.Op != token.MUL {
		return nil, false
	}
	ia, ok := u.X.(*ssa.IndexAddr)
	if !ok {
		return nil, false
	}
	return ia.X, true
}

// c34Family: the values a list is built from / merged with: through phis, the
// first argument of append, reslicing, slices.Clone, helper parameters
// (origin) and helper results.
func (c *Ctx) c34Family(v ssa.Value) map[ssa.Value]bool {
	fam := map[ssa.Value]bool{}
	var walk func(v ssa.Value, d int)
	walk = func(v ssa.Value, d int) {
		v = c.c34Org(v)
		if v == nil || fam[v] || d > 24 {
			return
		}
		if _, isC := v.(*ssa.Const); isC {
			return
		}
		fam[v] = true
		switch x := v.(type) {
		case *ssa.Phi:
			for _, e := range x.Edges {
				walk(e, d+1)
			}
		case *ssa.Slice:
			walk(x.X, d+1)
		case *ssa.Call:
			switch short(calleeName(&x.Call)) {
			case "builtin:append", "slices.Clone":
				walk(x.Call.Args[0], d+1)
			default:
				if H := samePkgCallee(x.Parent(), &x.Call); H != nil && x.Call.Signature().Results().Len() == 1 {
					for _, r := range returnsOf(H) {
						walk(retVal(r, 0), d+1)
					}
				}
			}
		case *ssa.Extract:
			if call, ok := x.Tuple.(*ssa.Call); ok {
				if H := samePkgCallee(call.Parent(), &call.Call); H != nil {
					for _, r := range returnsOf(H) {
						if x.Index < len(r.Results) {
							walk(retVal(r, x.Index), d+1)
						}
					}
				}
			}
		}
	}
	walk(v, 0)
	return fam
}

// c34Found: v compares the result of slices.Index(list, x) with a constant so
// that v is true exactly when x was found (pol) or exactly when it was not
// (!pol): `>= 0`, `!= -1`, `> -1`, `< 0`, `== -1`, either operand order.
func c34Found(v ssa.Value) (call *ssa.Call, pol bool, ok bool) {
	bo, isB := v.(*ssa.BinOp)
	if !isB {
		return nil, false, false
	}
	var k int64
	var left bool
	if c0, isC := bo.X.(*ssa.Call); isC && calleeName(&c0.Call) == "slices.Index" {
		n, isK := constInt(bo.Y)
		if !isK {
			return nil, false, false
		}
		call, k, left = c0, n, true
	} else if c1, isC := bo.Y.(*ssa.Call); isC && calleeName(&c1.Call) == "slices.Index" {
		n, isK := constInt(bo.X)
		if !isK {
			return nil, false, false
		}
		call, k, left = c1, n, false
	} else {
		return nil, false, false
	}
	found, notFound := true, true
	for _, d := range []int64{-1, 0, 1, 7} {
		var res, valid bool
		if left {
			res, valid = evalCmp(bo.Op, d, k)
		} else {
			res, valid = evalCmp(bo.Op, k, d)
		}
		if !valid {
			return nil, false, false
		}
		if res != (d >= 0) {
			found = false
		}
		if res != (d < 0) {
			notFound = false
		}
	}
	if found {
		return call, true, true
	}
	if notFound {
		return call, false, true
	}
	return nil, false, false
}

// c34Member recognises a membership test "elem is in list" in its equivalent
// forms: slices.Contains(list, elem); slices.Index(list, elem) compared with
// 0 / -1; and the comparison `list[i] == elem` of a hand-written search loop.
// v == pol means elem is in list; exact tells whether v != pol means it is not
// (false for the loop comparison, which speaks about one element only).
func (c *Ctx) c34Member(v ssa.Value) (list, elem ssa.Value, pol, exact, ok bool) {
	switch x := v.(type) {
	case *ssa.Call:
		if calleeName(&x.Call) == "slices.Contains" && len(x.Call.Args) == 2 {
			return x.Call.Args[0], x.Call.Args[1], true, true, true
		}
	case *ssa.BinOp:
		if call, p, isF := c34Found(x); isF && len(call.Call.Args) == 2 {
			return call.Call.Args[0], call.Call.Args[1], p, true, true
		}
		if x.Op == token.EQL {
			for _, p := range [][2]ssa.Value{{x.X, x.Y}, {x.Y, x.X}} {
				if l, isE := c.c34ElemOf(p[0]); isE {
					if _, isE2 := c.c34ElemOf(p[1]); !isE2 {
						return l, p[1], true, false, true
					}
				}
			}
		}
	}
	return nil, nil, false, false, false
}

func c34HasAppend(fam map[ssa.Value]bool) bool {
	for v := range fam {
		if call, ok := v.(*ssa.Call); ok && calleeName(&call.Call) == "builtin:append" {
			return true
		}
	}
	return false
}

// c34AppendElems: the values appended by `append(s, e1, e2...)` (the stores
// into the varargs array), nil for `append(s, t...)`.
func c34AppendElems(call *ssa.Call) []ssa.Value {
	if len(call.Call.Args) < 2 {
		return nil
	}
	al, ok := sliceBase(call.Call.Args[1]).(*ssa.Alloc)
	if !ok || al.Referrers() == nil {
		return nil
	}
	var out []ssa.Value
	for _, r := range *al.Referrers() {
		ia, ok := r.(*ssa.IndexAddr)
		if !ok || ia.Referrers() == nil {
			continue
		}
		for _, rr := range *ia.Referrers() {
			if st, ok := rr.(*ssa.Store); ok && st.Addr == ssa.Value(ia) {
				out = append(out, st.Val)
			}
		}
	}
	return out
}

// ---------------------------------------------------------------------------
// where a value comes from, and over which edge / return it arrives

type c34Leaf struct {
	val  ssa.Value       // origin-resolved source value
	fn   *ssa.Function   // function in which it arrives
	pred *ssa.BasicBlock // arrival over the phi edge pred->blk ...
	blk  *ssa.BasicBlock //
	ret  *ssa.Return     // ... or through this return of a helper
	def  *ssa.BasicBlock // block of val's definition when it lies in fn (else nil: paths start at fn's entry)
}

// c34Leaves expands v through phis, interface conversions,
// helper parameters and the results of same-package helpers; a value for
// which stop holds is a leaf.
func (c *Ctx) c34Leaves(v ssa.Value, stop func(ssa.Value) bool) []c34Leaf {
	var out []c34Leaf
	seen := map[ssa.Value]bool{}
	var walk func(v ssa.Value, at c34Leaf, d int)
	walk = func(v ssa.Value, at c34Leaf, d int) {
		if d > 24 {
			return
		}
		if stop != nil && stop(v) {
			at.val = v
			out = append(out, at)
			return
		}
		switch x := v.(type) {
		case *ssa.Phi:
			if seen[x] {
				return
			}
			seen[x] = true
			for i, e := range x.Edges {
				walk(e, c34Leaf{fn: x.Parent(), pred: x.Block().Preds[i], blk: x.Block()}, d+1)
			}
			return
		case *ssa.ChangeInterface:
			walk(x.X, at, d+1)
			return
		case *ssa.ChangeType:
			walk(x.X, at, d+1)
			return
		case *ssa.Parameter:
			if o := c.origin(x); o != ssa.Value(x) {
				walk(o, at, d+1)
				return
			}
		case *ssa.Call:
			if H := samePkgCallee(x.Parent(), &x.Call); H != nil && x.Call.Signature().Results().Len() == 1 {
				if seen[x] {
					return
				}
				seen[x] = true
				for _, r := range returnsOf(H) {
					walk(retVal(r, 0), c34Leaf{fn: H, ret: r}, d+1)
				}
				return
			}
		case *ssa.Extract:
			if call, ok := x.Tuple.(*ssa.Call); ok {
				if H := samePkgCallee(call.Parent(), &call.Call); H != nil {
					if seen[x] {
						return
					}
					seen[x] = true
					for _, r := range returnsOf(H) {
						if x.Index < len(r.Results) {
							walk(retVal(r, x.Index), c34Leaf{fn: H, ret: r}, d+1)
						}
					}
					return
				}
			}
		}
		at.val = v
		if in, ok := v.(ssa.Instruction); ok && at.fn != nil && in.Parent() == at.fn {
			at.def = in.Block()
		}
		out = append(out, at)
	}
	walk(v, c34Leaf{}, 0)
	return out
}

// c34Arrives: can the leaf arrive (over its phi edge / through its return)
// on a path that starts at `start` (nil: the leaf's definition, else the entry
// of the function it arrives in) and crosses no edge of cut?
func c34Arrives(l c34Leaf, start *ssa.BasicBlock, cut edgeSet) bool {
	if l.fn == nil {
		return true
	}
	if start == nil || start.Parent() != l.fn {
		start = l.def
	}
	if start == nil {
		start = l.fn.Blocks[0]
	}
	r := reach([]*ssa.BasicBlock{start}, cut)
	if l.ret != nil {
		return r[l.ret.Block()]
	}
	if !r[l.pred] {
		return false
	}
	for i, s := range l.pred.Succs {
		if s == l.blk && !cut[edge{l.pred, i}] {
			return true
		}
	}
	return false
}

func c34NamedElem(t types.Type) string {
	if p, ok := t.Underlying().(*types.Pointer); ok {
		t = p.Elem()
	}
	if n, ok := t.(*types.Named); ok {
		return n.Obj().Name()
	}
	return ""
}
