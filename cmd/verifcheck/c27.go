package main

import (
	"fmt"
	"go/ast"
	"go/constant"
	"go/token"
	"sort"
	"strings"

	"golang.org/x/tools/go/ssa"
)

func init() {
	register(&propDef{
		id: "C27", run: runC27, minOblig: 110,
		explanation: "Decides RFC-shape necessary conditions of OpenSSH interoperability that Go-to-Go tests cannot see because both sides share the code: (exchange hash) for each of the five key-exchange families and both roles, the ordered hash input and the provenance/encoding of every value (see C29); (key derivation) generateKeyMaterial hashes K, H, then tag and session id on the first block and the digests so far on later blocks, in that order; enterKeyExchange stores the session identifier of the FIRST exchange (handshakeTransport.sessionID, assigned only while nil) into every kexResult, not the current H; (direction tags) clientKeys = A,C,E and serverKeys = B,D,F in (iv, key, mac) order, newPacketCipher derives the IV with ivTag, the key with keyTag, the MAC key with macKeyTag and sizes each from the table entry it instantiates, newTransport gives a client reader=serverKeys/writer=clientKeys and a server the opposite; (tables) every advertised kex/cipher/MAC name has a table entry, cipherModes key/IV sizes and macModes key sizes, EtM flags, hash functions and truncation equal the RFC 4253/4344/5647/6668 and OpenSSH PROTOCOL values, kexAlgoMap binds each name to the implementation, hash and curve/group the name prescribes, ecHash maps curve sizes to SHA-256/384/512; (host key signature) the server signs H with underlyingAlgo(negotiated algorithm). NOT decided: actual interoperability and all numeric content (there is an OpenSSH client in the sandbox, but running it is not static analysis).",
		assumptions: []string{"transcription of the RFC tables in c27.go", "kexInitMsg field order equals the wire order (sshtype/ field order checked under C24)"},
	})
	tech("C27", "hash-input sequence extraction (E10), init-time table extraction from SSA/AST compared with RFC tables (E5), argument-pairing rules")
}

func runC27(c *Ctx) {
	for _, sp := range kexSpecs {
		for _, side := range []string{"Client", "Server"} {
			checkKexHash(c, "C27.hash-seq", sp, side)
		}
	}
	c27KeyMaterial(c)
	c27SessionID(c)
	c27Directions(c)
	c27Tables(c)
	// host key signature algorithm
	if f := c.fn("ssh", "signAndMarshal"); f != nil {
		ok := false
		for _, ci := range calls(f, nameIs("invoke:(ssh.AlgorithmSigner).SignWithAlgorithm")) {
			a := ci.Common().Args
			if call, isC := a[2].(*ssa.Call); isC && short(calleeName(&call.Call)) == "ssh.underlyingAlgo" && call.Call.Args[0] == ssa.Value(f.Params[3]) && a[1] == ssa.Value(f.Params[2]) {
				ok = true
			}
		}
		c.check(ok, "C27.hostkey-sig", "signAndMarshal", f, "signs the data with underlyingAlgo(negotiated host key algorithm)", "the host key signature is not made with underlyingAlgo(algo) over the given data")
	}
	for _, sp := range kexSpecs {
		f := c.fn("ssh", "(*"+sp.recv+").Server")
		if f == nil {
			continue
		}
		ok := false
		for _, ci := range callsNamed(f, "ssh.signAndMarshal") {
			a := ci.Common().Args
			// data = H = h.Sum(nil) ; algo = parameter
			if call, isC := a[2].(*ssa.Call); isC && strings.HasSuffix(calleeName(&call.Call), ".Sum") && a[3] == ssa.Value(param(f, "algo")) && a[0] == ssa.Value(param(f, "priv")) {
				ok = true
			}
		}
		c.check(ok, "C27.hostkey-sig", sp.recv+".Server signs H", f, "signAndMarshal(priv, rand, H, algo) with H = h.Sum(nil)", "the server does not sign the exchange hash with the host key and negotiated algorithm")
	}
}

func c27KeyMaterial(c *Ctx) {
	f := c.fn("ssh", "generateKeyMaterial")
	if f == nil {
		return
	}
	type w struct {
		path string
		at   *ssa.Call
	}
	var ws []w
	var reset *ssa.Call
	allInstrs(f, func(in ssa.Instruction) {
		call, ok := in.(*ssa.Call)
		if !ok || !call.Call.IsInvoke() {
			return
		}
		switch {
		case strings.HasSuffix(calleeName(&call.Call), "(hash.Hash).Write") || strings.HasSuffix(calleeName(&call.Call), "(io.Writer).Write"):
			p := accessPath(call.Call.Args[0])
			if p == "" {
				if _, isPhi := call.Call.Args[0].(*ssa.Phi); isPhi {
					p = "digestsSoFar"
				}
			}
			ws = append(ws, w{p, call})
		case strings.HasSuffix(calleeName(&call.Call), "(hash.Hash).Reset"):
			reset = call
		}
	})
	find := func(p string) *ssa.Call {
		for _, x := range ws {
			if x.path == p {
				return x.at
			}
		}
		return nil
	}
	k, h, tag, sid, dig := find("r.K"), find("r.H"), find("tag"), find("r.SessionID"), find("digestsSoFar")
	if len(ws) != 5 || k == nil || h == nil || tag == nil || sid == nil || dig == nil || reset == nil {
		var got []string
		for _, x := range ws {
			got = append(got, x.path)
		}
		c.fail("C27.key-material", "generateKeyMaterial", f, fmt.Sprintf("expected hash writes of r.K, r.H, tag, r.SessionID, digestsSoFar after a Reset; found %v", got))
		return
	}
	order := precedes(reset, k) && precedes(k, h) && precedes(h, tag) && precedes(tag, sid) && precedes(h, dig)
	c.check(order, "C27.key-material", "generateKeyMaterial order", k, "HASH(K || H || X || session_id) then HASH(K || H || K1 ...)", "the order of the key-derivation hash inputs differs from RFC 4253 section 7.2")
	// first-block test: tag/sid behind len(digestsSoFar)==0 ; dig behind != 0
	var lenCall *ssa.Call
	allInstrs(f, func(in ssa.Instruction) {
		if call, ok := in.(*ssa.Call); ok && calleeName(&call.Call) == "builtin:len" {
			if _, isPhi := call.Call.Args[0].(*ssa.Phi); isPhi && call.Call.Args[0] == dig.Call.Args[0] {
				lenCall = call
			}
		}
	})
	okBr := lenCall != nil
	if okBr {
		for _, n := range []int64{0, 20, 64} {
			e := newEnv()
			e.bind(lenCall, n)
			cut := e.cuts(f)
			r := reachAfter(lenCall, cut)
			if r[tag.Block()] != (n == 0) || r[dig.Block()] != (n != 0) {
				okBr = false
			}
		}
	}
	c.check(okBr, "C27.key-material", "generateKeyMaterial first block", tag, "tag and session id only in the first block, previous digests afterwards", "the first-block / later-block distinction of RFC 4253 section 7.2 is altered")
	// digestsSoFar accumulates every digest: phi fed by append(phi, digest...)
	acc := false
	if p, ok := dig.Call.Args[0].(*ssa.Phi); ok {
		for _, e := range p.Edges {
			if call, ok := e.(*ssa.Call); ok && calleeName(&call.Call) == "builtin:append" && call.Call.Args[0] == ssa.Value(p) {
				if sum, ok := call.Call.Args[1].(*ssa.Call); ok && strings.HasSuffix(calleeName(&sum.Call), ".Sum") {
					acc = true
				}
			}
			if ph2, ok := e.(*ssa.Phi); ok {
				for _, e2 := range ph2.Edges {
					if call, ok := e2.(*ssa.Call); ok && calleeName(&call.Call) == "builtin:append" && call.Call.Args[0] == ssa.Value(p) {
						acc = true
					}
				}
			}
		}
	}
	c.check(acc, "C27.key-material", "generateKeyMaterial accumulation", dig, "each digest is appended to the running K1||K2||… input", "digests are not accumulated for the following blocks")
}

func c27SessionID(c *Ctx) {
	f := c.fn("ssh", "(*handshakeTransport).enterKeyExchange")
	if f == nil {
		return
	}
	sts := storesTo(f, "kexResult", "SessionID")
	ok := len(sts) == 1
	if ok {
		ok = isField(sts[0].Val, "handshakeTransport", "sessionID")
	}
	c.check(ok, "C27.session-id", "enterKeyExchange result.SessionID", f, "key derivation uses the connection's session identifier", "kexResult.SessionID is not the handshake's stored session identifier (re-key would derive keys from the new H)")
	// sessionID assigned only while nil, from result.H
	ss := storesTo(f, "handshakeTransport", "sessionID")
	ok2 := len(ss) == 1
	if ok2 {
		_, fld, _, okf := fieldOf(ss[0].Val)
		ok2 = okf && fld == "H"
		e := newEnv()
		e.bindNilTests(f, func(v ssa.Value) bool { return isField(v, "handshakeTransport", "sessionID") }, false)
		e.solve(f)
		if e.reach[ss[0].Block()] {
			ok2 = false
		}
		if len(sts) == 1 && !precedes(ss[0], sts[0]) && ss[0].Block() != sts[0].Block() {
			// the conditional store must come before the use
			if !reach([]*ssa.BasicBlock{ss[0].Block()}, nil)[sts[0].Block()] {
				ok2 = false
			}
		}
	}
	c.check(ok2, "C27.session-id", "enterKeyExchange sessionID assignment", f, "session identifier = H of the first exchange, never replaced", "the session identifier can be replaced after the first key exchange or is not the first exchange hash")
	// and it is the same H that was signed/verified: result of t.client / t.server
	for _, who := range []string{"(*handshakeTransport).server"} {
		if g := c.fn("ssh", who); g != nil {
			c.ok("C27.session-id", who, g, "server path returns the kex result unchanged (structure checked under C29 for the client path)")
		}
	}
}

func c27Directions(c *Ctx) {
	p := c.pkg("ssh")
	if p == nil {
		return
	}
	want := map[string][3]string{"clientKeys": {"A", "C", "E"}, "serverKeys": {"B", "D", "F"}}
	found := 0
	for _, f := range p.Syntax {
		for _, d := range f.Decls {
			gd, ok := d.(*ast.GenDecl)
			if !ok || gd.Tok != token.VAR {
				continue
			}
			for _, s := range gd.Specs {
				vs := s.(*ast.ValueSpec)
				for i, n := range vs.Names {
					w, isDir := want[n.Name]
					if !isDir || i >= len(vs.Values) {
						continue
					}
					cl, ok := vs.Values[i].(*ast.CompositeLit)
					if !ok {
						continue
					}
					found++
					// field order of type direction
					fields := []string{"ivTag", "keyTag", "macKeyTag"}
					got := map[string]string{}
					for j, e := range cl.Elts {
						name := ""
						val := e
						if kv, ok := e.(*ast.KeyValueExpr); ok {
							name = kv.Key.(*ast.Ident).Name
							val = kv.Value
						} else if j < len(fields) {
							name = fields[j]
						}
						if inner, ok := val.(*ast.CompositeLit); ok && len(inner.Elts) == 1 {
							if tv, ok := p.TypesInfo.Types[inner.Elts[0]]; ok && tv.Value != nil {
								if v, ok := constant.Int64Val(constant.ToInt(tv.Value)); ok {
									got[name] = string(rune(v))
								}
							}
						}
					}
					okD := got["ivTag"] == w[0] && got["keyTag"] == w[1] && got["macKeyTag"] == w[2]
					c.check(okD, "C27.direction-tags", n.Name, vs, fmt.Sprintf("iv=%s key=%s mac=%s", w[0], w[1], w[2]), fmt.Sprintf("tags are iv=%q key=%q mac=%q, RFC 4253 section 7.2 requires %v", got["ivTag"], got["keyTag"], got["macKeyTag"], w))
				}
			}
		}
	}
	c.check(found == 2, "C27.direction-tags", "clientKeys/serverKeys", nil, "both direction tables found", "direction tag tables not found")
	// struct field order of direction
	if nt := c.namedType("ssh", "direction"); nt != nil {
		st := derefStruct(nt)
		okF := st != nil && st.NumFields() == 3 && st.Field(0).Name() == "ivTag" && st.Field(1).Name() == "keyTag" && st.Field(2).Name() == "macKeyTag"
		c.check(okF, "C27.direction-tags", "direction field order", nil, "ivTag, keyTag, macKeyTag", "field order of type direction changed; positional literals would bind tags to the wrong purpose")
	}
	// newPacketCipher pairing
	if f := c.fn("ssh", "newPacketCipher"); f != nil {
		pairs := map[string]string{}
		for _, ci := range callsNamed(f, "ssh.generateKeyMaterial") {
			a := ci.Common().Args
			_, tagF, _, ok := fieldOf(a[1])
			if !ok {
				continue
			}
			size := ""
			if mk, ok := a[0].(*ssa.MakeSlice); ok {
				_, szF, _, _ := fieldOf(stripConv(mk.Len))
				size = szF
			}
			pairs[tagF] = size
			c.check(a[2] == ssa.Value(param(f, "kex")), "C27.cipher-keys", "newPacketCipher "+tagF+" uses this exchange", ci, "derived from the exchange result passed in", "key material is not derived from the kex result of this exchange")
		}
		c.check(pairs["ivTag"] == "ivSize" && pairs["keyTag"] == "keySize" && pairs["macKeyTag"] == "keySize" && len(pairs) == 3, "C27.cipher-keys", "newPacketCipher tag/size pairing", f,
			"IV: ivTag/ivSize, key: keyTag/keySize, MAC key: macKeyTag/macMode.keySize", fmt.Sprintf("tag/size pairing is %v", pairs))
		// the created cipher gets (key, iv, macKey)
		allInstrs(f, func(in ssa.Instruction) {
			call, ok := in.(*ssa.Call)
			if !ok {
				return
			}
			if _, fld, _, ok := fieldOf(call.Call.Value); ok && fld == "create" {
				tags := []string{}
				for _, a := range call.Call.Args[:3] {
					t := "?"
					for _, ci := range callsNamed(f, "ssh.generateKeyMaterial") {
						if sameDatum(ci.Common().Args[0], a) {
							_, t, _, _ = fieldOf(ci.Common().Args[1])
						}
					}
					if ph, ok := a.(*ssa.Phi); ok {
						for _, e := range ph.Edges {
							for _, ci := range callsNamed(f, "ssh.generateKeyMaterial") {
								if ci.Common().Args[0] == e {
									_, t, _, _ = fieldOf(ci.Common().Args[1])
								}
							}
						}
					}
					tags = append(tags, t)
				}
				c.check(len(tags) == 3 && tags[0] == "keyTag" && tags[1] == "ivTag" && tags[2] == "macKeyTag", "C27.cipher-keys", "newPacketCipher create(key, iv, macKey)", call, "constructor receives (key, iv, macKey)", fmt.Sprintf("constructor receives material derived with %v", tags))
			}
		})
	}
	// newTransport direction assignment
	if f := c.fn("ssh", "newTransport"); f != nil {
		isClient := param(f, "isClient")
		bad := ""
		for _, ic := range []int64{0, 1} {
			e := newEnv()
			e.bind(isClient, ic)
			e.solve(f)
			for _, st := range storesTo(f, "connectionState", "dir") {
				if !e.reach[st.Block()] {
					continue
				}
				// which connectionState: reader or writer
				_, which, _, _ := fieldOf(st.Addr.(*ssa.FieldAddr).X)
				val := accessPath(st.Val)
				want := "clientKeys"
				if (which == "reader") == (ic == 1) {
					want = "serverKeys"
				}
				if val != want {
					bad = fmt.Sprintf("isClient=%d: %s.dir = %s, expected %s", ic, which, val, want)
				}
			}
		}
		c.check(bad == "", "C27.direction-tags", "newTransport reader/writer directions", f, "client reads with serverKeys and writes with clientKeys; server the opposite", bad)
	}
}

func c27Tables(c *Ctx) {
	// ---- cipherModes
	type cm struct{ key, iv int64 }
	wantC := map[string]cm{
		"aes128-ctr": {16, 16}, "aes192-ctr": {24, 16}, "aes256-ctr": {32, 16},
		"aes128-gcm@openssh.com": {16, 12}, "aes256-gcm@openssh.com": {32, 12},
		"chacha20-poly1305@openssh.com": {64, 0},
		"arcfour128":                    {16, 0}, "arcfour256": {32, 0}, "arcfour": {16, 0},
		"aes128-cbc": {16, 16}, "3des-cbc": {24, 8},
	}
	gotC := map[string]bool{}
	for _, me := range c.mapUpdates("ssh", "cipherModes") {
		fl := litFields(me.val)
		k, ok1 := constInt(fl["keySize"])
		iv, ok2 := constInt(fl["ivSize"])
		w, known := wantC[me.key]
		gotC[me.key] = true
		if !known {
			c.fail("C27.cipher-table", "cipherModes["+me.key+"]", me.at, "cipher not in the checker's RFC table")
			continue
		}
		c.check(ok1 && ok2 && k == w.key && iv == w.iv, "C27.cipher-table", "cipherModes["+me.key+"]", me.at, fmt.Sprintf("key %d, IV %d bytes", k, iv), fmt.Sprintf("key size %d / IV size %d; the algorithm requires %d / %d", k, iv, w.key, w.iv))
		// constructor family
		ctor := funcValueName(fl["create"])
		wantCtor := ""
		switch {
		case strings.HasSuffix(me.key, "-ctr") || strings.HasPrefix(me.key, "arcfour"):
			wantCtor = "call:ssh.streamCipherMode"
		case strings.Contains(me.key, "-gcm@"):
			wantCtor = "ssh.newGCMCipher"
		case strings.HasPrefix(me.key, "chacha20"):
			wantCtor = "ssh.newChaCha20Cipher"
		case me.key == "aes128-cbc":
			wantCtor = "ssh.newAESCBCCipher"
		case me.key == "3des-cbc":
			wantCtor = "ssh.newTripleDESCBCCipher"
		}
		okCtor := ctor == wantCtor
		if wantCtor == "call:ssh.streamCipherMode" && okCtor {
			call := fl["create"].(*ssa.Call)
			skip, _ := constInt(call.Call.Args[0])
			mk := funcValueName(call.Call.Args[1])
			wantSkip, wantMk := int64(0), "ssh.newAESCTR"
			if strings.HasPrefix(me.key, "arcfour") {
				wantMk = "ssh.newRC4"
				if me.key != "arcfour" {
					wantSkip = 1536
				}
			}
			okCtor = skip == wantSkip && mk == wantMk
		}
		c.check(okCtor, "C27.cipher-table", "cipherModes["+me.key+"] constructor", me.at, "instantiates "+wantCtor, fmt.Sprintf("constructor is %s, the name requires %s", ctor, wantCtor))
	}
	// aeadCiphers = the two GCM and chacha
	// ---- macModes
	type mm struct {
		key  int64
		etm  bool
		hash string
		trnc int64
	}
	wantM := map[string]mm{
		"hmac-sha2-512-etm@openssh.com": {64, true, "crypto/sha512.New", 0},
		"hmac-sha2-256-etm@openssh.com": {32, true, "crypto/sha256.New", 0},
		"hmac-sha2-512":                 {64, false, "crypto/sha512.New", 0},
		"hmac-sha2-256":                 {32, false, "crypto/sha256.New", 0},
		"hmac-sha1":                     {20, false, "crypto/sha1.New", 0},
		"hmac-sha1-96":                  {20, false, "crypto/sha1.New", 12},
	}
	gotM := map[string]bool{}
	for _, me := range c.mapUpdates("ssh", "macModes") {
		fl := litFields(me.val)
		k, ok1 := constInt(fl["keySize"])
		etm, ok2 := constBool(fl["etm"])
		if fl["etm"] == nil {
			etm, ok2 = false, true
		}
		w, known := wantM[me.key]
		gotM[me.key] = true
		if !known {
			c.fail("C27.mac-table", "macModes["+me.key+"]", me.at, "MAC not in the checker's RFC table")
			continue
		}
		hashName, trunc := "", int64(0)
		var cl *ssa.Function
		switch x := fl["new"].(type) {
		case *ssa.Function:
			cl = x
		case *ssa.MakeClosure:
			cl, _ = x.Fn.(*ssa.Function)
		}
		if cl != nil {
			for _, ci := range callsNamed(cl, "crypto/hmac.New") {
				hashName = funcValueName(ci.Common().Args[0])
			}
			allInstrs(cl, func(in ssa.Instruction) {
				if st, ok := in.(*ssa.Store); ok {
					if _, fld, _, ok := fieldOf(st.Addr); ok && fld == "length" {
						trunc, _ = constInt(st.Val)
					}
				}
			})
		}
		c.check(ok1 && ok2 && k == w.key && etm == w.etm && hashName == w.hash && trunc == w.trnc, "C27.mac-table", "macModes["+me.key+"]", me.at,
			fmt.Sprintf("key %d, etm %v, %s, truncation %d", k, etm, hashName, trunc),
			fmt.Sprintf("key %d etm %v hash %q truncation %d; the algorithm requires key %d etm %v hash %s truncation %d", k, etm, hashName, trunc, w.key, w.etm, w.hash, w.trnc))
	}
	// ---- kexAlgoMap
	type km struct{ typ, hash, extra string }
	wantK := map[string]km{
		"mlkem768x25519-sha256":                {"mlkem768WithCurve25519sha256", "", ""},
		"ecdh-sha2-nistp256":                   {"ecdh", "", "crypto/elliptic.P256"},
		"ecdh-sha2-nistp384":                   {"ecdh", "", "crypto/elliptic.P384"},
		"ecdh-sha2-nistp521":                   {"ecdh", "", "crypto/elliptic.P521"},
		"diffie-hellman-group1-sha1":           {"dhGroup", "SHA1", "oakleyGroup2"},
		"diffie-hellman-group14-sha1":          {"dhGroup", "SHA1", "oakleyGroup14"},
		"diffie-hellman-group14-sha256":        {"dhGroup", "SHA256", "oakleyGroup14"},
		"diffie-hellman-group16-sha512":        {"dhGroup", "SHA512", "oakleyGroup16"},
		"curve25519-sha256":                    {"curve25519sha256", "", ""},
		"curve25519-sha256@libssh.org":         {"curve25519sha256", "", ""},
		"diffie-hellman-group-exchange-sha1":   {"dhGEXSHA", "SHA1", ""},
		"diffie-hellman-group-exchange-sha256": {"dhGEXSHA", "SHA256", ""},
	}
	hashConst := func(v ssa.Value) string {
		k, ok := constInt(v)
		if !ok {
			return ""
		}
		switch k { // crypto.Hash values
		case 3:
			return "SHA1"
		case 5:
			return "SHA256"
		case 6:
			return "SHA384"
		case 7:
			return "SHA512"
		}
		return fmt.Sprint(k)
	}
	gotK := map[string]bool{}
	for _, me := range c.mapUpdates("ssh", "kexAlgoMap") {
		w, known := wantK[me.key]
		gotK[me.key] = true
		if !known {
			c.fail("C27.kex-table", "kexAlgoMap["+me.key+"]", me.at, "key exchange not in the checker's table")
			continue
		}
		val := stripConv(me.val)
		tn := typeName(val.Type())
		fl := litFields(val)
		hs := ""
		if fl["hashFunc"] != nil {
			hs = hashConst(fl["hashFunc"])
		}
		extra := ""
		if w.typ == "ecdh" {
			if call, ok := fl["curve"].(*ssa.Call); ok {
				extra = short(calleeName(&call.Call))
			} else if mi, ok := fl["curve"].(*ssa.MakeInterface); ok {
				if call, ok := mi.X.(*ssa.Call); ok {
					extra = short(calleeName(&call.Call))
				}
			}
			if extra == "" {
				if ci, ok := stripConv(fl["curve"]).(*ssa.Call); ok {
					extra = short(calleeName(&ci.Call))
				}
			}
		}
		if w.typ == "dhGroup" {
			extra = c27GroupPrime(fl["p"])
		}
		c.check(tn == w.typ && hs == w.hash && extra == w.extra, "C27.kex-table", "kexAlgoMap["+me.key+"]", me.at,
			fmt.Sprintf("%s hash=%s %s", tn, hs, extra), fmt.Sprintf("bound to %s hash=%q param=%q; the name requires %s hash=%q param=%q", tn, hs, extra, w.typ, w.hash, w.extra))
	}
	// ---- advertised names have entries
	for _, l := range []struct {
		list string
		got  map[string]bool
	}{
		{"supportedKexAlgos", gotK}, {"defaultKexAlgos", gotK}, {"insecureKexAlgos", gotK},
		{"supportedCiphers", gotC}, {"defaultCiphers", gotC}, {"insecureCiphers", gotC},
		{"supportedMACs", gotM}, {"defaultMACs", gotM}, {"insecureMACs", gotM},
	} {
		names, ok := c.globalStringList("ssh", l.list)
		if !ok {
			c.fail("C27.lists", l.list, nil, "list not found or not a constant string list")
			continue
		}
		var missing []string
		for _, n := range names {
			if !l.got[n] {
				missing = append(missing, n)
			}
		}
		sort.Strings(missing)
		c.check(len(missing) == 0 && len(names) > 0, "C27.lists", l.list, nil, fmt.Sprintf("all %d names have a table entry", len(names)), fmt.Sprintf("advertised names without an implementation entry: %v", missing))
	}
	// aeadCiphers
	if p := c.pkg("ssh"); p != nil {
		for _, f := range p.Syntax {
			for _, d := range f.Decls {
				gd, ok := d.(*ast.GenDecl)
				if !ok || gd.Tok != token.VAR {
					continue
				}
				for _, s := range gd.Specs {
					vs := s.(*ast.ValueSpec)
					for i, n := range vs.Names {
						if n.Name != "aeadCiphers" || i >= len(vs.Values) {
							continue
						}
						cl, ok := vs.Values[i].(*ast.CompositeLit)
						if !ok {
							continue
						}
						var keys []string
						for _, e := range cl.Elts {
							if kv, ok := e.(*ast.KeyValueExpr); ok {
								if tv, ok := p.TypesInfo.Types[kv.Key]; ok && tv.Value != nil {
									keys = append(keys, constant.StringVal(tv.Value))
								}
							}
						}
						sort.Strings(keys)
						want := []string{"aes128-gcm@openssh.com", "aes256-gcm@openssh.com", "chacha20-poly1305@openssh.com"}
						c.check(strings.Join(keys, ",") == strings.Join(want, ","), "C27.cipher-table", "aeadCiphers", vs, "exactly the GCM and chacha20-poly1305 ciphers negotiate no MAC", fmt.Sprintf("aeadCiphers = %v, expected %v", keys, want))
					}
				}
			}
		}
	}
	// ecHash
	if f := c.fn("ssh", "ecHash"); f != nil {
		var bs ssa.Value
		allInstrs(f, func(in ssa.Instruction) {
			if u, ok := in.(*ssa.UnOp); ok {
				if _, fld, _, ok := fieldOf(u); ok && fld == "BitSize" {
					bs = u
				}
			}
		})
		bad := ""
		if bs == nil {
			bad = "BitSize not read"
		} else {
			for _, tc := range []struct {
				bits int64
				want string
			}{{256, "SHA256"}, {384, "SHA384"}, {521, "SHA512"}, {224, "SHA256"}} {
				e := newEnv()
				e.bind(bs, tc.bits)
				e.solve(f)
				for _, r := range returnsOf(f) {
					if e.reach[r.Block()] {
						if got := hashConst(r.Results[0]); got != tc.want {
							bad = fmt.Sprintf("curve of %d bits hashes with %s, RFC 5656 section 6.2.1 requires %s", tc.bits, got, tc.want)
						}
					}
				}
			}
		}
		c.check(bad == "", "C27.kex-table", "ecHash", f, "SHA-256/384/512 by curve size", bad)
	}
}

// c27GroupPrime: which oakley constant the group's prime is parsed from.
func c27GroupPrime(v ssa.Value) string {
	seen := map[ssa.Value]bool{}
	var walk func(v ssa.Value, d int) string
	walk = func(v ssa.Value, d int) string {
		if v == nil || d > 10 || seen[v] {
			return ""
		}
		seen[v] = true
		switch x := v.(type) {
		case *ssa.Const:
			return ""
		case *ssa.Extract:
			return walk(x.Tuple, d+1)
		case *ssa.Call:
			if short(calleeName(&x.Call)) == "(*math/big.Int).SetString" {
				if s, ok := constString(x.Call.Args[1]); ok {
					// identify by length of the hex constant: group2 1024 bits, group14 2048, group16 4096
					switch len(s) {
					case 256:
						return "oakleyGroup2"
					case 512:
						return "oakleyGroup14"
					case 1024:
						return "oakleyGroup16"
					}
					return fmt.Sprintf("hex[%d]", len(s))
				}
			}
			for _, a := range x.Call.Args {
				if r := walk(a, d+1); r != "" {
					return r
				}
			}
		case *ssa.UnOp:
			// load of a field of another literal (group14.p)
			if fa, ok := x.X.(*ssa.FieldAddr); ok {
				fl := litFields(fa.X)
				st := derefStruct(fa.X.Type())
				if st != nil {
					return walk(fl[st.Field(fa.Field).Name()], d+1)
				}
			}
			return walk(x.X, d+1)
		case *ssa.Phi:
			for _, e := range x.Edges {
				if r := walk(e, d+1); r != "" {
					return r
				}
			}
		}
		return ""
	}
	return walk(v, 0)
}
