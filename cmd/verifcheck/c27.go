package main

import (
	"fmt"
	"go/ast"
	"go/constant"
	"go/token"
	"go/types"
	"sort"
	"strings"

	"golang.org/x/tools/go/ssa"
)

func init() {
	register(&propDef{
		id: "C27", run: runC27, minOblig: 150,
		explanation: "Decides RFC-shape necessary conditions of OpenSSH interoperability that Go-to-Go tests cannot see because both sides share the code. The facts about values are decided by SYMBOLIC PATH EXECUTION of the SSA (c27_sym.go): the root function and the helpers of its package it calls are interpreted in place over opaque terms, concrete memory cells and hash objects, every undecided branch is explored on both sides, so the verdict does not depend on helper factoring, names of locals/parameters/receivers, statement order or loop shape. (exchange hash) for each of the five key-exchange families and both roles, on every path that returns a kexResult: result.H is the digest of a hash whose canonical input stream is string(V_C), string(V_S), string(I_C), string(I_S) (the four fields of the magics argument), string(K_S), [min, n, max, p, g for group exchange], e, f, K with the RFC encodings (the hash input is compared as a byte stream: marshalInt/marshalString into a buffer of exactly intLength / 4+len bytes followed by Write, a big-endian uint32 length followed by the bytes, one Write of a concatenation or several Writes of its parts all count as the same input, whichever helper does it), every value is the received field of the peer's message or the very term that was put into the field of the message sent, K is the mpint (ML-KEM hybrid: string) encoding of a secret whose term contains the peer's ephemeral value, result.K is that same encoded K, result.Hash is the hash function the exchange hash was made with, decoded peer messages are never written to; (host key signature) on every such server path the reply's Signature field carries Marshal(priv.SignWithAlgorithm(rand, H, underlyingAlgo(algo))) with H that digest, priv and algo the arguments of Server (signAndMarshal is interpreted in place like any helper), and signAndMarshal by itself signs the given data with underlyingAlgo(algo) and returns the marshalled signature; (key derivation) generateKeyMaterial, interpreted for two digest sizes and ten output lengths each, leaves in out exactly the first len(out) bytes of K1 || K2 || ... with K1 = HASH(K || H || tag || session_id) and Kn = HASH(K || H || K1 || ... || K(n-1)), HASH = r.Hash; enterKeyExchange, on every path, hands prepareKeyChange a kexResult whose SessionID is the stored t.sessionID, or H of this exchange exactly when the path established that t.sessionID was nil/empty, and leaves t.sessionID unchanged resp. set to that H; (direction tags) clientKeys = A,C,E and serverKeys = B,D,F for (ivTag, keyTag, macKeyTag), read from the initialiser's SSA by field name; newPacketCipher, on every path reaching the constructor cipherModes[algs.Cipher].create, passes (key, iv, macKey) buffers filled by generateKeyMaterial with d.keyTag / d.ivTag / d.macKeyTag from the kex result passed in and sized cipherModes[..].keySize / .ivSize / macModes[algs.MAC].keySize, and no MAC key exactly when aeadCiphers[algs.Cipher]; newTransport returns a transport with reader.dir=serverKeys/writer.dir=clientKeys for a client and the opposite for a server; (tables) every advertised kex/cipher/MAC name has a table entry, cipherModes key/IV sizes and macModes key sizes, EtM flags, hash functions and truncation equal the RFC 4253/4344/5647/6668 and OpenSSH PROTOCOL values, kexAlgoMap binds each name to the implementation, hash and curve/group the name prescribes, ecHash maps curve sizes to SHA-256/384/512 (the declared init functions of package ssh that touch cipherModes / macModes / kexAlgoMap are interpreted by the same symbolic executor and the value finally registered under each name is inspected, so entries may be built by literals, constructor helpers, loops over a table or copies of other entries; reading constant-keyed literal assignments statically is only the fallback when that interpretation finds nothing; a MAC's hash and truncation are read from the body of its constructor closure). NOT decided: actual interoperability and all numeric content (there is an OpenSSH client in the sandbox, but running it is not static analysis); the bodies of the encoding atoms themselves (marshalInt, marshalString, intLength, Marshal, Unmarshal: C24); writeString, writeInt and handshakeMagics.write ARE interpreted (a big-endian length written byte by byte, with binary.BigEndian.PutUint32/AppendUint32 or binary.Write is recognised as the same four bytes).",
		assumptions: []string{"transcription of the RFC tables in c27.go", "kexInitMsg field order equals the wire order (sshtype/ field order checked under C24)",
			"the wire-encoding atoms ssh.marshalInt / marshalString / intLength / Marshal / Unmarshal / underlyingAlgo, encoding/binary big-endian writers and hash.Hash behave as documented (they are the atoms of the symbolic model)",
			"functions outside package ssh are uninterpreted functions of their arguments; only io.ReadFull, Read, crypto/subtle, encoding/binary Put* and crypto/rand.Read are taken to write into a byte-slice argument",
			"helpers of package ssh that neither receive nor return a tracked object (byte string, hash, ssh record) and store only to their own allocations are uninterpreted functions; loops are unrolled until the same undecided test was taken twice"},
	})
	tech("C27", "symbolic path execution of SSA with concrete heap, hash objects and canonical byte-stream terms, all paths explored (c27_sym.go); init-time table extraction from SSA compared with RFC tables (E5); finite-domain evaluation (ecHash)")
}

func runC27(c *Ctx) {
	// exchange hash, K, kexResult and host key signature, per kex family and role
	for _, sp := range c27Kexes {
		for _, side := range []string{"Client", "Server"} {
			c27KexHash(c, sp, side)
		}
	}
	c27KeyMaterial(c)
	c27SessionIDSym(c)
	c27DirectionTables(c)
	c27PacketCipher(c)
	c27TransportDirs(c)
	c27Tables(c)
	c27SignAndMarshal(c)
}

func c27Tables(c *Ctx) {
	// ---- cipherModes
	type cm struct{ key, iv int64 }
	wantC := map[string]cm{
		"aes128-ctr": {16, 16}, "aes192-ctr": {24, 16}, "aes256-ctr": {32, 16},
		"aes128-gcm@openssh.com": {16, 12}, "aes256-gcm@openssh.com": {32, 12},
		"chacha20-poly1305@openssh.com": {64, 0},
		"arcfour128":                    {16, 0}, "arcfour256": {32, 0}, "arcfour": {16, 0},
		"aes128-cbc": {16, 16}, "3des-cbc": {24, 8},
	}
	gotC := map[string]bool{}
	type cipherEntry struct {
		key     string
		at      poser
		k, iv   int64
		sizesOK bool
		ctor    string // "ssh.newGCMCipher", or "call:ssh.streamCipherMode" with skip/mk
		skip    int64
		mk      string
	}
	var cents []cipherEntry
	if entries, ok, _ := c27InitMap(c, "cipherModes"); ok {
		// the init functions are interpreted: sizes and constructor are read off the value registered
		for _, e := range entries {
			ce := cipherEntry{key: e.key, at: e.at, ctor: "?"}
			if e.val.k == c27Ptr && e.val.cell != nil {
				ks, is := c27FieldCell(e.val.cell, "keySize"), c27FieldCell(e.val.cell, "ivSize")
				if ks != nil && is != nil && ks.val.k == c27Int && is.val.k == c27Int {
					ce.k, ce.iv, ce.sizesOK = ks.val.n, is.val.n, true
				}
				if cr := c27FieldCell(e.val.cell, "create"); cr != nil && cr.val.k == c27Func && cr.val.fn != nil {
					if par := cr.val.fn.Parent(); par != nil {
						ce.ctor = "call:" + short(par.String())
						for _, b := range cr.val.el {
							if b.k == c27Ptr && b.cell != nil {
								b = b.cell.val
							}
							switch b.k {
							case c27Int:
								ce.skip = b.n
							case c27Func:
								ce.mk = short(b.fn.String())
							}
						}
					} else {
						ce.ctor = short(cr.val.fn.String())
					}
				}
			}
			cents = append(cents, ce)
		}
	} else {
		for _, me := range c.mapUpdates("ssh", "cipherModes") {
			fl := litFields(me.val)
			k, ok1 := constInt(fl["keySize"])
			iv, ok2 := constInt(fl["ivSize"])
			ce := cipherEntry{key: me.key, at: me.at, k: k, iv: iv, sizesOK: ok1 && ok2, ctor: funcValueName(fl["create"])}
			if call, isCall := fl["create"].(*ssa.Call); isCall && len(call.Call.Args) == 2 {
				ce.skip, _ = constInt(call.Call.Args[0])
				ce.mk = funcValueName(call.Call.Args[1])
			}
			cents = append(cents, ce)
		}
	}
	for _, ce := range cents {
		w, known := wantC[ce.key]
		gotC[ce.key] = true
		if !known {
			c.fail("C27.cipher-table", "cipherModes["+ce.key+"]", ce.at, "cipher not in the checker's RFC table")
			continue
		}
		c.check(ce.sizesOK && ce.k == w.key && ce.iv == w.iv, "C27.cipher-table", "cipherModes["+ce.key+"]", ce.at, fmt.Sprintf("key %d, IV %d bytes", ce.k, ce.iv), fmt.Sprintf("key size %d / IV size %d; the algorithm requires %d / %d", ce.k, ce.iv, w.key, w.iv))
		// constructor family
		wantCtor := ""
		switch {
		case strings.HasSuffix(ce.key, "-ctr") || strings.HasPrefix(ce.key, "arcfour"):
			wantCtor = "call:ssh.streamCipherMode"
		case strings.Contains(ce.key, "-gcm@"):
			wantCtor = "ssh.newGCMCipher"
		case strings.HasPrefix(ce.key, "chacha20"):
			wantCtor = "ssh.newChaCha20Cipher"
		case ce.key == "aes128-cbc":
			wantCtor = "ssh.newAESCBCCipher"
		case ce.key == "3des-cbc":
			wantCtor = "ssh.newTripleDESCBCCipher"
		}
		okCtor := ce.ctor == wantCtor
		got := ce.ctor
		if wantCtor == "call:ssh.streamCipherMode" && okCtor {
			wantSkip, wantMk := int64(0), "ssh.newAESCTR"
			if strings.HasPrefix(ce.key, "arcfour") {
				wantMk = "ssh.newRC4"
				if ce.key != "arcfour" {
					wantSkip = 1536
				}
			}
			okCtor = ce.skip == wantSkip && ce.mk == wantMk
			got = fmt.Sprintf("%s(%d, %s)", ce.ctor, ce.skip, ce.mk)
			wantCtor = fmt.Sprintf("%s(%d, %s)", wantCtor, wantSkip, wantMk)
		}
		c.check(okCtor, "C27.cipher-table", "cipherModes["+ce.key+"] constructor", ce.at, "instantiates "+wantCtor, fmt.Sprintf("constructor is %s, the name requires %s", got, wantCtor))
	}
	// aeadCiphers = the two GCM and chacha
	// ---- macModes
	type mm struct {
		key  int64
		etm  bool
		hash string
		trnc int64
	}
	wantM := map[string]mm{
		"hmac-sha2-512-etm@openssh.com": {64, true, "crypto/sha512.New", 0},
		"hmac-sha2-256-etm@openssh.com": {32, true, "crypto/sha256.New", 0},
		"hmac-sha2-512":                 {64, false, "crypto/sha512.New", 0},
		"hmac-sha2-256":                 {32, false, "crypto/sha256.New", 0},
		"hmac-sha1":                     {20, false, "crypto/sha1.New", 0},
		"hmac-sha1-96":                  {20, false, "crypto/sha1.New", 12},
	}
	gotM := map[string]bool{}
	type macEntry struct {
		key string
		at  poser
		k   int64
		etm bool
		ok  bool
		cl  *ssa.Function
	}
	var ments []macEntry
	if entries, ok, _ := c27InitMap(c, "macModes"); ok {
		for _, e := range entries {
			me := macEntry{key: e.key, at: e.at}
			if e.val.k == c27Ptr && e.val.cell != nil {
				ks, et := c27FieldCell(e.val.cell, "keySize"), c27FieldCell(e.val.cell, "etm")
				if ks != nil && et != nil && ks.val.k == c27Int && et.val.k == c27Int {
					me.k, me.etm, me.ok = ks.val.n, et.val.n != 0, true
				}
				if nw := c27FieldCell(e.val.cell, "new"); nw != nil && nw.val.k == c27Func {
					me.cl = nw.val.fn
				}
			}
			ments = append(ments, me)
		}
	} else {
		for _, u := range c.mapUpdates("ssh", "macModes") {
			fl := litFields(u.val)
			k, ok1 := constInt(fl["keySize"])
			etm, ok2 := constBool(fl["etm"])
			if fl["etm"] == nil {
				etm, ok2 = false, true
			}
			me := macEntry{key: u.key, at: u.at, k: k, etm: etm, ok: ok1 && ok2}
			switch x := fl["new"].(type) {
			case *ssa.Function:
				me.cl = x
			case *ssa.MakeClosure:
				me.cl, _ = x.Fn.(*ssa.Function)
			}
			ments = append(ments, me)
		}
	}
	for _, me := range ments {
		w, known := wantM[me.key]
		gotM[me.key] = true
		if !known {
			c.fail("C27.mac-table", "macModes["+me.key+"]", me.at, "MAC not in the checker's RFC table")
			continue
		}
		hashName, trunc := "", int64(0)
		if me.cl != nil {
			for _, ci := range deepCallsNamed(me.cl, "crypto/hmac.New") {
				hashName = funcValueName(ci.Common().Args[0])
			}
			deepInstrs(me.cl, func(in ssa.Instruction) {
				if st, ok := in.(*ssa.Store); ok {
					if _, fld, _, ok := fieldOf(st.Addr); ok && fld == "length" {
						trunc, _ = constInt(st.Val)
					}
				}
			})
		}
		c.check(me.ok && me.k == w.key && me.etm == w.etm && hashName == w.hash && trunc == w.trnc, "C27.mac-table", "macModes["+me.key+"]", me.at,
			fmt.Sprintf("key %d, etm %v, %s, truncation %d", me.k, me.etm, hashName, trunc),
			fmt.Sprintf("key %d etm %v hash %q truncation %d; the algorithm requires key %d etm %v hash %s truncation %d", me.k, me.etm, hashName, trunc, w.key, w.etm, w.hash, w.trnc))
	}
	// ---- kexAlgoMap
	type km struct{ typ, hash, extra string }
	wantK := map[string]km{
		"mlkem768x25519-sha256":                {"mlkem768WithCurve25519sha256", "", ""},
		"ecdh-sha2-nistp256":                   {"ecdh", "", "crypto/elliptic.P256"},
		"ecdh-sha2-nistp384":                   {"ecdh", "", "crypto/elliptic.P384"},
		"ecdh-sha2-nistp521":                   {"ecdh", "", "crypto/elliptic.P521"},
		"diffie-hellman-group1-sha1":           {"dhGroup", "SHA1", "oakleyGroup2"},
		"diffie-hellman-group14-sha1":          {"dhGroup", "SHA1", "oakleyGroup14"},
		"diffie-hellman-group14-sha256":        {"dhGroup", "SHA256", "oakleyGroup14"},
		"diffie-hellman-group16-sha512":        {"dhGroup", "SHA512", "oakleyGroup16"},
		"curve25519-sha256":                    {"curve25519sha256", "", ""},
		"curve25519-sha256@libssh.org":         {"curve25519sha256", "", ""},
		"diffie-hellman-group-exchange-sha1":   {"dhGEXSHA", "SHA1", ""},
		"diffie-hellman-group-exchange-sha256": {"dhGEXSHA", "SHA256", ""},
	}
	hashConst := func(v ssa.Value) string {
		k, ok := constInt(v)
		if !ok {
			return ""
		}
		switch k { // crypto.Hash values
		case 3:
			return "SHA1"
		case 5:
			return "SHA256"
		case 6:
			return "SHA384"
		case 7:
			return "SHA512"
		}
		return fmt.Sprint(k)
	}
	gotK := map[string]bool{}
	checkK := func(key string, at poser, tn, hs, extra string) {
		w, known := wantK[key]
		gotK[key] = true
		if !known {
			c.fail("C27.kex-table", "kexAlgoMap["+key+"]", at, "key exchange not in the checker's table")
			return
		}
		c.check(tn == w.typ && hs == w.hash && extra == w.extra, "C27.kex-table", "kexAlgoMap["+key+"]", at,
			fmt.Sprintf("%s hash=%s %s", tn, hs, extra), fmt.Sprintf("bound to %s hash=%q param=%q; the name requires %s hash=%q param=%q", tn, hs, extra, w.typ, w.hash, w.extra))
	}
	// the init functions are interpreted, so an entry may be built by a literal, a
	// constructor helper or a copy of another entry; the literal reader is the
	// fallback for a map filled where the interpreter does not reach
	if entries, ok, _ := c27InitMap(c, "kexAlgoMap"); ok {
		for _, e := range entries {
			tn, hs, extra := c27KexEntry(e.val, func(k int64) string { return hashConst(ssa.NewConst(constant.MakeInt64(k), types.Typ[types.Uint])) })
			checkK(e.key, e.at, tn, hs, extra)
		}
	} else {
		for _, me := range c.mapUpdates("ssh", "kexAlgoMap") {
			val := stripConv(me.val)
			tn := typeName(val.Type())
			fl := litFields(val)
			hs := ""
			if fl["hashFunc"] != nil {
				hs = hashConst(fl["hashFunc"])
			}
			extra := ""
			if tn == "ecdh" {
				if call, ok := fl["curve"].(*ssa.Call); ok {
					extra = short(calleeName(&call.Call))
				} else if mi, ok := fl["curve"].(*ssa.MakeInterface); ok {
					if call, ok := mi.X.(*ssa.Call); ok {
						extra = short(calleeName(&call.Call))
					}
				}
				if extra == "" {
					if ci, ok := stripConv(fl["curve"]).(*ssa.Call); ok {
						extra = short(calleeName(&ci.Call))
					}
				}
			}
			if tn == "dhGroup" {
				extra = c27GroupPrime(fl["p"])
			}
			checkK(me.key, me.at, tn, hs, extra)
		}
	}
	// ---- advertised names have entries
	for _, l := range []struct {
		list string
		got  map[string]bool
	}{
		{"supportedKexAlgos", gotK}, {"defaultKexAlgos", gotK}, {"insecureKexAlgos", gotK},
		{"supportedCiphers", gotC}, {"defaultCiphers", gotC}, {"insecureCiphers", gotC},
		{"supportedMACs", gotM}, {"defaultMACs", gotM}, {"insecureMACs", gotM},
	} {
		names, ok := c.globalStringList("ssh", l.list)
		if !ok {
			c.fail("C27.lists", l.list, nil, "list not found or not a constant string list")
			continue
		}
		var missing []string
		for _, n := range names {
			if !l.got[n] {
				missing = append(missing, n)
			}
		}
		sort.Strings(missing)
		c.check(len(missing) == 0 && len(names) > 0, "C27.lists", l.list, nil, fmt.Sprintf("all %d names have a table entry", len(names)), fmt.Sprintf("advertised names without an implementation entry: %v", missing))
	}
	// aeadCiphers
	if p := c.pkg("ssh"); p != nil {
		for _, f := range p.Syntax {
			for _, d := range f.Decls {
				gd, ok := d.(*ast.GenDecl)
				if !ok || gd.Tok != token.VAR {
					continue
				}
				for _, s := range gd.Specs {
					vs := s.(*ast.ValueSpec)
					for i, n := range vs.Names {
						if n.Name != "aeadCiphers" || i >= len(vs.Values) {
							continue
						}
						cl, ok := vs.Values[i].(*ast.CompositeLit)
						if !ok {
							continue
						}
						var keys []string
						for _, e := range cl.Elts {
							if kv, ok := e.(*ast.KeyValueExpr); ok {
								if tv, ok := p.TypesInfo.Types[kv.Key]; ok && tv.Value != nil {
									keys = append(keys, constant.StringVal(tv.Value))
								}
							}
						}
						sort.Strings(keys)
						want := []string{"aes128-gcm@openssh.com", "aes256-gcm@openssh.com", "chacha20-poly1305@openssh.com"}
						c.check(strings.Join(keys, ",") == strings.Join(want, ","), "C27.cipher-table", "aeadCiphers", vs, "exactly the GCM and chacha20-poly1305 ciphers negotiate no MAC", fmt.Sprintf("aeadCiphers = %v, expected %v", keys, want))
					}
				}
			}
		}
	}
	// ecHash
	if f := c.fn("ssh", "ecHash"); f != nil {
		var bs ssa.Value
		allInstrs(f, func(in ssa.Instruction) {
			if u, ok := in.(*ssa.UnOp); ok {
				if _, fld, _, ok := fieldOf(u); ok && fld == "BitSize" {
					bs = u
				}
			}
		})
		bad := ""
		if bs == nil {
			bad = "BitSize not read"
		} else {
			for _, tc := range []struct {
				bits int64
				want string
			}{{256, "SHA256"}, {384, "SHA384"}, {521, "SHA512"}, {224, "SHA256"}} {
				e := newEnv()
				e.bind(bs, tc.bits)
				e.solve(f)
				for _, r := range returnsOf(f) {
					if e.reach[r.Block()] {
						if got := hashConst(r.Results[0]); got != tc.want {
							bad = fmt.Sprintf("curve of %d bits hashes with %s, RFC 5656 section 6.2.1 requires %s", tc.bits, got, tc.want)
						}
					}
				}
			}
		}
		c.check(bad == "", "C27.kex-table", "ecHash", f, "SHA-256/384/512 by curve size", bad)
	}
}

// c27GroupPrime: which oakley constant the group's prime is parsed from.
func c27GroupPrime(v ssa.Value) string {
	seen := map[ssa.Value]bool{}
	var walk func(v ssa.Value, d int) string
	walk = func(v ssa.Value, d int) string {
		if v == nil || d > 10 || seen[v] {
			return ""
		}
		seen[v] = true
		switch x := v.(type) {
		case *ssa.Const:
			return ""
		case *ssa.Extract:
			return walk(x.Tuple, d+1)
		case *ssa.Call:
			if short(calleeName(&x.Call)) == "(*math/big.Int).SetString" {
				if s, ok := constString(x.Call.Args[1]); ok {
					// identify by length of the hex constant: group2 1024 bits, group14 2048, group16 4096
					switch len(s) {
					case 256:
						return "oakleyGroup2"
					case 512:
						return "oakleyGroup14"
					case 1024:
						return "oakleyGroup16"
					}
					return fmt.Sprintf("hex[%d]", len(s))
				}
			}
			for _, a := range x.Call.Args {
				if r := walk(a, d+1); r != "" {
					return r
				}
			}
		case *ssa.UnOp:
			// load of a field of another literal (group14.p)
			if fa, ok := x.X.(*ssa.FieldAddr); ok {
				fl := litFields(fa.X)
				st := derefStruct(fa.X.Type())
				if st != nil {
					return walk(fl[st.Field(fa.Field).Name()], d+1)
				}
			}
			return walk(x.X, d+1)
		case *ssa.Phi:
			for _, e := range x.Edges {
				if r := walk(e, d+1); r != "" {
					return r
				}
			}
		}
		return ""
	}
	return walk(v, 0)
}
