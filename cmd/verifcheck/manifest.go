package main

import (
	"encoding/json"
	"fmt"
	"os"
)

// technique text per property (the deciding method), used for MANIFEST.json.
var technique = map[string]string{}

func tech(id, t string) { technique[id] = t }

type naEntry struct{ id, reason string }

var notApplicable = []naEntry{
	{"C04", "Poly1305 tag value = 130-bit modular polynomial on two limb implementations (one in assembly); no clause is visible in code shape beyond verify-before-release, which C02 decides. Static analysis without symbolic execution cannot decide arithmetic equality."},
	{"C09", "Salsa20/XSalsa20 keystream values and 64-bit counter carry are numerical equalities between Go and assembly code over runtime counter values; the only structural clause (overlap guard) is decided under C53."},
	{"C10", "Byte-for-byte interoperability with libsodium is a numerical/external property; the structural parts (verify-before-decrypt, overlap guards) are decided under C02/C53."},
	{"C13", "XTS equals IEEE 1619: GF(2^128) tweak arithmetic and AES values; only the overlap guard is structural and it is decided under C53."},
	{"C20", "S2K derivation is arithmetic on runtime values (count decoding, hash-context prefixes); no structural necessary condition beyond constants already pinned by the existing vectors."},
}

func writeManifest(path string) error {
	type level struct {
		Category  string `json:"category"`
		Text      string `json:"text"`
		DesignRef string `json:"design_ref"`
	}
	type check struct {
		PropertyID string `json:"property_id"`
		Quick      string `json:"quick_cmd"`
		Thorough   string `json:"thorough_cmd"`
		Evidence   string `json:"evidence_file"`
		Replay     string `json:"replay_cmd_template"`
		Engine     string `json:"engine"`
		Level      level  `json:"level_claimed"`
		Note       string `json:"level_note"`
		Technique  string `json:"technique"`
	}
	var checks []check
	var served []string
	for _, id := range sortedProps() {
		pd := registry[id]
		t := technique[id]
		if t == "" {
			t = "static analysis: SSA/CFG path rules over the type-checked source"
		}
		note := "Trusted: go/types, x/tools go/ssa; the rule tables transcribed from the specifications."
		for _, a := range pd.assumptions {
			note += " " + a + "."
		}
		checks = append(checks, check{
			PropertyID: id,
			Quick:      fmt.Sprintf("./bin/verifcheck -prop %s -tier quick", id),
			Thorough:   fmt.Sprintf("./bin/verifcheck -prop %s -tier thorough", id),
			Evidence:   fmt.Sprintf("/verif/evidence/%s.json", id),
			Replay:     "./bin/verifcheck -explain {path}",
			Engine:     "verifcheck",
			Level: level{
				Category:  "other",
				Text:      pd.explanation,
				DesignRef: "docs/AS_BUILT.md section " + id + " (generated from the rules); DESIGN.md sections 8-13 (engines, findings, seeded changes, refactoring tests); section 2 " + id + " is the original plan",
			},
			Note:      note,
			Technique: t,
		})
		served = append(served, id)
	}
	na := []map[string]string{} // never null: the schema wants an array
	claimed := map[string]bool{}
	for _, id := range served {
		claimed[id] = true
	}
	for _, e := range notApplicable {
		if !claimed[e.id] {
			na = append(na, map[string]string{"property_id": e.id, "reason": e.reason})
		}
	}
	for _, e := range notApplicable {
		claimed[e.id] = true
	}
	for _, e := range pendingNA {
		if !claimed[e.id] {
			na = append(na, map[string]string{"property_id": e.id, "reason": e.reason})
		}
	}
	m := map[string]any{
		"version":   1,
		"setup_cmd": "./setup.sh",
		"hooks": map[string]any{
			"guard":            "verif",
			"enable":           "no hooks: the checks read /repo's source as it is; nothing in /repo is built with a tag",
			"baseline_off_cmd": "for m in . x509roots/fallback; do (cd /repo/$m && go test -mod=mod -json -vet=off -count=1 -timeout 25m ./...); done",
			"source_commits":   []string{},
			"add_only":         true,
		},
		"engines": []map[string]any{{
			"name":              "verifcheck",
			"path":              "cmd/verifcheck",
			"serves_properties": served,
			"kind_free_text":    "repository-specific static analyser (go/packages + go/types + go/ssa): interprocedural must-cross / lockset / effect rules on CFGs and the call graph, abstract and finite-domain interpretation of the SSA of the anchored functions against specifications computed in the checker (DESIGN.md section 14 states which rules enumerate an abstract domain exhaustively and which evaluate a boundary grid or an input table), table/sibling agreement, assembly text scan; nothing in /repo is compiled, built with a tag, or executed",
		}},
		"checks":         checks,
		"not_applicable": na,
		"notes":          "All checks are static analyses of /repo's current working tree; see DESIGN.md. known_findings.json lists recorded findings and fixed defects.",
	}
	b, err := json.MarshalIndent(m, "", " ")
	if err != nil {
		return err
	}
	return os.WriteFile(path, append(b, '\n'), 0o644)
}

// writeAsBuilt renders, per property, what the registered rule set decides
// (the explanation, technique and assumptions the rules themselves carry), so
// that the document cannot drift from the code.
func writeAsBuilt(path string) error {
	s := "# As built: what each check decides\n\nGenerated by `./bin/verifcheck -asbuilt docs/AS_BUILT.md` from the `explanation`, technique and assumption strings registered next to the rules (cmd/verifcheck/cNN*.go). Every check is claimed at level `other`: it decides the structural / finite-domain clauses stated here, not the behavioural property as a whole.\n"
	for _, id := range sortedProps() {
		pd := registry[id]
		s += "\n## " + id + "\n\n**Decides.** " + pd.explanation + "\n\n**Technique.** " + technique[id] + "\n"
		if len(pd.assumptions) > 0 {
			s += "\n**Assumes.** "
			for i, a := range pd.assumptions {
				if i > 0 {
					s += "; "
				}
				s += a
			}
			s += ".\n"
		}
	}
	return os.WriteFile(path, []byte(s), 0o644)
}

// properties designed (DESIGN.md section 2) whose rule set is not armed in
// this revision are listed as not applicable with that reason, so that
// MANIFEST.json never claims more than is checked.
var pendingNA = func() []naEntry {
	var out []naEntry
	for i := 1; i <= 53; i++ {
		id := fmt.Sprintf("C%02d", i)
		out = append(out, naEntry{id, "no static rule for this property is armed in this revision (a structural clause is designed in DESIGN.md section 2 but is not claimed until its checker is exact on the pinned tree)"})
	}
	return out
}()
