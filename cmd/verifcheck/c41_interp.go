package main

// c41_interp.go: an evaluator of go/ssa function bodies over CONCRETE values
// (strings, integers, booleans, pointers, structs, slices, maps, closures,
// interfaces) — the evaluator of c28_interp.go, extended with what the C41
// rules need to RUN CertChecker.CheckCert / Authenticate / CheckHostKey and
// parseTuples on concrete certificates and configurations:
//   - closures implemented by the rule (c41closure.native): the IsRevoked,
//     IsUserAuthority, IsHostAuthority and Clock callbacks,
//   - model objects (*c41obj) as dynamic values of interfaces (the CA key, the
//     connection metadata) whose method calls are answered by the rule
//     (c41interp.invoke),
//   - a per-run hook that answers calls of named functions (time.Time.Unix,
//     net.SplitHostPort, the function that produces the signed bytes).
// Because bodies are evaluated, the verdicts do not depend on how the code is
// factored. Anything outside the model (a branch on an unknown value, reflection,
// concurrency) ends the run as UNDECIDED — never as a silent pass.

import (
	"fmt"
	"go/constant"
	"go/token"
	"go/types"
	"strings"

	"golang.org/x/tools/go/ssa"
)

type c41val = any

type c41struct []c41val // value semantics: copied on load / store
type c41array []c41val  // value semantics
type c41tuple []c41val
type c41map struct {
	m    map[any]c41val
	keys []any // insertion order (iteration order of the model)
}
type c41iface struct {
	t types.Type // nil: the nil interface
	v c41val
}
type c41closure struct {
	fn     *ssa.Function
	fv     []c41val
	native func(args []c41val) c41val // implemented by the rule
	name   string
}

// c41obj is a model object: the dynamic value of an interface (or an opaque
// struct value such as a time.Time) whose behaviour is given by the rule.
type c41obj struct {
	kind string
	n    int64
	data any
}
type c41opaque struct{ what string }
type c41iter struct {
	m    *c41map
	keys []any
	str  []rune
	pos  int
	isS  bool
}

// c41stop is thrown (Go panic) to leave the evaluation.
type c41stop struct {
	kind string // "undecided" | "panic"
	msg  string
}

type c41interp struct {
	prog     *ssa.Program
	globals  map[*ssa.Global]*c41val
	initMemo map[ssa.Value]c41val
	consts   map[*ssa.Const]c41val
	numbers  map[*ssa.Function]map[ssa.Value]int
	steps    int
	maxSteps int
	depth    int
	// hook answers a call of fn without evaluating its body (ok = false: evaluate)
	hook func(fn *ssa.Function, args []c41val) (c41val, bool)
	// invoke answers a method call on a model object
	invoke func(recv *c41obj, method string, args []c41val) c41val
}

func c41newInterp(prog *ssa.Program) *c41interp {
	return &c41interp{prog: prog, globals: map[*ssa.Global]*c41val{}, initMemo: map[ssa.Value]c41val{}, consts: map[*ssa.Const]c41val{}, numbers: map[*ssa.Function]map[ssa.Value]int{}, maxSteps: 20000}
}

func c41undecided(format string, a ...any) {
	panic(c41stop{"undecided", fmt.Sprintf(format, a...)})
}
func c41panic(format string, a ...any) { panic(c41stop{"panic", fmt.Sprintf(format, a...)}) }

// run evaluates fn(args...) and reports how it ended: "return" (res valid),
// "panic" or "undecided" (why says what was met).
func (it *c41interp) run(fn *ssa.Function, args []c41val) (res c41val, end string, why string) {
	it.steps, it.depth = 0, 0
	defer func() {
		if r := recover(); r != nil {
			if s, ok := r.(c41stop); ok {
				end, why = s.kind, s.msg
				return
			}
			end, why = "undecided", fmt.Sprintf("evaluator: %v", r)
		}
	}()
	return it.callFn(fn, args, nil), "return", ""
}

func c41zero(t types.Type) c41val {
	switch u := t.Underlying().(type) {
	case *types.Basic:
		switch {
		case u.Info()&types.IsBoolean != 0:
			return false
		case u.Info()&types.IsString != 0:
			return ""
		case u.Info()&types.IsInteger != 0:
			return int64(0)
		case u.Kind() == types.UnsafePointer:
			return (*c41val)(nil)
		case u.Kind() == types.UntypedNil:
			return c41iface{}
		}
		return c41opaque{"value of type " + t.String()}
	case *types.Pointer:
		return (*c41val)(nil)
	case *types.Slice:
		return []c41val(nil)
	case *types.Map:
		return (*c41map)(nil)
	case *types.Signature:
		return (*c41closure)(nil)
	case *types.Interface:
		return c41iface{}
	case *types.Struct:
		s := make(c41struct, u.NumFields())
		for i := range s {
			s[i] = c41zero(u.Field(i).Type())
		}
		return s
	case *types.Array:
		a := make(c41array, u.Len())
		for i := range a {
			a[i] = c41zero(u.Elem())
		}
		return a
	}
	return c41opaque{"value of type " + t.String()}
}

func c41copy(v c41val) c41val {
	switch x := v.(type) {
	case c41struct:
		n := make(c41struct, len(x))
		for i := range x {
			n[i] = c41copy(x[i])
		}
		return n
	case c41array:
		n := make(c41array, len(x))
		for i := range x {
			n[i] = c41copy(x[i])
		}
		return n
	}
	return v
}

// c41store writes v to *p; aggregates are written in place so that pointers
// to their fields / elements stay valid.
func c41store(p *c41val, v c41val) {
	switch x := v.(type) {
	case c41struct:
		if cur, ok := (*p).(c41struct); ok && len(cur) == len(x) {
			for i := range x {
				c41store(&cur[i], x[i])
			}
			return
		}
	case c41array:
		if cur, ok := (*p).(c41array); ok && len(cur) == len(x) {
			for i := range x {
				c41store(&cur[i], x[i])
			}
			return
		}
	}
	*p = c41copy(v)
}

func c41const(c *ssa.Const) c41val {
	if c.Value == nil {
		return c41zero(c.Type())
	}
	if b, ok := c.Type().Underlying().(*types.Basic); ok {
		switch {
		case b.Info()&types.IsBoolean != 0:
			return constant.BoolVal(c.Value)
		case b.Info()&types.IsString != 0:
			return constant.StringVal(c.Value)
		case b.Info()&types.IsInteger != 0:
			if n, ok := constant.Int64Val(constant.ToInt(c.Value)); ok {
				return n
			}
			if n, ok := constant.Uint64Val(constant.ToInt(c.Value)); ok {
				return int64(n)
			}
		}
	}
	return c41opaque{"constant " + c.String()}
}

func c41isUnsigned(t types.Type) bool {
	b, ok := t.Underlying().(*types.Basic)
	return ok && b.Info()&types.IsUnsigned != 0
}

func c41wrap(t types.Type, n int64) int64 {
	b, ok := t.Underlying().(*types.Basic)
	if !ok {
		return n
	}
	switch b.Kind() {
	case types.Int8:
		return int64(int8(n))
	case types.Int16:
		return int64(int16(n))
	case types.Int32:
		return int64(int32(n))
	case types.Uint8:
		return int64(uint8(n))
	case types.Uint16:
		return int64(uint16(n))
	case types.Uint32:
		return int64(uint32(n))
	}
	return n
}

func c41equal(a, b c41val) bool {
	if o, ok := a.(c41opaque); ok {
		c41undecided("comparison of %s", o.what)
	}
	if o, ok := b.(c41opaque); ok {
		c41undecided("comparison of %s", o.what)
	}
	switch x := a.(type) {
	case int64:
		return x == b.(int64)
	case string:
		return x == b.(string)
	case bool:
		return x == b.(bool)
	case *c41val:
		return x == b.(*c41val)
	case *c41map:
		return x == b.(*c41map)
	case *c41closure:
		return x == b.(*c41closure)
	case *c41obj:
		y, ok := b.(*c41obj)
		return ok && x == y
	case []c41val:
		y := b.([]c41val)
		if x != nil && y != nil {
			c41undecided("comparison of two non-nil slices")
		}
		return x == nil && y == nil
	case c41iface:
		y := b.(c41iface)
		if x.t == nil || y.t == nil {
			return x.t == nil && y.t == nil
		}
		return types.Identical(x.t, y.t) && c41equal(x.v, y.v)
	case c41struct:
		y := b.(c41struct)
		for i := range x {
			if !c41equal(x[i], y[i]) {
				return false
			}
		}
		return true
	case c41array:
		y := b.(c41array)
		for i := range x {
			if !c41equal(x[i], y[i]) {
				return false
			}
		}
		return true
	}
	c41undecided("comparison of values of kind %T", a)
	return false
}

func c41key(k c41val) any {
	switch x := k.(type) {
	case int64, string, bool:
		return x
	case c41iface:
		if x.t == nil {
			return nil
		}
		return c41key(x.v)
	}
	c41undecided("map key of kind %T", k)
	return nil
}

func (m *c41map) set(k, v c41val) {
	kk := c41key(k)
	if _, ok := m.m[kk]; !ok {
		m.keys = append(m.keys, kk)
	}
	m.m[kk] = c41copy(v)
}

// ---------------------------------------------------------------------------
// package-level variables: their value is what the package initializer stores
// into them (composite literals of constants are rebuilt on demand from the
// init function's instructions; anything computed by a call stays opaque).

func (it *c41interp) global(g *ssa.Global) *c41val {
	if p, ok := it.globals[g]; ok {
		return p
	}
	p := new(c41val)
	*p = c41zero(g.Type().(*types.Pointer).Elem())
	it.globals[g] = p
	if g.Pkg == nil {
		return p
	}
	if init := g.Pkg.Func("init"); init != nil {
		for _, b := range init.Blocks {
			for _, in := range b.Instrs {
				if st, ok := in.(*ssa.Store); ok && st.Addr == ssa.Value(g) {
					c41store(p, it.initEval(st.Val, 0))
				}
			}
		}
	}
	return p
}

func (it *c41interp) initEval(v ssa.Value, depth int) c41val {
	if r, ok := it.initMemo[v]; ok {
		return r
	}
	if depth > 12 {
		return c41opaque{"deeply nested initializer"}
	}
	var r c41val
	switch x := v.(type) {
	case *ssa.Const:
		return c41const(x)
	case *ssa.Global:
		return it.global(x)
	case *ssa.Function:
		return &c41closure{fn: x}
	case *ssa.MakeMap:
		m := &c41map{m: map[any]c41val{}}
		it.initMemo[v] = m
		for _, ref := range *x.Referrers() {
			if mu, ok := ref.(*ssa.MapUpdate); ok && mu.Map == v {
				k, val := it.initEval(mu.Key, depth+1), it.initEval(mu.Value, depth+1)
				if _, op := k.(c41opaque); op {
					return c41opaque{"map with a computed key"}
				}
				m.set(k, val)
			}
		}
		return m
	case *ssa.Alloc:
		p := new(c41val)
		*p = c41zero(x.Type().(*types.Pointer).Elem())
		it.initMemo[v] = p
		it.initStores(x, p, depth+1)
		return p
	case *ssa.Slice:
		base := it.initEval(x.X, depth+1)
		if p, ok := base.(*c41val); ok && p != nil && x.Low == nil && x.High == nil {
			if a, ok := (*p).(c41array); ok {
				r = []c41val(a)
			}
		}
	case *ssa.UnOp:
		if x.Op == token.MUL {
			if p, ok := it.initEval(x.X, depth+1).(*c41val); ok && p != nil {
				r = c41copy(*p)
			}
		}
	case *ssa.Call:
		// package-level sentinel errors: a non-nil error whose text is of no interest
		if callee := x.Call.StaticCallee(); callee != nil {
			switch c41pkgPath(callee) + "." + callee.Name() {
			case "errors.New", "fmt.Errorf":
				r = c41iface{t: types.Typ[types.String], v: c41opaque{"error built by " + callee.Name()}}
			}
		}
	case *ssa.MakeInterface:
		r = c41iface{t: x.X.Type(), v: it.initEval(x.X, depth+1)}
	case *ssa.ChangeType:
		r = it.initEval(x.X, depth+1)
	case *ssa.FieldAddr:
		if p, ok := it.initEval(x.X, depth+1).(*c41val); ok && p != nil {
			if s, ok := (*p).(c41struct); ok {
				r = &s[x.Field]
			}
		}
	case *ssa.IndexAddr:
		if k, ok := it.initEval(x.Index, depth+1).(int64); ok {
			switch b := it.initEval(x.X, depth+1).(type) {
			case *c41val:
				if b != nil {
					if a, ok := (*b).(c41array); ok && k >= 0 && k < int64(len(a)) {
						r = &a[k]
					}
				}
			case []c41val:
				if k >= 0 && k < int64(len(b)) {
					r = &b[k]
				}
			}
		}
	}
	if r == nil {
		r = c41opaque{"package-level value computed by " + v.String()}
	}
	it.initMemo[v] = r
	return r
}

// initStores replays the stores of a composite literal into the cell p that
// stands for the address value addr.
func (it *c41interp) initStores(addr ssa.Value, p *c41val, depth int) {
	if depth > 12 || addr.Referrers() == nil {
		return
	}
	for _, ref := range *addr.Referrers() {
		switch x := ref.(type) {
		case *ssa.Store:
			if x.Addr == addr {
				c41store(p, it.initEval(x.Val, depth+1))
			}
		case *ssa.FieldAddr:
			if s, ok := (*p).(c41struct); ok && x.X == addr {
				it.initStores(x, &s[x.Field], depth+1)
			}
		case *ssa.IndexAddr:
			if a, ok := (*p).(c41array); ok && x.X == addr {
				if k, ok := it.initEval(x.Index, depth+1).(int64); ok && k >= 0 && k < int64(len(a)) {
					it.initStores(x, &a[k], depth+1)
				}
			}
		}
	}
}

// ---------------------------------------------------------------------------

type c41frame struct {
	it     *c41interp
	fn     *ssa.Function
	idx    map[ssa.Value]int
	vals   []c41val
	defers []func()
}

func (fr *c41frame) put(v ssa.Value, val c41val) {
	if val == nil {
		val = c41tuple{}
	}
	fr.vals[fr.idx[v]] = val
}

// numbering assigns a slot to every parameter, free variable and value-producing
// instruction of fn (computed once per function).
func (it *c41interp) numbering(fn *ssa.Function) map[ssa.Value]int {
	if m, ok := it.numbers[fn]; ok {
		return m
	}
	m := map[ssa.Value]int{}
	for _, p := range fn.Params {
		m[p] = len(m)
	}
	for _, f := range fn.FreeVars {
		m[f] = len(m)
	}
	for _, b := range fn.Blocks {
		for _, in := range b.Instrs {
			if v, ok := in.(ssa.Value); ok {
				m[v] = len(m)
			}
		}
	}
	it.numbers[fn] = m
	return m
}

func (fr *c41frame) get(v ssa.Value) c41val {
	switch x := v.(type) {
	case *ssa.Const:
		if _, agg := x.Type().Underlying().(*types.Basic); agg {
			if r, ok := fr.it.consts[x]; ok {
				return r
			}
			r := c41const(x)
			fr.it.consts[x] = r
			return r
		}
		return c41const(x)
	case *ssa.Global:
		return fr.it.global(x)
	case *ssa.Function:
		return &c41closure{fn: x}
	case *ssa.Builtin:
		c41undecided("builtin %s used as a value", x.Name())
	}
	i, ok := fr.idx[v]
	var r c41val
	if ok {
		r = fr.vals[i]
	}
	if r == nil {
		c41undecided("value %s (%s) of %s not computed", v.Name(), v.String(), fr.fn.Name())
	}
	return r
}

func (fr *c41frame) int(v ssa.Value) int64 {
	switch n := fr.get(v).(type) {
	case int64:
		return n
	case c41opaque:
		c41undecided("integer use of %s", n.what)
	}
	c41undecided("integer expected for %s", v.String())
	return 0
}

func c41deref(p c41val, at ssa.Instruction) *c41val {
	switch x := p.(type) {
	case *c41val:
		if x == nil {
			c41panic("nil pointer dereference at %s", at.String())
		}
		return x
	case c41opaque:
		c41undecided("dereference of %s", x.what)
	}
	c41undecided("pointer expected at %s", at.String())
	return nil
}

func (it *c41interp) callFn(fn *ssa.Function, args []c41val, fv []c41val) c41val {
	if it.hook != nil {
		if r, ok := it.hook(fn, args); ok {
			return r
		}
	}
	if r, ok := it.modelled(fn, args); ok {
		return r
	}
	if len(fn.Blocks) == 0 {
		return c41opaqueResult(fn.Signature.Results(), "result of "+fn.String()+" (no body)")
	}
	it.depth++
	defer func() { it.depth-- }()
	if it.depth > 60 {
		c41undecided("call depth bound exceeded in %s", fn.Name())
	}
	idx := it.numbering(fn)
	fr := &c41frame{it: it, fn: fn, idx: idx, vals: make([]c41val, len(idx))}
	for i, p := range fn.Params {
		if i < len(args) {
			fr.put(p, args[i])
		}
	}
	for i, f := range fn.FreeVars {
		if i < len(fv) {
			fr.put(f, fv[i])
		}
	}
	b := fn.Blocks[0]
	var pred *ssa.BasicBlock
	for {
		// phis: parallel assignment
		if pred != nil {
			idx := -1
			for i, p := range b.Preds {
				if p == pred {
					idx = i
				}
			}
			var phis []*ssa.Phi
			var vals []c41val
			for _, in := range b.Instrs {
				ph, ok := in.(*ssa.Phi)
				if !ok {
					break
				}
				phis = append(phis, ph)
				vals = append(vals, fr.get(ph.Edges[idx]))
			}
			for i, ph := range phis {
				fr.put(ph, vals[i])
			}
		}
		var next *ssa.BasicBlock
		for _, in := range b.Instrs {
			it.steps++
			if it.steps > it.maxSteps {
				c41undecided("step bound exceeded in %s", fn.Name())
			}
			switch x := in.(type) {
			case *ssa.Phi, *ssa.DebugRef:
			case *ssa.Jump:
				next = b.Succs[0]
			case *ssa.If:
				switch cv := fr.get(x.Cond).(type) {
				case bool:
					if cv {
						next = b.Succs[0]
					} else {
						next = b.Succs[1]
					}
				case c41opaque:
					c41undecided("branch in %s depends on %s", fn.Name(), cv.what)
				default:
					c41undecided("non-boolean branch condition in %s", fn.Name())
				}
			case *ssa.Return:
				fr.runDefers()
				switch len(x.Results) {
				case 0:
					return nil
				case 1:
					return fr.get(x.Results[0])
				}
				t := make(c41tuple, len(x.Results))
				for i, r := range x.Results {
					t[i] = fr.get(r)
				}
				return t
			case *ssa.Panic:
				c41panic("panic in %s", fn.Name())
			case *ssa.RunDefers:
				fr.runDefers()
			case *ssa.Defer:
				call := fr.prepareCall(x.Common(), x)
				fr.defers = append(fr.defers, func() { call() })
			case *ssa.Store:
				c41store(c41deref(fr.get(x.Addr), x), fr.get(x.Val))
			case *ssa.MapUpdate:
				m, _ := fr.get(x.Map).(*c41map)
				if m == nil {
					c41panic("assignment to entry in nil map in %s", fn.Name())
				}
				m.set(fr.get(x.Key), fr.get(x.Value))
			case *ssa.Go, *ssa.Send, *ssa.Select:
				c41undecided("concurrency instruction %s in %s", in.String(), fn.Name())
			case ssa.Value:
				fr.put(x, fr.eval(x, in))
			default:
				c41undecided("instruction %s in %s not modelled", in.String(), fn.Name())
			}
		}
		if next == nil {
			c41undecided("block without terminator in %s", fn.Name())
		}
		pred, b = b, next
	}
}

func (fr *c41frame) runDefers() {
	for len(fr.defers) > 0 {
		d := fr.defers[len(fr.defers)-1]
		fr.defers = fr.defers[:len(fr.defers)-1]
		d()
	}
}

func c41opaqueResult(res *types.Tuple, what string) c41val {
	switch res.Len() {
	case 0:
		return nil
	case 1:
		return c41opaque{what}
	}
	t := make(c41tuple, res.Len())
	for i := range t {
		t[i] = c41opaque{what}
	}
	return t
}

// c41pkgPath: the import path of the package a function (also an instantiation
// of a generic function, or a function literal) belongs to.
func c41pkgPath(fn *ssa.Function) string {
	for f := fn; f != nil; f = f.Parent() {
		if f.Pkg != nil && f.Pkg.Pkg != nil {
			return f.Pkg.Pkg.Path()
		}
		if o := f.Origin(); o != nil && o.Pkg != nil && o.Pkg.Pkg != nil {
			return o.Pkg.Pkg.Path()
		}
		if obj := f.Object(); obj != nil && obj.Pkg() != nil {
			return obj.Pkg().Path()
		}
	}
	return ""
}

// pure data-structure packages of the standard library whose bodies are
// evaluated like the module's own code
var c41evalStd = map[string]bool{"slices": true, "maps": true, "strings": true, "bytes": true, "sort": true, "cmp": true,
	"iter": true, "encoding/binary": true, "unicode": true, "unicode/utf8": true, "strconv": true, "math/bits": true, "internal/stringslite": true, "internal/bytealg": true}

// modelled: functions whose result is known, or deliberately left unknown,
// without looking at their body. Only the module's own functions and the
// pure helper packages above are evaluated; any other function (fmt, log,
// errors, sync, ...) is not followed: it has no effect on the values the rule
// observes and its result is opaque, so that a branch on it ends the
// evaluation as undecided.
func (it *c41interp) modelled(fn *ssa.Function, args []c41val) (c41val, bool) {
	path := c41pkgPath(fn)
	if r, ok := c41native(path+"."+fn.Name(), args); ok {
		return r, true
	}
	if path == modPath || strings.HasPrefix(path, modPath+"/") || c41evalStd[path] {
		return nil, false
	}
	switch path + "." + fn.Name() {
	case "fmt.Errorf", "errors.New":
		// a fresh non-nil error whose text is of no interest
		return c41iface{t: types.Typ[types.String], v: c41opaque{"error built by " + fn.Name()}}, true
	}
	return c41opaqueResult(fn.Signature.Results(), "result of "+path+"."+fn.Name()), true
}

// prepareCall evaluates the callee and the arguments of a call now and returns
// the thunk that performs it.
func (fr *c41frame) prepareCall(cc *ssa.CallCommon, at ssa.Instruction) func() c41val {
	it := fr.it
	args := make([]c41val, 0, len(cc.Args)+1)
	if cc.IsInvoke() {
		recv, ok := fr.get(cc.Value).(c41iface)
		if !ok {
			c41undecided("method call on a value outside the model at %s", at.String())
		}
		if recv.t == nil {
			c41panic("method call on nil interface at %s", at.String())
		}
		if _, op := recv.v.(c41opaque); op {
			c41undecided("method %s called on %s", cc.Method.Name(), recv.v.(c41opaque).what)
		}
		if o, isObj := recv.v.(*c41obj); isObj {
			if it.invoke == nil {
				c41undecided("method %s called on a model object", cc.Method.Name())
			}
			for _, a := range cc.Args {
				args = append(args, fr.get(a))
			}
			name := cc.Method.Name()
			return func() c41val { return it.invoke(o, name, args) }
		}
		m := it.prog.LookupMethod(recv.t, cc.Method.Pkg(), cc.Method.Name())
		if m == nil {
			c41undecided("method %s of %s not found", cc.Method.Name(), recv.t.String())
		}
		args = append(args, recv.v)
		for _, a := range cc.Args {
			args = append(args, fr.get(a))
		}
		return func() c41val { return it.callFn(m, args, nil) }
	}
	for _, a := range cc.Args {
		args = append(args, fr.get(a))
	}
	switch callee := cc.Value.(type) {
	case *ssa.Builtin:
		return func() c41val { return fr.builtin(callee, cc, args, at) }
	case *ssa.Function:
		return func() c41val { return it.callFn(callee, args, nil) }
	}
	switch cl := fr.get(cc.Value).(type) {
	case *c41closure:
		if cl == nil {
			c41panic("call of nil function at %s", at.String())
		}
		if cl.native != nil {
			return func() c41val { return cl.native(args) }
		}
		return func() c41val { return it.callFn(cl.fn, args, cl.fv) }
	case c41opaque:
		c41undecided("call of %s", cl.what)
	}
	c41undecided("call of a value outside the model at %s", at.String())
	return nil
}

func c41len(v c41val, at ssa.Instruction) int64 {
	switch x := v.(type) {
	case string:
		return int64(len(x))
	case []c41val:
		return int64(len(x))
	case *c41map:
		if x == nil {
			return 0
		}
		return int64(len(x.m))
	case c41array:
		return int64(len(x))
	case *c41val:
		if x != nil {
			if a, ok := (*x).(c41array); ok {
				return int64(len(a))
			}
		}
	case c41opaque:
		c41undecided("len of %s", x.what)
	}
	c41undecided("len of a value outside the model at %s", at.String())
	return 0
}

func (fr *c41frame) builtin(b *ssa.Builtin, cc *ssa.CallCommon, args []c41val, at ssa.Instruction) c41val {
	switch b.Name() {
	case "len":
		return c41len(args[0], at)
	case "cap":
		if s, ok := args[0].([]c41val); ok {
			return int64(cap(s))
		}
		return c41len(args[0], at)
	case "append":
		s, ok := args[0].([]c41val)
		if !ok {
			c41undecided("append to a value outside the model at %s", at.String())
		}
		switch t := args[1].(type) {
		case []c41val:
			if len(t) == 0 {
				return s
			}
			for _, e := range t {
				s = append(s, c41copy(e))
			}
			return s
		case string:
			for i := 0; i < len(t); i++ {
				s = append(s, int64(t[i]))
			}
			return s
		}
		c41undecided("append of a value outside the model at %s", at.String())
	case "copy":
		d, ok := args[0].([]c41val)
		if !ok {
			c41undecided("copy to a value outside the model at %s", at.String())
		}
		switch s := args[1].(type) {
		case []c41val:
			n := min(len(d), len(s))
			tmp := make([]c41val, n)
			for i := 0; i < n; i++ {
				tmp[i] = c41copy(s[i])
			}
			for i := 0; i < n; i++ {
				c41store(&d[i], tmp[i])
			}
			return int64(n)
		case string:
			n := min(len(d), len(s))
			for i := 0; i < n; i++ {
				d[i] = int64(s[i])
			}
			return int64(n)
		}
		c41undecided("copy from a value outside the model at %s", at.String())
	case "delete":
		if m, _ := args[0].(*c41map); m != nil {
			k := c41key(args[1])
			if _, ok := m.m[k]; ok {
				delete(m.m, k)
				for i, kk := range m.keys {
					if kk == k {
						m.keys = append(m.keys[:i:i], m.keys[i+1:]...)
						break
					}
				}
			}
		}
		return nil
	case "clear":
		switch x := args[0].(type) {
		case *c41map:
			if x != nil {
				x.m, x.keys = map[any]c41val{}, nil
			}
		case []c41val:
			if len(x) > 0 {
				et := cc.Args[0].Type().Underlying().(*types.Slice).Elem()
				for i := range x {
					c41store(&x[i], c41zero(et))
				}
			}
		}
		return nil
	case "min", "max":
		best := args[0]
		for _, a := range args[1:] {
			less := false
			switch x := a.(type) {
			case int64:
				less = x < best.(int64)
			case string:
				less = x < best.(string)
			default:
				c41undecided("%s of a value outside the model", b.Name())
			}
			if less == (b.Name() == "min") && !c41equal(a, best) {
				best = a
			}
		}
		return best
	case "recover":
		return c41iface{}
	case "print", "println":
		return nil
	case "ssa:wrapnilchk":
		if p, ok := args[0].(*c41val); ok && p == nil {
			c41panic("nil receiver at %s", at.String())
		}
		return args[0]
	}
	c41undecided("builtin %s not modelled", b.Name())
	return nil
}

func (fr *c41frame) eval(v ssa.Value, at ssa.Instruction) c41val {
	switch x := v.(type) {
	case *ssa.Alloc:
		p := new(c41val)
		*p = c41zero(x.Type().(*types.Pointer).Elem())
		return p
	case *ssa.Call:
		return fr.prepareCall(x.Common(), x)()
	case *ssa.BinOp:
		return fr.binop(x)
	case *ssa.UnOp:
		switch x.Op {
		case token.MUL:
			return c41copy(*c41deref(fr.get(x.X), x))
		case token.NOT:
			switch b := fr.get(x.X).(type) {
			case bool:
				return !b
			case c41opaque:
				return b
			}
		case token.SUB:
			return c41wrap(x.Type(), -fr.int(x.X))
		case token.XOR:
			return c41wrap(x.Type(), ^fr.int(x.X))
		}
		c41undecided("operator %s not modelled", x.String())
	case *ssa.ChangeType:
		return fr.get(x.X)
	case *ssa.ChangeInterface:
		return fr.get(x.X)
	case *ssa.MakeInterface:
		return c41iface{t: x.X.Type(), v: fr.get(x.X)}
	case *ssa.Convert:
		return fr.convert(x)
	case *ssa.Extract:
		switch t := fr.get(x.Tuple).(type) {
		case c41tuple:
			return t[x.Index]
		case c41opaque:
			return t
		}
		c41undecided("extract from a non-tuple at %s", x.String())
	case *ssa.Field:
		switch s := fr.get(x.X).(type) {
		case c41struct:
			return c41copy(s[x.Field])
		case c41opaque:
			return s
		}
		c41undecided("field of a value outside the model at %s", x.String())
	case *ssa.FieldAddr:
		p := c41deref(fr.get(x.X), x)
		s, ok := (*p).(c41struct)
		if !ok {
			c41undecided("field address in a value outside the model at %s", x.String())
		}
		return &s[x.Field]
	case *ssa.IndexAddr:
		k := fr.int(x.Index)
		switch b := fr.get(x.X).(type) {
		case []c41val:
			if k < 0 || k >= int64(len(b)) {
				c41panic("index %d out of range [0,%d) at %s", k, len(b), x.String())
			}
			return &b[k]
		case *c41val:
			a, ok := (*c41deref(b, x)).(c41array)
			if ok {
				if k < 0 || k >= int64(len(a)) {
					c41panic("index %d out of range [0,%d) at %s", k, len(a), x.String())
				}
				return &a[k]
			}
		case c41opaque:
			c41undecided("indexing of %s", b.what)
		}
		c41undecided("indexing of a value outside the model at %s", x.String())
	case *ssa.Index:
		k := fr.int(x.Index)
		switch b := fr.get(x.X).(type) {
		case c41array:
			if k < 0 || k >= int64(len(b)) {
				c41panic("index out of range at %s", x.String())
			}
			return c41copy(b[k])
		case string:
			if k < 0 || k >= int64(len(b)) {
				c41panic("index out of range at %s", x.String())
			}
			return int64(b[k])
		}
		c41undecided("indexing of a value outside the model at %s", x.String())
	case *ssa.Lookup:
		switch m := fr.get(x.X).(type) {
		case string:
			k := fr.int(x.Index)
			if k < 0 || k >= int64(len(m)) {
				c41panic("index out of range at %s", x.String())
			}
			return int64(m[k])
		case *c41map:
			var val c41val
			found := false
			if m != nil {
				val, found = m.m[c41key(fr.get(x.Index))]
			}
			if !found {
				val = c41zero(x.X.Type().Underlying().(*types.Map).Elem())
			}
			if x.CommaOk {
				return c41tuple{c41copy(val), found}
			}
			return c41copy(val)
		case c41opaque:
			c41undecided("lookup in %s", m.what)
		}
		c41undecided("lookup in a value outside the model at %s", x.String())
	case *ssa.Slice:
		return fr.slice(x)
	case *ssa.MakeSlice:
		n, cp := fr.int(x.Len), fr.int(x.Cap)
		if n < 0 || cp < n || cp > 1<<16 {
			c41panic("makeslice: len/cap out of range at %s", x.String())
		}
		s := make([]c41val, n, cp)
		et := x.Type().Underlying().(*types.Slice).Elem()
		full := s[:cp]
		for i := range full {
			full[i] = c41zero(et)
		}
		return s
	case *ssa.MakeMap:
		return &c41map{m: map[any]c41val{}}
	case *ssa.MakeClosure:
		cl := &c41closure{fn: x.Fn.(*ssa.Function)}
		for _, b := range x.Bindings {
			cl.fv = append(cl.fv, fr.get(b))
		}
		return cl
	case *ssa.TypeAssert:
		return fr.typeAssert(x)
	case *ssa.Range:
		switch c := fr.get(x.X).(type) {
		case *c41map:
			itr := &c41iter{m: c}
			if c != nil {
				itr.keys = append([]any(nil), c.keys...)
			}
			return itr
		case string:
			return &c41iter{isS: true, str: []rune(c)}
		}
		c41undecided("range over a value outside the model at %s", x.String())
	case *ssa.Next:
		itr, ok := fr.get(x.Iter).(*c41iter)
		if !ok {
			c41undecided("iterator outside the model at %s", x.String())
		}
		if itr.isS {
			if itr.pos >= len(itr.str) {
				return c41tuple{false, int64(0), int64(0)}
			}
			off := len(string(itr.str[:itr.pos]))
			r := itr.str[itr.pos]
			itr.pos++
			return c41tuple{true, int64(off), int64(r)}
		}
		for itr.pos < len(itr.keys) {
			k := itr.keys[itr.pos]
			itr.pos++
			if val, ok := itr.m.m[k]; ok {
				return c41tuple{true, k, c41copy(val)}
			}
		}
		mt := x.Iter.(*ssa.Range).X.Type().Underlying().(*types.Map)
		return c41tuple{false, c41zero(mt.Key()), c41zero(mt.Elem())}
	}
	c41undecided("instruction %s in %s not modelled", at.String(), fr.fn.Name())
	return nil
}

func (fr *c41frame) typeAssert(x *ssa.TypeAssert) c41val {
	var i c41iface
	switch t := fr.get(x.X).(type) {
	case c41iface:
		i = t
	case c41opaque:
		c41undecided("type assertion on %s", t.what)
	default:
		c41undecided("type assertion on a value outside the model at %s", x.String())
	}
	if _, op := i.v.(c41opaque); op && i.t != nil {
		c41undecided("type assertion on %s", i.v.(c41opaque).what)
	}
	ok := false
	var res c41val
	if it, isI := x.AssertedType.Underlying().(*types.Interface); isI {
		ok = i.t != nil && types.Implements(i.t, it)
		if ok {
			res = i
		} else {
			res = c41iface{}
		}
	} else {
		ok = i.t != nil && types.Identical(i.t, x.AssertedType)
		if ok {
			res = i.v
		} else {
			res = c41zero(x.AssertedType)
		}
	}
	if x.CommaOk {
		return c41tuple{res, ok}
	}
	if !ok {
		c41panic("failed type assertion at %s", x.String())
	}
	return res
}

func (fr *c41frame) slice(x *ssa.Slice) (res c41val) {
	defer func() {
		if r := recover(); r != nil {
			if s, ok := r.(c41stop); ok {
				panic(s)
			}
			c41panic("slice bounds out of range at %s", x.String())
		}
	}()
	opt := func(v ssa.Value, def int) int {
		if v == nil {
			return def
		}
		return int(fr.int(v))
	}
	switch b := fr.get(x.X).(type) {
	case string:
		return b[opt(x.Low, 0):opt(x.High, len(b))]
	case []c41val:
		lo, hi := opt(x.Low, 0), opt(x.High, len(b))
		if x.Max != nil {
			return b[lo:hi:opt(x.Max, 0)]
		}
		return b[lo:hi]
	case *c41val:
		a, ok := (*c41deref(b, x)).(c41array)
		if ok {
			s := []c41val(a)
			lo, hi := opt(x.Low, 0), opt(x.High, len(s))
			if x.Max != nil {
				return s[lo:hi:opt(x.Max, 0)]
			}
			return s[lo:hi]
		}
	case c41opaque:
		c41undecided("slicing of %s", b.what)
	}
	c41undecided("slicing of a value outside the model at %s", x.String())
	return nil
}

func (fr *c41frame) convert(x *ssa.Convert) c41val {
	v := fr.get(x.X)
	from, to := x.X.Type().Underlying(), x.Type().Underlying()
	fb, _ := from.(*types.Basic)
	tb, _ := to.(*types.Basic)
	switch {
	case fb != nil && tb != nil && fb.Info()&types.IsInteger != 0 && tb.Info()&types.IsInteger != 0:
		if n, ok := v.(int64); ok {
			return c41wrap(x.Type(), n)
		}
	case fb != nil && tb != nil && fb.Info()&types.IsString != 0 && tb.Info()&types.IsString != 0:
		return v
	case fb != nil && fb.Info()&types.IsString != 0 && tb == nil:
		if s, ok := v.(string); ok {
			if sl, isSl := to.(*types.Slice); isSl {
				if eb, _ := sl.Elem().Underlying().(*types.Basic); eb != nil && eb.Kind() == types.Uint8 {
					out := make([]c41val, len(s))
					for i := 0; i < len(s); i++ {
						out[i] = int64(s[i])
					}
					return out
				}
			}
		}
	case tb != nil && tb.Info()&types.IsString != 0 && fb == nil:
		if s, ok := v.([]c41val); ok {
			if sl, isSl := from.(*types.Slice); isSl {
				if eb, _ := sl.Elem().Underlying().(*types.Basic); eb != nil && eb.Kind() == types.Uint8 {
					var sb strings.Builder
					for _, e := range s {
						n, ok := e.(int64)
						if !ok {
							c41undecided("conversion of unknown bytes to string")
						}
						sb.WriteByte(byte(n))
					}
					return sb.String()
				}
			}
		}
	case tb != nil && tb.Info()&types.IsString != 0 && fb != nil && fb.Info()&types.IsInteger != 0:
		if n, ok := v.(int64); ok {
			return string(rune(n))
		}
	}
	if o, ok := v.(c41opaque); ok {
		return o
	}
	if _, isPtr := to.(*types.Pointer); isPtr {
		return v
	}
	return c41opaque{"conversion " + x.String()}
}

func (fr *c41frame) binop(x *ssa.BinOp) c41val {
	a, b := fr.get(x.X), fr.get(x.Y)
	if x.Op == token.EQL {
		return c41equal(a, b)
	}
	if x.Op == token.NEQ {
		return !c41equal(a, b)
	}
	if o, ok := a.(c41opaque); ok {
		return o
	}
	if o, ok := b.(c41opaque); ok {
		return o
	}
	switch p := a.(type) {
	case string:
		q, ok := b.(string)
		if !ok {
			break
		}
		switch x.Op {
		case token.ADD:
			return p + q
		case token.LSS:
			return p < q
		case token.LEQ:
			return p <= q
		case token.GTR:
			return p > q
		case token.GEQ:
			return p >= q
		}
	case int64:
		q, ok := b.(int64)
		if !ok {
			break
		}
		uns := c41isUnsigned(x.X.Type())
		switch x.Op {
		case token.ADD:
			return c41wrap(x.Type(), p+q)
		case token.SUB:
			return c41wrap(x.Type(), p-q)
		case token.MUL:
			return c41wrap(x.Type(), p*q)
		case token.QUO:
			if q == 0 {
				c41panic("division by zero")
			}
			if uns {
				return c41wrap(x.Type(), int64(uint64(p)/uint64(q)))
			}
			return c41wrap(x.Type(), p/q)
		case token.REM:
			if q == 0 {
				c41panic("division by zero")
			}
			if uns {
				return c41wrap(x.Type(), int64(uint64(p)%uint64(q)))
			}
			return c41wrap(x.Type(), p%q)
		case token.AND:
			return p & q
		case token.OR:
			return p | q
		case token.XOR:
			return c41wrap(x.Type(), p^q)
		case token.AND_NOT:
			return p &^ q
		case token.SHL:
			if q < 0 {
				c41panic("negative shift")
			}
			if q >= 64 {
				return int64(0)
			}
			return c41wrap(x.Type(), p<<uint(q))
		case token.SHR:
			if q < 0 {
				c41panic("negative shift")
			}
			if uns {
				if q >= 64 {
					return int64(0)
				}
				return int64(uint64(p) >> uint(q))
			}
			if q >= 64 {
				q = 63
			}
			return p >> uint(q)
		case token.LSS:
			if uns {
				return uint64(p) < uint64(q)
			}
			return p < q
		case token.LEQ:
			if uns {
				return uint64(p) <= uint64(q)
			}
			return p <= q
		case token.GTR:
			if uns {
				return uint64(p) > uint64(q)
			}
			return p > q
		case token.GEQ:
			if uns {
				return uint64(p) >= uint64(q)
			}
			return p >= q
		}
	case bool:
		q, ok := b.(bool)
		if !ok {
			break
		}
		switch x.Op {
		case token.AND, token.LAND:
			return p && q
		case token.OR, token.LOR:
			return p || q
		}
	}
	c41undecided("operator %s not modelled", x.String())
	return nil
}

// c41native: standard-library leaves that are implemented in assembly (no SSA
// body), computed natively on concrete operands.
func c41native(name string, args []c41val) (c41val, bool) {
	str := func(v c41val) (string, bool) {
		switch x := v.(type) {
		case string:
			return x, true
		case []c41val:
			b := make([]byte, len(x))
			for i, e := range x {
				n, ok := e.(int64)
				if !ok {
					return "", false
				}
				b[i] = byte(n)
			}
			return string(b), true
		}
		return "", false
	}
	switch name {
	case "strings.Compare", "internal/bytealg.CompareString", "bytes.Compare", "internal/bytealg.Compare":
		if len(args) == 2 {
			a, ok1 := str(args[0])
			b, ok2 := str(args[1])
			if ok1 && ok2 {
				return int64(strings.Compare(a, b)), true
			}
		}
	case "internal/bytealg.Equal":
		if len(args) == 2 {
			a, ok1 := str(args[0])
			b, ok2 := str(args[1])
			if ok1 && ok2 {
				return a == b, true
			}
		}
	case "internal/bytealg.IndexByte", "internal/bytealg.IndexByteString":
		if len(args) == 2 {
			a, ok1 := str(args[0])
			b, ok2 := args[1].(int64)
			if ok1 && ok2 {
				return int64(strings.IndexByte(a, byte(b))), true
			}
		}
	}
	return nil, false
}
