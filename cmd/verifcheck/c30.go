package main

import (
	"fmt"
	"go/token"
	"sort"
	"strings"

	"golang.org/x/tools/go/ssa"
)

func init() {
	register(&propDef{
		id: "C30", run: runC30, minOblig: 14,
		explanation: "Decides the strict-KEX (Terrapin) control structure by interpretation, independent of how the code is factored into helpers. (seq reset) connectionState.readPacket and .writePacket are interpreted (path walker, helpers of the package interpreted in place, deferred calls and closures interpreted when the function that deferred them returns, results spilled to local cells forwarded, the non-blocking receive of pending key material modelled) for every combination of {strict flag, packet empty/non-empty, packet type, key material pending}: the cipher is applied with the current sequence number and the current keys, the keys are swapped exactly on NEWKEYS with pending key material, and the sequence number afterwards is 0 exactly when the keys were swapped under the strict flag and old+1 otherwise; every caller passes the transport's own strictMode flag; connectionState.seqNum is written only by these two functions and helpers called only from them (who-may-write over package ssh), and only as seqNum+1 or 0. (activation) transport.setStrictMode, interpreted for read sequence numbers {0,1,2,3,2^32-1}, sets the flag and returns nil only for 1; handshakeTransport.enterKeyExchange is interpreted up to the point where no request is possible any more, for all 16 combinations of {first exchange, isClient, peer lists kex-strict-s, peer lists kex-strict-c}: setStrictMode is called (and handshakeTransport.strictMode set) exactly on the first exchange when the PEER's KEXINIT (the record Unmarshal fills from the packet parameter, followed through phis and helpers; membership decided for slices.Contains/slices.Index on the tagged list and, for hand-written loops, by giving both KexAlgos lists concrete two-element content) lists the peer-role marker; a failing setStrictMode aborts the exchange; sendKexInit puts exactly our role's marker into a list while sessionID == nil and none on a re-key (finite-domain evaluation over the function and its helpers). (no skipping) transport.readPacket, interpreted, reads a further packet exactly when the one just read is non-empty IGNORE/DEBUG and not (strict && !initialKEXDone); readLoop delivers a packet to the incoming channel within the iteration exactly when not IGNORE/DEBUG or (first exchange && strict); readOnePacket(first=true) has a non-error return reachable only for KEXINIT — the latter two by finite-domain evaluation in which helper parameters take their arguments' values and helper calls the value their reachable returns agree on; setInitialKEXDone and the nil return of enterKeyExchange are reachable only across the edge on which a packet read from the peer compared equal to NEWKEYS (interprocedural must-cross; a helper all of whose accepting returns lie behind that edge establishes it for its caller), and setInitialKEXDone is unreachable when sessionID is non-nil/non-empty (`== nil` and `len(..) == 0` tests read the same). NOT decided: that every injected/deleted packet breaks the cryptographic handshake (follows from sequence numbers entering the MAC, C25, plus these clauses).",
		assumptions: []string{"message type constants msgIgnore/msgDebug/msgNewKeys/msgKexInit as declared in the package", "struct field names of connectionState/transport/handshakeTransport (seqNum, packetCipher, pendingKeyChange, strictMode, initialKEXDone, sessionID, hostKeys, sentInitMsg, incoming) identify the state; parameters are identified by type and provenance, locals not at all"},
	})
	tech("C30", "abstract interpretation (path walker with helpers interpreted in place) of the sequence-number/strict-mode state machine + interprocedural finite-domain evaluation of flag/packet-type conditions + interprocedural must-cross + who-may-write table")
}

type c30Consts struct {
	ignore, debug, newKeys, kexInit int64
}

func runC30(c *Ctx) {
	var k c30Consts
	var ok1, ok2 bool
	k.ignore, _ = pkgConstInt(c, "ssh", "msgIgnore")
	k.debug, _ = pkgConstInt(c, "ssh", "msgDebug")
	k.newKeys, ok1 = pkgConstInt(c, "ssh", "msgNewKeys")
	k.kexInit, ok2 = pkgConstInt(c, "ssh", "msgKexInit")
	if !ok1 || !ok2 || k.ignore == 0 || k.debug == 0 {
		c.fail("anchor", "ssh message constants", nil, "msgIgnore/msgDebug/msgNewKeys/msgKexInit not found")
		return
	}
	c30SeqReset(c, k)
	c30SeqWriters(c)
	c30SetStrict(c)
	c30Enter(c, k)
	c30OwnMarker(c)
	c30SkipTransport(c, k)
	c30SkipReadLoop(c, k)
	c30FirstPacket(c, k)
}

func c30PacketName(k c30Consts, ln, p0 int64) string {
	if ln == 0 {
		return "empty packet"
	}
	switch p0 {
	case k.newKeys:
		return "NEWKEYS packet"
	case k.ignore:
		return "IGNORE packet"
	case k.debug:
		return "DEBUG packet"
	case k.kexInit:
		return "KEXINIT packet"
	}
	return fmt.Sprintf("packet of type %d", p0)
}

// ---- (a) sequence number reset --------------------------------------------

// c30IsCipherInvoke: an invoke on the value of connectionState.packetCipher
// (readCipherPacket / writeCipherPacket: first argument is the sequence number).
func c30IsCipherInvoke(cc *ssa.CallCommon) bool {
	return cc.IsInvoke() && len(cc.Args) > 0 && isField(cc.Value, "connectionState", "packetCipher")
}

func c30SeqReset(c *Ctx, k c30Consts) {
	for _, dir := range []struct {
		name string
		read bool
	}{{"(*connectionState).readPacket", true}, {"(*connectionState).writePacket", false}} {
		f := c.fn("ssh", dir.name)
		if f == nil {
			continue
		}
		strict := c30BoolParam(f)
		var pkt *ssa.Parameter
		if !dir.read {
			pkt = c30BytesParam(f)
		}
		if strict == nil || len(f.Params) == 0 || (!dir.read && pkt == nil) {
			c.fail("C30.seq-reset", dir.name, f, "anchors not found: the strict-mode flag (the single bool parameter) / the packet to write (the single []byte parameter)")
			continue
		}
		recv := f.Params[0].Name()
		const seq0 = 7
		bad, n := "", 0
		for sv := int64(0); sv < 2 && bad == ""; sv++ {
			for _, ln := range []int64{0, 1} {
				for _, p0 := range []int64{k.newKeys, 1, k.ignore, k.debug, k.kexInit, 90} {
					if ln == 0 && p0 != k.newKeys {
						continue
					}
					// pending key material no/yes; case 2: the cipher itself fails
					// (nothing read; on writing the packet is the one given)
					for pc := int64(0); pc < 3; pc++ {
						pending, cerr := pc, int64(0)
						if pc == 2 {
							if p0 != k.newKeys {
								continue
							}
							pending, cerr = 1, 1
						}
						tr := newC30Trace()
						w := c30Walker(f, tr, map[string]bool{"Unmarshal": true}, func(w *pathWalker, g *ssa.Function) { c30ModelSelects(w, g, pending == 1) })
						w.state[recv+".seqNum"] = seq0
						w.state[recv+".packetCipher"] = 1
						w.env.bind(strict, sv)
						if pkt != nil {
							w.env.bind(pkt, ln)
							w.off[pkt] = p0
						}
						c30OnCall(w, tr, func(w *pathWalker, ci ssa.CallInstruction) string {
							cc := ci.Common()
							if !c30IsCipherInvoke(cc) {
								return ""
							}
							ev := "io"
							if s, ok := w.env.eval(cc.Args[0]); ok {
								ev += fmt.Sprintf(":seq=%d", s)
							} else {
								ev += ":seq=?"
							}
							if s, ok := w.env.eval(cc.Value); ok {
								ev += fmt.Sprintf(":cipher=%d", s)
							} else {
								ev += ":cipher=?"
							}
							if call, ok := ci.(*ssa.Call); ok {
								if call.Call.Signature().Results().Len() == 2 {
									w.tuple[call] = []optInt{{ln * (1 - cerr), true}, {cerr, true}}
								} else {
									w.env.bind(call, cerr)
								}
							}
							return ev
						})
						w.onExtract = func(w *pathWalker, ex *ssa.Extract) {
							if call, ok := ex.Tuple.(*ssa.Call); ok && ex.Index == 0 && c30IsCipherInvoke(&call.Call) {
								w.off[ex] = p0
							}
						}
						end := c30Run(w, tr, f)
						n++
						seq := w.state[recv+".seqNum"]
						ciph := w.state[recv+".packetCipher"]
						isNK := ln > 0 && p0 == k.newKeys
						wantSwap := isNK && pending == 1
						wantSeq := int64(seq0 + 1)
						if wantSwap && sv == 1 {
							wantSeq = 0
						}
						desc := fmt.Sprintf("strictMode=%d, %s, key material pending=%d", sv, c30PacketName(k, ln, p0), pending)
						io, _ := c30HasEvent(w, "io")
						switch {
						case end != "return" && end != "panic":
							bad = desc + ": evaluation ended " + end + " (" + w.why + ")"
						case end == "panic" && !(isNK && pending == 0):
							bad = desc + ": panics"
						case w.oob:
							bad = desc + ": indexes the packet out of range"
						case io != fmt.Sprintf("io:seq=%d:cipher=1", seq0):
							bad = desc + ": the cipher is not applied with the current sequence number and the current keys (observed " + io + ")"
						case cerr == 1:
							// a failed cipher operation ends the connection; the counter
							// must not restart unless new keys were installed in strict mode
							if seq != seq0 && seq != seq0+1 && !(seq == 0 && ciph == 2 && sv == 1) {
								bad = desc + fmt.Sprintf(", cipher error: sequence number afterwards is %d (before: %d)", seq, seq0)
							}
						case (ciph == 2) != wantSwap:
							bad = desc + fmt.Sprintf(": keys swapped=%v, specification %v", ciph == 2, wantSwap)
						case isNK && pending == 0:
							// NEWKEYS without key material must not be accepted
							if end == "return" {
								if e, ok := c30ErrVal(w, f.Signature.Results().Len()-1); !ok || e != 1 {
									bad = desc + ": NEWKEYS without key material is not rejected"
								}
							}
						case seq != wantSeq:
							bad = desc + fmt.Sprintf(": sequence number after the packet is %d (before: %d), specification %d", seq, seq0, wantSeq)
						}
						if bad != "" {
							break
						}
					}
				}
			}
		}
		c.check(bad == "", "C30.seq-reset", dir.name, f, fmt.Sprintf("interpreted on %d cases: keys swapped exactly on NEWKEYS with pending key material; sequence number afterwards 0 exactly when swapped under the strict flag, old+1 otherwise", n), bad)
		c30StrictArg(c, f, dir.name, c30ParamIndex(f, strict))
	}
}

// c30StrictArg: every caller of connectionState.readPacket / writePacket passes
// the transport's own strictMode flag (decided by interpreting the caller with
// the flag false and true and evaluating the argument at the call).
func c30StrictArg(c *Ctx, f *ssa.Function, name string, idx int) {
	bad, n := "", 0
	for _, cs := range c.callersOf(f) {
		caller := cs.Parent()
		if caller == nil || len(caller.Params) == 0 || len(caller.Blocks) == 0 {
			bad = "called from " + fnName(caller) + ", which has no transport receiver"
			continue
		}
		for v := int64(0); v < 2; v++ {
			tr := newC30Trace()
			w := c30Walker(caller, tr, map[string]bool{f.Name(): true}, nil)
			w.state[caller.Params[0].Name()+".strictMode"] = v
			c30OnCall(w, tr, func(w *pathWalker, ci ssa.CallInstruction) string {
				cc := ci.Common()
				if cc.StaticCallee() != f || idx >= len(cc.Args) {
					return ""
				}
				if a, ok := w.env.eval(cc.Args[idx]); ok {
					return fmt.Sprintf("strictarg=%d", a)
				}
				return "strictarg=?"
			})
			c30Run(w, tr, caller)
			n++
			ev, found := c30HasEvent(w, "strictarg=")
			switch {
			case !found:
				bad = fmt.Sprintf("%s with strictMode=%d: the call was not reached by the evaluation", fnName(caller), v)
			case ev != fmt.Sprintf("strictarg=%d", v):
				bad = fmt.Sprintf("%s with transport.strictMode=%d passes strict flag %s", fnName(caller), v, strings.TrimPrefix(ev, "strictarg="))
			}
		}
	}
	if n == 0 && bad == "" {
		bad = "no caller found"
	}
	c.check(bad == "", "C30.seq-reset", "strict flag passed to "+name, f, "every caller passes its transport's strictMode flag", bad)
}

// c30SeqWriters: who may write connectionState.seqNum, and what.
func c30SeqWriters(c *Ctx) {
	rd := c.fnOpt("ssh", "(*connectionState).readPacket")
	wr := c.fnOpt("ssh", "(*connectionState).writePacket")
	allowed := map[*ssa.Function]bool{}
	for _, r := range []*ssa.Function{rd, wr} {
		if r != nil {
			for _, g := range c30Callees(r) {
				allowed[g] = true
			}
		}
	}
	for _, f := range c.funcsOfPkg("ssh") {
		sts := storesTo(f, "connectionState", "seqNum")
		if len(sts) == 0 {
			continue
		}
		nm := fnName(f)
		fresh := true
		bad := ""
		// the value written, evaluated with the old sequence number = 7, is 8 or 0
		// (whatever the expression looks like)
		e := newEnv()
		e.bindField(f, "connectionState", "seqNum", 7)
		e.solve(f)
		for _, st := range sts {
			n, isN := e.eval(st.Val)
			_, isAlloc := st.Addr.(*ssa.FieldAddr).X.(*ssa.Alloc)
			if k, isK := constInt(st.Val); !(isAlloc && isK && k == 0) {
				fresh = false
			}
			if !isN || (n != 8 && n != 0) {
				bad = "seqNum is assigned something other than seqNum+1 or 0"
			}
		}
		if fresh {
			c.ok("C30.seq-writers", nm, f, "initialises the sequence number of a freshly allocated connectionState with 0")
			continue
		}
		switch {
		case !allowed[f]:
			bad = "function writes connectionState.seqNum but is not readPacket/writePacket or a helper of theirs"
		case f != rd && f != wr:
			for _, cs := range c.callersOf(f) {
				if !allowed[cs.Parent()] {
					bad = "helper writes connectionState.seqNum and is also called from " + fnName(cs.Parent())
				}
			}
		}
		c.check(bad == "", "C30.seq-writers", nm, f, "writer of seqNum inside readPacket/writePacket (increment or reset to 0 only)", bad)
	}
}

// ---- (b) activation -------------------------------------------------------

func c30SetStrict(c *Ctx) {
	f := c.fn("ssh", "(*transport).setStrictMode")
	if f == nil || len(f.Params) == 0 {
		return
	}
	recv := f.Params[0].Name()
	bad := ""
	for _, d := range []int64{0, 1, 2, 3, 0xFFFFFFFF} {
		tr := newC30Trace()
		w := c30Walker(f, tr, nil, nil)
		w.state[recv+".reader.seqNum"] = d
		w.state[recv+".strictMode"] = 0
		end := c30Run(w, tr, f)
		flag := w.state[recv+".strictMode"]
		e, eok := c30ErrVal(w, 0)
		switch {
		case bad != "":
			// keep the first failing case
		case end != "return":
			bad = fmt.Sprintf("read sequence number %d: evaluation ended %s (%s)", d, end, w.why)
		case (flag == 1) != (d == 1):
			bad = fmt.Sprintf("read sequence number %d: strict mode enabled=%v", d, flag == 1)
		case !eok || (e == 0) != (d == 1):
			bad = fmt.Sprintf("read sequence number %d: strict mode enabled=%v but the returned error is nil=%v", d, flag == 1, eok && e == 0)
		}
	}
	c.check(bad == "", "C30.activation-seq", "(*transport).setStrictMode", f, "enabled (and nil returned) only when exactly one packet (the peer's KEXINIT) has been read", bad)
}

func c30Enter(c *Ctx, k c30Consts) {
	f := c.fn("ssh", "(*handshakeTransport).enterKeyExchange")
	if f == nil {
		return
	}
	const rule = "C30.activation"
	const cons = "(*handshakeTransport).enterKeyExchange"
	isSetStrict := func(in ssa.Instruction) bool {
		cc := callCommon(in)
		return cc != nil && strings.HasSuffix(calleeName(cc), ".setStrictMode")
	}
	isSetDone := func(in ssa.Instruction) bool {
		cc := callCommon(in)
		return cc != nil && strings.HasSuffix(calleeName(cc), ".setInitialKEXDone")
	}
	var setStrict, setDone []ssa.Instruction
	deepInstrs(f, func(in ssa.Instruction) {
		if isSetStrict(in) {
			setStrict = append(setStrict, in)
		}
		if isSetDone(in) {
			setDone = append(setDone, in)
		}
	})
	pktParam := c30BytesParam(f)
	if len(setStrict) == 0 || len(setDone) == 0 || pktParam == nil || len(f.Params) == 0 {
		c.fail(rule, cons, f, fmt.Sprintf("anchors not found: setStrictMode calls=%d setInitialKEXDone calls=%d (in the function or its helpers), peer KEXINIT packet parameter=%v", len(setStrict), len(setDone), pktParam != nil))
		return
	}
	recv := f.Params[0].Name()
	// one interpretation of the function up to the point where strict mode can
	// no longer be requested
	type outcome struct {
		requested bool
		flag      int64
		end       string
		errv      int64
		errOK     bool
		why       string
		lists     string
	}
	run := func(first, ic, hasS, hasC int64, failStrict bool) outcome {
		tr := newC30Trace()
		ids := map[string]int64{}
		w := c30Walker(f, tr, map[string]bool{"Unmarshal": true, "findAgreedAlgorithms": true}, func(w *pathWalker, g *ssa.Function) { c30BindStrings(w.env, g, ids) })
		// the two KEXINIT algorithm lists have concrete content, so that a
		// hand-written membership loop evaluates like slices.Contains: the
		// peer's list is [kex-strict-s or other, kex-strict-c or other], ours
		// (worst case) lists both markers
		packetByte := w.onLoad
		w.onLoad = func(w *pathWalker, u *ssa.UnOp) (int64, bool) {
			if n, ok := packetByte(w, u); ok {
				return n, true
			}
			if ia, ok := u.X.(*ssa.IndexAddr); ok {
				list := c30Tag(w, ia.X)
				i, iok := w.env.eval(ia.Index)
				if !iok || (i != 0 && i != 1) {
					return 0, false
				}
				marker, has := int64(c30StrS), hasS
				if i == 1 {
					marker, has = c30StrC, hasC
				}
				switch list {
				case "own.KexAlgos":
					return marker, true
				case "peer.KexAlgos":
					if has == 1 {
						return marker, true
					}
					return c30StrOther + i, true
				}
				return 0, false
			}
			switch c30Tag(w, u) {
			case "peer.KexAlgos", "own.KexAlgos":
				return 2, true // the list, by its length
			}
			return 0, false
		}
		w.state[recv+".hostKeys"] = 1 - ic // a client has no host keys
		w.state[recv+".sessionID"] = 1 - first
		w.state[recv+".strictMode"] = 0
		w.cls[pktParam] = "peerpacket"
		c30OnCall(w, tr, func(w *pathWalker, ci ssa.CallInstruction) string {
			cc := ci.Common()
			name := short(calleeName(cc))
			switch {
			case strings.HasSuffix(name, "ssh.Unmarshal") && len(cc.Args) == 2:
				if c30Tag(w, cc.Args[0]) == "peerpacket" {
					w.cls[stripConv(cc.Args[1])] = "peer"
				}
			case (strings.HasPrefix(name, "slices.Contains") || strings.HasPrefix(name, "slices.Index")) && len(cc.Args) == 2:
				list, marker := c30Tag(w, cc.Args[0]), c30Tag(w, cc.Args[1])
				if !strings.HasPrefix(marker, "str:kex-strict-") {
					return ""
				}
				val := int64(-1)
				switch list {
				case "peer.KexAlgos":
					if strings.Contains(marker, "kex-strict-s") {
						val = hasS
					} else {
						val = hasC
					}
				case "own.KexAlgos":
					val = 1 // our own KEXINIT lists our marker on the first exchange: worst case
				}
				if v, ok := ci.(*ssa.Call); ok && val >= 0 {
					if strings.HasPrefix(name, "slices.Index") {
						val-- // index 0 or -1
					}
					w.env.bind(v, val)
				}
				return "lists(" + list + "," + strings.TrimPrefix(marker, "str:") + ")"
			case isSetStrict(ci):
				flag, _ := c30StateSuffix(w, ".strictMode")
				if v, ok := ci.(*ssa.Call); ok {
					if failStrict {
						w.env.bind(v, 1)
					} else {
						w.env.bind(v, 0)
					}
				}
				return fmt.Sprintf("setStrict:flag=%d", flag)
			}
			return ""
		})
		o := outcome{}
		o.end = c30Run(w, tr, f)
		o.why = w.why
		_, o.requested = c30HasEvent(w, "setStrict:")
		o.flag = w.state[recv+".strictMode"]
		if ev, ok := c30HasEvent(w, "setStrict:"); ok && ev != "setStrict:flag=1" {
			o.flag = 0
		}
		for _, ev := range c30Events(w) {
			if strings.HasPrefix(ev, "lists(") {
				o.lists += " " + ev
			}
		}
		if o.end == "return" {
			o.errv, o.errOK = c30ErrVal(w, 0)
		}
		if o.end != "return" && o.end != "panic" {
			// an unfinished evaluation is conclusive when it stopped at a branch
			// from which no setStrictMode call can be reached any more
			vis := tr.visited(w)
			var last *ssa.BasicBlock
			for _, b := range vis {
				if b.Parent() == f {
					last = b
				}
			}
			conclusive := last != nil && strings.HasPrefix(w.why, "branch condition")
			if conclusive {
				for _, s := range last.Succs {
					if deepReachFrom(f, s, nil, isSetStrict) != nil {
						conclusive = false
					}
				}
			}
			if conclusive {
				o.end = "past"
			}
		}
		return o
	}
	bad, badFlag := "", ""
	n := 0
	for first := int64(0); first < 2; first++ {
		for ic := int64(0); ic < 2; ic++ {
			for hasS := int64(0); hasS < 2; hasS++ {
				for hasC := int64(0); hasC < 2; hasC++ {
					o := run(first, ic, hasS, hasC, false)
					n++
					peerListsRole := hasC
					if ic == 1 {
						peerListsRole = hasS
					}
					want := first == 1 && peerListsRole == 1
					desc := fmt.Sprintf("first=%d isClient=%d peer lists kex-strict-s=%d kex-strict-c=%d", first, ic, hasS, hasC)
					switch {
					case o.end == "undecided" || o.end == "stop":
						bad = desc + ": evaluation ended undecided before the strict-mode decision (" + o.why + ")"
					case o.requested != want:
						bad = fmt.Sprintf("%s: strict mode requested=%v, specification %v (consulted:%s)", desc, o.requested, want, o.lists)
					}
					if (o.flag == 1) != o.requested {
						badFlag = fmt.Sprintf("%s: transport strict mode requested=%v but handshakeTransport.strictMode=%d", desc, o.requested, o.flag)
					}
				}
			}
		}
	}
	c.check(bad == "", rule, cons, setStrict[0], fmt.Sprintf("strict mode is requested exactly on the first exchange when the peer's KEXINIT lists the peer-role marker (%d cases interpreted)", n), bad)
	// setStrictMode's error is fatal
	badFatal := ""
	for ic := int64(0); ic < 2; ic++ {
		o := run(1, ic, 1, 1, true)
		switch {
		case !o.requested:
			badFatal = fmt.Sprintf("isClient=%d: setStrictMode is not called although the peer lists the marker", ic)
		case o.end != "return" || !o.errOK || o.errv != 1:
			badFatal = "the error of setStrictMode is ignored: the key exchange goes on after a failed setStrictMode"
		}
	}
	c.check(badFatal == "", rule, "setStrictMode error is fatal", setStrict[0], "a failed setStrictMode aborts the key exchange with an error", badFatal)
	c.check(badFlag == "", rule, "handshake strictMode flag", f, "handshakeTransport.strictMode is set exactly when (and before) the transport's strict mode is requested", badFlag)

	// ---- NEWKEYS gate: nil return and setInitialKEXDone only after a packet
	// read from the peer compared equal to msgNewKeys
	funcs := deepFuncs(f)
	var seeds []ssa.Value
	for _, ci := range deepCalls(f, func(n string) bool { return strings.HasSuffix(n, ".readPacket") }) {
		if call, ok := ci.(*ssa.Call); ok {
			seeds = append(seeds, resultN(call, 0)...)
		}
	}
	pkt := c30Flow(funcs, seeds)
	var byteSeeds []ssa.Value
	deepInstrs(f, func(in ssa.Instruction) {
		if v, ok := in.(ssa.Value); ok && c30IsLoadOfIndex0(v, pkt) {
			byteSeeds = append(byteSeeds, v)
		}
	})
	typeByte := c30Flow(funcs, byteSeeds)
	isGateCmp := func(v ssa.Value) (*ssa.BinOp, bool) {
		bo, ok := v.(*ssa.BinOp)
		if !ok || (bo.Op != token.EQL && bo.Op != token.NEQ) {
			return nil, false
		}
		x, y := bo.X, bo.Y
		if kk, ok := constInt(x); ok && kk == k.newKeys {
			x, y = y, x
		}
		if kk, ok := constInt(y); !ok || kk != k.newKeys {
			return nil, false
		}
		if cv, ok := x.(*ssa.Convert); ok {
			x = cv.X
		}
		return bo, typeByte[x]
	}
	var nk []edge
	deepInstrs(f, func(in ssa.Instruction) {
		if v, ok := in.(ssa.Value); ok {
			if bo, ok := isGateCmp(v); ok {
				y, _ := boolEdges(bo, bo.Op == token.EQL)
				nk = append(nk, y...)
			}
		}
	})
	// helpers that establish the gate for their caller: every accepting return
	// (nil error / true) lies behind the gate, or returns the comparison itself
	established := map[*ssa.Function]bool{}
	accepting := func(h *ssa.Function) (rets []ssa.Instruction, last int, kind predKind, ok bool) {
		res := h.Signature.Results()
		last = res.Len() - 1
		if last < 0 {
			return nil, 0, 0, false
		}
		switch {
		case res.At(last).Type().String() == "error":
			kind = isNil
			rets = acceptReturns(h, last)
		case res.At(last).Type().Underlying().String() == "bool":
			kind = isTrue
			rets = valueReturns(h, last)
		default:
			return nil, 0, 0, false
		}
		var out []ssa.Instruction
		for _, in := range rets {
			r := in.(*ssa.Return)
			v := retVal(r, last)
			if bo, isG := isGateCmp(v); isG && bo.Op == token.EQL {
				continue
			}
			if call, isC := v.(*ssa.Call); isC {
				if g := call.Call.StaticCallee(); g != nil && established[g] {
					continue
				}
			}
			out = append(out, in)
		}
		return out, last, kind, true
	}
	for iter := 0; iter < 3; iter++ {
		for _, h := range funcs[1:] {
			if established[h] {
				continue
			}
			rets, last, kind, ok := accepting(h)
			if !ok {
				continue
			}
			cut := edgeSet{}
			cut.addAll(nk)
			tset := map[ssa.Instruction]bool{}
			for _, r := range rets {
				tset[r] = true
			}
			hasGate := false
			for _, g := range deepFuncs(h) {
				for _, e := range nk {
					if e.from.Parent() == g {
						hasGate = true
					}
				}
				allInstrs(g, func(in ssa.Instruction) {
					if v, ok := in.(ssa.Value); ok {
						if _, isG := isGateCmp(v); isG {
							hasGate = true
						}
					}
				})
			}
			if !hasGate || deepReach(h, cut, func(in ssa.Instruction) bool { return tset[in] }) != nil {
				continue
			}
			established[h] = true
			for _, g := range funcs {
				for _, ci := range calls(g, func(string) bool { return true }) {
					if call, isC := ci.(*ssa.Call); isC && call.Call.StaticCallee() == h {
						y, _ := successEdges(call, last, kind)
						nk = append(nk, y...)
					}
				}
			}
		}
	}
	okRets, _, _, _ := accepting(f)
	c.mustCrossDeep("C30.newkeys-gate", "enterKeyExchange success return", f, okRets, nk, "the peer's next packet == NEWKEYS")
	c.mustCrossDeep("C30.newkeys-gate", "setInitialKEXDone after peer NEWKEYS", f, setDone, nk, "the peer's next packet == NEWKEYS")
	// only in the first exchange
	d := c30DeepSolve(f, func(e *penv, g *ssa.Function) {
		c30BindNilField(e, g, "handshakeTransport", "sessionID", 1)
	})
	at := deepReach(f, d.cut, isSetDone)
	c.check(at == nil, "C30.newkeys-gate", "setInitialKEXDone only in the first exchange", setDone[0], "unreachable when sessionID != nil", "setInitialKEXDone is reachable during a re-key")
}

// c30OwnMarker: our KEXINIT carries exactly our role's kex-strict marker while
// sessionID == nil, and none on a re-key.
func c30OwnMarker(c *Ctx) {
	f := c.fn("ssh", "(*handshakeTransport).sendKexInit")
	if f == nil {
		return
	}
	const cons = "(*handshakeTransport).sendKexInit"
	// the places where a marker string is put into a list: a store of a value
	// that can be a kex-strict constant into an element of an array/slice (the
	// varargs array of append, a composite literal, an indexed assignment)
	var sites []*ssa.Store
	deepInstrs(f, func(in ssa.Instruction) {
		if st, ok := in.(*ssa.Store); ok {
			if _, isElem := st.Addr.(*ssa.IndexAddr); isElem && c30MayBeMarker(st.Val, "kex-strict-", map[ssa.Value]bool{}) {
				sites = append(sites, st)
			}
		}
	})
	if len(sites) == 0 {
		c.fail("C30.own-marker", cons, f, "no place found where a kex-strict marker is put into the algorithm list (in the function or its helpers)")
		return
	}
	bad := ""
	for first := int64(0); first < 2; first++ {
		for server := int64(0); server < 2; server++ {
			d := c30DeepSolve(f, func(e *penv, g *ssa.Function) {
				c30BindNilField(e, g, "handshakeTransport", "sessionID", 1-first)
				e.bindField(g, "handshakeTransport", "sentInitMsg", 0)
				c30BindLenField(e, g, "handshakeTransport", "hostKeys", server)
			})
			got := map[string]bool{}
			for _, st := range sites {
				if deepReach(f, d.cut, func(in ssa.Instruction) bool { return in == ssa.Instruction(st) }) != nil {
					d.c30Strings(st.Val, 0, got)
				}
			}
			var gs []string
			for s := range got {
				gs = append(gs, s)
			}
			sort.Strings(gs)
			role := "client"
			wantSub := "kex-strict-c"
			if server == 1 {
				role, wantSub = "server", "kex-strict-s"
			}
			switch {
			case first == 0 && len(gs) > 0:
				bad = fmt.Sprintf("re-key (sessionID != nil) as %s: a strict-KEX marker can be added to our KEXINIT: %v", role, gs)
			case first == 1 && !(len(gs) == 1 && strings.HasPrefix(gs[0], wantSub)):
				bad = fmt.Sprintf("first exchange as %s: markers added to our KEXINIT: %v, specification exactly %s-*", role, gs, wantSub)
			}
		}
	}
	c.check(bad == "", "C30.own-marker", cons, sites[0], "our KEXINIT carries exactly our role's kex-strict marker while sessionID == nil and none on a re-key", bad)
}

// ---- (c) no skipping ------------------------------------------------------

func c30SkipTransport(c *Ctx, k c30Consts) {
	f := c.fn("ssh", "(*transport).readPacket")
	inner := c.fn("ssh", "(*connectionState).readPacket")
	if f == nil || inner == nil || len(f.Params) == 0 {
		return
	}
	const rule = "C30.skip-transport"
	const cons = "(*transport).readPacket"
	recv := f.Params[0].Name()
	bad := ""
	n := 0
	for _, ln := range []int64{0, 1} {
		for strict := int64(0); strict < 2; strict++ {
			for done := int64(0); done < 2; done++ {
				for _, p0 := range []int64{k.ignore, k.debug, k.newKeys, 1, 3, 5, 90} {
					tr := newC30Trace()
					w := c30Walker(f, tr, map[string]bool{inner.Name(): true}, nil)
					w.state[recv+".strictMode"] = strict
					w.state[recv+".initialKEXDone"] = done
					reads := 0
					types := map[*ssa.Call]int64{}
					c30OnCall(w, tr, func(w *pathWalker, ci ssa.CallInstruction) string {
						call, ok := ci.(*ssa.Call)
						if !ok || call.Call.StaticCallee() != inner {
							return ""
						}
						reads++
						// the packet under test first, then a packet nobody skips
						if reads == 1 {
							w.tuple[call] = []optInt{{ln, true}, {0, true}}
							types[call] = p0
						} else {
							w.tuple[call] = []optInt{{1, true}, {0, true}}
							types[call] = 90
						}
						return "read"
					})
					w.onExtract = func(w *pathWalker, ex *ssa.Extract) {
						if call, ok := ex.Tuple.(*ssa.Call); ok && ex.Index == 0 {
							if t, ok := types[call]; ok {
								w.off[ex] = t
							}
						}
					}
					end := c30Run(w, tr, f)
					n++
					seen := 0
					for _, ev := range c30Events(w) {
						if ev == "read" {
							seen++
						}
					}
					want := ln > 0 && !(strict == 1 && done == 0) && (p0 == k.ignore || p0 == k.debug)
					desc := fmt.Sprintf("len=%d strict=%d initialKEXDone=%d type=%d", ln, strict, done, p0)
					switch {
					case end != "return":
						bad = desc + ": evaluation ended " + end + " (" + w.why + ")"
					case seen != reads || reads < 1 || reads > 2:
						bad = fmt.Sprintf("%s: %d packets read, evaluation inconsistent", desc, reads)
					case w.oob:
						bad = desc + ": the packet is indexed out of range"
					case (reads == 2) != want:
						bad = fmt.Sprintf("%s: packet skipped=%v, specification %v", desc, reads == 2, want)
					}
				}
			}
		}
	}
	c.check(bad == "", rule, cons, f, fmt.Sprintf("IGNORE/DEBUG skipping matches the specification on %d interpreted cases", n), bad)
}

func c30SkipReadLoop(c *Ctx, k c30Consts) {
	f := c.fn("ssh", "(*handshakeTransport).readLoop")
	one := c.fn("ssh", "(*handshakeTransport).readOnePacket")
	if f == nil || one == nil {
		return
	}
	const rule = "C30.skip-readloop"
	const cons = "(*handshakeTransport).readLoop"
	var call *ssa.Call
	for _, ci := range deepCalls(f, func(string) bool { return true }) {
		if cc, ok := ci.(*ssa.Call); ok && cc.Call.StaticCallee() == one && call == nil {
			call = cc
		}
	}
	isSend := func(in ssa.Instruction) bool {
		s, ok := in.(*ssa.Send)
		return ok && isField(s.Chan, "handshakeTransport", "incoming")
	}
	nSend := 0
	deepInstrs(f, func(in ssa.Instruction) {
		if isSend(in) {
			nSend++
		}
	})
	var site ssa.Instruction
	if call != nil {
		site = c30RootSite(f, call)
	}
	if call == nil || nSend == 0 || site == nil {
		c.fail(rule, cons, f, "readOnePacket call or delivery send on the incoming channel not found (in the function or its helpers)")
		return
	}
	funcs := deepFuncs(f)
	pkt := c30Flow(funcs, resultN(call, 0))
	errs := errResult(call)
	back := backEdges(f)
	bad := ""
	n := 0
	for first := int64(0); first < 2; first++ {
		for strict := int64(0); strict < 2; strict++ {
			for _, p0 := range []int64{k.ignore, k.debug, k.newKeys, 1, 3, 5, 90} {
				d := c30DeepSolve(f, func(e *penv, g *ssa.Function) {
					e.bindField(g, "handshakeTransport", "strictMode", strict)
					c30BindNilField(e, g, "handshakeTransport", "sessionID", 1-first)
					c30BindPacket(e, g, pkt, 1, p0)
					for _, ev := range errs {
						e.bind(ev, 0)
					}
				})
				cut := edgeSet{}
				for e := range d.cut {
					cut[e] = true
				}
				for e := range back {
					cut[e] = true
				}
				delivered := deepReachFrom(f, site.Block(), cut, isSend) != nil
				want := (first == 1 && strict == 1) || !(p0 == k.ignore || p0 == k.debug)
				n++
				if delivered != want {
					bad = fmt.Sprintf("first-kex=%d strict=%d type=%d: delivered to the kex/application=%v, specification %v", first, strict, p0, delivered, want)
				}
			}
		}
	}
	c.check(bad == "", rule, cons, call, fmt.Sprintf("IGNORE/DEBUG dropping matches the specification on %d cases", n), bad)
}

// ---- (d) first packet must be KEXINIT -------------------------------------

func c30FirstPacket(c *Ctx, k c30Consts) {
	f := c.fn("ssh", "(*handshakeTransport).readOnePacket")
	if f == nil {
		return
	}
	const rule = "C30.first-packet"
	const cons = "(*handshakeTransport).readOnePacket"
	var call *ssa.Call
	for _, ci := range deepCalls(f, func(n string) bool { return strings.HasSuffix(n, ".readPacket") }) {
		if cc, ok := ci.(*ssa.Call); ok && call == nil {
			call = cc
		}
	}
	first := c30BoolParam(f)
	if call == nil || first == nil {
		c.fail(rule, cons, f, "anchors not found: the read of the next packet / the single bool parameter saying that this is the first packet")
		return
	}
	funcs := deepFuncs(f)
	pkt := c30Flow(funcs, resultN(call, 0))
	errs := errResult(call)
	accept := map[ssa.Instruction]bool{}
	for _, r := range acceptReturns(f, f.Signature.Results().Len()-1) {
		accept[r] = true
	}
	bad := ""
	for _, p0 := range []int64{k.ignore, k.debug, k.newKeys, 1, 5, 50, k.kexInit} {
		d := c30DeepSolve(f, func(e *penv, g *ssa.Function) {
			if g == f {
				e.bind(first, 1)
			}
			c30BindPacket(e, g, pkt, 1, p0)
			for _, ev := range errs {
				e.bind(ev, 0)
			}
		})
		okRet := deepReach(f, d.cut, func(in ssa.Instruction) bool { return accept[in] }) != nil
		if okRet != (p0 == k.kexInit) {
			bad = fmt.Sprintf("first packet of type %d: non-error return reachable=%v", p0, okRet)
		}
	}
	if len(accept) == 0 {
		bad = "no non-error return found"
	}
	c.check(bad == "", rule, cons, call, "the first packet is accepted only if it is KEXINIT", bad)
}
