package main

import (
	"fmt"
	"go/token"
	"strings"

	"golang.org/x/tools/go/ssa"
)

func init() {
	register(&propDef{
		id: "C30", run: runC30, minOblig: 14,
		explanation: "Decides the strict-KEX (Terrapin) control structure: (seq reset) in connectionState.readPacket and .writePacket the store seqNum = 0 is reachable exactly when the strictMode argument is true, only after the cipher swap on NEWKEYS, and seqNum is otherwise only incremented (who-may-write over package ssh); (activation) transport.setStrictMode sets the flag only when the read sequence number is 1, and handshakeTransport.enterKeyExchange calls it (checked) exactly when this is the first exchange and the PEER's KEXINIT lists the peer-role marker (kex-strict-s for a client, kex-strict-c for a server) — evaluated over all 16 combinations of {first, isClient, contains-s, contains-c}; sendKexInit adds our marker only when sessionID == nil; (no skipping) transport.readPacket skips a packet exactly when it is non-empty IGNORE/DEBUG and not (strict && !initialKEXDone), readLoop drops IGNORE/DEBUG exactly when not (first exchange && strict) — all cases evaluated; setInitialKEXDone is reachable only after the peer's packet was compared equal to NEWKEYS in the first exchange, and enterKeyExchange returns nil only over that edge; readOnePacket(first) rejects any first packet that is not KEXINIT. NOT decided: that every injected/deleted packet breaks the cryptographic handshake (follows from sequence numbers entering the MAC, C25, plus these clauses).",
		assumptions: []string{"message type constants msgIgnore/msgDebug/msgNewKeys/msgKexInit as declared in the package"},
	})
	tech("C30", "finite-domain evaluation of flag/packet-type conditions over SSA + must-cross CFG rules + who-may-write table")
}

func runC30(c *Ctx) {
	msgIgnore, _ := pkgConstInt(c, "ssh", "msgIgnore")
	msgDebug, _ := pkgConstInt(c, "ssh", "msgDebug")
	msgNewKeys, ok1 := pkgConstInt(c, "ssh", "msgNewKeys")
	msgKexInit, ok2 := pkgConstInt(c, "ssh", "msgKexInit")
	if !ok1 || !ok2 || msgIgnore == 0 || msgDebug == 0 {
		c.fail("anchor", "ssh message constants", nil, "msgIgnore/msgDebug/msgNewKeys/msgKexInit not found")
		return
	}
	// ---- (a) sequence number reset
	for _, name := range []string{"(*connectionState).readPacket", "(*connectionState).writePacket"} {
		f := c.fn("ssh", name)
		if f == nil {
			continue
		}
		strict := param(f, "strictMode")
		var zero *ssa.Store
		var swaps []*ssa.Store
		good := true
		why := ""
		for _, st := range storesTo(f, "connectionState", "seqNum") {
			if k, ok := constInt(st.Val); ok && k == 0 {
				zero = st
				continue
			}
			bo, ok := st.Val.(*ssa.BinOp)
			if !ok || bo.Op != token.ADD {
				good, why = false, "seqNum is assigned something other than seqNum+1 or 0"
				continue
			}
			if k, ok := constInt(bo.Y); !ok || k != 1 || !isField(bo.X, "connectionState", "seqNum") {
				good, why = false, "seqNum is assigned something other than seqNum+1 or 0"
			}
		}
		swaps = storesTo(f, "connectionState", "packetCipher")
		if strict == nil || zero == nil || len(swaps) != 1 {
			c.fail("C30.seq-reset", name, f, "anchors not found: strictMode parameter, seqNum = 0 store, single cipher swap")
			continue
		}
		for _, v := range []int64{0, 1} {
			e := newEnv()
			e.bind(strict, v)
			e.solve(f)
			if e.reach[zero.Block()] != (v == 1) {
				good, why = false, fmt.Sprintf("with strictMode=%d the store seqNum=0 is reachable=%v", v, e.reach[zero.Block()])
			}
		}
		if !precedes(swaps[0], zero) {
			good, why = false, "seqNum is reset before/without the cipher swap"
		}
		// the swap (and hence the reset) happens only for NEWKEYS
		swapGate := false
		allInstrs(f, func(in ssa.Instruction) {
			if bo, ok := in.(*ssa.BinOp); ok && (bo.Op == token.EQL || bo.Op == token.NEQ) {
				if k, ok := constInt(bo.Y); ok && k == msgNewKeys {
					y, _ := boolEdges(bo, bo.Op == token.EQL)
					cut := edgeSet{}
					cut.addAll(y)
					if len(y) > 0 && !pathFromEntry(swaps[0], cut) {
						swapGate = true
					}
				}
			}
		})
		if !swapGate {
			good, why = false, "the cipher swap is reachable for packets other than NEWKEYS"
		}
		c.check(good, "C30.seq-reset", name, zero, "seqNum = 0 exactly under strictMode, after the cipher swap, on NEWKEYS only; otherwise only incremented", why)
	}
	// who may write seqNum
	for _, f := range c.funcsOfPkg("ssh") {
		if n := len(storesTo(f, "connectionState", "seqNum")); n > 0 {
			nm := fnName(f)
			c.check(nm == "(*connectionState).readPacket" || nm == "(*connectionState).writePacket", "C30.seq-writers", nm, f, "tabled writer of seqNum", "function writes connectionState.seqNum but is not readPacket/writePacket")
		}
	}
	// ---- (b) setStrictMode
	if f := c.fn("ssh", "(*transport).setStrictMode"); f != nil {
		sts := storesTo(f, "transport", "strictMode")
		bad := ""
		if len(sts) != 1 {
			bad = "store of strictMode not found"
		} else {
			for _, d := range []int64{0, 1, 2, 3} {
				e := newEnv()
				e.bindField(f, "connectionState", "seqNum", d)
				e.solve(f)
				if e.reach[sts[0].Block()] != (d == 1) {
					bad = fmt.Sprintf("read sequence number %d: strict mode enabled=%v", d, e.reach[sts[0].Block()])
				}
			}
			if v, ok := constBool(sts[0].Val); !ok || !v {
				bad = "strictMode is not set to true"
			}
		}
		c.check(bad == "", "C30.activation-seq", "(*transport).setStrictMode", f, "enabled only when exactly one packet (the peer's KEXINIT) has been read", bad)
	}
	c30Enter(c, msgNewKeys)
	// sendKexInit: marker only on first exchange
	if f := c.fn("ssh", "(*handshakeTransport).sendKexInit"); f != nil {
		n := 0
		okAll := true
		allInstrs(f, func(in ssa.Instruction) {
			call, ok := in.(*ssa.Call)
			if !ok || calleeName(&call.Call) != "builtin:append" || len(call.Call.Args) < 2 {
				return
			}
			// appended constant string kex-strict-*
			found := ""
			if sl, ok := call.Call.Args[1].(*ssa.Slice); ok {
				if al, ok := sl.X.(*ssa.Alloc); ok {
					for _, r := range *al.Referrers() {
						if ia, ok := r.(*ssa.IndexAddr); ok {
							for _, rr := range *ia.Referrers() {
								if st, ok := rr.(*ssa.Store); ok {
									if s, ok := constString(st.Val); ok && strings.HasPrefix(s, "kex-strict-") {
										found = s
									}
								}
							}
						}
					}
				}
			}
			if found == "" {
				return
			}
			n++
			e := newEnv()
			e.bindNilTests(f, func(v ssa.Value) bool { return isField(v, "handshakeTransport", "sessionID") }, false)
			e.bindNilTests(f, func(v ssa.Value) bool { return isField(v, "handshakeTransport", "sentInitMsg") }, true)
			e.solve(f)
			if e.reach[call.Block()] {
				okAll = false
			}
		})
		c.check(n == 2 && okAll, "C30.own-marker", "(*handshakeTransport).sendKexInit", f, "our KEXINIT carries the kex-strict marker only while sessionID == nil", fmt.Sprintf("kex-strict marker appends found: %d (want 2); reachable on a re-key: %v", n, !okAll))
	}
	// ---- (c) transport.readPacket skipping
	if f := c.fn("ssh", "(*transport).readPacket"); f != nil {
		back := backEdges(f)
		var call *ssa.Call
		for _, ci := range callsNamed(f, "(*ssh.connectionState).readPacket") {
			call = ci.(*ssa.Call)
		}
		if call == nil {
			c.fail("C30.skip-transport", "(*transport).readPacket", f, "inner readPacket call not found")
		} else {
			var pv ssa.Value
			for _, v := range resultN(call, 0) {
				pv = v
			}
			bad := ""
			n := 0
			for _, ln := range []int64{0, 1} {
				for strict := int64(0); strict < 2; strict++ {
					for done := int64(0); done < 2; done++ {
						for _, p0 := range []int64{msgIgnore, msgDebug, msgNewKeys, 1, 3, 5, 90} {
							e := newEnv()
							e.bindLen(f, pv, ln)
							e.bindField(f, "transport", "strictMode", strict)
							e.bindField(f, "transport", "initialKEXDone", done)
							e.bindIndexLoads(f, func(b ssa.Value) bool { return b == pv }, 0, p0)
							for _, ev := range errResult(call) {
								e.bindNilTests(f, func(v ssa.Value) bool { return v == ev }, true)
							}
							cut := e.cuts(f)
							r := reachAfter(call, cut)
							skipped := false
							for be := range back {
								if r[be.from] && !cut[be] {
									// back edge source reachable: but the edge itself must be feasible
									skipped = true
								}
							}
							want := ln > 0 && !(strict == 1 && done == 0) && (p0 == msgIgnore || p0 == msgDebug)
							n++
							if skipped != want {
								bad = fmt.Sprintf("len=%d strict=%d initialKEXDone=%d type=%d: packet skipped=%v, specification %v", ln, strict, done, p0, skipped, want)
							}
						}
					}
				}
			}
			c.check(bad == "", "C30.skip-transport", "(*transport).readPacket", call, fmt.Sprintf("IGNORE/DEBUG skipping matches the specification on %d cases", n), bad)
		}
	}
	// readLoop
	if f := c.fn("ssh", "(*handshakeTransport).readLoop"); f != nil {
		back := backEdges(f)
		var call *ssa.Call
		for _, ci := range callsNamed(f, "(*ssh.handshakeTransport).readOnePacket") {
			call = ci.(*ssa.Call)
		}
		var send *ssa.Send
		allInstrs(f, func(in ssa.Instruction) {
			if s, ok := in.(*ssa.Send); ok {
				send = s
			}
		})
		if call == nil || send == nil {
			c.fail("C30.skip-readloop", "(*handshakeTransport).readLoop", f, "readOnePacket call or delivery send not found")
		} else {
			var pv ssa.Value
			for _, v := range resultN(call, 0) {
				pv = v
			}
			bad := ""
			n := 0
			for first := int64(0); first < 2; first++ {
				for strict := int64(0); strict < 2; strict++ {
					for _, p0 := range []int64{msgIgnore, msgDebug, msgNewKeys, 1, 3, 5, 90} {
						e := newEnv()
						e.bindField(f, "handshakeTransport", "strictMode", strict)
						e.bindNilTests(f, func(v ssa.Value) bool { return isField(v, "handshakeTransport", "sessionID") }, first == 1)
						e.bindIndexLoads(f, func(b ssa.Value) bool { return b == pv }, 0, p0)
						for _, ev := range errResult(call) {
							e.bindNilTests(f, func(v ssa.Value) bool { return v == ev }, true)
						}
						cut := e.cuts(f)
						r := reachAfter(call, cut)
						delivered := r[send.Block()]
						want := (first == 1 && strict == 1) || !(p0 == msgIgnore || p0 == msgDebug)
						n++
						if delivered != want {
							bad = fmt.Sprintf("first-kex=%d strict=%d type=%d: delivered to the kex/application=%v, specification %v", first, strict, p0, delivered, want)
						}
					}
				}
			}
			_ = back
			c.check(bad == "", "C30.skip-readloop", "(*handshakeTransport).readLoop", call, fmt.Sprintf("IGNORE/DEBUG dropping matches the specification on %d cases", n), bad)
		}
	}
	// ---- (d) first packet must be KEXINIT
	if f := c.fn("ssh", "(*handshakeTransport).readOnePacket"); f != nil {
		var call *ssa.Call
		for _, ci := range calls(f, func(n string) bool { return strings.HasSuffix(n, ".readPacket") }) {
			if cc, ok := ci.(*ssa.Call); ok && call == nil {
				call = cc
			}
		}
		first := param(f, "first")
		if call == nil || first == nil {
			c.fail("C30.first-packet", "(*handshakeTransport).readOnePacket", f, "anchors not found")
		} else {
			var pv ssa.Value
			for _, v := range resultN(call, 0) {
				pv = v
			}
			bad := ""
			for _, p0 := range []int64{msgIgnore, msgDebug, msgNewKeys, 1, 5, 50, msgKexInit} {
				e := newEnv()
				e.bind(first, 1)
				e.bindIndexLoads(f, func(b ssa.Value) bool { return b == pv }, 0, p0)
				for _, ev := range errResult(call) {
					e.bindNilTests(f, func(v ssa.Value) bool { return v == ev }, true)
				}
				e.solve(f)
				okRet := false
				for _, r := range acceptReturns(f, 1) {
					if e.reach[r.Block()] {
						okRet = true
					}
				}
				if okRet != (p0 == msgKexInit) {
					bad = fmt.Sprintf("first packet of type %d: non-error return reachable=%v", p0, okRet)
				}
			}
			c.check(bad == "", "C30.first-packet", "(*handshakeTransport).readOnePacket", call, "the first packet is accepted only if it is KEXINIT", bad)
		}
	}
}

func c30Enter(c *Ctx, msgNewKeys int64) {
	f := c.fn("ssh", "(*handshakeTransport).enterKeyExchange")
	if f == nil {
		return
	}
	// anchors
	var setStrict, setDone *ssa.Call
	for _, ci := range calls(f, func(n string) bool { return strings.HasSuffix(n, ".setStrictMode") }) {
		setStrict, _ = ci.(*ssa.Call)
	}
	for _, ci := range calls(f, func(n string) bool { return strings.HasSuffix(n, ".setInitialKEXDone") }) {
		setDone, _ = ci.(*ssa.Call)
	}
	if setStrict == nil || setDone == nil {
		c.fail("C30.activation", "(*handshakeTransport).enterKeyExchange", f, "setStrictMode / setInitialKEXDone calls not found")
		return
	}
	// the peer's KEXINIT: the alloc that Unmarshal fills
	var otherInit ssa.Value
	for _, ci := range callsNamed(f, "ssh.Unmarshal") {
		if mi, ok := ci.Common().Args[1].(*ssa.MakeInterface); ok {
			otherInit = mi.X
		}
	}
	// isClient: BinOp len(t.hostKeys) == 0
	var isClient *ssa.BinOp
	allInstrs(f, func(in ssa.Instruction) {
		if bo, ok := in.(*ssa.BinOp); ok && bo.Op == token.EQL && isClient == nil {
			if call, ok := bo.X.(*ssa.Call); ok && calleeName(&call.Call) == "builtin:len" && isField(call.Call.Args[0], "handshakeTransport", "hostKeys") {
				isClient = bo
			}
		}
	})
	type cont struct {
		call   *ssa.Call
		marker string
	}
	var conts []cont
	for _, ci := range calls(f, nameIs("slices.Contains")) {
		call := ci.(*ssa.Call)
		if s, ok := constString(call.Call.Args[1]); ok && strings.HasPrefix(s, "kex-strict-") {
			conts = append(conts, cont{call, s})
		}
	}
	if otherInit == nil || isClient == nil || len(conts) != 2 {
		c.fail("C30.activation", "(*handshakeTransport).enterKeyExchange", f, fmt.Sprintf("anchors not found: peer KEXINIT=%v isClient=%v strict-marker tests=%d", otherInit != nil, isClient != nil, len(conts)))
		return
	}
	// which KEXINIT does each Contains look at, per role
	resolve := func(v ssa.Value, ic int64) ssa.Value {
		// v is a load of FieldAddr(X, KexAlgos); X may be a phi of otherInit / sentInitMsg
		_, fld, base, ok := fieldOf(v)
		if !ok || fld != "KexAlgos" {
			return nil
		}
		if p, ok := base.(*ssa.Phi); ok {
			e := newEnv()
			e.bind(isClient, ic)
			e.solve(f)
			var got ssa.Value
			for i, ed := range p.Edges {
				pred := p.Block().Preds[i]
				if e.reach[pred] && e.edgeFeasible(pred, p.Block()) {
					if got != nil && got != ed {
						return nil
					}
					got = ed
				}
			}
			return got
		}
		return base
	}
	bad := ""
	n := 0
	for first := int64(0); first < 2; first++ {
		for ic := int64(0); ic < 2; ic++ {
			for hasS := int64(0); hasS < 2; hasS++ {
				for hasC := int64(0); hasC < 2; hasC++ {
					e := newEnv()
					e.bind(isClient, ic)
					e.bindNilTests(f, func(v ssa.Value) bool { return isField(v, "handshakeTransport", "sessionID") }, first == 1)
					peerListsRole := int64(0)
					for _, ct := range conts {
						src := resolve(ct.call.Call.Args[0], ic)
						isPeer := src == otherInit
						val := int64(0)
						// value of Contains: does that KEXINIT list that marker? we model only the peer's lists
						if isPeer {
							if strings.Contains(ct.marker, "-s-") {
								val = hasS
							} else {
								val = hasC
							}
						} else {
							val = 1 // our own KEXINIT always lists our marker on the first exchange: worst case
						}
						e.bind(ct.call, val)
					}
					if ic == 1 {
						peerListsRole = hasS
					} else {
						peerListsRole = hasC
					}
					// findAgreedAlgorithms succeeds
					for _, ci := range callsNamed(f, "ssh.findAgreedAlgorithms") {
						for _, ev := range errResult(ci.(*ssa.Call)) {
							e.bindNilTests(f, func(v ssa.Value) bool { return v == ev }, true)
						}
					}
					e.solve(f)
					got := e.reach[setStrict.Block()]
					want := first == 1 && peerListsRole == 1
					n++
					if got != want {
						bad = fmt.Sprintf("first=%d isClient=%d peer lists kex-strict-s=%d kex-strict-c=%d: strict mode requested=%v, specification %v", first, ic, hasS, hasC, got, want)
					}
				}
			}
		}
	}
	c.check(bad == "", "C30.activation", "(*handshakeTransport).enterKeyExchange", setStrict, fmt.Sprintf("strict mode is requested exactly on the first exchange when the peer's KEXINIT lists the peer-role marker (%d cases)", n), bad)
	// setStrictMode's error is checked
	yes, no := errSuccessEdges(setStrict)
	retOnFail := len(no) > 0
	for _, e := range no {
		if _, ok := e.to().Instrs[len(e.to().Instrs)-1].(*ssa.Return); !ok {
			retOnFail = false
		}
	}
	c.check(len(yes) > 0 && retOnFail, "C30.activation", "setStrictMode error is fatal", setStrict, "a failed setStrictMode aborts the key exchange", "the error of setStrictMode is ignored")
	// also the handshakeTransport's own strictMode flag is set together with the transport's
	hs := storesTo(f, "handshakeTransport", "strictMode")
	c.check(len(hs) == 1 && hs[0].Block() == setStrict.Block() || (len(hs) == 1 && hs[0].Block().Dominates(setStrict.Block())), "C30.activation", "handshake strictMode flag", f, "set on the same path as the transport's flag", "handshakeTransport.strictMode is not set together with transport strict mode")

	// NEWKEYS gate: return nil and setInitialKEXDone only after packet[0] == msgNewKeys on the last read
	var nk []edge
	allInstrs(f, func(in ssa.Instruction) {
		bo, ok := in.(*ssa.BinOp)
		if !ok || (bo.Op != token.EQL && bo.Op != token.NEQ) {
			return
		}
		k, ok := constInt(bo.Y)
		if !ok || k != msgNewKeys {
			return
		}
		// operand: load of index 0 of a readPacket result
		u, ok := bo.X.(*ssa.UnOp)
		if !ok {
			return
		}
		ia, ok := u.X.(*ssa.IndexAddr)
		if !ok {
			return
		}
		ex, ok := ia.X.(*ssa.Extract)
		if !ok {
			return
		}
		if call, ok := ex.Tuple.(*ssa.Call); !ok || !strings.HasSuffix(calleeName(&call.Call), ".readPacket") {
			return
		}
		y, _ := boolEdges(bo, bo.Op == token.EQL)
		nk = append(nk, y...)
	})
	c.mustCross("C30.newkeys-gate", "enterKeyExchange success return", f, acceptReturns(f, 0), nk, "the peer's next packet == NEWKEYS")
	c.mustCross("C30.newkeys-gate", "setInitialKEXDone after peer NEWKEYS", f, []ssa.Instruction{setDone}, nk, "the peer's next packet == NEWKEYS")
	// only in the first exchange: firstKeyExchange := t.sessionID == nil evaluated before sessionID is assigned
	e := newEnv()
	allInstrs(f, func(in ssa.Instruction) {
		if bo, ok := in.(*ssa.BinOp); ok && (bo.Op == token.EQL || bo.Op == token.NEQ) && isNilConst(bo.Y) && isField(bo.X, "handshakeTransport", "sessionID") {
			if bo.Op == token.EQL {
				e.bind(bo, 0)
			} else {
				e.bind(bo, 1)
			}
		}
	})
	e.solve(f)
	c.check(!e.reach[setDone.Block()], "C30.newkeys-gate", "setInitialKEXDone only in the first exchange", setDone, "unreachable when sessionID != nil", "setInitialKEXDone is reachable during a re-key")
}
