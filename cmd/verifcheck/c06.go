package main

import (
	"fmt"
	"go/token"
	"strings"

	"golang.org/x/tools/go/ssa"
)

func init() {
	register(&propDef{
		id: "C06", run: runC06, minOblig: 20,
		explanation: "Decides the reader bookkeeping of the BLAKE2X XOFs in blake2b and blake2s (everything except the hash values). (Read automaton) xof.Read is evaluated by flow-sensitive finite-domain interpretation — slices represented by their lengths, the fields remaining / offset / nodeOffset / readMode / cfg[0] tracked through stores and loads — for every combination of declared length L in {1, 30, Size-1, Size, Size+1, 100, 2*Size, 200}, stream position 0..L and request size in {0, 1, 20, Size-1, Size, Size+1, 100, 2*Size+8, 300}: the segments copied to the caller (which node, from which offset, how many bytes), the nodes generated (node offset written into the parameter block, digest length byte), the returned count and io.EOF, and the successor state must equal the BLAKE2X reference: exactly min(request, remaining) bytes are delivered, they are the next bytes of the concatenation of nodes 0, 1, 2, ... of Size bytes with a final node of (L mod Size) bytes whose parameter-block digest length is that remainder, the root hash is finalised exactly once before the first output, EOF is returned exactly when nothing remains, and no slice expression leaves its bounds. (state discipline) Write panics exactly when readMode is set; readMode is set only by Read and cleared only by Reset; Clone returns a fresh value copy and neither xof nor digest contains a reference-typed field, so the clone is independent; (parameter block) Reset writes digest length, leaf length, XOF length and inner hash length at the offsets of the BLAKE2b / BLAKE2s parameter blocks, xors the XOF length into the root state word that holds it, sets remaining to the declared length or to the documented maximum for an unknown length, and zeroes offset / nodeOffset / readMode; NewXOF rejects over-long keys and the reserved length and maps OutputLengthUnknown to the magic value. NOT decided: the BLAKE2 compression function and therefore the output bytes.",
		assumptions: []string{"BLAKE2X specification section 2 (transcribed into the reference reader)", "digest.finalize/initConfig/Write effects are summarised as 'produce node' events"},
	})
	tech("C06", "flow-sensitive finite-domain interpretation of the reader with a slice-length abstraction, compared with a reference BLAKE2X reader over an enumerated state space; type-level independence of Clone; who-may-write table")
}

type xofSeg struct {
	node, off, n int64
}

type xofOut struct {
	segs     []xofSeg
	gens     []xofSeg // node = node offset, n = digest length byte
	ret      int64
	eof      bool
	rem, off int64
	nodeOff  int64
	rootFin  int
}

func (o xofOut) String() string {
	return fmt.Sprintf("copied%v generated%v n=%d eof=%v -> remaining=%d offset=%d nodeOffset=%d rootFinalised=%d", o.segs, o.gens, o.ret, o.eof, o.rem, o.off, o.nodeOff, o.rootFin)
}

// xofReference: BLAKE2X reader for a stream of declared length L at position pos.
func xofReference(size, L, pos, n int64, readMode bool) xofOut {
	var o xofOut
	if !readMode {
		o.rootFin = 1
	}
	rem := L - pos
	nodeOff := (pos + size - 1) / size
	off := pos % size
	if rem == 0 {
		o.eof = true
		o.rem, o.off, o.nodeOff = rem, off, nodeOff
		return o
	}
	take := min(n, rem)
	o.ret = take
	left := take
	for left > 0 {
		p := pos + (take - left)
		node := p / size
		inOff := p % size
		if inOff == 0 {
			// a new node is generated; its digest length is Size or what remains of the stream
			dl := min(size, L-node*size)
			o.gens = append(o.gens, xofSeg{node, 0, dl})
		}
		k := min(left, size-inOff)
		o.segs = append(o.segs, xofSeg{node, inOff, k})
		left -= k
	}
	end := pos + take
	o.rem = L - end
	o.off = end % size
	o.nodeOff = (end + size - 1) / size
	return o
}

func runC06(c *Ctx) {
	for _, pk := range []struct {
		pkg       string
		size      int64
		innerIdx  int64
		lenBytes  int64
		hWord     int64
		hShift    int64
		magic     int64
		maxOutput int64
	}{
		{"blake2b", 64, 17, 4, 1, 32, 1<<32 - 1, (1 << 32) * 64},
		{"blake2s", 32, 15, 2, 3, 0, 65535, (1 << 32) * 32},
	} {
		c06Read(c, pk.pkg, pk.size)
		// --- state discipline
		if t := c.namedType(pk.pkg, "xof"); t != nil {
			c.check(!hasRefs(t, 0), "C06.clone", pk.pkg+".xof is reference-free", nil, "a value copy of xof (and the embedded digest) is a deep copy", "xof contains a reference-typed field: clones share storage")
		}
		if f := c.fn(pk.pkg, "(*xof).Clone"); f != nil {
			ok := false
			for _, r := range returnsOf(f) {
				if al, isA := stripConv(retVal(r, 0)).(*ssa.Alloc); isA && al.Heap {
					for _, ref := range *al.Referrers() {
						if st, isS := ref.(*ssa.Store); isS && st.Addr == ssa.Value(al) {
							if u, isU := st.Val.(*ssa.UnOp); isU && u.X == ssa.Value(f.Params[0]) {
								ok = true
							}
						}
					}
				}
			}
			c.check(ok, "C06.clone", pk.pkg+".(*xof).Clone", f, "returns a pointer to a fresh value copy", "Clone does not return a fresh value copy of the reader")
		}
		if f := c.fn(pk.pkg, "(*xof).Write"); f != nil {
			bad := ""
			for _, v := range []int64{0, 1} {
				e := newEnv()
				if e.bindField(f, "xof", "readMode", v) == 0 {
					bad = "readMode is not consulted"
				}
				pans, rets, blocks := e.reachableExits(f, nil)
				wr := false
				for _, ci := range calls(f, func(n string) bool { return strings.HasSuffix(n, "digest).Write") }) {
					if blocks[ci.Block()] {
						wr = true
					}
				}
				if v == 1 && (len(pans) == 0 || len(rets) > 0 || wr) {
					bad = "Write after Read does not panic before absorbing"
				}
				if v == 0 && (len(pans) > 0 || !wr) {
					bad = "Write before any Read panics or does not absorb"
				}
			}
			c.check(bad == "", "C06.read-mode", pk.pkg+".(*xof).Write", f, "panics exactly when readMode is set, otherwise absorbs", bad)
		}
		for _, fn := range c.funcsOfPkg(pk.pkg) {
			for _, st := range storesTo(fn, "xof", "readMode") {
				v, isB := constBool(st.Val)
				name := fnName(fn)
				ok := isB && (v && name == "(*xof).Read" || !v && name == "(*xof).Reset")
				c.check(ok, "C06.read-mode", pk.pkg+" readMode writer "+name, st, "readMode is set by Read and cleared by Reset only", "readMode is written by "+name)
			}
		}
		// --- Reset / parameter block
		if f := c.fn(pk.pkg, "(*xof).Reset"); f != nil {
			got := map[string]string{}
			allInstrs(f, func(in ssa.Instruction) {
				switch x := in.(type) {
				case *ssa.Store:
					p := accessPath(x.Addr)
					if k, isK := constInt(stripConv(x.Val)); isK {
						got[p] = fmt.Sprint(k)
					} else if ap := accessPath(stripConv(x.Val)); ap != "" {
						got[p] = ap
					}
				case *ssa.Call:
					n := short(calleeName(&x.Call))
					if strings.HasPrefix(n, "(encoding/binary.littleEndian).PutUint") {
						if sl, isS := x.Call.Args[1].(*ssa.Slice); isS {
							lo, _ := constInt(sl.Low)
							v := ""
							if k, isK := constInt(stripConv(x.Call.Args[2])); isK {
								v = fmt.Sprint(k)
							} else {
								v = accessPath(stripConv(x.Call.Args[2]))
							}
							got[fmt.Sprintf("%s@%d:%s", accessPath(sl.X), lo, strings.TrimPrefix(n, "(encoding/binary.littleEndian).PutUint"))] = v
						}
					}
				}
			})
			sz := fmt.Sprint(pk.size)
			want := map[string]string{
				"x.cfg[0]": sz, fmt.Sprintf("x.cfg[%d]", pk.innerIdx): sz,
				"x.cfg@4:32": sz, fmt.Sprintf("x.cfg@12:%d", pk.lenBytes*8): "x.length",
				"x.offset": "0", "x.nodeOffset": "0", "x.readMode": "0",
			}
			bad := ""
			for k, v := range want {
				g := got[k]
				if k == "x.readMode" {
					for _, st := range storesTo(f, "xof", "readMode") {
						if bv, isB := constBool(st.Val); isB && !bv {
							g = "0"
						}
					}
				}
				if g != v {
					bad += fmt.Sprintf("%s=%q (want %s); ", k, g, v)
				}
			}
			c.check(bad == "", "C06.params", pk.pkg+".(*xof).Reset parameter block", f, "digest length, leaf length, XOF length and inner length at the BLAKE2 parameter-block offsets; offset/nodeOffset/readMode cleared", "Reset does not build the BLAKE2X parameter block: "+bad)
			// root state word
			okH := false
			allInstrs(f, func(in ssa.Instruction) {
				st, isS := in.(*ssa.Store)
				if !isS {
					return
				}
				ia, isI := st.Addr.(*ssa.IndexAddr)
				if !isI || !strings.HasSuffix(accessPath(ia.X), ".d.h") {
					return
				}
				idx, isK := constInt(ia.Index)
				bo, isB := st.Val.(*ssa.BinOp)
				if !isK || !isB || bo.Op != token.XOR || idx != pk.hWord {
					return
				}
				e := newEnv()
				e.bindField(f, "xof", "length", 0x1234)
				if v, ok := e.eval(bo.Y); ok && v == 0x1234<<uint(pk.hShift) {
					okH = true
				}
			})
			c.check(okH, "C06.params", pk.pkg+".(*xof).Reset root XOF length", f, fmt.Sprintf("h[%d] ^= length << %d", pk.hWord, pk.hShift), "the XOF length is not xored into the root hash's parameter word")
			// remaining
			bad = ""
			for _, L := range []int64{1, 100, pk.magic} {
				w := &pathWalker{env: newEnv(), assumeErrNil: true}
				w.state = map[string]int64{"x.length": L, "x.remaining": -1}
				if end := w.walk(f.Blocks[0], nil); end != "return" {
					bad = "Reset does not evaluate: " + w.why
					break
				}
				want := L
				if L == pk.magic {
					want = pk.maxOutput
				}
				if w.state["x.remaining"] != want {
					bad = fmt.Sprintf("length %d gives remaining %d, expected %d", L, w.state["x.remaining"], want)
				}
			}
			c.check(bad == "", "C06.params", pk.pkg+".(*xof).Reset remaining", f, "remaining = declared length, or the documented maximum for an unknown length", bad)
		}
		if f := c.fn(pk.pkg, "NewXOF"); f != nil {
			bad := ""
			for _, kl := range []int64{0, pk.size, pk.size + 1} {
				for _, sz := range []int64{0, 1, 100, pk.magic - 1, pk.magic} {
					e := newEnv()
					e.bindLen(f, f.Params[1], kl)
					e.bind(f.Params[0], sz)
					e.solve(f)
					accept := false
					for _, r := range returnsOf(f) {
						if e.reach[r.Block()] && errNilness(retVal(r, 1), r.Block(), 0) != neverNil {
							accept = true
						}
					}
					wantAcc := kl <= pk.size && sz != pk.magic
					if accept != wantAcc {
						bad = fmt.Sprintf("key length %d, size %d: accepted=%v", kl, sz, accept)
					}
					if wantAcc {
						for _, st := range storesTo(f, "xof", "length") {
							v, ok := e.eval(st.Val)
							w := sz
							if sz == 0 {
								w = pk.magic
							}
							if !ok || v != w {
								bad = fmt.Sprintf("size %d is recorded as length %d, expected %d", sz, v, w)
							}
						}
					}
				}
			}
			c.check(bad == "", "C06.params", pk.pkg+".NewXOF", f, "rejects over-long keys and the reserved length; unknown length maps to the magic value", bad)
		}
	}
}

func c06Read(c *Ctx, pkg string, size int64) {
	f := c.fn(pkg, "(*xof).Read")
	if f == nil {
		return
	}
	p := f.Params[1]
	Ls := []int64{1, 30, size - 1, size, size + 1, 100, 2 * size, 200}
	ns := []int64{0, 1, 20, size - 1, size, size + 1, 100, 2*size + 8, 300}
	cases, bad := 0, 0
	first := ""
	for _, L := range Ls {
		for pos := int64(0); pos <= L; pos++ {
			for _, n := range ns {
				for _, rm := range []bool{false, true} {
					if !rm && pos != 0 {
						continue // output can only have been produced in read mode
					}
					want := xofReference(size, L, pos, n, rm)
					w := &pathWalker{env: newEnv(), assumeErrNil: true, lengths: true, maxSteps: 4000, opaque: map[string]bool{"finalize": true, "Write": true, "initConfig": true, "Reset": true}}
					w.env.bind(p, n)
					w.state = map[string]int64{
						"x.remaining": L - pos, "x.offset": pos % size, "x.nodeOffset": (pos + size - 1) / size,
						"x.readMode": b2i(rm), "x.cfg[0]": size,
					}
					var got xofOut
					curNode := (pos+size-1)/size - 1 // node currently held in x.block
					var pendingNode int64 = -1
					w.onCall = func(w *pathWalker, ci ssa.CallInstruction) string {
						cc := ci.Common()
						n := short(calleeName(cc))
						switch {
						case strings.HasPrefix(n, "(encoding/binary.littleEndian).PutUint32"):
							if sl, isS := cc.Args[1].(*ssa.Slice); isS && accessPath(sl.X) == "x.cfg" {
								if lo, isK := constInt(sl.Low); isK && lo == 8 {
									if v, ok := w.env.eval(cc.Args[2]); ok {
										pendingNode = v
									}
								}
							}
						case strings.HasSuffix(n, "digest).finalize"):
							switch accessPath(cc.Args[1]) {
							case "x.root":
								got.rootFin++
							case "x.block":
								got.gens = append(got.gens, xofSeg{pendingNode, 0, w.state["x.cfg[0]"]})
								curNode = pendingNode
							}
						case n == "builtin:copy":
							dl, ok1 := w.env.eval(cc.Args[0])
							sl, ok2 := w.env.eval(cc.Args[1])
							if !ok1 || !ok2 {
								got.segs = append(got.segs, xofSeg{-9, -9, -9})
								return ""
							}
							k := min(dl, sl)
							off := int64(0)
							if s, isS := cc.Args[1].(*ssa.Slice); isS {
								if accessPath(s.X) != "x.block" {
									got.segs = append(got.segs, xofSeg{-8, -8, k})
									return ""
								}
								if s.Low != nil {
									off, _ = w.env.eval(s.Low)
								}
							}
							if k > 0 {
								got.segs = append(got.segs, xofSeg{curNode, off, k})
							}
						}
						return ""
					}
					end := w.walk(f.Blocks[0], nil)
					cases++
					fail := ""
					if end != "return" {
						fail = fmt.Sprintf("evaluation ended with %q: %s", end, w.why)
					} else {
						ret := w.last.(*ssa.Return)
						got.ret, _ = w.env.eval(retVal(ret, 0))
						got.eof = isGlobalLoad(retVal(ret, 1), "EOF")
						got.rem, got.off, got.nodeOff = w.state["x.remaining"], w.state["x.offset"], w.state["x.nodeOffset"]
						if got.String() != want.String() {
							fail = "code: " + got.String() + "; BLAKE2X: " + want.String()
						} else if w.oob {
							fail = "a slice expression leaves its bounds"
						}
						if w.state["x.readMode"] != 1 {
							fail = "readMode is not set after Read"
						}
					}
					if fail != "" {
						bad++
						if first == "" {
							first = fmt.Sprintf("declared length %d, position %d, request %d, readMode=%v: %s", L, pos, n, rm, fail)
						}
					}
				}
			}
		}
	}
	c.check(bad == 0 && cases > 1000, "C06.read", pkg+".(*xof).Read automaton", f, fmt.Sprintf("%d (length, position, request) cases agree with the BLAKE2X reference reader", cases), fmt.Sprintf("%d of %d cases differ; first: %s", bad, cases, first))
}
