package main

import (
	"fmt"
	"go/token"
	"go/types"
	"sort"
	"strings"

	"golang.org/x/tools/go/ssa"
)

// Symbolic byte machine for C10. The NaCl constructions are compositions of
// primitives over byte strings; what has to be decided is WHICH bytes go into
// which primitive and where the results end up — not how the code that moves
// them is factored. The machine rides on pathWalker (one feasible path, slices
// by length, helpers of the package inlined) and adds a byte-granular memory:
// every array, made slice and parameter buffer is a region whose bytes are
// symbolic terms (an input byte, a constant, the i'th output byte of a
// primitive applied to described inputs, or the XOR of two of those). Loads,
// stores, copy/append/clear, subtle.XORBytes, encoding/binary puts and the
// primitives themselves are modelled on that memory, so the value a function
// returns is a term over its inputs that can be compared with the term the
// construction prescribes. Nothing here looks at the names of locals,
// parameters or helpers.

type c10atom struct {
	base string // "#": constant i; otherwise byte i of the named byte string
	i    int64
}

type c10byte struct{ a, b c10atom } // a ^ b (b.base == "" when absent)

func c10const(v int64) c10byte { return c10byte{a: c10atom{"#", v & 0xff}} }

func (x c10atom) less(y c10atom) bool {
	if x.base != y.base {
		return x.base < y.base
	}
	return x.i < y.i
}

func (x c10atom) String() string {
	if x.base == "#" {
		return fmt.Sprintf("0x%02x", x.i)
	}
	return fmt.Sprintf("%s[%d]", x.base, x.i)
}

func (x c10byte) String() string {
	if x.b.base == "" {
		return x.a.String()
	}
	return x.a.String() + "^" + x.b.String()
}

func (x c10byte) isConst() (int64, bool) {
	if x.b.base == "" && x.a.base == "#" {
		return x.a.i, true
	}
	return 0, false
}

func c10xor(x, y c10byte) c10byte {
	var as []c10atom
	k := int64(0)
	for _, a := range []c10atom{x.a, x.b, y.a, y.b} {
		switch {
		case a.base == "":
		case a.base == "#":
			k ^= a.i
		default:
			dup := -1
			for i, o := range as {
				if o == a {
					dup = i
				}
			}
			if dup >= 0 {
				as = append(as[:dup], as[dup+1:]...)
			} else {
				as = append(as, a)
			}
		}
	}
	if k != 0 {
		as = append(as, c10atom{"#", k})
	}
	sort.Slice(as, func(i, j int) bool { return as[i].less(as[j]) })
	switch len(as) {
	case 0:
		return c10const(0)
	case 1:
		return c10byte{a: as[0]}
	case 2:
		return c10byte{a: as[0], b: as[1]}
	}
	var ss []string
	for _, a := range as {
		ss = append(ss, a.String())
	}
	return c10byte{a: c10atom{"xor{" + strings.Join(ss, ",") + "}", 0}}
}

// c10seq: bytes lo..hi-1 of the named byte string.
func c10seq(base string, lo, hi int64) []c10byte {
	var out []c10byte
	for i := lo; i < hi; i++ {
		out = append(out, c10byte{a: c10atom{base, i}})
	}
	return out
}

func c10zeros(n int64) []c10byte {
	out := make([]c10byte, n)
	for i := range out {
		out[i] = c10const(0)
	}
	return out
}

func c10xorSeq(x, y []c10byte) []c10byte {
	var out []c10byte
	for i := range x {
		out = append(out, c10xor(x[i], y[i]))
	}
	return out
}

func c10cat(xs ...[]c10byte) []c10byte {
	var out []c10byte
	for _, x := range xs {
		out = append(out, x...)
	}
	return out
}

// c10desc: canonical run-compressed rendering of a byte string, e.g.
// "DST[0:3]|IN[0:32]^KS[32:64]|0x00*8".
func c10desc(bs []c10byte) string {
	var parts []string
	atomRun := func(a c10atom, n int64) string {
		switch {
		case a.base == "#" && n == 1:
			return a.String()
		case a.base == "#":
			return fmt.Sprintf("%s*%d", a.String(), n)
		case n == 1:
			return a.String()
		}
		return fmt.Sprintf("%s[%d:%d]", a.base, a.i, a.i+n)
	}
	next := func(a c10atom, k int64) c10atom {
		if a.base == "#" || a.base == "" {
			return a
		}
		return c10atom{a.base, a.i + k}
	}
	for i := 0; i < len(bs); {
		j := i + 1
		for j < len(bs) && bs[j].a == next(bs[i].a, int64(j-i)) && bs[j].b == next(bs[i].b, int64(j-i)) {
			j++
		}
		s := atomRun(bs[i].a, int64(j-i))
		if bs[i].b.base != "" {
			s += "^" + atomRun(bs[i].b, int64(j-i))
		}
		parts = append(parts, s)
		i = j
	}
	return strings.Join(parts, "|")
}

// term constructors of the primitives (shared by the models and the specifications)
func c10HSalsa(k, in, c []c10byte) string {
	return "HSalsa20(k=" + c10desc(k) + ",in=" + c10desc(in) + ",c=" + c10desc(c) + ")"
}
func c10Stream(k, n []c10byte) string {
	return "Salsa20(k=" + c10desc(k) + ",n=" + c10desc(n) + ")"
}
func c10Poly(k, m []c10byte) string {
	return "Poly1305(k=" + c10desc(k) + ",m=" + c10desc(m) + ")"
}
func c10X25519(s, p []c10byte) string {
	return "X25519(s=" + c10desc(s) + ",p=" + c10desc(p) + ")"
}
func c10X25519Base(s []c10byte) string { return "X25519(s=" + c10desc(s) + ",p=basepoint)" }
func c10Digest(kind string, size int64, key, m []c10byte) string {
	if key == nil {
		return fmt.Sprintf("%s(size=%d,m=%s)", kind, size, c10desc(m))
	}
	return fmt.Sprintf("%s(size=%d,k=%s,m=%s)", kind, size, c10desc(key), c10desc(m))
}
func c10Secretbox(k, n, m []c10byte) string {
	return "secretbox(k=" + c10desc(k) + ",n=" + c10desc(n) + ",m=" + c10desc(m) + ")"
}
func c10SecretboxOpen(k, n, b []c10byte) string {
	return "secretbox_open(k=" + c10desc(k) + ",n=" + c10desc(n) + ",box=" + c10desc(b) + ")"
}
func c10EdSig(k, m []c10byte) string {
	return "Ed25519sign(k=" + c10desc(k) + ",m=" + c10desc(m) + ")"
}
func c10EdVerify(pk, m, sig []c10byte) string {
	return "Ed25519verify(pk=" + c10desc(pk) + ",m=" + c10desc(m) + ",sig=" + c10desc(sig) + ")"
}
func c10CtEq(a, b []c10byte) string {
	x, y := c10desc(a), c10desc(b)
	if y < x {
		x, y = y, x
	}
	return "equal(" + x + "," + y + ")"
}

type c10reg struct {
	name     string
	b        []c10byte
	visible  bool // the caller's output buffer (including its spare capacity)
	readonly bool // an input the construction must not modify
}

type c10ptr struct {
	r        *c10reg // nil: the nil pointer / nil slice
	off, cap int64
}

type c10obj struct {
	kind string // "BLAKE2b", "HMAC-SHA512", "Poly1305", ...
	size int64
	key  []c10byte
	m    []c10byte
}

// c10struct: a struct variable whose byte-array fields are regions of their own
type c10struct struct{ fields map[int]*c10reg }

type c10val struct {
	p   *c10ptr
	st  *c10struct
	obj *c10obj
	tag string
	by  *c10byte
	arr []c10byte
}

type c10check struct {
	what          string
	writesBefore  int
	constantTime  bool
	lengthsDiffer bool
}

type c10m struct {
	root          *ssa.Function
	val           map[ssa.Value]*c10val
	globals       map[*ssa.Global]*c10reg
	zeroGlob      map[*ssa.Global]bool // package-level arrays read as all-zero
	notes         []string             // things that make the run unusable (first one is reported)
	checks        []c10check
	sbCalls       [][3]string // (key, nonce, payload) handed to secretbox
	saw           map[string]bool
	visibleWrites int
	verdict       int64 // outcome of a tag / signature / digest comparison
	spare         bool  // the output buffer has spare capacity
	failX         bool  // curve25519.X25519 reports a low-order point
	fresh         int
	randPos       int64
	nLocal        int
	cells         map[ssa.Value]*c10cell
}

func c10new(f *ssa.Function) *c10m {
	return &c10m{root: f, val: map[ssa.Value]*c10val{}, globals: map[*ssa.Global]*c10reg{}, zeroGlob: map[*ssa.Global]bool{}, saw: map[string]bool{}, verdict: 1}
}

func (m *c10m) note(format string, a ...interface{}) {
	m.notes = append(m.notes, fmt.Sprintf(format, a...))
}

func (m *c10m) entry(v ssa.Value) *c10val {
	e := m.val[v]
	if e == nil {
		e = &c10val{}
		m.val[v] = e
	}
	return e
}

func (m *c10m) unknown(what string, n int64) []c10byte {
	m.fresh++
	return c10seq(fmt.Sprintf("?%s#%d", what, m.fresh), 0, n)
}

func byteArrayLen(t types.Type) (int64, bool) {
	if p, ok := t.Underlying().(*types.Pointer); ok {
		t = p.Elem()
	}
	a, ok := t.Underlying().(*types.Array)
	if !ok {
		return 0, false
	}
	if b, ok := a.Elem().Underlying().(*types.Basic); !ok || b.Kind() != types.Uint8 {
		return 0, false
	}
	return a.Len(), true
}

// resolve: the storage a pointer or slice value denotes.
func (m *c10m) resolve(w *pathWalker, v ssa.Value) *c10ptr {
	if e := m.val[v]; e != nil && e.p != nil {
		return e.p
	}
	switch x := v.(type) {
	case *ssa.Alloc:
		if n, ok := byteArrayLen(x.Type()); ok {
			m.nLocal++
			p := &c10ptr{r: &c10reg{name: fmt.Sprintf("local%d", m.nLocal), b: c10zeros(n)}, cap: n}
			m.entry(x).p = p
			return p
		}
	case *ssa.MakeSlice:
		if n, ok := w.env.eval(x.Cap); ok && n >= 0 && n < 1<<20 {
			m.nLocal++
			p := &c10ptr{r: &c10reg{name: fmt.Sprintf("made%d", m.nLocal), b: c10zeros(n)}, cap: n}
			m.entry(x).p = p
			return p
		}
	case *ssa.Global:
		r := m.globals[x]
		if r == nil {
			n, ok := byteArrayLen(x.Type())
			if !ok {
				return nil
			}
			r = &c10reg{name: x.Name(), readonly: true}
			switch {
			case x.Pkg != nil && strings.HasSuffix(x.Pkg.Pkg.Path(), "salsa20/salsa") && x.Name() == "Sigma":
				r.b = c10seq("Sigma", 0, n)
			case x.Pkg == m.root.Pkg:
				// a package-level array without initialiser; that nothing ever
				// writes it is decided separately (c10ZeroGlobals)
				r.b = c10zeros(n)
				m.zeroGlob[x] = true
			default:
				r.b = c10seq("global:"+x.Name(), 0, n)
			}
			m.globals[x] = r
		}
		return &c10ptr{r: r, cap: int64(len(r.b))}
	case *ssa.IndexAddr:
		b := m.resolve(w, x.X)
		if b == nil || b.r == nil {
			return nil
		}
		k, ok := w.env.eval(x.Index)
		if !ok {
			return nil
		}
		return &c10ptr{r: b.r, off: b.off + k, cap: b.cap - k}
	case *ssa.FieldAddr:
		// a byte-array field of a struct variable (local, or reached through a parameter)
		n, ok := byteArrayLen(x.Type())
		st := m.structOf(x.X)
		if !ok || st == nil {
			return nil
		}
		r := st.fields[x.Field]
		if r == nil {
			m.nLocal++
			r = &c10reg{name: fmt.Sprintf("field%d", m.nLocal), b: c10zeros(n)}
			st.fields[x.Field] = r
		}
		return &c10ptr{r: r, cap: n}
	case *ssa.FreeVar:
		// an array captured by a function literal: the enclosing function's variable
		if bound := c10FreeVarBinding(x); bound != nil {
			return m.resolve(w, bound)
		}
	case *ssa.SliceToArrayPointer:
		return m.resolve(w, x.X)
	case *ssa.ChangeType:
		return m.resolve(w, x.X)
	case *ssa.Const:
		if x.IsNil() {
			return &c10ptr{}
		}
	}
	return nil
}

func (m *c10m) structOf(v ssa.Value) *c10struct {
	if e := m.val[v]; e != nil && e.st != nil {
		return e.st
	}
	if al, ok := v.(*ssa.Alloc); ok {
		if pt, ok := al.Type().Underlying().(*types.Pointer); ok {
			if _, isS := pt.Elem().Underlying().(*types.Struct); isS {
				st := &c10struct{fields: map[int]*c10reg{}}
				m.entry(al).st = st
				return st
			}
		}
	}
	return nil
}

func (m *c10m) move(w *pathWalker, dst, src ssa.Value) {
	if e := m.snapshot(w, src); e != nil {
		m.val[dst] = e
	} else {
		delete(m.val, dst)
	}
}

// snapshot: everything the machine knows about a value (nil: nothing).
func (m *c10m) snapshot(w *pathWalker, src ssa.Value) *c10val {
	e := &c10val{}
	if s := m.val[src]; s != nil {
		*e = *s
	}
	if e.p == nil {
		e.p = m.resolve(w, src)
	}
	if e.st == nil {
		e.st = m.structOf(src)
	}
	if e.by == nil {
		if b, ok := m.symOf(w, src, 0); ok {
			e.by = &b
		}
	}
	if e.p == nil && e.st == nil && e.obj == nil && e.tag == "" && e.by == nil && e.arr == nil {
		return nil
	}
	return e
}

// A variable that lives in memory without being a byte array (a slice, pointer
// or integer that a function literal captures, a spilled parameter or named
// result) is a cell: what is stored into it is what a later load yields.
type c10cell struct {
	v  *c10val
	n  int64
	ok bool
}

func c10FreeVarBinding(x *ssa.FreeVar) ssa.Value {
	fn := x.Parent()
	if fn == nil || fn.Parent() == nil {
		return nil
	}
	idx := -1
	for i, fv := range fn.FreeVars {
		if fv == x {
			idx = i
		}
	}
	var bound ssa.Value
	allInstrs(fn.Parent(), func(in ssa.Instruction) {
		if mc, ok := in.(*ssa.MakeClosure); ok && mc.Fn == ssa.Value(fn) && idx >= 0 && idx < len(mc.Bindings) {
			bound = mc.Bindings[idx]
		}
	})
	return bound
}

func (m *c10m) cellKey(addr ssa.Value) ssa.Value {
	switch x := addr.(type) {
	case *ssa.Alloc:
		pt, ok := x.Type().Underlying().(*types.Pointer)
		if !ok {
			return nil
		}
		switch pt.Elem().Underlying().(type) {
		case *types.Array, *types.Struct:
			return nil
		}
		return x
	case *ssa.FreeVar:
		if b := c10FreeVarBinding(x); b != nil {
			return m.cellKey(b)
		}
	}
	return nil
}

// symOf: the symbolic value of a byte-sized SSA value.
func (m *c10m) symOf(w *pathWalker, v ssa.Value, depth int) (c10byte, bool) {
	if depth > 8 {
		return c10byte{}, false
	}
	if e := m.val[v]; e != nil && e.by != nil {
		return *e.by, true
	}
	if _, isPhi := v.(*ssa.Phi); !isPhi {
		if b, ok := v.Type().Underlying().(*types.Basic); ok && b.Info()&types.IsInteger != 0 {
			if n, ok := w.env.eval(v); ok {
				return c10const(n), true
			}
		}
	}
	switch x := v.(type) {
	case *ssa.BinOp:
		if x.Op == token.XOR {
			a, ok1 := m.symOf(w, x.X, depth+1)
			b, ok2 := m.symOf(w, x.Y, depth+1)
			if ok1 && ok2 {
				return c10xor(a, b), true
			}
		}
	case *ssa.Index:
		// element of an array VALUE (a loaded or returned array)
		if e := m.val[x.X]; e != nil && e.arr != nil {
			if k, ok := w.env.eval(x.Index); ok && k >= 0 && k < int64(len(e.arr)) {
				return e.arr[k], true
			}
		}
	case *ssa.Convert:
		// byte -> wider integer -> byte round trips keep the byte
		return m.symOf(w, x.X, depth+1)
	case *ssa.ChangeType:
		return m.symOf(w, x.X, depth+1)
	}
	return c10byte{}, false
}

func (m *c10m) sliceLenOf(w *pathWalker, v ssa.Value) (int64, bool) {
	if n, ok := byteArrayLen(v.Type()); ok {
		return n, true
	}
	if c, isC := v.(*ssa.Const); isC && c.IsNil() {
		return 0, true
	}
	return w.env.eval(v)
}

// read: the bytes a slice (or pointer to array) value denotes right now.
func (m *c10m) read(w *pathWalker, v ssa.Value, what string) []c10byte {
	n, ok := m.sliceLenOf(w, v)
	if !ok {
		m.note("%s: the length of the operand does not evaluate", what)
		return nil
	}
	p := m.resolve(w, v)
	if n == 0 {
		return []c10byte{}
	}
	if p == nil || p.r == nil {
		m.note("%s: the operand's storage cannot be followed", what)
		return m.unknown(what, n)
	}
	if p.off < 0 || p.off+n > int64(len(p.r.b)) {
		m.note("%s: reads %d bytes at offset %d of a %d-byte buffer", what, n, p.off, len(p.r.b))
		return m.unknown(what, n)
	}
	return append([]c10byte(nil), p.r.b[p.off:p.off+n]...)
}

func (m *c10m) writeAt(p *c10ptr, bs []c10byte, what string) {
	if len(bs) == 0 {
		return
	}
	if p == nil || p.r == nil {
		m.note("%s: writes through a pointer the interpretation cannot follow", what)
		return
	}
	if p.off < 0 || p.off+int64(len(bs)) > int64(len(p.r.b)) || int64(len(bs)) > p.cap {
		m.note("%s: writes %d bytes at offset %d of a %d-byte buffer", what, len(bs), p.off, len(p.r.b))
		return
	}
	if p.r.readonly {
		m.note("%s: modifies its input %s", what, p.r.name)
	}
	if p.r.visible {
		m.visibleWrites++
	}
	copy(p.r.b[p.off:], bs)
}

func (m *c10m) write(w *pathWalker, v ssa.Value, bs []c10byte, what string) {
	if len(bs) == 0 {
		return
	}
	m.writeAt(m.resolve(w, v), bs, what)
}

// appendTo models append(dst, bs...): in place when the capacity suffices.
func (m *c10m) appendTo(w *pathWalker, dst ssa.Value, bs []c10byte, what string) (*c10ptr, int64) {
	L, ok := m.sliceLenOf(w, dst)
	if !ok {
		m.note("%s: the length of the destination does not evaluate", what)
		return nil, 0
	}
	p := m.resolve(w, dst)
	k := int64(len(bs))
	if p == nil {
		m.note("%s: the destination's storage cannot be followed", what)
		return nil, L + k
	}
	if p.r != nil && p.cap >= L+k {
		m.writeAt(&c10ptr{r: p.r, off: p.off + L, cap: p.cap - L}, bs, what)
		return p, L + k
	}
	m.nLocal++
	nr := &c10reg{name: fmt.Sprintf("grown%d", m.nLocal)}
	if p.r != nil && L > 0 {
		nr.b = append(nr.b, p.r.b[p.off:p.off+L]...)
	}
	nr.b = append(nr.b, bs...)
	return &c10ptr{r: nr, cap: L + k}, L + k
}

func (m *c10m) setPtr(v ssa.Value, p *c10ptr) { m.entry(v).p = p }

// results binds the components of a modelled tuple-valued call.
func (m *c10m) results(w *pathWalker, call ssa.Value, f func(idx int, ex *ssa.Extract)) {
	if call.Referrers() == nil {
		return
	}
	for _, ref := range *call.Referrers() {
		if ex, ok := ref.(*ssa.Extract); ok {
			delete(m.val, ex)
			delete(w.env.vals, ex)
			f(ex.Index, ex)
		}
	}
}

// errResult fixes the outcome of comparisons of an error value with nil.
func (m *c10m) errResult(w *pathWalker, err ssa.Value, isNil bool) {
	if err.Referrers() == nil {
		return
	}
	for _, ref := range *err.Referrers() {
		if bo, ok := ref.(*ssa.BinOp); ok && (isNilConst(bo.X) || isNilConst(bo.Y)) {
			switch bo.Op {
			case token.EQL:
				w.env.bind(bo, map[bool]int64{true: 1, false: 0}[isNil])
			case token.NEQ:
				w.env.bind(bo, map[bool]int64{true: 0, false: 1}[isNil])
			}
		}
	}
}

func (m *c10m) compare(w *pathWalker, res ssa.Value, a, b []c10byte, constantTime bool) {
	if len(a) != len(b) {
		m.checks = append(m.checks, c10check{what: c10CtEq(a, b), writesBefore: m.visibleWrites, constantTime: constantTime, lengthsDiffer: true})
		w.env.bind(res, 0)
		return
	}
	m.checks = append(m.checks, c10check{what: c10CtEq(a, b), writesBefore: m.visibleWrites, constantTime: constantTime})
	w.env.bind(res, m.verdict)
}

// walker builds the pathWalker whose hooks drive the machine.
func (m *c10m) walker() *pathWalker {
	w := &pathWalker{env: newEnv(), lengths: true, maxSteps: 40000, assumeErrNil: true, state: map[string]int64{}}
	w.inline = func(callee *ssa.Function) bool { return callee.Pkg != nil && callee.Pkg == m.root.Pkg }
	w.onInline = func(parent, child *pathWalker, callee *ssa.Function, args []ssa.Value) {
		// a fresh activation: its arrays and made slices start out zeroed
		allInstrs(callee, func(in ssa.Instruction) {
			if x, ok := in.(ssa.Value); ok {
				delete(m.val, x)
				delete(m.cells, x)
			}
		})
		for i := range callee.Params {
			if i < len(args) {
				m.move(parent, callee.Params[i], args[i])
			}
		}
		c10BindNilTests(child, callee)
	}
	w.onReturn = func(parent, child *pathWalker, call *ssa.Call, results []ssa.Value) {
		if len(results) == 1 {
			m.move(child, call, results[0])
			return
		}
		m.results(parent, call, func(idx int, ex *ssa.Extract) {
			if idx < len(results) {
				m.move(child, ex, results[idx])
				if n, ok := child.env.eval(results[idx]); ok {
					parent.env.bind(ex, n)
				}
			}
		})
	}
	w.onSlice = func(w *pathWalker, sl *ssa.Slice) {
		delete(m.val, sl)
		b := m.resolve(w, sl.X)
		if b == nil {
			return
		}
		if b.r == nil {
			m.setPtr(sl, &c10ptr{})
			return
		}
		lo := int64(0)
		if sl.Low != nil {
			v, ok := w.env.eval(sl.Low)
			if !ok {
				return
			}
			lo = v
		}
		np := &c10ptr{r: b.r, off: b.off + lo, cap: b.cap - lo}
		if sl.Max != nil {
			if mx, ok := w.env.eval(sl.Max); ok {
				np.cap = mx - lo
			}
		}
		if n, ok := w.env.eval(sl); ok && (lo < 0 || n < 0 || n > np.cap) {
			m.note("a slice expression exceeds the capacity of its operand")
		}
		m.setPtr(sl, np)
	}
	w.onPhi = func(w *pathWalker, ph *ssa.Phi, in ssa.Value) { m.move(w, ph, in) }
	w.onLoad = func(w *pathWalker, u *ssa.UnOp) (int64, bool) {
		delete(m.val, u)
		if key := m.cellKey(u.X); key != nil {
			c := m.cells[key]
			if c == nil {
				// never assigned: the zero value
				switch u.Type().Underlying().(type) {
				case *types.Slice, *types.Pointer:
					m.entry(u).p = &c10ptr{}
				}
				return 0, true
			}
			if c.v != nil {
				cp := *c.v
				m.val[u] = &cp
			}
			return c.n, c.ok
		}
		if n, ok := byteArrayLen(u.Type()); ok {
			if _, isPtr := u.Type().Underlying().(*types.Pointer); !isPtr {
				if p := m.resolve(w, u.X); p != nil && p.r != nil && p.off >= 0 && p.off+n <= int64(len(p.r.b)) {
					m.entry(u).arr = append([]c10byte(nil), p.r.b[p.off:p.off+n]...)
				}
			}
			return 0, false
		}
		b, ok := u.Type().Underlying().(*types.Basic)
		if !ok || b.Kind() != types.Uint8 {
			return 0, false
		}
		p := m.resolve(w, u.X)
		if p == nil || p.r == nil || p.off < 0 || p.off >= int64(len(p.r.b)) {
			return 0, false
		}
		by := p.r.b[p.off]
		m.entry(u).by = &by
		return by.isConst()
	}
	w.onStore = func(w *pathWalker, st *ssa.Store) string {
		if key := m.cellKey(st.Addr); key != nil {
			c := &c10cell{v: m.snapshot(w, st.Val)}
			c.n, c.ok = w.env.eval(st.Val)
			if m.cells == nil {
				m.cells = map[ssa.Value]*c10cell{}
			}
			m.cells[key] = c
			return ""
		}
		t := st.Val.Type()
		if n, ok := byteArrayLen(t); ok {
			if _, isPtr := t.Underlying().(*types.Pointer); isPtr {
				return ""
			}
			switch x := st.Val.(type) {
			case *ssa.Const:
				m.write(w, st.Addr, c10zeros(n), "array assignment")
			default:
				if e := m.val[x]; e != nil && e.arr != nil {
					m.write(w, st.Addr, e.arr, "array assignment")
				} else {
					m.write(w, st.Addr, m.unknown("array", n), "array assignment")
				}
			}
			return ""
		}
		if b, ok := t.Underlying().(*types.Basic); ok && b.Kind() == types.Uint8 {
			by, ok := m.symOf(w, st.Val, 0)
			if !ok {
				by = m.unknown("byte", 1)[0]
			}
			m.write(w, st.Addr, []c10byte{by}, "byte store")
		}
		return ""
	}
	w.onCall = func(w *pathWalker, ci ssa.CallInstruction) string {
		m.call(w, ci)
		return ""
	}
	return w
}

// c10BindNilTests: comparisons of an interface-typed parameter that is bound
// (to a non-nil abstract identity) with nil.
func c10BindNilTests(w *pathWalker, f *ssa.Function) {
	allInstrs(f, func(in ssa.Instruction) {
		bo, ok := in.(*ssa.BinOp)
		if !ok || (bo.Op != token.EQL && bo.Op != token.NEQ) {
			return
		}
		var v ssa.Value
		switch {
		case isNilConst(bo.Y):
			v = bo.X
		case isNilConst(bo.X):
			v = bo.Y
		default:
			return
		}
		p, isP := v.(*ssa.Parameter)
		if !isP || !types.IsInterface(p.Type()) {
			return
		}
		if n, bound := w.env.vals[p]; bound && n != 0 {
			w.env.bind(bo, map[bool]int64{true: 0, false: 1}[bo.Op == token.EQL])
		}
	})
}

// parameter set-up ------------------------------------------------------------

func (m *c10m) paramBuf(w *pathWalker, p *ssa.Parameter, name string, n, spare int64, visible, readonly bool) {
	r := &c10reg{name: name, visible: visible, readonly: readonly}
	r.b = append(c10seq(name, 0, n), c10seq(name+".spare", 0, spare)...)
	m.entry(p).p = &c10ptr{r: r, cap: n + spare}
	w.env.bind(p, n)
}

func (m *c10m) paramArr(p *ssa.Parameter, name string, readonly bool) {
	n, _ := byteArrayLen(p.Type())
	m.entry(p).p = &c10ptr{r: &c10reg{name: name, readonly: readonly, b: c10seq(name, 0, n)}, cap: n}
}

// bytesOfResult: the bytes of a returned slice (or pointed-to array).
func (m *c10m) bytesOfResult(w *pathWalker, v ssa.Value) ([]c10byte, bool) {
	n, ok := m.sliceLenOf(w, v)
	if !ok {
		return nil, false
	}
	p := m.resolve(w, v)
	if p == nil {
		return nil, false
	}
	if p.r == nil {
		return []c10byte{}, n == 0
	}
	if p.off < 0 || p.off+n > int64(len(p.r.b)) {
		return nil, false
	}
	return p.r.b[p.off : p.off+n], true
}

func (m *c10m) isNilResult(w *pathWalker, v ssa.Value) bool {
	if isNilConst(v) {
		return true
	}
	p := m.resolve(w, v)
	return p != nil && p.r == nil
}

// call models -------------------------------------------------------------------

func (m *c10m) call(w *pathWalker, ci ssa.CallInstruction) {
	cc := ci.Common()
	nm := short(calleeName(cc))
	a := cc.Args
	val, _ := ci.(ssa.Value)
	if val != nil {
		delete(m.val, val)
	}
	arr := func(v ssa.Value, what string) []c10byte { return m.read(w, v, what) }
	if cc.IsInvoke() {
		o := (*c10obj)(nil)
		if e := m.val[cc.Value]; e != nil {
			o = e.obj
		}
		m.method(w, val, o, cc.Method.Name(), a, nm)
		return
	}
	switch {
	case nm == "builtin:cap":
		if p := m.resolve(w, a[0]); p != nil && val != nil {
			if p.r == nil {
				w.env.bind(val, 0)
			} else {
				w.env.bind(val, p.cap)
			}
		}
	case nm == "builtin:copy":
		src := arr(a[1], "copy")
		dl, ok := m.sliceLenOf(w, a[0])
		if !ok || src == nil {
			m.note("copy: the operand lengths do not evaluate")
			return
		}
		n := min(dl, int64(len(src)))
		m.write(w, a[0], src[:n], "copy")
		if val != nil {
			w.env.bind(val, n)
		}
	case nm == "builtin:append":
		var src []c10byte
		if len(a) > 1 {
			src = arr(a[1], "append")
			if src == nil {
				return
			}
		}
		p, n := m.appendTo(w, a[0], src, "append")
		if p != nil && val != nil {
			m.setPtr(val, p)
			w.env.bind(val, n)
		}
	case nm == "slices.Grow" && len(a) == 2:
		// same contents; room for n more elements
		L, ok1 := m.sliceLenOf(w, a[0])
		n, ok2 := w.env.eval(a[1])
		p := m.resolve(w, a[0])
		if !ok1 || !ok2 || p == nil || val == nil {
			m.note("slices.Grow: operands do not evaluate")
			return
		}
		if p.r == nil || p.cap < L+n {
			m.nLocal++
			nr := &c10reg{name: fmt.Sprintf("grown%d", m.nLocal), b: c10zeros(L + n)}
			if p.r != nil {
				copy(nr.b, p.r.b[p.off:p.off+L])
			}
			p = &c10ptr{r: nr, cap: L + n}
		}
		m.setPtr(val, p)
		w.env.bind(val, L)
	case nm == "builtin:clear":
		if n, ok := m.sliceLenOf(w, a[0]); ok {
			m.write(w, a[0], c10zeros(n), "clear")
		}
	case strings.HasSuffix(nm, "internal/alias.AnyOverlap"), strings.HasSuffix(nm, "internal/alias.InexactOverlap"):
		// the buffers of the modelled caller are disjoint
		m.saw["overlap-check"] = true
		w.env.bind(val, 0)
	case nm == "salsa20/salsa.HSalsa20":
		k, in, c := arr(a[2], "HSalsa20"), arr(a[1], "HSalsa20"), arr(a[3], "HSalsa20")
		m.write(w, a[0], c10seq(c10HSalsa(k, in, c), 0, 32), "HSalsa20")
	case nm == "salsa20/salsa.XORKeyStream":
		in := arr(a[1], "XORKeyStream")
		ctr, key := arr(a[2], "XORKeyStream"), arr(a[3], "XORKeyStream")
		if in == nil || len(ctr) != 16 || len(key) != 32 {
			m.note("XORKeyStream: operands cannot be followed")
			return
		}
		if ol, ok := m.sliceLenOf(w, a[0]); !ok || ol < int64(len(in)) {
			m.note("XORKeyStream: the output is shorter than the %d-byte input", len(in))
			return
		}
		blk, isK := int64(0), true
		for i := 0; i < 8; i++ {
			v, ok := ctr[8+i].isConst()
			isK = isK && ok
			if i < 7 {
				blk |= v << (8 * uint(i))
			} else if v != 0 {
				isK = false
			}
		}
		var ks []c10byte
		if isK {
			ks = c10seq(c10Stream(key, ctr[:8]), 64*blk, 64*blk+int64(len(in)))
		} else {
			ks = c10seq("Salsa20(k="+c10desc(key)+",counterblock="+c10desc(ctr)+")", 0, int64(len(in)))
		}
		m.write(w, a[0], c10xorSeq(in, ks), "XORKeyStream")
	case nm == "salsa20.XORKeyStream":
		// the one-shot form: XSalsa20 (24-byte nonce) or Salsa20 (8-byte nonce) from block 0
		in, n, key := arr(a[1], nm), arr(a[2], nm), arr(a[3], nm)
		if in == nil || len(key) != 32 || (len(n) != 24 && len(n) != 8) {
			m.note("salsa20.XORKeyStream: operands cannot be followed")
			return
		}
		if ol, ok := m.sliceLenOf(w, a[0]); !ok || ol < int64(len(in)) {
			m.note("salsa20.XORKeyStream: the output is shorter than the %d-byte input", len(in))
			return
		}
		base := c10Stream(key, n)
		if len(n) == 24 {
			base = c10Stream(c10seq(c10HSalsa(key, n[:16], c10seq("Sigma", 0, 16)), 0, 32), n[16:])
		}
		m.write(w, a[0], c10xorSeq(in, c10seq(base, 0, int64(len(in)))), nm)
	case nm == "internal/poly1305.Sum":
		k, msg := arr(a[2], "poly1305.Sum"), arr(a[1], "poly1305.Sum")
		m.write(w, a[0], c10seq(c10Poly(k, msg), 0, 16), "poly1305.Sum")
	case nm == "internal/poly1305.Verify":
		mac, msg, k := arr(a[0], "poly1305.Verify"), arr(a[1], "poly1305.Verify"), arr(a[2], "poly1305.Verify")
		m.compare(w, val, mac, c10seq(c10Poly(k, msg), 0, 16), true)
	case nm == "internal/poly1305.New":
		m.entry(val).obj = &c10obj{kind: "Poly1305", size: 16, key: arr(a[0], "poly1305.New")}
	case strings.HasPrefix(nm, "(*internal/poly1305.MAC)."):
		o := (*c10obj)(nil)
		if e := m.val[a[0]]; e != nil {
			o = e.obj
		}
		m.method(w, val, o, nm[strings.LastIndex(nm, ".")+1:], a[1:], nm)
	case nm == "crypto/subtle.XORBytes":
		x, y := arr(a[1], "XORBytes"), arr(a[2], "XORBytes")
		if x == nil || y == nil {
			return
		}
		n := min(len(x), len(y))
		if dl, ok := m.sliceLenOf(w, a[0]); !ok || dl < int64(n) {
			m.note("subtle.XORBytes: the destination is shorter than %d bytes", n)
			return
		}
		m.write(w, a[0], c10xorSeq(x[:n], y[:n]), "XORBytes")
		w.env.bind(val, int64(n))
	case nm == "crypto/subtle.ConstantTimeCompare", nm == "crypto/hmac.Equal":
		m.compare(w, val, arr(a[0], nm), arr(a[1], nm), true)
	case nm == "bytes.Equal":
		m.compare(w, val, arr(a[0], nm), arr(a[1], nm), false)
	case strings.HasPrefix(nm, "(encoding/binary.") && strings.Contains(nm, ").PutUint") && len(a) == 3:
		width := map[string]int64{"16": 2, "32": 4, "64": 8}[nm[strings.LastIndex(nm, "PutUint")+7:]]
		v, ok := w.env.eval(a[2])
		dl, okl := m.sliceLenOf(w, a[1])
		if width == 0 || !ok || !okl || dl < width {
			m.note("%s: operands do not evaluate", nm)
			return
		}
		bs := make([]c10byte, width)
		for i := int64(0); i < width; i++ {
			j := i
			if strings.Contains(nm, "bigEndian") {
				j = width - 1 - i
			}
			bs[j] = c10const(int64(uint64(v) >> (8 * uint(i)) & 0xff))
		}
		m.write(w, a[1], bs, nm)
	case nm == "curve25519.ScalarMult":
		m.write(w, a[0], c10seq(c10X25519(arr(a[1], nm), arr(a[2], nm)), 0, 32), nm)
	case nm == "curve25519.ScalarBaseMult":
		m.write(w, a[0], c10seq(c10X25519Base(arr(a[1], nm)), 0, 32), nm)
	case nm == "curve25519.X25519":
		m.saw["X25519"] = true
		s, pt := arr(a[0], nm), arr(a[1], nm)
		m.results(w, val, func(idx int, ex *ssa.Extract) {
			switch idx {
			case 0:
				if m.failX {
					m.setPtr(ex, &c10ptr{})
					w.env.bind(ex, 0)
				} else {
					m.nLocal++
					m.setPtr(ex, &c10ptr{r: &c10reg{name: "x25519", b: c10seq(c10X25519(s, pt), 0, 32)}, cap: 32})
					w.env.bind(ex, 32)
				}
			case 1:
				m.errResult(w, ex, !m.failX)
			}
		})
	case nm == "io.ReadFull":
		n, ok := m.sliceLenOf(w, a[1])
		if !ok {
			m.note("io.ReadFull: the buffer length does not evaluate")
			return
		}
		src := "unknown-reader"
		if e := m.val[a[0]]; e != nil && e.tag != "" {
			src = e.tag
		}
		m.write(w, a[1], c10seq(src, m.randPos, m.randPos+n), nm)
		m.randPos += n
		m.results(w, val, func(idx int, ex *ssa.Extract) {
			if idx == 0 {
				w.env.bind(ex, n)
			} else {
				m.errResult(w, ex, true)
			}
		})
	case nm == "blake2b.New":
		size, ok := w.env.eval(a[0])
		if !ok {
			size = -1
		}
		o := &c10obj{kind: "BLAKE2b", size: size}
		if kl, ok := m.sliceLenOf(w, a[1]); !ok || kl != 0 {
			o.key = arr(a[1], nm)
			if o.key == nil {
				o.key = m.unknown("key", 1)
			}
		}
		m.results(w, val, func(idx int, ex *ssa.Extract) {
			if idx == 0 {
				m.entry(ex).obj = o
				w.env.bind(ex, 1)
			} else {
				m.errResult(w, ex, true)
			}
		})
	case nm == "crypto/hmac.New":
		h := funcValueName(a[0])
		o := &c10obj{kind: "HMAC(" + h + ")", size: map[string]int64{"crypto/sha512.New": 64, "crypto/sha256.New": 32, "crypto/sha512.New512_256": 32, "crypto/sha512.New384": 48}[h], key: arr(a[1], nm)}
		if h == "crypto/sha512.New" {
			o.kind = "HMAC-SHA512"
		}
		if o.size == 0 {
			o.size = 64
		}
		m.entry(val).obj = o
		w.env.bind(val, 1)
	case nm == "nacl/secretbox.Seal":
		msg, n, k := arr(a[1], nm), arr(a[2], nm), arr(a[3], nm)
		if msg == nil {
			return
		}
		m.sbCalls = append(m.sbCalls, [3]string{c10desc(k), c10desc(n), c10desc(msg)})
		p, l := m.appendTo(w, a[0], c10seq(c10Secretbox(k, n, msg), 0, int64(len(msg))+16), nm)
		if p != nil {
			m.setPtr(val, p)
			w.env.bind(val, l)
		}
	case nm == "nacl/secretbox.Open":
		box, n, k := arr(a[1], nm), arr(a[2], nm), arr(a[3], nm)
		if box == nil {
			return
		}
		m.sbCalls = append(m.sbCalls, [3]string{c10desc(k), c10desc(n), c10desc(box)})
		good := len(box) >= 16 && m.verdict == 1
		var p *c10ptr
		var l int64
		if good {
			p, l = m.appendTo(w, a[0], c10seq(c10SecretboxOpen(k, n, box), 0, int64(len(box))-16), nm)
		}
		m.results(w, val, func(idx int, ex *ssa.Extract) {
			switch {
			case idx == 0 && good && p != nil:
				m.setPtr(ex, p)
				w.env.bind(ex, l)
			case idx == 0 && !good:
				m.setPtr(ex, &c10ptr{})
				w.env.bind(ex, 0)
			case idx == 1:
				w.env.bind(ex, map[bool]int64{true: 1, false: 0}[good])
			}
		})
	case nm == "crypto/ed25519.Sign":
		k, msg := arr(a[0], nm), arr(a[1], nm)
		m.nLocal++
		m.setPtr(val, &c10ptr{r: &c10reg{name: "signature", b: c10seq(c10EdSig(k, msg), 0, 64)}, cap: 64})
		w.env.bind(val, 64)
	case nm == "crypto/ed25519.Verify":
		pk, msg, sig := arr(a[0], nm), arr(a[1], nm), arr(a[2], nm)
		m.checks = append(m.checks, c10check{what: c10EdVerify(pk, msg, sig), writesBefore: m.visibleWrites, constantTime: true})
		w.env.bind(val, m.verdict)
	default:
		// not modelled: whatever it can reach through its arguments is unknown afterwards
		m.saw["unmodelled:"+nm] = true
		for _, x := range a {
			if n, ok := m.sliceLenOf(w, x); ok && n > 0 {
				if p := m.resolve(w, x); p != nil && p.r != nil && p.off >= 0 && p.off+n <= int64(len(p.r.b)) {
					copy(p.r.b[p.off:], m.unknown(nm, n))
				}
			}
		}
	}
}

// method: Write / Sum / Verify / Size / Reset on a modelled hash or MAC object.
func (m *c10m) method(w *pathWalker, val ssa.Value, o *c10obj, name string, a []ssa.Value, full string) {
	if o == nil {
		m.saw["unmodelled:"+full] = true
		return
	}
	digest := func() []c10byte {
		if o.kind == "Poly1305" {
			return c10seq(c10Poly(o.key, o.m), 0, 16)
		}
		return c10seq(c10Digest(o.kind, o.size, o.key, o.m), 0, o.size)
	}
	switch name {
	case "Write":
		bs := m.read(w, a[0], o.kind+".Write")
		o.m = append(o.m, bs...)
		if val != nil {
			m.results(w, val, func(idx int, ex *ssa.Extract) {
				if idx == 0 {
					w.env.bind(ex, int64(len(bs)))
				} else {
					m.errResult(w, ex, true)
				}
			})
		}
	case "Sum":
		if o.size < 0 {
			m.note("%s: digest size does not evaluate", o.kind)
			return
		}
		p, l := m.appendTo(w, a[0], digest(), o.kind+".Sum")
		if p != nil && val != nil {
			m.setPtr(val, p)
			w.env.bind(val, l)
		}
	case "Verify":
		m.compare(w, val, m.read(w, a[0], o.kind+".Verify"), digest(), true)
	case "Size":
		if val != nil {
			w.env.bind(val, o.size)
		}
	case "Reset":
		o.m = nil
	default:
		m.saw["unmodelled:"+full] = true
	}
}

// c10FirstDiff describes where two byte strings differ.
func c10FirstDiff(got, want []c10byte) string {
	if len(got) != len(want) {
		return fmt.Sprintf("%d bytes instead of %d", len(got), len(want))
	}
	// of the differing bytes, the one with the simplest terms says most about the
	// cause (a tag over a wrong ciphertext differs too, but only derivatively)
	best, bestLen := -1, 0
	for i := range got {
		if got[i] != want[i] {
			if l := len(got[i].String()) + len(want[i].String()); best < 0 || l < bestLen {
				best, bestLen = i, l
			}
		}
	}
	if best < 0 {
		return ""
	}
	return fmt.Sprintf("byte %d is %s, expected %s", best, got[best], want[best])
}

// c10ZeroGlobalWritten: does any code of the package (including its
// initialiser) write the package-level array g, which the interpretation read
// as all-zero?
func c10ZeroGlobalWritten(c *Ctx, pkg string, g *ssa.Global) string {
	var root func(v ssa.Value, d int) ssa.Value
	root = func(v ssa.Value, d int) ssa.Value {
		if d > 10 {
			return v
		}
		switch x := v.(type) {
		case *ssa.IndexAddr:
			return root(x.X, d+1)
		case *ssa.Slice:
			return root(x.X, d+1)
		case *ssa.ChangeType:
			return root(x.X, d+1)
		case *ssa.SliceToArrayPointer:
			return root(x.X, d+1)
		}
		return v
	}
	fns := c.funcsOfPkg(pkg)
	if sp := c.ssaPkg(pkg); sp != nil {
		if in := sp.Func("init"); in != nil {
			fns = append(fns, in)
		}
	}
	// argument positions through which the modelled primitives write
	outArg := map[string]int{"salsa20/salsa.HSalsa20": 0, "salsa20/salsa.XORKeyStream": 0, "curve25519.ScalarMult": 0, "curve25519.ScalarBaseMult": 0,
		"internal/poly1305.Sum": 0, "io.ReadFull": 1, "crypto/subtle.XORBytes": 0, "builtin:copy": 0, "builtin:clear": 0}
	bad := ""
	for _, fn := range fns {
		allInstrs(fn, func(in ssa.Instruction) {
			switch x := in.(type) {
			case *ssa.Store:
				if root(x.Addr, 0) == ssa.Value(g) {
					bad = "stored to in " + fn.Name()
				}
			case ssa.CallInstruction:
				nm := short(calleeName(x.Common()))
				if i, ok := outArg[nm]; ok && i < len(x.Common().Args) && root(x.Common().Args[i], 0) == ssa.Value(g) {
					bad = "written by " + nm + " in " + fn.Name()
				}
			}
		})
	}
	return bad
}

func c10Trunc(s string, n int) string {
	if len(s) > n {
		return s[:n] + "..."
	}
	return s
}
