package main

import (
	"fmt"
	"sort"
	"strconv"
	"strings"

	"golang.org/x/tools/go/ssa"
)

// C17.parser by interpretation.
//
// The hash-string parser (the function CompareHashAndPassword and Cost hand
// their hash argument to — found by that role) is interpreted, helpers
// inlined, on concrete hash strings: every length 0..58 (too short), and for
// lengths 59..80 every combination of prefix byte, major version, version
// form ($2$ / $2a$ / $2b$ / $2y$) and cost digits around the limits, plus all
// hundred two-digit costs. Each run must end in a Return; no index or slice
// bound may leave its operand (lengths are exact); the result is an error
// exactly when the string is too short, has a wrong prefix, a newer major
// version, non-numeric or out-of-range cost; a too-short string is refused
// before any byte is examined; on success the stored cost, major and minor
// are the ones written in the string (so the offsets 3/4, +3, +22 are the
// ones the format prescribes) and the bytes taken from the input are exactly
// the 22 salt characters after the cost and everything after them.

type c17hashCase struct {
	text   []byte
	reject bool
	vn     int64
	cost   int64
	major  int64
	minor  int64
}

func c17mkCase(L int, b0, b1 byte, form string, digits string, minCost, maxCost int64) c17hashCase {
	t := []byte{b0, b1}
	t = append(t, form...)
	t = append(t, digits...)
	t = append(t, '$')
	for len(t) < L {
		t = append(t, 'A'+byte(len(t)%26))
	}
	t = t[:L]
	hc := c17hashCase{text: t, vn: int64(1 + len(form) + 1), major: int64(b1)}
	if len(form) == 2 {
		hc.minor = int64(form[0])
	}
	v, err := strconv.Atoi(digits)
	hc.cost = int64(v)
	hc.reject = b0 != '$' || b1 > '2' || err != nil || int64(v) < minCost || int64(v) > maxCost
	return hc
}

type c17parseOut struct {
	end, why string
	errClass string
	loads    int
	events   []string
	oob      bool
	oobAt    ssa.Instruction
	negMake  bool
}

func c17parseWalk(root *ssa.Function, q int, text []byte) c17parseOut {
	L := int64(len(text))
	w := &pathWalker{env: newEnv(), lengths: true, maxSteps: 4000, off: map[ssa.Value]int64{}, state: map[string]int64{}}
	// record fields (p.salt, p.cost, ...) are forwarded from store to load: every
	// field store is tracked, a value that does not evaluate untracks the field
	w.absVal = func(ssa.Value) (int64, bool) { return 0, true }
	in := root.Params[q]
	w.env.bind(in, L)
	w.off[in] = 0
	var out c17parseOut
	offOf := func(w *pathWalker, v ssa.Value) (int64, bool) {
		for {
			if o, ok := w.off[v]; ok {
				return o, true
			}
			switch x := v.(type) {
			case *ssa.ChangeType:
				v = x.X
			case *ssa.Convert:
				v = x.X
			default:
				return 0, false
			}
		}
	}
	lenOf := func(w *pathWalker, v ssa.Value) (int64, bool) {
		for {
			if n, ok := w.env.eval(v); ok {
				return n, true
			}
			switch x := v.(type) {
			case *ssa.ChangeType:
				v = x.X
			case *ssa.Convert:
				v = x.X
			default:
				return 0, false
			}
		}
	}
	w.onSlice = func(w *pathWalker, sl *ssa.Slice) {
		o, ok := offOf(w, sl.X)
		lo, lok := int64(0), true
		if sl.Low != nil {
			lo, lok = w.env.eval(sl.Low)
		}
		if ok && lok {
			w.off[sl] = o + lo
		} else {
			delete(w.off, sl)
		}
	}
	w.onPhi = func(w *pathWalker, ph *ssa.Phi, incoming ssa.Value) {
		if o, ok := offOf(w, incoming); ok {
			w.off[ph] = o
		} else {
			delete(w.off, ph)
		}
	}
	w.onLoad = func(w *pathWalker, u *ssa.UnOp) (int64, bool) {
		if ia, ok := u.X.(*ssa.IndexAddr); ok {
			if o, ok := offOf(w, ia.X); ok {
				if idx, ok := w.env.eval(ia.Index); ok && o+idx >= 0 && o+idx < L {
					out.loads++
					return int64(text[o+idx]), true
				}
			}
		}
		delete(w.env.vals, u)
		return 0, false
	}
	w.onStore = func(w *pathWalker, st *ssa.Store) string {
		if fa, ok := st.Addr.(*ssa.FieldAddr); ok {
			n, known := lenOf(w, st.Val)
			if p := w.path(fa); p != "" {
				if known {
					w.state[p] = n
				} else {
					delete(w.state, p)
				}
			}
			if s := derefStruct(fa.X.Type()); s != nil && known {
				return "store " + s.Field(fa.Field).Name() + "=" + itoa(n)
			}
		}
		return ""
	}
	take := func(w *pathWalker, src ssa.Value, n int64) string {
		if o, ok := offOf(w, src); ok {
			return fmt.Sprintf("take %d:%d", o, n)
		}
		return ""
	}
	w.onCall = func(w *pathWalker, ci ssa.CallInstruction) string {
		cc := ci.Common()
		name := short(calleeName(cc))
		val, _ := ci.(ssa.Value)
		switch {
		case name == "strconv.Atoi" || name == "strconv.ParseInt" || name == "strconv.ParseUint":
			call, isCall := ci.(*ssa.Call)
			if !isCall {
				return ""
			}
			o, ok := offOf(w, cc.Args[0])
			n, nok := lenOf(w, cc.Args[0])
			if !ok || !nok || o < 0 || o+n > L {
				return ""
			}
			base := int64(10)
			if len(cc.Args) > 1 {
				if b, ok := w.env.eval(cc.Args[1]); ok && b != 0 {
					base = b
				}
			}
			v, err := strconv.ParseInt(string(text[o:o+n]), int(base), 64)
			if err == nil && name == "strconv.ParseUint" && v < 0 {
				err = strconv.ErrSyntax
			}
			if w.tuple == nil {
				w.tuple = map[ssa.Value][]optInt{}
			}
			w.tuple[call] = []optInt{{v, err == nil}, {0, false}}
			class := "nil"
			if err != nil {
				class = "nonnil"
			}
			for _, t := range c17resultValues(call, 1, 2) {
				c17setErr(w, t, class)
			}
			return fmt.Sprintf("number %d:%d", o, n)
		case name == "builtin:copy" && len(cc.Args) == 2:
			if n, ok := w.env.eval(val); ok && val != nil {
				return take(w, cc.Args[1], n)
			}
		case (name == "bytes.Clone" || strings.HasPrefix(name, "slices.Clone")) && len(cc.Args) == 1:
			if n, ok := lenOf(w, cc.Args[0]); ok && val != nil {
				w.env.bind(val, n)
				return take(w, cc.Args[0], n)
			}
		case name == "builtin:append" && len(cc.Args) == 2 && val != nil:
			a, ok1 := lenOf(w, cc.Args[0])
			b, ok2 := lenOf(w, cc.Args[1])
			if isNilConst(cc.Args[0]) {
				a, ok1 = 0, true
			}
			if ok1 && ok2 {
				w.env.bind(val, a+b)
				return take(w, cc.Args[1], b)
			}
			delete(w.env.vals, val)
		}
		return ""
	}
	c17trackErrors(w)
	out.end = w.walk(root.Blocks[0], nil)
	out.why = w.why
	out.events = w.events
	out.oob = w.oob || w.beyondLen
	out.oobAt = w.oobAt
	for v, n := range w.env.vals {
		if _, isMake := v.(*ssa.MakeSlice); isMake && n < 0 {
			out.negMake = true
		}
	}
	if ret, ok := w.last.(*ssa.Return); ok && out.end == "return" && len(ret.Results) > 0 {
		out.errClass = c17errClass(w, ret.Results[len(ret.Results)-1])
	}
	return out
}

// c17parserRoots: the functions the exported entry points hand their hash
// parameter (parameter 0) to, with the position it is handed over at.
func c17parserRoots(c *Ctx, hashers map[*ssa.Function]bool) map[*ssa.Function]int {
	roots := map[*ssa.Function]int{}
	for _, name := range []string{"CompareHashAndPassword", "Cost"} {
		f := c.fn("bcrypt", name)
		if f == nil || len(f.Params) == 0 {
			continue
		}
		for _, ci := range calls(f, func(string) bool { return true }) {
			g := ci.Common().StaticCallee()
			if g == nil || g.Pkg != f.Pkg || len(g.Blocks) == 0 || hashers[g] {
				continue
			}
			for q, a := range ci.Common().Args {
				if isParamVal(a, f, 0) && q < len(g.Params) && c17isByteSlice(g.Params[q].Type()) {
					roots[g] = q
				}
			}
		}
	}
	return roots
}

func c17Parser(c *Ctx, hashers map[*ssa.Function]bool) {
	minHash, ok := c.pkgConst("bcrypt", "minHashSize")
	if !ok {
		minHash = 59 // 7-byte header + 22 salt + 31 hash characters, shortest version form
	}
	minCost, ok1 := c.pkgConst("bcrypt", "MinCost")
	maxCost, ok2 := c.pkgConst("bcrypt", "MaxCost")
	if !ok1 || !ok2 {
		c.fail("C17.parser", "MinCost/MaxCost", nil, "exported constants not found")
		return
	}
	roots := c17parserRoots(c, hashers)
	if len(roots) == 0 {
		c.undecided("C17.parser", "hash parser", nil, "CompareHashAndPassword / Cost do not hand their hash argument to a function of the package: the parser cannot be identified")
		return
	}
	var fs []*ssa.Function
	for f := range roots {
		fs = append(fs, f)
	}
	sort.Slice(fs, func(i, j int) bool { return fs[i].Pos() < fs[j].Pos() })
	for _, root := range fs {
		c17parserSuite(c, root, roots[root], minHash, minCost, maxCost)
	}
}

func c17parserSuite(c *Ctx, root *ssa.Function, q int, minHash, minCost, maxCost int64) {
	var short_, bounds, verdicts, fields, takes, undec string
	at := func(o c17parseOut) string {
		if o.oobAt != nil {
			return " at " + c.posStr(o.oobAt.Pos())
		}
		return ""
	}
	cases := 0
	run := func(hc c17hashCase) {
		cases++
		L := int64(len(hc.text))
		o := c17parseWalk(root, q, hc.text)
		id := fmt.Sprintf("input length %d", L)
		if L >= minHash {
			id = fmt.Sprintf("input %q... of length %d", string(hc.text[:min(len(hc.text), 8)]), L)
		}
		tooShort := L < minHash
		if tooShort {
			// refused before any byte is examined
			switch {
			case o.loads > 0 || o.oob || o.end == "return" && o.errClass == "nil":
				if short_ == "" {
					short_ = id + ": parsing proceeds"
					if o.oob {
						short_ += " (and an index or slice bound leaves the input" + at(o) + ")"
					}
				}
			case o.end != "return" || o.errClass != "nonnil":
				if undec == "" {
					undec = fmt.Sprintf("%s: interpretation ended with %s (%s)", id, o.end, o.why)
				}
			}
			return
		}
		if o.end != "return" {
			if o.oob || o.negMake {
				if bounds == "" {
					bounds = id + ": an index or slice bound leaves its operand" + at(o)
				}
				return
			}
			if undec == "" {
				undec = fmt.Sprintf("%s: interpretation ended with %s (%s)", id, o.end, o.why)
			}
			return
		}
		if (o.oob || o.negMake) && bounds == "" {
			bounds = id + ": an index or slice bound leaves its operand" + at(o)
		}
		if o.errClass == "" {
			if undec == "" {
				undec = id + ": whether the returned error is nil could not be determined"
			}
			return
		}
		rejected := o.errClass == "nonnil"
		if rejected != hc.reject && verdicts == "" {
			verdicts = fmt.Sprintf("%s is %s", id, map[bool]string{true: "rejected", false: "accepted"}[rejected])
			if !rejected && (hc.cost < minCost || hc.cost > maxCost) {
				verdicts += fmt.Sprintf(" — an out-of-range cost %d can be stored (1<<cost rounds)", hc.cost)
			}
		}
		if rejected || hc.reject {
			return
		}
		got := map[string]int64{}
		var tk []string
		for _, e := range o.events {
			if f, ok := strings.CutPrefix(e, "store "); ok {
				if i := strings.IndexByte(f, '='); i > 0 {
					n, _ := strconv.ParseInt(f[i+1:], 10, 64)
					got[f[:i]] = n
				}
			}
			if t, ok := strings.CutPrefix(e, "take "); ok {
				tk = append(tk, t)
			}
		}
		if fields == "" {
			for _, want := range []struct {
				f string
				v int64
			}{{"cost", hc.cost}, {"major", hc.major}, {"minor", hc.minor}} {
				if g, has := got[want.f]; (has || want.v != 0) && g != want.v {
					fields = fmt.Sprintf("%s: stored %s is %d, the string says %d — the parser does not read the field at the offset the version form prescribes", id, want.f, g, want.v)
				}
			}
		}
		sort.Strings(tk)
		wantTk := []string{fmt.Sprintf("%d:%d", hc.vn+3, 22), fmt.Sprintf("%d:%d", hc.vn+25, L-hc.vn-25)}
		sort.Strings(wantTk)
		if takes == "" && fmt.Sprint(tk) != fmt.Sprint(wantTk) {
			takes = fmt.Sprintf("%s: bytes taken from the input (offset:length) %v, the format prescribes salt and hash at %v", id, tk, wantTk)
		}
	}
	for L := 0; L < int(minHash); L++ {
		run(c17mkCase(L, '$', '2', "a$", "10", minCost, maxCost))
	}
	digits := []string{"00", fmt.Sprintf("%02d", minCost-1), fmt.Sprintf("%02d", minCost), "10", fmt.Sprintf("%02d", maxCost), fmt.Sprintf("%02d", maxCost+1), "99", "1x", "x1"}
	for _, L := range []int{int(minHash), int(minHash) + 1, int(minHash) + 2, int(minHash) + 3, 70, 80} {
		for _, b0 := range []byte{'$', 'x'} {
			for _, b1 := range []byte{'2', '3', '1'} {
				for _, form := range []string{"$", "a$", "b$", "y$"} {
					for _, d := range digits {
						run(c17mkCase(L, b0, b1, form, d, minCost, maxCost))
					}
				}
			}
		}
	}
	for v := 0; v < 100; v++ {
		run(c17mkCase(int(minHash)+1, '$', '2', "a$", fmt.Sprintf("%02d", v), minCost, maxCost))
		run(c17mkCase(int(minHash), '$', '2', "$", fmt.Sprintf("%02d", v), minCost, maxCost))
	}
	c.check(short_ == "", "C17.parser", "length test precedes parsing", root, fmt.Sprintf("inputs shorter than %d are refused before any byte is examined (0..%d interpreted)", minHash, minHash-1), short_)
	c.check(bounds == "", "C17.parser", "offsets stay inside the minimum hash size", root, fmt.Sprintf("%d hash strings of length %d..80, both version forms: no index or slice bound leaves its operand, no negative allocation", cases, minHash), bounds+" — index/slice out of range panic on a malformed hash")
	c.check(verdicts == "" && maxCost <= 31, "C17.parser", "cost range", root, fmt.Sprintf("an error is returned exactly for a wrong prefix, a major version above '2', non-numeric cost digits or a cost outside %d..%d (all costs 00..99 interpreted)", minCost, maxCost), verdicts)
	c.check(fields == "", "C17.parser", "version advance is the helper's result", root, "on success the stored cost, major and minor are those written in the string for $2$ and $2x$ forms (offsets 3 / 4)", fields)
	if undec != "" {
		c.undecided("C17.parser", "interpretation of "+root.Name(), root, undec)
	}
	c.check(takes == "", "C17.parser", "salt and hash extraction", root, "the bytes copied out of the input are the 22 characters after the cost field and everything after them", takes)
}

// c17HashOffsets: (*hashed).Hash interpreted (slices by length) for both
// version forms and stored hash lengths 0..40: no index or slice bound leaves
// its operand; when the result length evaluates it is 59 / 60.
func c17HashOffsets(c *Ctx) {
	h := c.fn("bcrypt", "(*hashed).Hash")
	if h == nil || len(h.Params) == 0 {
		return
	}
	recv := h.Params[0].Name()
	bad, cases, lens := "", 0, 0
	for _, minor := range []int64{0, 'a', 'b', 'y'} {
		for hl := int64(0); hl <= 40 && bad == ""; hl++ {
			for _, sl := range []int64{22, 24} {
				w := &pathWalker{env: newEnv(), lengths: true, maxSteps: 4000, assumeErrNil: true, state: map[string]int64{
					recv + ".minor": minor, recv + ".major": '2', recv + ".cost": 10, recv + ".salt": sl, recv + ".hash": hl}}
				w.onCall = func(w *pathWalker, ci ssa.CallInstruction) string {
					cc := ci.Common()
					val, _ := ci.(ssa.Value)
					if calleeName(cc) == "builtin:append" && len(cc.Args) == 2 && val != nil {
						a, ok1 := w.env.eval(cc.Args[0])
						b, ok2 := w.env.eval(cc.Args[1])
						if ok1 && ok2 {
							w.env.bind(val, a+b)
						} else {
							delete(w.env.vals, val)
						}
					}
					return ""
				}
				end := w.walk(h.Blocks[0], nil)
				cases++
				id := fmt.Sprintf("minor version %d, %d salt and %d hash characters", minor, sl, hl)
				switch {
				case w.oob || w.beyondLen:
					bad = id + ": Hash() can index or slice beyond its array"
					if w.oobAt != nil {
						bad += " at " + c.posStr(w.oobAt.Pos())
					}
				case end != "return":
					bad = fmt.Sprintf("%s: interpretation ended with %s (%s)", id, end, w.why)
				default:
					if ret, ok := w.last.(*ssa.Return); ok && len(ret.Results) == 1 {
						if n, ok := w.env.eval(ret.Results[0]); ok {
							lens++
							want := int64(59)
							if minor != 0 {
								want = 60
							}
							if n != want {
								bad = fmt.Sprintf("%s: Hash() returns %d bytes, the format has %d", id, n, want)
							}
						}
					}
				}
			}
		}
	}
	c.check(bad == "", "C17.parser", "Hash() offsets", h, fmt.Sprintf("%d (version form, salt, hash length) cases interpreted: all indices and slice bounds stay within the array; result length 59/60 in the %d cases where it evaluates", cases, lens), bad)
}
