package main

import (
	"fmt"
	"go/token"
	"go/types"
	"strings"

	"golang.org/x/tools/go/ssa"
)

// Value-sensitive, context-sensitive gate analysis for C48.
//
// A *gate* is a semantic condition recognised on SSA values by role
// (isGate: "when this value is in state st — nil / non-nil / true / false —
// the condition is established"). For a root function F the engine decides
//
//   holds(v, st, b)   on every path (from the start point) that is at the end
//                     of block b with v in state st, the gate has been
//                     established;
//
// independently of how the code is factored:
//
//   * frames: a static call to a function of F's own package (depth <= 4, no
//     recursion) is analysed in the context of that call; a parameter of the
//     helper IS the argument of the call (resolve), so values are identified
//     by role, never by name, and a helper called twice is analysed twice;
//   * implies(v, st): v IS the gate value; v is a negation / nil test /
//     boolean test of such a value; v is a phi whose every incoming edge
//     carries such a value or can only be taken behind a pass edge; v is the
//     result of a helper ALL of whose returns satisfy the same (the helper
//     establishes the gate for its caller: `func check(...) error`,
//     `return a && b`, `return x.Check(...)`); v cannot be in state st at all;
//   * pass(frame): both edges of every If whose condition implies the gate in
//     the respective state — if-chains, switches, `a || b` conditions, flags
//     and branches on helper results alike;
//   * a block is gated when it cannot be reached from the start point without
//     a pass edge (or an edge contradicting a path assumption), or when the
//     frame's call site is gated in the caller;
//   * path assumptions ("issuer != nil") prune the nil tests of every value
//     that resolves to the assumed parameter, in any frame;
//   * start points: "once X was observed, no accepting return" rules start the
//     search at the observation (in whatever frame it lies; the callers
//     continue at the call site).

type c48St int

const (
	c48True c48St = iota
	c48False
	c48Nil
	c48NonNil
)

func (s c48St) flip() c48St {
	switch s {
	case c48True:
		return c48False
	case c48False:
		return c48True
	case c48Nil:
		return c48NonNil
	}
	return c48Nil
}

const c48Depth = 4

type c48Frame struct {
	fn      *ssa.Function
	call    *ssa.Call        // the call in parent.fn that enters fn (nil for the root)
	closure *ssa.MakeClosure // fn is a closure handed to call (slices.ContainsFunc ...)
	parent  *c48Frame
	depth   int
	key     string
}

func (fr *c48Frame) active(f *ssa.Function) bool {
	for x := fr; x != nil; x = x.parent {
		if x.fn == f {
			return true
		}
	}
	return false
}

type c48Key struct {
	v   ssa.Value
	st  c48St
	key string
}

type c48Gate struct {
	c      *Ctx
	root   *c48Frame
	isGate func(v ssa.Value, fr *c48Frame) (c48St, bool)
	// assumeNonNil: the value (already resolved) is assumed non-nil on every path
	assumeNonNil func(v ssa.Value, fr *c48Frame) bool
	start        map[string]*ssa.BasicBlock // frame key -> start block (default: entry)
	frames       map[string]*c48Frame
	pass         map[string]edgeSet
	acut         map[string]edgeSet
	busy, done   map[string]bool
	stack        map[c48Key]bool
}

func (c *Ctx) c48NewGate(root *ssa.Function, isGate func(v ssa.Value, fr *c48Frame) (c48St, bool)) *c48Gate {
	g := &c48Gate{c: c, isGate: isGate,
		start: map[string]*ssa.BasicBlock{}, frames: map[string]*c48Frame{},
		pass: map[string]edgeSet{}, acut: map[string]edgeSet{},
		busy: map[string]bool{}, done: map[string]bool{}, stack: map[c48Key]bool{}}
	g.root = &c48Frame{fn: root, key: "/"}
	g.frames[g.root.key] = g.root
	return g
}

// sub: the (canonical) frame of callee entered from call in fr; nil when the
// call is not expanded.
func (g *c48Gate) sub(fr *c48Frame, call *ssa.Call) *c48Frame {
	callee := samePkgCallee(g.root.fn, &call.Call)
	if callee == nil || fr.depth >= c48Depth || fr.active(callee) {
		return nil
	}
	k := fr.key + fmt.Sprintf("%p/", call)
	if f, ok := g.frames[k]; ok {
		return f
	}
	f := &c48Frame{fn: callee, call: call, parent: fr, depth: fr.depth + 1, key: k}
	g.frames[k] = f
	return f
}

// c48FuncArg: the closure / function passed as argument i of a library call
// that applies it to the elements of a slice.
func c48FuncArg(v ssa.Value) (*ssa.Function, *ssa.MakeClosure) {
	switch x := v.(type) {
	case *ssa.MakeClosure:
		if f, ok := x.Fn.(*ssa.Function); ok {
			return f, x
		}
	case *ssa.Function:
		return x, nil
	case *ssa.ChangeType:
		return c48FuncArg(x.X)
	}
	return nil, nil
}

// subFunc: the frame of the predicate function handed to a slices.*Func call.
func (g *c48Gate) subFunc(fr *c48Frame, call *ssa.Call, argIdx int) *c48Frame {
	if argIdx >= len(call.Call.Args) {
		return nil
	}
	f, mc := c48FuncArg(call.Call.Args[argIdx])
	if f == nil || len(f.Blocks) == 0 || f.Pkg != g.root.fn.Pkg || fr.depth >= c48Depth || fr.active(f) {
		return nil
	}
	k := fr.key + fmt.Sprintf("%p:f/", call)
	if s, ok := g.frames[k]; ok {
		return s
	}
	s := &c48Frame{fn: f, call: call, closure: mc, parent: fr, depth: fr.depth + 1, key: k}
	g.frames[k] = s
	return s
}

// c48SliceFunc: call is slices.ContainsFunc / slices.IndexFunc(s, pred).
func c48SliceFunc(call *ssa.Call) string {
	n := calleeName(&call.Call)
	switch {
	case strings.HasPrefix(n, "slices.ContainsFunc"):
		return "contains"
	case strings.HasPrefix(n, "slices.IndexFunc"):
		return "index"
	}
	return ""
}

// allFrames enumerates the root frame and every frame reachable from it.
func (g *c48Gate) allFrames() []*c48Frame {
	var out []*c48Frame
	var rec func(fr *c48Frame)
	rec = func(fr *c48Frame) {
		out = append(out, fr)
		allInstrs(fr.fn, func(in ssa.Instruction) {
			call, ok := in.(*ssa.Call)
			if !ok {
				return
			}
			if s := g.sub(fr, call); s != nil {
				rec(s)
			} else if c48SliceFunc(call) != "" {
				if s := g.subFunc(fr, call, 1); s != nil {
					rec(s)
				}
			}
		})
	}
	rec(g.root)
	return out
}

// startAt: the search starts at instruction in (frame fr); the callers of fr
// continue at their call sites.
func (g *c48Gate) startAt(fr *c48Frame, in ssa.Instruction) {
	g.start[fr.key] = in.Block()
	for x := fr; x.parent != nil; x = x.parent {
		g.start[x.parent.key] = x.call.Block()
	}
}

// resolve follows a value to the frame where it originates: a parameter of a
// helper is the argument of the call the frame was entered by, a free variable
// of a closure is its binding, a load of a local cell written once (a captured
// parameter) is the value written.
func (g *c48Gate) resolve(v ssa.Value, fr *c48Frame) (ssa.Value, *c48Frame) {
	for i := 0; i < 16; i++ {
		switch x := v.(type) {
		case *ssa.Parameter:
			if fr.parent == nil || x.Parent() != fr.fn || fr.call == nil {
				return v, fr
			}
			idx := -1
			for k, p := range fr.fn.Params {
				if p == x {
					idx = k
				}
			}
			if fr.closure != nil || (fr.call != nil && c48SliceFunc(fr.call) != "") {
				return v, fr // an element of the slice: no single origin
			}
			if idx < 0 || idx >= len(fr.call.Call.Args) {
				return v, fr
			}
			v, fr = fr.call.Call.Args[idx], fr.parent
		case *ssa.FreeVar:
			if fr.closure == nil || fr.parent == nil || x.Parent() != fr.fn {
				return v, fr
			}
			idx := -1
			for k, p := range fr.fn.FreeVars {
				if p == x {
					idx = k
				}
			}
			if idx < 0 || idx >= len(fr.closure.Bindings) {
				return v, fr
			}
			v, fr = fr.closure.Bindings[idx], fr.parent
		case *ssa.ChangeType:
			v = x.X
		case *ssa.UnOp:
			if x.Op != token.MUL {
				return v, fr
			}
			cell, cf := g.resolve(x.X, fr)
			al, ok := cell.(*ssa.Alloc)
			if !ok || al.Referrers() == nil {
				return v, fr
			}
			var only *ssa.Store
			n := 0
			escapes := false
			for _, r := range *al.Referrers() {
				switch y := r.(type) {
				case *ssa.Store:
					if y.Addr == ssa.Value(al) {
						only = y
						n++
					} else {
						escapes = true
					}
				case *ssa.UnOp, *ssa.MakeClosure, *ssa.DebugRef:
				default:
					escapes = true
				}
			}
			if n != 1 || escapes {
				return v, fr
			}
			// the closure may write the cell too
			for _, r := range *al.Referrers() {
				if mc, ok := r.(*ssa.MakeClosure); ok {
					if f, ok := mc.Fn.(*ssa.Function); ok && c48WritesFreeVar(f, mc, al) {
						return v, fr
					}
				}
			}
			v, fr = only.Val, cf
		default:
			return v, fr
		}
	}
	return v, fr
}

func c48WritesFreeVar(f *ssa.Function, mc *ssa.MakeClosure, cell ssa.Value) bool {
	writes := false
	for i, b := range mc.Bindings {
		if b != cell || i >= len(f.FreeVars) {
			continue
		}
		fv := f.FreeVars[i]
		if fv.Referrers() == nil {
			continue
		}
		for _, r := range *fv.Referrers() {
			if _, isLoad := r.(*ssa.UnOp); !isLoad {
				writes = true
			}
		}
	}
	return writes
}

// isRootParam: v (in frame fr) is parameter idx of the root function.
func (g *c48Gate) isRootParam(v ssa.Value, fr *c48Frame, idx int) bool {
	rv, rf := g.resolve(v, fr)
	return rf == g.root && idx < len(g.root.fn.Params) && rv == ssa.Value(g.root.fn.Params[idx])
}

// same: two values (of possibly different frames) are the same object.
func (g *c48Gate) same(a ssa.Value, fa *c48Frame, b ssa.Value, fb *c48Frame) bool {
	ra, rfa := g.resolve(a, fa)
	rb, rfb := g.resolve(b, fb)
	if ra == rb && rfa == rfb {
		return true
	}
	// two loads of the same field of the same object
	ta, fla, ba, oka := fieldOf(ra)
	tb, flb, bb, okb := fieldOf(rb)
	if oka && okb && ta == tb && fla == flb {
		return g.same(ba, rfa, bb, rfb)
	}
	return false
}

func (g *c48Gate) assumeCuts(fr *c48Frame) edgeSet {
	if cs, ok := g.acut[fr.key]; ok {
		return cs
	}
	cs := edgeSet{}
	if g.assumeNonNil != nil {
		e := newEnv()
		n := e.bindNilTests(fr.fn, func(v ssa.Value) bool {
			rv, rf := g.resolve(v, fr)
			return g.assumeNonNil(rv, rf)
		}, false)
		if n > 0 {
			cs = e.cuts(fr.fn)
		}
	}
	g.acut[fr.key] = cs
	return cs
}

func (g *c48Gate) startBlock(fr *c48Frame) *ssa.BasicBlock {
	if b, ok := g.start[fr.key]; ok {
		return b
	}
	return fr.fn.Blocks[0]
}

// passOf: the edges of fr.fn on which the gate is established (least fixpoint:
// a flag carried by a phi is justified by pass edges found earlier).
func (g *c48Gate) passOf(fr *c48Frame) edgeSet {
	if g.done[fr.key] || g.busy[fr.key] {
		return g.pass[fr.key]
	}
	g.busy[fr.key] = true
	ps := edgeSet{}
	g.pass[fr.key] = ps
	for changed := true; changed; {
		changed = false
		for _, b := range fr.fn.Blocks {
			if len(b.Instrs) == 0 {
				continue
			}
			iff, ok := b.Instrs[len(b.Instrs)-1].(*ssa.If)
			if !ok {
				continue
			}
			if !ps[edge{b, 0}] && g.implies(iff.Cond, c48True, fr) {
				ps[edge{b, 0}] = true
				changed = true
			}
			if !ps[edge{b, 1}] && g.implies(iff.Cond, c48False, fr) {
				ps[edge{b, 1}] = true
				changed = true
			}
		}
	}
	delete(g.busy, fr.key)
	// a result computed while a caller's own pass set was still growing may be
	// incomplete (the call site's gating feeds the helper): recompute it later
	if len(g.busy) == 0 {
		g.done[fr.key] = true
	}
	return ps
}

// reachable: is block b of frame fr reachable from the frame's start point
// without a pass edge, an assumption-contradicting edge or an edge of extra?
func (g *c48Gate) reachable(fr *c48Frame, b *ssa.BasicBlock, extra []edge) bool {
	cut := edgeSet{}
	for e := range g.passOf(fr) {
		cut[e] = true
	}
	for e := range g.assumeCuts(fr) {
		cut[e] = true
	}
	cut.addAll(extra)
	return reach([]*ssa.BasicBlock{g.startBlock(fr)}, cut)[b]
}

// gatedAt: every path that is at the end of block b (with the edges of extra
// excluded) has established the gate.
func (g *c48Gate) gatedAt(fr *c48Frame, b *ssa.BasicBlock, extra []edge) bool {
	if !g.reachable(fr, b, extra) {
		return true
	}
	if _, own := g.start[fr.key]; !own && fr.parent != nil && fr.call != nil {
		return g.gatedAt(fr.parent, fr.call.Block(), nil)
	}
	return false
}

// contra: the edges on which v is known NOT to be in state st.
func c48Contra(v ssa.Value, st c48St) []edge {
	switch st {
	case c48Nil:
		_, no := edgesWhere(v, isNil)
		return no
	case c48NonNil:
		yes, _ := edgesWhere(v, isNil)
		return yes
	case c48True:
		yes, _ := boolEdges(v, false)
		return yes
	case c48False:
		yes, _ := boolEdges(v, true)
		return yes
	}
	return nil
}

// holds: whenever control is at the end of block b of frame fr and v is in
// state st, the gate has been established.
func (g *c48Gate) holds(v ssa.Value, st c48St, b *ssa.BasicBlock, fr *c48Frame) bool {
	if g.implies(v, st, fr) {
		return true
	}
	return g.gatedAt(fr, b, c48Contra(v, st))
}

// returnsHold: every return of frame fr satisfies holds for result idx.
func (g *c48Gate) returnsHold(fr *c48Frame, idx int, st c48St) (bool, *ssa.Return) {
	for _, r := range returnsOf(fr.fn) {
		if idx >= len(r.Results) {
			return false, r
		}
		if !g.holds(r.Results[idx], st, r.Block(), fr) {
			return false, r
		}
	}
	return true, nil
}

func c48StateOfType(t types.Type, st c48St) bool {
	switch t.Underlying().(type) {
	case *types.Basic:
		b := t.Underlying().(*types.Basic)
		return b.Info()&types.IsBoolean != 0 && (st == c48True || st == c48False)
	case *types.Pointer, *types.Interface, *types.Slice, *types.Map, *types.Signature, *types.Chan:
		return st == c48Nil || st == c48NonNil
	}
	return false
}

func (g *c48Gate) implies(v ssa.Value, st c48St, fr *c48Frame) bool {
	k := c48Key{v, st, fr.key}
	if g.stack[k] {
		return true // a value fed only by itself and by sources that imply the gate
	}
	if len(g.stack) > 96 {
		return false
	}
	g.stack[k] = true
	defer delete(g.stack, k)

	if s, ok := g.isGate(v, fr); ok {
		return s == st
	}
	switch x := v.(type) {
	case *ssa.Const:
		if b, ok := constBool(x); ok {
			return (st == c48True && !b) || (st == c48False && b) // cannot be in that state
		}
		if x.IsNil() {
			return st == c48NonNil
		}
		return false
	case *ssa.MakeInterface, *ssa.Alloc, *ssa.FieldAddr, *ssa.IndexAddr, *ssa.MakeClosure, *ssa.MakeMap, *ssa.MakeSlice, *ssa.MakeChan, *ssa.Function, *ssa.Global:
		return st == c48Nil // never nil
	case *ssa.ChangeInterface:
		return g.implies(x.X, st, fr)
	case *ssa.ChangeType:
		return g.implies(x.X, st, fr)
	case *ssa.UnOp:
		if x.Op == token.NOT {
			return g.implies(x.X, st.flip(), fr)
		}
		if x.Op == token.MUL {
			if rv, rf := g.resolve(x, fr); rv != ssa.Value(x) {
				return g.implies(rv, st, rf)
			}
		}
		return false
	case *ssa.BinOp:
		if st != c48True && st != c48False {
			return false
		}
		if x.Op == token.EQL || x.Op == token.NEQ {
			equal := (x.Op == token.EQL) == (st == c48True) // in this state the operands are equal
			for _, pair := range [][2]ssa.Value{{x.X, x.Y}, {x.Y, x.X}} {
				cst, ok := pair[1].(*ssa.Const)
				if !ok {
					continue
				}
				if cst.IsNil() {
					if equal {
						return g.implies(pair[0], c48Nil, fr)
					}
					return g.implies(pair[0], c48NonNil, fr)
				}
				if b, ok := constBool(cst); ok {
					if equal == b {
						return g.implies(pair[0], c48True, fr)
					}
					return g.implies(pair[0], c48False, fr)
				}
			}
		}
		// i := slices.IndexFunc(s, pred); a comparison that implies i >= 0
		// means pred returned true for the selected element
		if call, kk, left, ok := c48CmpCall(x); ok && c48SliceFunc(call) == "index" {
			if c48CmpImplies(x.Op, kk, left, st == c48True, []int64{-1, 0, 1, 7}, func(d int64) bool { return d >= 0 }) {
				if s := g.subFunc(fr, call, 1); s != nil {
					ok, _ := g.returnsHold(s, 0, c48True)
					return ok
				}
			}
		}
		return false
	case *ssa.Phi:
		for i, e := range x.Edges {
			pred := x.Block().Preds[i]
			if g.edgeCut(fr, pred, x.Block()) {
				continue
			}
			// the edge itself tells that e is not in state st (`if err == nil {...}`
			// joined with the err != nil edge)
			contra := edgeSet{}
			contra.addAll(c48Contra(e, st))
			vacuous := true
			for k, s := range pred.Succs {
				if s == x.Block() && !contra[edge{pred, k}] {
					vacuous = false
				}
			}
			if vacuous {
				continue
			}
			if !g.holds(e, st, pred, fr) {
				return false
			}
		}
		return true
	case *ssa.Parameter, *ssa.FreeVar:
		if rv, rf := g.resolve(v, fr); rv != v || rf != fr {
			return g.implies(rv, st, rf)
		}
		return false
	case *ssa.Extract:
		call, ok := x.Tuple.(*ssa.Call)
		if !ok {
			return false
		}
		return g.callImplies(call, x.Index, st, fr)
	case *ssa.Call:
		if x.Call.Signature().Results().Len() != 1 {
			return false
		}
		return g.callImplies(x, 0, st, fr)
	}
	return false
}

// edgeCut: every CFG edge pred -> succ is a pass edge or contradicts an assumption.
func (g *c48Gate) edgeCut(fr *c48Frame, pred, succ *ssa.BasicBlock) bool {
	ps, as := g.passOf(fr), g.assumeCuts(fr)
	for i, s := range pred.Succs {
		if s == succ && !ps[edge{pred, i}] && !as[edge{pred, i}] {
			return false
		}
	}
	return true
}

// callImplies: result idx of the call in state st implies the gate, because
// every return of the (same-package) callee does in the context of this call.
func (g *c48Gate) callImplies(call *ssa.Call, idx int, st c48St, fr *c48Frame) bool {
	if s := g.sub(fr, call); s != nil {
		ok, _ := g.returnsHold(s, idx, st)
		return ok
	}
	if c48SliceFunc(call) == "contains" && idx == 0 {
		s := g.subFunc(fr, call, 1)
		if s == nil {
			return false
		}
		switch st {
		case c48True:
			// some application of the predicate returned true
			ok, _ := g.returnsHold(s, 0, c48True)
			return ok
		case c48False:
			// every application returned false — including the observed one,
			// when the search starts at an observation inside the predicate
			if _, own := g.start[s.key]; own {
				ok, _ := g.returnsHold(s, 0, c48False)
				return ok
			}
		}
	}
	return false
}

// c48CmpCall: bo compares the result of a call with an integer constant.
func c48CmpCall(bo *ssa.BinOp) (call *ssa.Call, k int64, left bool, ok bool) {
	if c, isC := bo.X.(*ssa.Call); isC {
		if n, okk := constInt(bo.Y); okk {
			return c, n, true, true
		}
	}
	if c, isC := bo.Y.(*ssa.Call); isC {
		if n, okk := constInt(bo.X); okk {
			return c, n, false, true
		}
	}
	return nil, 0, false, false
}

// c48CmpImplies: (d op k) == want implies P(d) for every d of the domain
// (and some d of the domain satisfies it).
func c48CmpImplies(op token.Token, k int64, left bool, want bool, dom []int64, P func(int64) bool) bool {
	some := false
	for _, d := range dom {
		var res, ok bool
		if left {
			res, ok = evalCmp(op, d, k)
		} else {
			res, ok = evalCmp(op, k, d)
		}
		if !ok {
			return false
		}
		if res == want {
			some = true
			if !P(d) {
				return false
			}
		}
	}
	return some
}

// c48CmpGate: v is a comparison of x with an integer constant; returns the
// state of v that implies P(x) over the domain, when there is exactly one.
func c48CmpGate(v ssa.Value, isX func(ssa.Value) bool, dom []int64, P func(int64) bool) (c48St, bool) {
	bo, ok := v.(*ssa.BinOp)
	if !ok {
		return 0, false
	}
	var k int64
	var left bool
	if n, okk := constInt(bo.Y); okk && isX(bo.X) {
		k, left = n, true
	} else if n, okk := constInt(bo.X); okk && isX(bo.Y) {
		k, left = n, false
	} else {
		return 0, false
	}
	t := c48CmpImplies(bo.Op, k, left, true, dom, P)
	f := c48CmpImplies(bo.Op, k, left, false, dom, P)
	switch {
	case t && !f:
		return c48True, true
	case f && !t:
		return c48False, true
	}
	return 0, false
}

// countGates: number of gate values in all frames (0 = the gate does not
// exist anywhere in the function or its helpers).
func (g *c48Gate) countGates() int {
	n := 0
	for _, fr := range g.allFrames() {
		allInstrs(fr.fn, func(in ssa.Instruction) {
			if v, ok := in.(ssa.Value); ok {
				if _, is := g.isGate(v, fr); is {
					n++
				}
			}
		})
	}
	return n
}

// decide: every return of the root whose result idx is in state st lies
// behind the gate.
func (g *c48Gate) decide(rule, name string, idx int, st c48St, what, okMsg, failMsg string) bool {
	c := g.c
	n := g.countGates()
	if n == 0 {
		c.fail(rule, name, g.root.fn, "gate not found: "+what+" (nowhere in "+fnName(g.root.fn)+" or its helpers)")
		return false
	}
	if ok, r := g.returnsHold(g.root, idx, st); !ok {
		c.fail(rule, name, r, failMsg)
		return false
	}
	c.ok(rule, name, g.root.fn, fmt.Sprintf("%s (%d gate value(s); helpers analysed in the context of their calls)", okMsg, n))
	return true
}

// c48Occ: an instruction in the context of a frame.
type c48Occ struct {
	fr *c48Frame
	in ssa.Instruction
}
