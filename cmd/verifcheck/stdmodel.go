package main

import (
	"go/types"
	"math/bits"
	"strings"

	"golang.org/x/tools/go/ssa"
)

// bitsModel folds a call of a pure math/bits function over known operands
// (values are carried as int64 bit patterns of the unsigned operands).
func bitsModel(name string, a []int64) ([]int64, bool) {
	u := func(i int) uint64 { return uint64(a[i]) }
	switch name {
	case "Add64":
		if len(a) == 3 {
			s, c := bits.Add64(u(0), u(1), u(2)&1)
			return []int64{int64(s), int64(c)}, true
		}
	case "Sub64":
		if len(a) == 3 {
			d, b := bits.Sub64(u(0), u(1), u(2)&1)
			return []int64{int64(d), int64(b)}, true
		}
	case "Add32":
		if len(a) == 3 {
			s, c := bits.Add32(uint32(a[0]), uint32(a[1]), uint32(a[2])&1)
			return []int64{int64(s), int64(c)}, true
		}
	case "Sub32":
		if len(a) == 3 {
			d, b := bits.Sub32(uint32(a[0]), uint32(a[1]), uint32(a[2])&1)
			return []int64{int64(d), int64(b)}, true
		}
	case "Mul64":
		if len(a) == 2 {
			hi, lo := bits.Mul64(u(0), u(1))
			return []int64{int64(hi), int64(lo)}, true
		}
	case "RotateLeft64":
		if len(a) == 2 {
			return []int64{int64(bits.RotateLeft64(u(0), int(a[1])))}, true
		}
	case "RotateLeft32":
		if len(a) == 2 {
			return []int64{int64(bits.RotateLeft32(uint32(a[0]), int(a[1])))}, true
		}
	case "Len64", "Len":
		if len(a) == 1 {
			return []int64{int64(bits.Len64(u(0)))}, true
		}
	case "Len32":
		if len(a) == 1 {
			return []int64{int64(bits.Len32(uint32(a[0])))}, true
		}
	case "TrailingZeros64", "TrailingZeros":
		if len(a) == 1 {
			return []int64{int64(bits.TrailingZeros64(u(0)))}, true
		}
	case "TrailingZeros32":
		if len(a) == 1 {
			return []int64{int64(bits.TrailingZeros32(uint32(a[0])))}, true
		}
	case "OnesCount64", "OnesCount":
		if len(a) == 1 {
			return []int64{int64(bits.OnesCount64(u(0)))}, true
		}
	case "ReverseBytes64":
		if len(a) == 1 {
			return []int64{int64(bits.ReverseBytes64(u(0)))}, true
		}
	case "ReverseBytes32":
		if len(a) == 1 {
			return []int64{int64(bits.ReverseBytes32(uint32(a[0])))}, true
		}
	}
	return nil, false
}

// bytePath names the byte storage a slice value (or pointer to a byte array)
// denotes: the tracked-state base name and the offset of its first byte.
func (w *pathWalker) bytePath(v ssa.Value) (string, int64, bool) {
	switch x := v.(type) {
	case *ssa.Slice:
		lo := int64(0)
		if x.Low != nil {
			n, ok := w.env.eval(x.Low)
			if !ok {
				return "", 0, false
			}
			lo = n
		}
		if _, isSlice := x.X.Type().Underlying().(*types.Slice); isSlice {
			b, o, ok := w.bytePath(x.X)
			return b, o + lo, ok
		}
		if p := w.path(x.X); p != "" {
			return p, lo, true
		}
	case *ssa.Parameter:
		return x.Name(), 0, true
	case *ssa.Phi:
		if w.off != nil {
			if _, ok := w.off[x]; ok {
				return "", 0, false
			}
		}
	}
	return "", 0, false
}

// binaryModel: encoding/binary's fixed-width accessors on byte storage whose
// bytes are tracked state — Uint16/32/64 read them back as one integer,
// PutUint16/32/64 store the integer's bytes — so that a counter kept in a byte
// array reads the same whether it is advanced byte by byte or as one word.
func (w *pathWalker) binaryModel(x ssa.CallInstruction, cc *ssa.CallCommon) {
	n := calleeName(cc)
	if !strings.HasPrefix(n, "(encoding/binary.") || len(cc.Args) < 2 {
		return
	}
	big := strings.HasPrefix(n, "(encoding/binary.bigEndian)")
	m := n[strings.LastIndex(n, ".")+1:]
	put := strings.HasPrefix(m, "PutUint")
	if !put && !strings.HasPrefix(m, "Uint") {
		return
	}
	var width int64
	switch {
	case strings.HasSuffix(m, "64"):
		width = 8
	case strings.HasSuffix(m, "32"):
		width = 4
	case strings.HasSuffix(m, "16"):
		width = 2
	default:
		return
	}
	if w.lengths {
		if l, ok := w.env.eval(cc.Args[1]); ok && l < width {
			w.markOOB(x)
		}
	}
	base, off, ok := w.bytePath(cc.Args[1])
	if !ok || w.state == nil {
		return
	}
	key := func(i int64) string {
		j := i
		if big {
			j = width - 1 - i
		}
		return base + "[" + itoa(off+j) + "]"
	}
	if put {
		tracked := false
		for i := int64(0); i < width; i++ {
			if _, t := w.state[key(i)]; t {
				tracked = true
			}
		}
		if !tracked || len(cc.Args) < 3 {
			return
		}
		v, known := w.env.eval(cc.Args[2])
		for i := int64(0); i < width; i++ {
			if known {
				w.state[key(i)] = int64(uint64(v) >> (8 * uint(i)) & 0xff)
			} else {
				delete(w.state, key(i))
			}
		}
		return
	}
	var v uint64
	for i := int64(0); i < width; i++ {
		b, t := w.state[key(i)]
		if !t {
			return
		}
		v |= uint64(b&0xff) << (8 * uint(i))
	}
	if val, isV := x.(ssa.Value); isV {
		w.env.bind(val, int64(v))
	}
}
