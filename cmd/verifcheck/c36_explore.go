package main

import (
	"fmt"
	"go/token"
	"go/types"
	"sort"
	"strings"

	"golang.org/x/tools/go/ssa"
)

// Path- and context-sensitive exploration for C36.
//
// The rules of C36 are of the form "on every execution of the read loop that
// reaches effect E, fact G has been established before" where E and G may sit
// in the dispatching function, in a helper extracted from it, or in a helper
// shared by several callers, and where G is a *value* fact (the dynamic type of
// the decoded message, the nil-ness of a looked-up channel, the result of an
// atomic flag load, the contents of a struct field). The explorer therefore
// interprets the root function abstractly:
//
//   * same-package static callees that (transitively) contain an instruction
//     the rule declares relevant are expanded in place, each in its own frame;
//     a value is always identified by (SSA value, frame) and a helper's
//     parameter resolves to the argument of the call it was entered through
//     (so a helper with several call sites is handled per call);
//   * along a path the state carries what is known about values: nil / non-nil,
//     integer or boolean value (or excluded values), exact dynamic type or
//     excluded dynamic types, and the callee a call result came from; the
//     contents of tracked struct fields (abstract memory, updated by stores);
//     and sticky rule facts;
//   * every If is evaluated under that knowledge; an undetermined branch forks
//     and the condition is pushed down on each edge (negation, ==/!= against
//     nil or a constant, the ok of a comma-ok type assertion — i.e. if-chains,
//     switches and type switches alike); phis are resolved over the edge
//     actually taken; results of expanded helpers are bound to what the helper
//     returned on that path, so `if err := check(); err != nil` correlates
//     with the checks inside the helper;
//   * deferred calls run (and are expanded) at RunDefers, last registered
//     first; local variables that live in memory because a closure captures
//     them are forwarded from store to load, and a closure's free variables
//     resolve to the bindings of the MakeClosure it was called through;
//   * states are memoised per (frame, block, position, knowledge), knowledge
//     of a helper's own values is dropped when it returns, and a step budget
//     turns a runaway exploration into an undecided verdict.
//
// Rules observe the exploration through hooks (onInstr, onKnow, onMem,
// onStore, onRootReturn) and never look at names of locals, parameters or
// receivers.

type c36Frame struct {
	parent *c36Frame
	call   ssa.CallInstruction // the call (or deferred call) this frame was entered through
	fn     *ssa.Function
	depth  int
	id     int
	kids   map[ssa.CallInstruction]*c36Frame
}

func (f *c36Frame) within(a *c36Frame) bool {
	for x := f; x != nil; x = x.parent {
		if x == a {
			return true
		}
	}
	return false
}

func (f *c36Frame) active(fn *ssa.Function) bool {
	for x := f; x != nil; x = x.parent {
		if x.fn == fn {
			return true
		}
	}
	return false
}

// c36Key: a value in a calling context (fr == nil for constants and globals).
type c36Key struct {
	v  ssa.Value
	fr *c36Frame
}

const (
	c36Nil    int8 = 1
	c36NonNil int8 = 2
)

type c36Know struct {
	nilness int8
	hasInt  bool
	ival    int64
	ne      string     // ",k1,k2," excluded integer values
	exact   types.Type // dynamic type, when known
	not     string     // "|T1|T2|" excluded dynamic types
	src     string     // callee whose result this is (calls that are not expanded)
}

func (k c36Know) zero() bool {
	return k.nilness == 0 && !k.hasInt && k.ne == "" && k.exact == nil && k.not == "" && k.src == ""
}

func (k c36Know) excludes(n int64) bool { return strings.Contains(k.ne, fmt.Sprintf(",%d,", n)) }
func (k c36Know) notType(t types.Type) bool {
	return strings.Contains(k.not, "|"+t.String()+"|")
}

type c36MemKey struct {
	field string // "type.field"
	base  c36Key
}

type c36State struct {
	facts   map[string]bool
	know    map[c36Key]c36Know
	alias   map[c36Key]c36Key
	mem     map[c36MemKey]c36Know
	loadSrc map[c36Key]c36MemKey
	vars    map[string]c36Key
	defers  []c36Deferred     // deferred calls not yet run, oldest first
	cells   map[c36Key]c36Key // content of local variables that live in memory (captured by a closure, address taken)
}

type c36Deferred struct {
	d  *ssa.Defer
	fr *c36Frame
}

func c36NewState() *c36State {
	return &c36State{facts: map[string]bool{}, know: map[c36Key]c36Know{}, alias: map[c36Key]c36Key{}, mem: map[c36MemKey]c36Know{}, loadSrc: map[c36Key]c36MemKey{}, vars: map[string]c36Key{}, cells: map[c36Key]c36Key{}}
}

func (s *c36State) clone() *c36State {
	n := &c36State{facts: make(map[string]bool, len(s.facts)), know: make(map[c36Key]c36Know, len(s.know)), alias: make(map[c36Key]c36Key, len(s.alias)), mem: make(map[c36MemKey]c36Know, len(s.mem)), loadSrc: make(map[c36Key]c36MemKey, len(s.loadSrc)), vars: make(map[string]c36Key, len(s.vars))}
	for k, v := range s.facts {
		n.facts[k] = v
	}
	for k, v := range s.know {
		n.know[k] = v
	}
	for k, v := range s.alias {
		n.alias[k] = v
	}
	for k, v := range s.mem {
		n.mem[k] = v
	}
	for k, v := range s.loadSrc {
		n.loadSrc[k] = v
	}
	for k, v := range s.vars {
		n.vars[k] = v
	}
	n.defers = append([]c36Deferred(nil), s.defers...)
	n.cells = make(map[c36Key]c36Key, len(s.cells))
	for k, v := range s.cells {
		n.cells[k] = v
	}
	return n
}

type c36X struct {
	c        *Ctx
	root     *ssa.Function
	maxDepth int
	budget   int
	relevant func(in ssa.Instruction) bool
	opaque   map[string]bool // fnName of callees never expanded
	tracked  map[string]bool // "type.field" with abstract memory

	onInstr      func(x *c36X, in ssa.Instruction, fr *c36Frame, st *c36State) *c36State
	onKnow       func(x *c36X, k c36Key, st *c36State)     // st is private to the path: may be modified
	onMem        func(x *c36X, mk c36MemKey, st *c36State) // a branch established the content of a tracked field
	onStore      func(x *c36X, mk c36MemKey, val c36Know, st *c36State)
	onRootReturn func(x *c36X, r *ssa.Return, st *c36State)
	onDeferred   func(x *c36X, d *ssa.Defer, fr *c36Frame, st *c36State) *c36State // a deferred call is about to run

	steps    int
	exceeded bool
	seen     map[string]bool
	relCache map[*ssa.Function]int
	ids      map[ssa.Value]int
	rootFr   *c36Frame
	nframes  int
	expanded map[*ssa.Function]bool
}

func (x *c36X) explore() {
	if x.maxDepth == 0 {
		x.maxDepth = 5
	}
	if x.budget == 0 {
		x.budget = 600000
	}
	x.seen = map[string]bool{}
	x.relCache = map[*ssa.Function]int{}
	x.ids = map[ssa.Value]int{}
	x.expanded = map[*ssa.Function]bool{x.root: true}
	x.rootFr = &c36Frame{fn: x.root}
	x.run(x.rootFr, x.root.Blocks[0], 0, c36NewState(), nil)
}

func (x *c36X) child(fr *c36Frame, call ssa.CallInstruction, g *ssa.Function) *c36Frame {
	if fr.kids == nil {
		fr.kids = map[ssa.CallInstruction]*c36Frame{}
	}
	if k := fr.kids[call]; k != nil {
		return k
	}
	x.nframes++
	k := &c36Frame{parent: fr, call: call, fn: g, depth: fr.depth + 1, id: x.nframes}
	fr.kids[call] = k
	x.expanded[g] = true
	return k
}

func (x *c36X) vid(v ssa.Value) int {
	if v == nil {
		return 0
	}
	id, ok := x.ids[v]
	if !ok {
		id = len(x.ids) + 1
		x.ids[v] = id
	}
	return id
}

func (x *c36X) ks(k c36Key) string {
	f := -1
	if k.fr != nil {
		f = k.fr.id
	}
	return fmt.Sprintf("%d@%d", x.vid(k.v), f)
}

func (x *c36X) knowStr(k c36Know) string {
	t := ""
	if k.exact != nil {
		t = k.exact.String()
	}
	return fmt.Sprintf("%d/%v/%d/%s/%s/%s/%s", k.nilness, k.hasInt, k.ival, k.ne, t, k.not, k.src)
}

func (x *c36X) sig(s *c36State) string {
	var parts []string
	for k, v := range s.facts {
		if v {
			parts = append(parts, "F"+k)
		}
	}
	for k, v := range s.know {
		parts = append(parts, "K"+x.ks(k)+"="+x.knowStr(v))
	}
	for k, v := range s.alias {
		parts = append(parts, "A"+x.ks(k)+">"+x.ks(v))
	}
	for k, v := range s.mem {
		parts = append(parts, "M"+k.field+"@"+x.ks(k.base)+"="+x.knowStr(v))
	}
	for k, v := range s.loadSrc {
		parts = append(parts, "L"+x.ks(k)+"<"+v.field+"@"+x.ks(v.base))
	}
	for k, v := range s.vars {
		parts = append(parts, "V"+k+"="+x.ks(v))
	}
	for k, v := range s.cells {
		parts = append(parts, "C"+x.ks(k)+"="+x.ks(v))
	}
	sort.Strings(parts)
	for _, d := range s.defers {
		parts = append(parts, fmt.Sprintf("D%p@%d", d.d, d.fr.id))
	}
	return strings.Join(parts, ";")
}

// ---------------------------------------------------------------------------
// values

// resolve: the value v of frame fr denotes, looking through interface
// conversions, helper parameters (the argument of the entering call), captured
// variables, and path bindings (phis, results of expanded helpers).
func (x *c36X) resolve(v ssa.Value, fr *c36Frame, st *c36State) c36Key {
	for n := 0; n < 48; n++ {
		switch t := v.(type) {
		case nil:
			return c36Key{}
		case *ssa.Const, *ssa.Global, *ssa.Function, *ssa.Builtin:
			return c36Key{v, nil}
		case *ssa.ChangeInterface:
			v = t.X
			continue
		case *ssa.ChangeType:
			v = t.X
			continue
		case *ssa.Parameter:
			if fr != nil && fr.call != nil && t.Parent() == fr.fn && !fr.call.Common().IsInvoke() {
				idx := -1
				for i, p := range fr.fn.Params {
					if p == t {
						idx = i
					}
				}
				if idx >= 0 && idx < len(fr.call.Common().Args) {
					v, fr = fr.call.Common().Args[idx], fr.parent
					continue
				}
			}
			return c36Key{v, fr}
		case *ssa.FreeVar:
			if fr != nil && fr.call != nil && t.Parent() == fr.fn {
				if mc, ok := fr.call.Common().Value.(*ssa.MakeClosure); ok {
					idx := -1
					for i, p := range fr.fn.FreeVars {
						if p == t {
							idx = i
						}
					}
					if idx >= 0 && idx < len(mc.Bindings) {
						v, fr = mc.Bindings[idx], fr.parent
						continue
					}
				}
			}
			return c36Key{v, fr}
		}
		k := c36Key{v, fr}
		if a, ok := st.alias[k]; ok && a != k {
			v, fr = a.v, a.fr
			continue
		}
		return k
	}
	return c36Key{v, fr}
}

// c36IsCell: the key denotes a local variable's own storage (an Alloc of a
// non-aggregate value — aggregates are accessed through FieldAddr/IndexAddr).
func c36IsCell(k c36Key) bool {
	_, ok := k.v.(*ssa.Alloc)
	return ok
}

func c36IsIface(t types.Type) bool {
	_, ok := t.Underlying().(*types.Interface)
	return ok
}

func c36IsBool(t types.Type) bool {
	b, ok := t.Underlying().(*types.Basic)
	return ok && b.Info()&types.IsBoolean != 0
}

// c36ConstNum: integer or boolean constant (true = 1).
func c36ConstNum(v ssa.Value) (int64, bool) {
	if b, ok := constBool(v); ok {
		if b {
			return 1, true
		}
		return 0, true
	}
	return constInt(v)
}

// kn: what is known about a resolved value: the path knowledge merged with
// what the defining instruction itself tells.
func (x *c36X) kn(k c36Key, st *c36State) c36Know {
	out := st.know[k]
	switch v := k.v.(type) {
	case *ssa.Const:
		if v.IsNil() {
			out.nilness = c36Nil
		} else if n, ok := c36ConstNum(v); ok {
			out.hasInt, out.ival = true, n
		}
	case *ssa.MakeInterface:
		out.nilness = c36NonNil
		out.exact = v.X.Type()
	case *ssa.Alloc, *ssa.FieldAddr, *ssa.IndexAddr, *ssa.MakeSlice, *ssa.MakeMap, *ssa.MakeChan, *ssa.MakeClosure, *ssa.Function, *ssa.Global:
		out.nilness = c36NonNil
	case *ssa.Call:
		name := short(calleeName(&v.Call))
		if out.src == "" {
			out.src = name
		}
		if name == "errors.New" || name == "fmt.Errorf" {
			out.nilness = c36NonNil
		}
	case *ssa.TypeAssert:
		if !v.CommaOk && !c36IsIface(v.AssertedType) {
			out.exact = v.AssertedType
		}
	case *ssa.Extract:
		if ta, ok := v.Tuple.(*ssa.TypeAssert); ok && v.Index == 0 && !c36IsIface(ta.AssertedType) {
			if out.exact == nil {
				out.exact = ta.AssertedType
			}
		}
		if call, ok := v.Tuple.(*ssa.Call); ok && out.src == "" {
			out.src = short(calleeName(&call.Call))
		}
	}
	return out
}

// dynType: knowledge about the dynamic type of an interface-typed (or boxed) value.
func (x *c36X) dynType(v ssa.Value, fr *c36Frame, st *c36State) c36Know {
	return x.kn(x.resolve(v, fr, st), st)
}

// ---------------------------------------------------------------------------
// conditions

func (x *c36X) evalBool(v ssa.Value, fr *c36Frame, st *c36State) (val, known bool) {
	k := x.resolve(v, fr, st)
	switch t := k.v.(type) {
	case *ssa.UnOp:
		if t.Op == token.NOT {
			b, ok := x.evalBool(t.X, k.fr, st)
			return !b, ok
		}
	case *ssa.BinOp:
		if t.Op == token.EQL || t.Op == token.NEQ {
			for _, p := range [][2]ssa.Value{{t.X, t.Y}, {t.Y, t.X}} {
				cst, ok := p[1].(*ssa.Const)
				if !ok {
					continue
				}
				ok2 := x.kn(x.resolve(p[0], k.fr, st), st)
				if cst.IsNil() {
					if ok2.nilness == 0 {
						return false, false
					}
					return (ok2.nilness == c36Nil) == (t.Op == token.EQL), true
				}
				if n, isN := c36ConstNum(cst); isN {
					if ok2.hasInt {
						return (ok2.ival == n) == (t.Op == token.EQL), true
					}
					if ok2.excludes(n) {
						return t.Op == token.NEQ, true
					}
					return false, false
				}
			}
			return false, false
		}
	case *ssa.Extract:
		if ta, ok := t.Tuple.(*ssa.TypeAssert); ok && t.Index == 1 {
			kx := x.kn(x.resolve(ta.X, k.fr, st), st)
			if kx.nilness == c36Nil {
				return false, true
			}
			if kx.exact != nil {
				if iface, isI := ta.AssertedType.Underlying().(*types.Interface); isI {
					return types.Implements(kx.exact, iface), true
				}
				return types.Identical(kx.exact, ta.AssertedType), true
			}
			if kx.notType(ta.AssertedType) {
				return false, true
			}
			return false, false
		}
	}
	kk := x.kn(k, st)
	if kk.hasInt {
		return kk.ival != 0, true
	}
	return false, false
}

func (x *c36X) setKnow(k c36Key, st *c36State, upd func(kn *c36Know)) {
	if k.v == nil {
		return
	}
	kn := st.know[k]
	upd(&kn)
	if c36IsBool(k.v.Type()) && !kn.hasInt {
		if kn.excludes(1) {
			kn.hasInt, kn.ival = true, 0
		} else if kn.excludes(0) {
			kn.hasInt, kn.ival = true, 1
		}
	}
	st.know[k] = kn
	if mk, ok := st.loadSrc[k]; ok {
		m := st.mem[mk]
		m.hasInt, m.ival, m.ne, m.nilness = kn.hasInt, kn.ival, kn.ne, kn.nilness
		st.mem[mk] = m
		if x.onMem != nil {
			x.onMem(x, mk, st)
		}
	}
	if x.onKnow != nil {
		x.onKnow(x, k, st)
	}
}

// assume pushes "v == want" down into st (private to the path); false when
// that contradicts what is known.
func (x *c36X) assume(v ssa.Value, fr *c36Frame, want bool, st *c36State) bool {
	k := x.resolve(v, fr, st)
	switch t := k.v.(type) {
	case *ssa.Const:
		b, ok := constBool(t)
		return !ok || b == want
	case *ssa.UnOp:
		if t.Op == token.NOT {
			return x.assume(t.X, k.fr, !want, st)
		}
	case *ssa.BinOp:
		if t.Op == token.EQL || t.Op == token.NEQ {
			eq := (t.Op == token.EQL) == want
			for _, p := range [][2]ssa.Value{{t.X, t.Y}, {t.Y, t.X}} {
				cst, ok := p[1].(*ssa.Const)
				if !ok {
					continue
				}
				ok2 := x.resolve(p[0], k.fr, st)
				if cst.IsNil() {
					x.setKnow(ok2, st, func(kn *c36Know) {
						if eq {
							kn.nilness = c36Nil
						} else {
							kn.nilness = c36NonNil
						}
					})
					return true
				}
				if n, isN := c36ConstNum(cst); isN {
					x.setKnow(ok2, st, func(kn *c36Know) {
						if eq {
							kn.hasInt, kn.ival = true, n
						} else if !kn.excludes(n) {
							if kn.ne == "" {
								kn.ne = ","
							}
							kn.ne += fmt.Sprintf("%d,", n)
						}
					})
					return true
				}
			}
		}
	case *ssa.Extract:
		if ta, ok := t.Tuple.(*ssa.TypeAssert); ok && t.Index == 1 {
			x.assumeType(x.resolve(ta.X, k.fr, st), ta.AssertedType, want, st)
			return true
		}
	}
	x.setKnow(k, st, func(kn *c36Know) {
		kn.hasInt = true
		if want {
			kn.ival = 1
		} else {
			kn.ival = 0
		}
	})
	return true
}

func (x *c36X) assumeType(k c36Key, T types.Type, is bool, st *c36State) {
	x.setKnow(k, st, func(kn *c36Know) {
		if is {
			kn.nilness = c36NonNil
			if !c36IsIface(T) {
				kn.exact = T
			}
		} else if !kn.notType(T) {
			if kn.not == "" {
				kn.not = "|"
			}
			kn.not += T.String() + "|"
		}
	})
}

// ---------------------------------------------------------------------------
// expansion policy

func (x *c36X) isTrackedAddr(a ssa.Value) (string, *ssa.FieldAddr, bool) {
	fa, ok := a.(*ssa.FieldAddr)
	if !ok {
		return "", nil, false
	}
	st := derefStruct(fa.X.Type())
	if st == nil {
		return "", nil, false
	}
	name := typeName(fa.X.Type()) + "." + st.Field(fa.Field).Name()
	return name, fa, x.tracked[name]
}

func (x *c36X) relevantInstr(in ssa.Instruction) bool {
	switch t := in.(type) {
	case *ssa.Store:
		if _, _, ok := x.isTrackedAddr(t.Addr); ok {
			return true
		}
	case *ssa.UnOp:
		if t.Op == token.MUL {
			if _, _, ok := x.isTrackedAddr(t.X); ok {
				return true
			}
		}
	}
	return x.relevant != nil && x.relevant(in)
}

// relevantFn: g or a same-package static callee of g (transitively) contains a
// relevant instruction.
func (x *c36X) relevantFn(g *ssa.Function) bool {
	switch x.relCache[g] {
	case 1:
		return true
	case 2, 3:
		return false
	}
	x.relCache[g] = 3 // in progress
	res := false
	allInstrs(g, func(in ssa.Instruction) {
		if res {
			return
		}
		if x.relevantInstr(in) {
			res = true
			return
		}
		switch in.(type) {
		case *ssa.Call, *ssa.Defer:
			if h := samePkgCallee(x.root, callCommon(in)); h != nil && !x.opaque[fnName(h)] && x.relevantFn(h) {
				res = true
			}
		}
	})
	if res {
		x.relCache[g] = 1
	} else {
		x.relCache[g] = 2
	}
	return res
}

func (x *c36X) inlinable(fr *c36Frame, call ssa.CallInstruction) *ssa.Function {
	g := samePkgCallee(x.root, call.Common())
	if g == nil || x.opaque[fnName(g)] || fr.depth >= x.maxDepth || fr.active(g) || !x.relevantFn(g) {
		return nil
	}
	return g
}

// ---------------------------------------------------------------------------
// the walk

func (x *c36X) kill(k c36Key, st *c36State) *c36State {
	_, a := st.know[k]
	_, b := st.alias[k]
	_, c := st.loadSrc[k]
	d := false
	for _, t := range st.alias {
		if t == k {
			d = true
		}
	}
	if _, e := st.cells[k]; e {
		d = true
	}
	for _, t := range st.cells {
		if t == k {
			d = true
		}
	}
	if !a && !b && !c && !d {
		return st
	}
	ns := st.clone()
	delete(ns.cells, k)
	for s, t := range ns.cells {
		if t == k {
			delete(ns.cells, s)
		}
	}
	delete(ns.know, k)
	delete(ns.alias, k)
	delete(ns.loadSrc, k)
	for s, t := range ns.alias {
		if t == k {
			delete(ns.alias, s)
		}
	}
	return ns
}

// enter: take the CFG edge pred -> b (binding b's phis over that edge).
func (x *c36X) enter(fr *c36Frame, b, pred *ssa.BasicBlock, st *c36State, k func(*c36State, []c36Key)) {
	idx := -1
	for i, p := range b.Preds {
		if p == pred {
			idx = i
			break
		}
	}
	var phis []*ssa.Phi
	for _, in := range b.Instrs {
		if p, ok := in.(*ssa.Phi); ok {
			phis = append(phis, p)
		} else {
			break
		}
	}
	if idx >= 0 && len(phis) > 0 {
		ns := st.clone()
		targets := make([]c36Key, len(phis))
		for i, p := range phis {
			targets[i] = x.resolve(p.Edges[idx], fr, st)
		}
		for i, p := range phis {
			pk := c36Key{p, fr}
			delete(ns.alias, pk)
			if targets[i] != pk && targets[i].v != nil {
				ns.alias[pk] = targets[i]
			}
		}
		st = ns
	}
	x.run(fr, b, len(phis), st, k)
}

func (x *c36X) run(fr *c36Frame, b *ssa.BasicBlock, i int, st *c36State, k func(*c36State, []c36Key)) {
	if x.exceeded {
		return
	}
	mk := fmt.Sprintf("%d|%d|%d|%s", fr.id, b.Index, i, x.sig(st))
	if x.seen[mk] {
		return
	}
	x.seen[mk] = true
	for ; i < len(b.Instrs); i++ {
		in := b.Instrs[i]
		x.steps++
		if x.steps > x.budget {
			x.exceeded = true
			return
		}
		if v, ok := in.(ssa.Value); ok {
			st = x.kill(c36Key{v, fr}, st)
		}
		if x.onInstr != nil {
			if ns := x.onInstr(x, in, fr, st); ns != nil {
				st = ns
			}
		}
		switch t := in.(type) {
		case *ssa.Call:
			if g := x.inlinable(fr, t); g != nil {
				sub := x.child(fr, t, g)
				next := i + 1
				x.run(sub, g.Blocks[0], 0, st, func(rs *c36State, rets []c36Key) {
					x.run(fr, b, next, x.bindResults(rs, fr, t, sub, rets), k)
				})
				return
			}
		case *ssa.UnOp:
			if t.Op == token.MUL {
				if name, fa, ok := x.isTrackedAddr(t.X); ok {
					mkey := c36MemKey{name, x.resolve(fa.X, fr, st)}
					st = st.clone()
					key := c36Key{t, fr}
					if m, has := st.mem[mkey]; has && !m.zero() {
						st.know[key] = m
					}
					st.loadSrc[key] = mkey
				} else if cell := x.resolve(t.X, fr, st); c36IsCell(cell) {
					// load of a local variable that lives in memory: the value last stored
					if val, has := st.cells[cell]; has && val.v != nil {
						st = st.clone()
						st.alias[c36Key{t, fr}] = val
					}
				}
			}
		case *ssa.Store:
			if cell := x.resolve(t.Addr, fr, st); c36IsCell(cell) {
				st = st.clone()
				st.cells[cell] = x.resolve(t.Val, fr, st)
			}
			if name, fa, ok := x.isTrackedAddr(t.Addr); ok {
				mkey := c36MemKey{name, x.resolve(fa.X, fr, st)}
				st = st.clone()
				for lk, m := range st.loadSrc {
					if m == mkey {
						delete(st.loadSrc, lk)
					}
				}
				val := x.kn(x.resolve(t.Val, fr, st), st)
				val.src, val.exact, val.not = "", nil, ""
				if val.zero() {
					delete(st.mem, mkey)
				} else {
					st.mem[mkey] = val
				}
				if x.onStore != nil {
					x.onStore(x, mkey, val, st)
				}
			}
		case *ssa.TypeAssert:
			if !t.CommaOk {
				st = st.clone()
				x.assumeType(x.resolve(t.X, fr, st), t.AssertedType, true, st)
			}
		case *ssa.Defer:
			st = st.clone()
			st.defers = append(st.defers, c36Deferred{t, fr})
		case *ssa.RunDefers:
			// run this frame's most recently deferred call, then come back here
			// for the next one (the pending ones stay part of the state)
			last := -1
			for j, d := range st.defers {
				if d.fr == fr {
					last = j
				}
			}
			if last >= 0 {
				d := st.defers[last].d
				ns := st.clone()
				ns.defers = append(ns.defers[:last:last], st.defers[last+1:]...)
				at := i
				x.runDeferred(fr, d, ns, func(rs *c36State) { x.run(fr, b, at, rs, k) })
				return
			}
		case *ssa.Return:
			if fr == x.rootFr && x.onRootReturn != nil {
				x.onRootReturn(x, t, st)
			}
			if k != nil {
				rets := make([]c36Key, len(t.Results))
				for j := range t.Results {
					rets[j] = x.resolve(retVal(t, j), fr, st)
				}
				k(st, rets)
			}
			return
		case *ssa.Panic:
			return
		case *ssa.If:
			val, known := x.evalBool(t.Cond, fr, st)
			for j, s := range b.Succs {
				want := j == 0
				if known && val != want {
					continue
				}
				ns := st
				if !known {
					ns = st.clone()
					if !x.assume(t.Cond, fr, want, ns) {
						continue
					}
				}
				x.enter(fr, s, b, ns, k)
			}
			return
		case *ssa.Jump:
			x.enter(fr, b.Succs[0], b, st, k)
			return
		}
	}
}

// runDeferred runs the deferred call d of frame fr — expanded like an
// ordinary call when it is relevant — then continues with k.
func (x *c36X) runDeferred(fr *c36Frame, d *ssa.Defer, st *c36State, k func(*c36State)) {
	if x.onDeferred != nil {
		if ns := x.onDeferred(x, d, fr, st); ns != nil {
			st = ns
		}
	}
	if g := x.inlinable(fr, d); g != nil {
		sub := x.child(fr, d, g)
		x.run(sub, g.Blocks[0], 0, st, func(rs *c36State, rets []c36Key) {
			k(x.bindResults(rs, fr, nil, sub, nil))
		})
		return
	}
	k(st)
}

// bindResults: the results of the expanded call are what the helper returned
// on this path; knowledge about the helper's own values is dropped.
func (x *c36X) bindResults(rs *c36State, fr *c36Frame, call *ssa.Call, sub *c36Frame, rets []c36Key) *c36State {
	ns := rs.clone()
	keep := map[c36Key]bool{}
	bind := func(target c36Key, rk c36Key) {
		delete(ns.alias, target)
		delete(ns.know, target)
		if rk.v == nil {
			return
		}
		if rk.fr == nil || !rk.fr.within(sub) {
			ns.alias[target] = rk
			return
		}
		// a value of the helper itself: hand over what is decided about it ...
		kn := x.kn(rk, rs)
		if c36IsBool(rk.v.Type()) {
			if val, known := x.evalBool(rk.v, rk.fr, rs); known {
				kn.hasInt, kn.ival = true, 0
				if val {
					kn.ival = 1
				}
			}
		}
		if kn.nilness != 0 || kn.hasInt || kn.exact != nil {
			ns.know[target] = kn
			return
		}
		// ... or, when nothing is decided yet, keep the result symbolic (the
		// caller's branch on it is pushed down into the helper's expression:
		// `return flag.Load()`, `return !ok`, ...)
		ns.alias[target] = rk
		keep[rk] = true
	}
	if call == nil {
		// deferred call: results are discarded
	} else if len(rets) == 1 {
		bind(c36Key{call, fr}, rets[0])
	} else if refs := call.Referrers(); refs != nil {
		for _, r := range *refs {
			if ex, ok := r.(*ssa.Extract); ok && ex.Index < len(rets) {
				bind(c36Key{ex, fr}, rets[ex.Index])
			}
		}
	}
	in := func(k c36Key) bool { return k.fr != nil && k.fr.within(sub) && !keep[k] }
	for k := range ns.know {
		if in(k) {
			delete(ns.know, k)
		}
	}
	for k, t := range ns.alias {
		if in(k) || in(t) {
			delete(ns.alias, k)
		}
	}
	for k := range ns.mem {
		if in(k.base) {
			delete(ns.mem, k)
		}
	}
	for k, m := range ns.loadSrc {
		if in(k) || in(m.base) {
			delete(ns.loadSrc, k)
		}
	}
	for k, v := range ns.vars {
		if in(v) {
			delete(ns.vars, k)
		}
	}
	for k, v := range ns.cells {
		if in(k) || in(v) {
			delete(ns.cells, k)
		}
	}
	pending := ns.defers[:0:0]
	for _, d := range ns.defers {
		if !d.fr.within(sub) {
			pending = append(pending, d)
		}
	}
	ns.defers = pending
	return ns
}

// ---------------------------------------------------------------------------
// helpers for rules

// fieldAddrOf: v (resolved) is the address of, or a load of, a struct field;
// returns "type.field" and the resolved base object.
func (x *c36X) fieldAddrOf(v ssa.Value, fr *c36Frame, st *c36State) (name string, base c36Key, ok bool) {
	k := x.resolve(v, fr, st)
	a := k.v
	if u, isU := a.(*ssa.UnOp); isU && u.Op == token.MUL {
		a = u.X
	}
	fa, isF := a.(*ssa.FieldAddr)
	if !isF {
		return "", c36Key{}, false
	}
	s := derefStruct(fa.X.Type())
	if s == nil {
		return "", c36Key{}, false
	}
	return typeName(fa.X.Type()) + "." + s.Field(fa.Field).Name(), x.resolve(fa.X, k.fr, st), true
}

type c36Viol struct {
	rule, construct, msg string
	at                   ssa.Instruction
}

type c36Report struct {
	c        *Ctx
	fallback poser // position used for instructions without one (implicit returns)
	viols    map[string]c36Viol
	order    []string
}

func (r *c36Report) add(rule, construct string, at ssa.Instruction, msg string) {
	if r.viols == nil {
		r.viols = map[string]c36Viol{}
	}
	key := rule + "|" + construct + "|" + msg
	if at != nil {
		key += "|" + r.c.posStr(at.Pos()) + fmt.Sprintf("|%p", at)
	}
	if _, ok := r.viols[key]; ok {
		return
	}
	r.viols[key] = c36Viol{rule, construct, msg, at}
	r.order = append(r.order, key)
}

// flush reports the violations of one rule/construct (true when there were none).
func (r *c36Report) flush(rule, construct string) bool {
	clean := true
	for _, key := range r.order {
		v := r.viols[key]
		if v.rule == rule && v.construct == construct {
			clean = false
			var at poser = r.fallback
			if v.at != nil && v.at.Pos().IsValid() {
				at = v.at
			}
			r.c.fail(rule, construct, at, v.msg)
		}
	}
	return clean
}
