package main

import (
	"fmt"
	"go/token"
	"strings"

	"golang.org/x/tools/go/ssa"
)

func init() {
	register(&propDef{
		id: "C39", run: runC39, minOblig: 16,
		explanation: "Decides the internal-consistency gates of parseOpenSSHPrivateKey: a key is returned only (i) for NumKeys == 1, (ii) with matching check words — a mismatch (or undecodable block) maps to x509.IncorrectPasswordError when a cipher is named, (iii) behind checkOpenSSHKeyPadding == nil for the key's padding, (iv) behind the consistency test of its key type — RSA: bounds on N, P, Q, E, odd exponent >= 3 (evaluated) and rsa.PrivateKey.Validate() == nil; Ed25519: the key is re-derived with ed25519.NewKeyFromSeed from the stored seed and must equal the stored private key AND the stored public key (bytes.Equal edges); ECDSA: known curve, scalar below the group order, and ScalarBaseMult(D) equal to the stored point in both coordinates — and (v) behind the comparison of the public key stored outside the encrypted section with the parsed key's public key (bytes.Equal of the marshalled SSH public key with w.PubKey); the passphrase KDF rounds are bounded (<= 2048, evaluated) before bcrypt_pbkdf runs and only aes256-ctr / aes256-cbc are decrypted; writer and reader use the same struct types for the envelope and per-type records. NOT decided: ssh-keygen interoperability; that signatures verify (follows from the consistency checks plus the primitives).",
		assumptions: []string{"crypto/rsa Validate, crypto/ed25519 NewKeyFromSeed, elliptic ScalarBaseMult contracts"},
	})
	tech("C39", "must-cross CFG rules per key-type arm (arms separated by evaluating the type switch), finite-domain evaluation of numeric bounds, writer/reader struct-type agreement")
}

func runC39(c *Ctx) {
	f := c.fn("ssh", "parseOpenSSHPrivateKey")
	if f == nil {
		return
	}
	acc := acceptReturns(f, 1)
	// arms: string comparisons pk1.Keytype == const
	var cmps []*ssa.BinOp
	allInstrs(f, func(in ssa.Instruction) {
		if bo, ok := in.(*ssa.BinOp); ok && bo.Op == token.EQL {
			if _, fld, _, okf := fieldOf(bo.X); okf && fld == "Keytype" {
				if _, isC := constString(bo.Y); isC {
					cmps = append(cmps, bo)
				}
			}
		}
	})
	armCut := func(name string) edgeSet {
		e := newEnv()
		for _, bo := range cmps {
			s, _ := constString(bo.Y)
			if s == name {
				e.bind(bo, 1)
			} else {
				e.bind(bo, 0)
			}
		}
		return e.cuts(f)
	}
	crossArm := func(rule, name, arm string, pass []edge, what string) {
		if len(pass) == 0 {
			c.fail(rule, name, f, "gate not found: "+what)
			return
		}
		cut := armCut(arm)
		cut.addAll(pass)
		r := reach([]*ssa.BasicBlock{f.Blocks[0]}, cut)
		for _, t := range acc {
			if r[t.Block()] {
				c.fail(rule, name, t, "a "+arm+" key can be returned without passing "+what)
				return
			}
		}
		c.ok(rule, name, f, "every returned "+arm+" key passed "+what)
	}
	c.check(len(cmps) >= 5, "C39.arms", "key type switch", f, fmt.Sprintf("%d key type names dispatched", len(cmps)), fmt.Sprintf("only %d key type comparisons found", len(cmps)))
	// (i) NumKeys
	var one []edge
	for _, v := range loadsOfField(f, "openSSHEncryptedPrivateKey", "NumKeys") {
		one = append(one, edgesImplying(v, []int64{0, 1, 2, 7}, func(d int64) bool { return d == 1 })...)
	}
	c.mustCross("C39.envelope", "NumKeys == 1", f, acc, one, "NumKeys == 1")
	// (ii) check words
	var chk *ssa.BinOp
	allInstrs(f, func(in ssa.Instruction) {
		if bo, ok := in.(*ssa.BinOp); ok && (bo.Op == token.NEQ || bo.Op == token.EQL) {
			_, fx, _, okx := fieldOf(bo.X)
			_, fy, _, oky := fieldOf(bo.Y)
			if okx && oky && ((fx == "Check1" && fy == "Check2") || (fx == "Check2" && fy == "Check1")) {
				chk = bo
			}
		}
	})
	if chk == nil {
		c.fail("C39.check-words", "Check1 == Check2", f, "the check words are not compared")
	} else {
		eq, _ := boolEdges(chk, chk.Op == token.EQL)
		c.mustCross("C39.check-words", "Check1 == Check2", f, acc, eq, "Check1 == Check2")
		// mismatch with a cipher -> IncorrectPasswordError
		e := newEnv()
		if chk.Op == token.NEQ {
			e.bind(chk, 1)
		} else {
			e.bind(chk, 0)
		}
		allInstrs(f, func(in ssa.Instruction) {
			if bo, ok := in.(*ssa.BinOp); ok && (bo.Op == token.NEQ || bo.Op == token.EQL) {
				if _, fld, _, okf := fieldOf(bo.X); okf && fld == "CipherName" {
					if s, isC := constString(bo.Y); isC && s == "none" {
						if bo.Op == token.NEQ {
							e.bind(bo, 1)
						} else {
							e.bind(bo, 0)
						}
					}
				}
			}
		})
		cut := e.cuts(f)
		r := reachAfter(chk, cut)
		okPw := false
		onlyPw := true
		for _, ret := range returnsOf(f) {
			if !r[ret.Block()] {
				continue
			}
			if accessPath(retVal(ret, 1)) == "IncorrectPasswordError" {
				okPw = true
			} else {
				onlyPw = false
			}
		}
		c.check(okPw && onlyPw, "C39.check-words", "wrong passphrase error", chk, "mismatching check words with a cipher yield x509.IncorrectPasswordError", "a wrong passphrase (check word mismatch on an encrypted key) does not yield x509.IncorrectPasswordError")
	}
	// (iii) padding in every arm
	pad := callsNamed(f, "ssh.checkOpenSSHKeyPadding")
	c.check(len(pad) == 3, "C39.padding", "padding checks", f, "one per key type", fmt.Sprintf("%d padding checks, expected 3", len(pad)))
	// (v) envelope: closure comparing marshalled public key with w.PubKey
	var envCalls []ssa.CallInstruction
	var envFn *ssa.Function
	allInstrs(f, func(in ssa.Instruction) {
		call, ok := in.(*ssa.Call)
		if !ok {
			return
		}
		var target *ssa.Function
		switch v := call.Call.Value.(type) {
		case *ssa.MakeClosure:
			target, _ = v.Fn.(*ssa.Function)
		case *ssa.Function:
			target = v
		}
		if target != nil && target.Parent() == f {
			envCalls = append(envCalls, call)
			envFn = target
		}
	})
	envOK := false
	if envFn != nil {
		for _, ci := range callsNamed(envFn, "bytes.Equal") {
			a := ci.Common().Args
			isPub := func(v ssa.Value) bool {
				p := accessPath(v)
				return strings.HasSuffix(p, ".PubKey") || strings.HasSuffix(p, "w.PubKey")
			}
			isMarshal := func(v ssa.Value) bool {
				call, ok := v.(*ssa.Call)
				return ok && call.Call.IsInvoke() && call.Call.Method.Name() == "Marshal"
			}
			if (isPub(a[0]) && isMarshal(a[1])) || (isPub(a[1]) && isMarshal(a[0])) {
				yes, _ := successEdges(ci.(*ssa.Call), 0, isTrue)
				cut := edgeSet{}
				cut.addAll(yes)
				ok := len(yes) > 0
				for _, t := range acceptReturns(envFn, 0) {
					if pathFromEntry(t, cut) {
						ok = false
					}
				}
				envOK = ok
			}
		}
	}
	c.check(envOK, "C39.envelope", "outer public key comparison", envFn, "nil only when the parsed key's SSH public key equals the public key stored outside the encrypted section", "the public key stored outside the encrypted section is not compared with the parsed key")
	envPass := callSuccess(envCalls, -1, isNil)
	for _, arm := range []string{"ssh-rsa", "ssh-ed25519", "ecdsa-sha2-nistp256", "ecdsa-sha2-nistp384", "ecdsa-sha2-nistp521"} {
		crossArm("C39.envelope", "outer public key, "+arm, arm, envPass, "the outer-public-key comparison")
		crossArm("C39.padding", "padding, "+arm, arm, callSuccess(pad, -1, isNil), "checkOpenSSHKeyPadding == nil")
	}
	// (iv) per type
	crossArm("C39.consistency", "RSA Validate", "ssh-rsa", callSuccess(callsNamed(f, "(*crypto/rsa.PrivateKey).Validate"), -1, isNil), "rsa.PrivateKey.Validate() == nil")
	// RSA numeric bounds
	{
		var nB, pB, qB, eB, eV ssa.Value
		for _, ci := range callsNamed(f, "(*math/big.Int).BitLen") {
			_, fld, _, ok := fieldOf(ci.Common().Args[0])
			if !ok {
				continue
			}
			switch fld {
			case "N":
				nB = callValue(ci)
			case "P":
				pB = callValue(ci)
			case "Q":
				qB = callValue(ci)
			case "E":
				eB = callValue(ci)
			}
		}
		for _, ci := range callsNamed(f, "(*math/big.Int).Int64") {
			eV = callValue(ci)
		}
		bad := ""
		if nB == nil || pB == nil || qB == nil || eB == nil || eV == nil {
			bad = "RSA size reads not found"
		} else {
			var valid ssa.CallInstruction
			for _, ci := range callsNamed(f, "(*crypto/rsa.PrivateKey).Validate") {
				valid = ci
			}
			for _, tc := range []struct {
				n, p, q, eb, ev int64
				want            bool
			}{
				{2048, 1024, 1024, 17, 65537, true}, {16384, 8192, 8192, 24, 3, true}, {16385, 1024, 1024, 17, 65537, false},
				{2048, 8193, 1024, 17, 65537, false}, {2048, 1024, 8193, 17, 65537, false}, {2048, 1024, 1024, 25, 65537, false},
				{2048, 1024, 1024, 17, 2, false}, {2048, 1024, 1024, 17, 65538, false}, {2048, 1024, 1024, 2, 1, false},
			} {
				e := newEnv()
				e.bind(nB, tc.n)
				e.bind(pB, tc.p)
				e.bind(qB, tc.q)
				e.bind(eB, tc.eb)
				e.bind(eV, tc.ev)
				cut := e.cuts(f)
				for k := range armCut("ssh-rsa") {
					cut[k] = true
				}
				got := valid != nil && reachAfter(nB.(ssa.Instruction), cut)[valid.Block()]
				if got != tc.want {
					bad = fmt.Sprintf("N=%d P=%d Q=%d bits, E=%d (%d bits): key construction reached=%v, specification %v", tc.n, tc.p, tc.q, tc.ev, tc.eb, got, tc.want)
				}
			}
		}
		c.check(bad == "", "C39.consistency", "RSA bounds", f, "modulus <= 16384 bits, primes <= 8192 bits, exponent <= 24 bits, odd and >= 3", bad)
	}
	// Ed25519
	{
		seed := callsNamed(f, "crypto/ed25519.NewKeyFromSeed")
		okSeed := len(seed) == 1
		var eqPriv, eqPub []edge
		if okSeed {
			_, fld, _, ok := fieldOf(sliceBase(seed[0].Common().Args[0]))
			okSeed = ok && fld == "Priv"
			derived := callValue(seed[0])
			// the derived key may live in a local slot (its address is returned)
			isDerived := func(v ssa.Value) bool {
				v = stripConv(v)
				if v == derived {
					return true
				}
				if u, ok := v.(*ssa.UnOp); ok && u.Op == token.MUL {
					if al, ok := u.X.(*ssa.Alloc); ok {
						for _, r := range *al.Referrers() {
							if st, ok := r.(*ssa.Store); ok && st.Addr == ssa.Value(al) && stripConv(st.Val) == derived {
								return true
							}
						}
					}
				}
				return false
			}
			for _, ci := range callsNamed(f, "bytes.Equal") {
				a := ci.Common().Args
				for _, pr := range [][2]ssa.Value{{a[0], a[1]}, {a[1], a[0]}} {
					if !isDerived(sliceBase(stripConv(pr[0]))) && !isDerived(pr[0]) {
						continue
					}
					_, fld, _, ok := fieldOf(sliceBase(pr[1]))
					if !ok {
						continue
					}
					y, _ := successEdges(ci.(*ssa.Call), 0, isTrue)
					if fld == "Priv" {
						if _, isSl := stripConv(pr[0]).(*ssa.Slice); !isSl {
							eqPriv = append(eqPriv, y...)
						}
					}
					if fld == "Pub" {
						eqPub = append(eqPub, y...)
					}
				}
			}
		}
		c.check(okSeed, "C39.consistency", "Ed25519 key derived from the stored seed", f, "ed25519.NewKeyFromSeed(key.Priv[:32])", "the Ed25519 key is not re-derived from the stored seed (the stored public half is trusted)")
		crossArm("C39.consistency", "Ed25519 derived == stored private key", "ssh-ed25519", eqPriv, "bytes.Equal(derived key, stored private key)")
		crossArm("C39.consistency", "Ed25519 derived public == stored public key", "ssh-ed25519", eqPub, "bytes.Equal(derived public half, stored public key)")
		// the returned key is the derived one
		okRet := false
		if len(seed) == 1 {
			for _, t := range acc {
				v := retVal(t.(*ssa.Return), 0)
				if mi, ok := v.(*ssa.MakeInterface); ok {
					if al, ok := mi.X.(*ssa.Alloc); ok {
						for _, r := range *al.Referrers() {
							if st, ok := r.(*ssa.Store); ok && stripConv(st.Val) == callValue(seed[0]) {
								okRet = true
							}
						}
					}
				}
			}
		}
		c.check(okRet, "C39.consistency", "Ed25519 returned key", f, "the key returned is the one derived from the seed", "the Ed25519 key returned is not the key derived from the seed")
	}
	// ECDSA
	{
		sbm := calls(f, nameIs("invoke:(crypto/elliptic.Curve).ScalarBaseMult"))
		var eqX []edge
		nCmp := 0
		if len(sbm) == 1 {
			for _, v := range append(resultN(sbm[0].(*ssa.Call), 0), resultN(sbm[0].(*ssa.Call), 1)...) {
				for _, r := range *v.Referrers() {
					if call, ok := r.(*ssa.Call); ok && short(calleeName(&call.Call)) == "(*math/big.Int).Cmp" {
						nCmp++
						eqX = append(eqX, edgesImplying(call, []int64{-1, 0, 1}, func(d int64) bool { return d == 0 })...)
					}
				}
			}
		}
		for _, arm := range []string{"ecdsa-sha2-nistp256", "ecdsa-sha2-nistp384", "ecdsa-sha2-nistp521"} {
			c.check(nCmp == 2, "C39.consistency", "ECDSA both coordinates compared, "+arm, f, "X and Y of D·G are compared with the stored point", fmt.Sprintf("%d coordinate comparisons, expected 2", nCmp))
			// each comparison individually
			if len(sbm) == 1 {
				for i, v := range append(resultN(sbm[0].(*ssa.Call), 0), resultN(sbm[0].(*ssa.Call), 1)...) {
					var one []edge
					for _, r := range *v.Referrers() {
						if call, ok := r.(*ssa.Call); ok && short(calleeName(&call.Call)) == "(*math/big.Int).Cmp" {
							one = append(one, edgesImplying(call, []int64{-1, 0, 1}, func(d int64) bool { return d == 0 })...)
						}
					}
					crossArm("C39.consistency", fmt.Sprintf("ECDSA coordinate#%d, %s", i, arm), arm, one, "D·G coordinate == stored coordinate")
				}
			}
		}
		// scalar range
		var lt []edge
		for _, ci := range callsNamed(f, "(*math/big.Int).Cmp") {
			if _, fld, _, ok := fieldOf(ci.Common().Args[0]); ok && fld == "D" {
				lt = append(lt, edgesImplying(callValue(ci), []int64{-1, 0, 1}, func(d int64) bool { return d < 0 })...)
			}
		}
		crossArm("C39.consistency", "ECDSA scalar < N", "ecdsa-sha2-nistp256", lt, "D < curve order")
	}
	// KDF
	var g *ssa.Function
	if parent := c.fn("ssh", "passphraseProtectedOpenSSHKey"); parent != nil && len(parent.AnonFuncs) == 1 {
		g = parent.AnonFuncs[0]
	}
	if g != nil {
		kdf := callsNamed(g, "ssh/internal/bcrypt_pbkdf.Key")
		bad := ""
		if len(kdf) != 1 {
			bad = "bcrypt_pbkdf.Key call not found"
		} else {
			for _, r := range []int64{0, 16, 2048, 2049, 1 << 31, 1<<32 - 1} {
				e := newEnv()
				e.bindPath(g, "opts.Rounds", r)
				cut := e.cuts(g)
				// from the Unmarshal onwards
				got := false
				for _, ci := range callsNamed(g, "ssh.Unmarshal") {
					if reachAfter(ci, cut)[kdf[0].Block()] {
						got = true
					}
				}
				if got != (r <= 2048) {
					bad = fmt.Sprintf("rounds=%d: KDF invoked=%v", r, got)
				}
			}
		}
		c.check(bad == "", "C39.kdf", "passphrase KDF rounds bound", g, "bcrypt_pbkdf runs only for rounds <= 2048", bad)
	} else {
		c.fail("anchor", "ssh.passphraseProtectedOpenSSHKey$1", nil, "decrypt closure not found")
	}
	// writer/reader struct agreement
	if w := c.fn("ssh", "marshalOpenSSHPrivateKey"); w != nil {
		rs, ws := map[string]bool{}, map[string]bool{}
		allInstrs(f, func(in ssa.Instruction) {
			if al, ok := in.(*ssa.Alloc); ok {
				if n := typeName(al.Type()); strings.HasPrefix(n, "openSSH") {
					rs[n] = true
				}
			}
		})
		allInstrs(w, func(in ssa.Instruction) {
			if al, ok := in.(*ssa.Alloc); ok {
				if n := typeName(al.Type()); strings.HasPrefix(n, "openSSH") {
					ws[n] = true
				}
			}
		})
		var missing []string
		for n := range rs {
			if !ws[n] {
				missing = append(missing, n)
			}
		}
		c.check(len(missing) == 0 && len(rs) >= 5, "C39.layout", "reader/writer record types", w, fmt.Sprintf("both use the same %d record struct types", len(rs)), fmt.Sprintf("record types read but not written with the same struct: %v", missing))
	}
}

func loadsOfField(f *ssa.Function, typ, field string) []ssa.Value {
	var out []ssa.Value
	allInstrs(f, func(in ssa.Instruction) {
		if u, ok := in.(*ssa.UnOp); ok && u.Op == token.MUL {
			if fa, ok := u.X.(*ssa.FieldAddr); ok && isField(fa, typ, field) {
				out = append(out, u)
			}
		}
	})
	return out
}
