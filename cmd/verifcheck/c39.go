package main

import (
	"fmt"
	"go/token"
	"sort"
	"strings"

	"golang.org/x/tools/go/ssa"
)

func init() {
	register(&propDef{
		id: "C39", run: runC39, minOblig: 36,
		explanation: "Decides the internal-consistency gates of parseOpenSSHPrivateKey on the call tree of the function (its same-package helpers and closures expanded in place; every value identified by the record field or library call it comes from, every check recognised in any equivalent form and wherever it is factored): a key is returned only (i) for NumKeys == 1, (ii) with matching check words — after a mismatch (or undecodable block) with a cipher named, every reachable return yields x509.IncorrectPasswordError, (iii) behind checkOpenSSHKeyPadding == nil, (iv) behind the consistency test of its key type — RSA: N <= 16384 bits, P, Q <= 8192 bits, E <= 24 bits, exponent >= 3 and odd (each bound read off the comparisons by evaluation, exactly that bound and no other test on those sizes; they also precede rsa.PrivateKey.Validate) and Validate() == nil; Ed25519: the key is re-derived with ed25519.NewKeyFromSeed from the first 32 bytes of the stored private key and must equal the stored private key AND the stored public key (bytes.Equal or an equivalent comparison), and the derived key is the one returned; ECDSA: scalar below the group order, and ScalarBaseMult(D) equal to the stored point in both coordinates — and (v) behind the comparison of the public key stored outside the encrypted section with the parsed key's marshalled SSH public key; key-type arms are separated by evaluating the key type comparisons; the passphrase KDF rounds are bounded (exactly <= 2048, evaluated) on every path to bcrypt_pbkdf.Key in the decrypt function; writer and reader use the same record struct types. NOT decided: ssh-keygen interoperability; that signatures verify (follows from the consistency checks plus the primitives); which ciphers the decrypt function accepts.",
		assumptions: []string{"crypto/rsa Validate, crypto/ed25519 NewKeyFromSeed, elliptic ScalarBaseMult contracts"},
	})
	tech("C39", "interprocedural must-cross rules per key-type arm (arms separated by evaluating the type comparisons; gates recognised by role and lifted through helpers that establish them), finite-domain evaluation of numeric bounds, writer/reader struct-type agreement")
}

const (
	c39Env  = "openSSHEncryptedPrivateKey"
	c39Inn  = "openSSHPrivateKey"
	c39RSA  = "openSSHRSAPrivateKey"
	c39Ed   = "openSSHEd25519PrivateKey"
	c39ECDS = "openSSHECDSAPrivateKey"
)

type c39Run struct {
	c       *Ctx
	k       *c39K
	f       *ssa.Function
	acc     []ssa.Instruction
	typeCmp []*ssa.BinOp // comparisons of the decoded key type with a constant name
	armCuts map[string]edgeSet
}

// constStrCmp: v is `x == "const"` / `x != "const"`; returns x and the name.
func c39ConstStrCmp(v ssa.Value) (bo *ssa.BinOp, x ssa.Value, name string, ok bool) {
	bo, ok = v.(*ssa.BinOp)
	if !ok || (bo.Op != token.EQL && bo.Op != token.NEQ) {
		return nil, nil, "", false
	}
	if s, isC := constString(bo.Y); isC {
		return bo, bo.X, s, true
	}
	if s, isC := constString(bo.X); isC {
		return bo, bo.Y, s, true
	}
	return nil, nil, "", false
}

// armCut: the edges contradicted by "the decoded key type is arm".
func (r *c39Run) armCut(arm string) edgeSet {
	if cut, ok := r.armCuts[arm]; ok {
		return cut
	}
	e := newEnv()
	for _, bo := range r.typeCmp {
		_, _, s, _ := c39ConstStrCmp(bo)
		if (s == arm) == (bo.Op == token.EQL) {
			e.bind(bo, 1)
		} else {
			e.bind(bo, 0)
		}
	}
	cut := r.k.cutsUnder(e)
	r.armCuts[arm] = cut
	return cut
}

// cross: every path from the entry of parseOpenSSHPrivateKey (helpers expanded
// in place, restricted to one key-type arm when arm != "") to a target crosses
// a pass edge.
func (r *c39Run) cross(rule, name, arm string, pass []edge, targets []ssa.Instruction, what string) bool {
	c := r.c
	if len(pass) == 0 {
		c.fail(rule, name, r.f, "gate not found: "+what+" (no branch in "+fnName(r.f)+" or the code it runs decides it)")
		return false
	}
	if len(targets) == 0 {
		c.fail(rule, name, r.f, "no target instruction found for "+what+" (rule anchor lost)")
		return false
	}
	cut := edgeSet{}
	if arm != "" {
		for e := range r.armCut(arm) {
			cut[e] = true
		}
	}
	cut.addAll(pass)
	if t := r.k.reachable(cut, targets); t != nil {
		if arm != "" {
			c.fail(rule, name, t, "a "+arm+" key can be returned without passing "+what)
		} else {
			c.fail(rule, name, t, "reachable without passing "+what)
		}
		return false
	}
	if arm != "" {
		c.ok(rule, name, r.f, "every returned "+arm+" key passed "+what)
	} else {
		c.ok(rule, name, targets[0], fmt.Sprintf("every path to the %d target(s) passes %s (%d pass edge(s), helpers expanded in place)", len(targets), what, len(pass)))
	}
	return true
}

func (r *c39Run) loadOf(typ, fld string) func(ssa.Value) bool {
	return func(v ssa.Value) bool {
		if _, isAddr := r.k.res(v).(*ssa.FieldAddr); isAddr {
			return false
		}
		return r.k.isField(v, typ, fld)
	}
}

// callOn: v is the result of method name (e.g. "(*math/big.Int).BitLen")
// applied to record field typ.fld.
func (r *c39Run) callOn(typ, fld string, names ...string) func(ssa.Value) bool {
	m := nameIs(names...)
	return func(v ssa.Value) bool {
		call, ok := r.k.res(v).(*ssa.Call)
		if !ok || call.Call.IsInvoke() || len(call.Call.Args) == 0 || !m(short(calleeName(&call.Call))) {
			return false
		}
		return r.k.isField(call.Call.Args[0], typ, fld)
	}
}

type c39Bound struct {
	name string
	role func(ssa.Value) bool
	dom  []int64
	P    func(int64) bool
	what string
}

// strays: the comparisons that depend on the role value (and constants only)
// without being one of the specified predicates or its negation.
func (r *c39Run) strays(role func(ssa.Value) bool, dom []int64, allowed []func(int64) bool) []c39Stray {
	var out []c39Stray
	r.k.each(func(in ssa.Instruction) {
		var tab []bool
		var v ssa.Value
		switch x := in.(type) {
		case *ssa.BinOp:
			t, ok := c39Table(x, role, dom)
			if !ok {
				return
			}
			tab, v = t, x
		case *ssa.Call:
			t, _, ok := r.k.callTable(x, role, dom)
			if !ok {
				return
			}
			tab, v = t, x
		default:
			return
		}
		for _, P := range allowed {
			t, f := c39Decides(tab, dom, P, true)
			if t || f {
				return
			}
		}
		out = append(out, c39Stray{v, tab})
	})
	return out
}

type c39Stray struct {
	v   ssa.Value
	tab []bool
}

func c39TableStr(tab []bool, dom []int64) string {
	var acc, rej []string
	for i, d := range dom {
		if tab[i] {
			acc = append(acc, itoa(d))
		} else {
			rej = append(rej, itoa(d))
		}
	}
	return "true for {" + strings.Join(acc, ",") + "}, false for {" + strings.Join(rej, ",") + "}"
}

func runC39(c *Ctx) {
	f := c.fn("ssh", "parseOpenSSHPrivateKey")
	if f == nil {
		return
	}
	k := c.c39Universe(f)
	r := &c39Run{c: c, k: k, f: f, armCuts: map[string]edgeSet{}}
	r.acc = k.accepts(f, 1, 0)
	acc := r.acc

	// arms: comparisons of the decoded key type with a constant name, wherever
	// the dispatch lives
	names := map[string]bool{}
	k.each(func(in ssa.Instruction) {
		if v, ok := in.(ssa.Value); ok {
			if bo, x, s, ok := c39ConstStrCmp(v); ok && r.loadOf(c39Inn, "Keytype")(x) {
				r.typeCmp = append(r.typeCmp, bo)
				names[s] = true
			}
		}
	})
	arms := []string{"ssh-rsa", "ssh-ed25519", "ecdsa-sha2-nistp256", "ecdsa-sha2-nistp384", "ecdsa-sha2-nistp521"}
	ecArms := arms[2:]
	nArms := 0
	for _, a := range arms {
		if names[a] {
			nArms++
		}
	}
	c.check(nArms == len(arms), "C39.arms", "key type switch", f, fmt.Sprintf("%d key type names dispatched", len(names)), fmt.Sprintf("only %d of the %d key type names are compared with the decoded key type", nArms, len(arms)))
	crossArm := func(rule, name, arm string, pass []edge, what string) {
		r.cross(rule, name, arm, pass, acc, what)
	}

	// (i) NumKeys
	numKeys := k.gate(k.cmpGate(r.loadOf(c39Env, "NumKeys"), []int64{0, 1, 2, 7, 1<<32 - 1}, func(d int64) bool { return d == 1 }, false))
	r.cross("C39.envelope", "NumKeys == 1", "", numKeys.passAll(), acc, "NumKeys == 1")

	// (ii) check words
	isCheck := func(v ssa.Value, st c39St) bool {
		bo, ok := v.(*ssa.BinOp)
		if !ok || (bo.Op != token.NEQ && bo.Op != token.EQL) {
			return false
		}
		c1, c2 := r.loadOf(c39Inn, "Check1"), r.loadOf(c39Inn, "Check2")
		if !((c1(bo.X) && c2(bo.Y)) || (c2(bo.X) && c1(bo.Y))) {
			return false
		}
		return (bo.Op == token.EQL && st == c39True) || (bo.Op == token.NEQ && st == c39False)
	}
	words := k.gate(isCheck)
	wordSites := words.sites()
	if len(wordSites) == 0 {
		c.fail("C39.check-words", "Check1 == Check2", f, "the check words are not compared")
	} else {
		matchPass := words.passAll()
		r.cross("C39.check-words", "Check1 == Check2", "", matchPass, acc, "Check1 == Check2")
		// mismatch with a cipher -> IncorrectPasswordError: from the place where
		// the words are compared, with the match edges cut and "a cipher is named"
		// assumed, every return of the root that is still reachable carries
		// x509.IncorrectPasswordError.
		e := newEnv()
		k.each(func(in ssa.Instruction) {
			if v, ok := in.(ssa.Value); ok {
				if bo, x, s, ok := c39ConstStrCmp(v); ok && s == "none" && r.loadOf(c39Env, "CipherName")(x) {
					if bo.Op == token.NEQ {
						e.bind(bo, 1)
					} else {
						e.bind(bo, 0)
					}
				}
			}
		})
		cut := k.cutsUnder(e)
		cut.addAll(matchPass)
		okPw, onlyPw := false, true
		var at poser = wordSites[0]
		for _, w := range wordSites {
			site := k.siteInRoot(w.(ssa.Instruction))
			if site == nil {
				onlyPw = false
				continue
			}
			for _, ret := range k.rootReturnsFrom(site.Block(), cut) {
				for _, leaf := range k.leavesUnder(retVal(ret, 1), cut) {
					if c39IsGlobal(leaf, "crypto/x509", "IncorrectPasswordError") {
						okPw = true
					} else {
						onlyPw = false
						at = ret
					}
				}
			}
		}
		c.check(okPw && onlyPw, "C39.check-words", "wrong passphrase error", at, "mismatching check words with a cipher yield x509.IncorrectPasswordError", "a wrong passphrase (check word mismatch on an encrypted key) does not yield x509.IncorrectPasswordError")
	}

	// (iii) padding in every arm
	padding := k.gate(func(v ssa.Value, st c39St) bool {
		call, ok := v.(*ssa.Call)
		return ok && st == c39Nil && short(calleeName(&call.Call)) == "ssh.checkOpenSSHKeyPadding"
	})
	padPass := padding.passAll()
	nPad := len(padding.sites())
	c.check(nPad >= 1, "C39.padding", "padding checks", f, fmt.Sprintf("%d call(s) of checkOpenSSHKeyPadding on the way to a key", nPad), "checkOpenSSHKeyPadding is not called")

	// (v) envelope: the marshalled public key of the parsed key is compared with
	// the public key stored outside the encrypted section
	isMarshal := func(v ssa.Value) bool {
		call, ok := k.res(v).(*ssa.Call)
		return ok && call.Call.IsInvoke() && call.Call.Method.Name() == "Marshal"
	}
	outerPub := r.loadOf(c39Env, "PubKey")
	envelope := k.gate(func(v ssa.Value, st c39St) bool {
		a, b, ok := c39EqTest(v, st)
		return ok && ((isMarshal(a) && outerPub(b)) || (isMarshal(b) && outerPub(a)))
	})
	envSites := envelope.sites()
	envOK := len(envSites) > 0
	var envAt poser = f
	for _, s := range envSites {
		h := s.(ssa.Instruction).Parent()
		envAt = h
		if h != f && !envelope.summarises(h) {
			envOK = false
		}
	}
	c.check(envOK, "C39.envelope", "outer public key comparison", envAt, "nil only when the parsed key's SSH public key equals the public key stored outside the encrypted section", "the public key stored outside the encrypted section is not compared with the parsed key")
	envPass := envelope.passAll()
	for _, arm := range arms {
		crossArm("C39.envelope", "outer public key, "+arm, arm, envPass, "the outer-public-key comparison")
		crossArm("C39.padding", "padding, "+arm, arm, padPass, "checkOpenSSHKeyPadding == nil")
	}

	// (iv) per type
	// RSA
	{
		validate := k.gate(func(v ssa.Value, st c39St) bool {
			call, ok := v.(*ssa.Call)
			return ok && st == c39Nil && short(calleeName(&call.Call)) == "(*crypto/rsa.PrivateKey).Validate"
		})
		crossArm("C39.consistency", "RSA Validate", "ssh-rsa", validate.passAll(), "rsa.PrivateKey.Validate() == nil")
		// numeric bounds: they gate the key and the (expensive) Validate itself
		targets := append([]ssa.Instruction{}, acc...)
		for _, v := range validate.sites() {
			targets = append(targets, v.(ssa.Instruction))
		}
		bitsDom := func(K int64) []int64 {
			return []int64{0, 1, 2, 3, K - 1, K, K + 1, 2 * K, 2*K + 1, 1 << 20}
		}
		le := func(K int64) func(int64) bool { return func(d int64) bool { return d <= K } }
		bitLen := "(*math/big.Int).BitLen"
		eVal := r.callOn(c39RSA, "E", "(*math/big.Int).Int64", "(*math/big.Int).Uint64")
		eDom := []int64{-65537, -3, -1, 0, 1, 2, 3, 4, 5, 6, 65537, 65538, 1<<24 - 1}
		ge3 := func(d int64) bool { return d >= 3 }
		odd := func(d int64) bool { return d&1 == 1 }
		bounds := []c39Bound{
			{"modulus <= 16384 bits", r.callOn(c39RSA, "N", bitLen), bitsDom(16384), le(16384), "N.BitLen() <= 16384"},
			{"prime P <= 8192 bits", r.callOn(c39RSA, "P", bitLen), bitsDom(8192), le(8192), "P.BitLen() <= 8192"},
			{"prime Q <= 8192 bits", r.callOn(c39RSA, "Q", bitLen), bitsDom(8192), le(8192), "Q.BitLen() <= 8192"},
			{"exponent <= 24 bits", r.callOn(c39RSA, "E", bitLen), bitsDom(24), le(24), "E.BitLen() <= 24"},
			{"exponent >= 3", eVal, eDom, ge3, "E >= 3"},
			{"exponent odd", eVal, eDom, odd, "E odd"},
		}
		// the parity may also be read off the lowest bit: E.Bit(0) == 1
		eBit0 := func(v ssa.Value) bool {
			call, ok := k.res(v).(*ssa.Call)
			if !ok || call.Call.IsInvoke() || len(call.Call.Args) != 2 || short(calleeName(&call.Call)) != "(*math/big.Int).Bit" {
				return false
			}
			n, isC := constInt(call.Call.Args[1])
			return isC && n == 0 && k.isField(call.Call.Args[0], c39RSA, "E")
		}
		for i, b := range bounds {
			is := k.cmpGate(b.role, b.dom, b.P, true)
			if i == len(bounds)-1 {
				is = c39Or(is, k.cmpGate(eBit0, []int64{0, 1}, func(d int64) bool { return d == 1 }, true))
			}
			g := k.gate(is)
			r.cross("C39.consistency", "RSA bounds: "+b.name, "ssh-rsa", g.passAll(), targets, b.what)
		}
		// no other test on those sizes (a stricter bound would reject keys that
		// ssh-keygen writes)
		bad := ""
		var at poser = f
		for i, b := range bounds {
			allowed := []func(int64) bool{b.P}
			if i >= 4 {
				allowed = []func(int64) bool{ge3, odd}
			}
			for _, s := range r.strays(b.role, b.dom, allowed) {
				bad = fmt.Sprintf("the test at %s is not part of the specified bounds (%s): it is %s", c.posStr(s.v.Pos()), b.what, c39TableStr(s.tab, b.dom))
				at = s.v
			}
		}
		c.check(bad == "", "C39.consistency", "RSA bounds", at, "modulus <= 16384 bits, primes <= 8192 bits, exponent <= 24 bits, odd and >= 3; no other test on these sizes", bad)
	}
	// Ed25519
	{
		var seeds []ssa.Value
		for _, call := range k.callsNamed("crypto/ed25519.NewKeyFromSeed") {
			if len(call.Call.Args) != 1 {
				continue
			}
			base, lo, hi := k.sliceOf(call.Call.Args[0])
			if base != nil && k.isField(base, c39Ed, "Priv") && lo == 0 && hi == 32 {
				seeds = append(seeds, call)
			}
		}
		isDerived := func(v ssa.Value) bool {
			v = k.res(v)
			for _, s := range seeds {
				if v == s {
					return true
				}
			}
			return false
		}
		part := func(v ssa.Value, is func(ssa.Value) bool, wantLo int64, his ...int64) bool {
			base, lo, hi := k.sliceOf(v)
			if base == nil || !is(base) || lo != wantLo {
				return false
			}
			for _, h := range his {
				if hi == h {
					return true
				}
			}
			return false
		}
		storedPriv := func(v ssa.Value) bool { return k.isField(v, c39Ed, "Priv") }
		storedPub := func(v ssa.Value) bool { return k.isField(v, c39Ed, "Pub") }
		derivedPub := func(v ssa.Value) bool {
			if part(v, isDerived, 32, -1, 64) {
				return true
			}
			// derived.Public().(ed25519.PublicKey)
			if ta, ok := k.res(v).(*ssa.TypeAssert); ok {
				if call, ok := k.res(ta.X).(*ssa.Call); ok && !call.Call.IsInvoke() && short(calleeName(&call.Call)) == "(crypto/ed25519.PrivateKey).Public" {
					return len(call.Call.Args) == 1 && isDerived(call.Call.Args[0])
				}
			}
			return false
		}
		eqPriv := k.gate(func(v ssa.Value, st c39St) bool {
			a, b, ok := c39EqTest(v, st)
			if !ok {
				return false
			}
			for _, p := range [][2]ssa.Value{{a, b}, {b, a}} {
				if part(p[0], isDerived, 0, -1, 64) && part(p[1], storedPriv, 0, -1, 64) {
					return true
				}
				if derivedPub(p[0]) && part(p[1], storedPriv, 32, -1, 64) {
					return true
				}
			}
			return false
		})
		eqPub := k.gate(func(v ssa.Value, st c39St) bool {
			a, b, ok := c39EqTest(v, st)
			if !ok {
				return false
			}
			for _, p := range [][2]ssa.Value{{a, b}, {b, a}} {
				if derivedPub(p[0]) && part(p[1], storedPub, 0, -1, 32) {
					return true
				}
			}
			return false
		})
		c.check(len(seeds) >= 1, "C39.consistency", "Ed25519 key derived from the stored seed", f, "ed25519.NewKeyFromSeed(key.Priv[:32])", "the Ed25519 key is not re-derived from the stored seed (the stored public half is trusted)")
		crossArm("C39.consistency", "Ed25519 derived == stored private key", "ssh-ed25519", eqPriv.passAll(), "bytes.Equal(derived key, stored private key)")
		crossArm("C39.consistency", "Ed25519 derived public == stored public key", "ssh-ed25519", eqPub.passAll(), "bytes.Equal(derived public half, stored public key)")
		// the returned key is the derived one
		okRet, nRet := len(seeds) >= 1, 0
		var at poser = f
		cut := r.armCut("ssh-ed25519")
		for _, t := range acc {
			if k.reachable(cut, []ssa.Instruction{t}) == nil {
				continue
			}
			nRet++
			for _, leaf := range k.leavesUnder(retVal(t.(*ssa.Return), 0), cut) {
				good := isDerived(leaf)
				if al, ok := leaf.(*ssa.Alloc); ok {
					if s := c39SingleStore(al); s != nil && isDerived(s) {
						good = true
					}
				}
				if !good {
					okRet = false
					at = t
				}
			}
		}
		c.check(okRet && nRet > 0, "C39.consistency", "Ed25519 returned key", at, "the key returned is the one derived from the seed", "the Ed25519 key returned is not the key derived from the seed")
	}
	// ECDSA
	{
		isSBM := func(v ssa.Value, idx int) bool {
			ex, ok := k.res(v).(*ssa.Extract)
			if !ok || ex.Index != idx {
				return false
			}
			call, ok := ex.Tuple.(*ssa.Call)
			return ok && call.Call.IsInvoke() && call.Call.Method.Name() == "ScalarBaseMult"
		}
		isStored := func(v ssa.Value, idx int) bool {
			v = k.res(v)
			if ex, ok := v.(*ssa.Extract); ok && ex.Index == idx {
				if call, ok := ex.Tuple.(*ssa.Call); ok && !call.Call.IsInvoke() {
					n := short(calleeName(&call.Call))
					if (n == "crypto/elliptic.Unmarshal" || n == "crypto/elliptic.UnmarshalCompressed") && len(call.Call.Args) == 2 {
						return k.isField(call.Call.Args[1], c39ECDS, "Pub")
					}
				}
				return false
			}
			// the coordinate read back from the public key under construction
			if _, fld, _, ok := fieldOf(v); ok {
				return fld == []string{"X", "Y"}[idx]
			}
			return false
		}
		cmpName := "(*math/big.Int).Cmp"
		coord := func(idx int) *c39Gate {
			return k.gate(c39CallCmpGate(func(call *ssa.Call) ([]int64, func(int64) bool, bool) {
				if call.Call.IsInvoke() || short(calleeName(&call.Call)) != cmpName || len(call.Call.Args) != 2 {
					return nil, nil, false
				}
				a, b := call.Call.Args[0], call.Call.Args[1]
				if (isSBM(a, idx) && isStored(b, idx)) || (isSBM(b, idx) && isStored(a, idx)) {
					return []int64{-1, 0, 1}, func(d int64) bool { return d == 0 }, true
				}
				return nil, nil, false
			}))
		}
		isOrder := func(v ssa.Value) bool {
			_, fld, _, ok := fieldOf(k.res(v))
			return ok && fld == "N"
		}
		isD := r.loadOf(c39ECDS, "D")
		scalar := k.gate(c39CallCmpGate(func(call *ssa.Call) ([]int64, func(int64) bool, bool) {
			if call.Call.IsInvoke() || short(calleeName(&call.Call)) != cmpName || len(call.Call.Args) != 2 {
				return nil, nil, false
			}
			a, b := call.Call.Args[0], call.Call.Args[1]
			switch {
			case isD(a) && isOrder(b):
				return []int64{-1, 0, 1}, func(d int64) bool { return d < 0 }, true
			case isD(b) && isOrder(a):
				return []int64{-1, 0, 1}, func(d int64) bool { return d > 0 }, true
			}
			return nil, nil, false
		}))
		gx, gy := coord(0), coord(1)
		px, py, ps := gx.passAll(), gy.passAll(), scalar.passAll()
		nCmp := 0
		if len(gx.sites()) > 0 {
			nCmp++
		}
		if len(gy.sites()) > 0 {
			nCmp++
		}
		for _, arm := range ecArms {
			c.check(nCmp == 2, "C39.consistency", "ECDSA both coordinates compared, "+arm, f, "X and Y of D·G are compared with the stored point", fmt.Sprintf("%d of the 2 coordinates of D·G compared with the stored point", nCmp))
			crossArm("C39.consistency", "ECDSA coordinate#0, "+arm, arm, px, "D·G coordinate X == stored coordinate")
			crossArm("C39.consistency", "ECDSA coordinate#1, "+arm, arm, py, "D·G coordinate Y == stored coordinate")
			crossArm("C39.consistency", "ECDSA scalar < N, "+arm, arm, ps, "D < curve order")
		}
	}
	// KDF
	c39KDF(c)
	// writer/reader struct agreement
	if w := c.fn("ssh", "marshalOpenSSHPrivateKey"); w != nil {
		rs, ws := k.recordTypes("openSSH"), c.c39Universe(w).recordTypes("openSSH")
		var missing []string
		for n := range rs {
			if !ws[n] {
				missing = append(missing, n)
			}
		}
		sort.Strings(missing)
		c.check(len(missing) == 0 && len(rs) >= 5, "C39.layout", "reader/writer record types", w, fmt.Sprintf("both use the same %d record struct types", len(rs)), fmt.Sprintf("record types read but not written with the same struct: %v", missing))
	}
}

// c39KDF: in the decrypt function handed out by passphraseProtectedOpenSSHKey
// (the function itself, its closures and their helpers), bcrypt_pbkdf.Key runs
// only behind "decoded round count <= 2048", and that is the only test on the
// round count.
func c39KDF(c *Ctx) {
	parent := c.fn("ssh", "passphraseProtectedOpenSSHKey")
	if parent == nil {
		return
	}
	kdfName := "ssh/internal/bcrypt_pbkdf.Key"
	type cand struct {
		k    *c39K
		kdfs []*ssa.Call
	}
	var cands []cand
	for _, g := range withClosures(parent) {
		k := c.c39Universe(g)
		kdfs := k.callsNamed(kdfName)
		tset := map[ssa.Instruction]bool{}
		for _, call := range kdfs {
			tset[call] = true
		}
		// entry points from which the KDF call is actually run
		if deepReach(g, edgeSet{}, func(in ssa.Instruction) bool { return tset[in] }) != nil {
			cands = append(cands, cand{k, kdfs})
		}
	}
	if len(cands) == 0 {
		c.fail("C39.kdf", "passphrase KDF rounds bound", parent, "bcrypt_pbkdf.Key call not found")
		return
	}
	// the innermost entry points only: a closure's universe is contained in its
	// parent's when the parent calls it; keep every candidate, each is checked
	for _, cd := range cands {
		k := cd.k
		roundsLoad := func(v ssa.Value) bool {
			u, ok := v.(*ssa.UnOp)
			if !ok || u.Op != token.MUL {
				return false
			}
			_, fld, _, ok := fieldOf(u)
			return ok && fld == "Rounds"
		}
		// the decoded round count: a load of the Rounds field of the decoded
		// options, also after it has been handed back by a helper
		rounds := func(v ssa.Value) bool {
			v = k.res(v)
			if roundsLoad(v) {
				return true
			}
			switch v.(type) {
			case *ssa.Extract, *ssa.Call:
			default:
				return false
			}
			n := 0
			for _, leaf := range k.leavesUnder(v, edgeSet{}) {
				if _, isConst := leaf.(*ssa.Const); isConst {
					continue
				}
				for {
					cv, ok := leaf.(*ssa.Convert)
					if !ok {
						break
					}
					leaf = k.res(cv.X)
				}
				if !roundsLoad(leaf) {
					return false
				}
				n++
			}
			return n > 0
		}
		dom := []int64{0, 1, 16, 2047, 2048, 2049, 4096, 1 << 19, 1<<19 + 1, 1 << 31, 1<<32 - 1}
		P := func(d int64) bool { return d <= 2048 }
		bad := ""
		var at poser = k.root
		// the round count handed to the KDF is the decoded one
		for _, call := range cd.kdfs {
			if len(call.Call.Args) < 3 {
				bad = "bcrypt_pbkdf.Key call not understood"
				continue
			}
			var roots []ssa.Value
			c39RoleRoots(call.Call.Args[2], rounds, 0, &roots)
			if len(roots) == 0 {
				bad = "the round count passed to bcrypt_pbkdf.Key is not the decoded Rounds field"
				at = call
			}
		}
		if bad == "" {
			g := k.gate(k.cmpGate(rounds, dom, P, true))
			cut := edgeSet{}
			cut.addAll(g.passAll())
			tset := map[ssa.Instruction]bool{}
			for _, call := range cd.kdfs {
				tset[call] = true
			}
			if t := deepReach(k.root, cut, func(in ssa.Instruction) bool { return tset[in] }); t != nil {
				bad = "bcrypt_pbkdf.Key can run without the decoded round count having been bounded by 2048"
				at = t
			}
			for _, s := range (&c39Run{c: c, k: k}).strays(rounds, dom, []func(int64) bool{P}) {
				v, tab := s.v, s.tab
				for i, d := range dom {
					if !P(d) && tab[i] == tab[4] {
						bad = fmt.Sprintf("rounds=%d: treated like rounds=2048 by the test at %s, so the KDF is invoked", d, c.posStr(v.Pos()))
						break
					}
					if P(d) && tab[i] != tab[4] {
						bad = fmt.Sprintf("rounds=%d: treated differently from rounds=2048 by the test at %s", d, c.posStr(v.Pos()))
						break
					}
				}
				at = v
			}
		}
		c.check(bad == "", "C39.kdf", "passphrase KDF rounds bound", at, "bcrypt_pbkdf runs only for rounds <= 2048", bad)
	}
}

func loadsOfField(f *ssa.Function, typ, field string) []ssa.Value {
	var out []ssa.Value
	allInstrs(f, func(in ssa.Instruction) {
		if u, ok := in.(*ssa.UnOp); ok && u.Op == token.MUL {
			if fa, ok := u.X.(*ssa.FieldAddr); ok && isField(fa, typ, field) {
				out = append(out, u)
			}
		}
	})
	return out
}
