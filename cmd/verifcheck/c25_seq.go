package main

import (
	"go/token"
	"strings"

	"golang.org/x/tools/go/ssa"
)

// c25SeqNum: connectionState hands its seqNum to the packet cipher and
// increments it exactly on the paths that consumed / produced a packet: every
// return of readPacket, every non-error return of writePacket. The cipher
// call and the increment are located by role (an invoke of the packetCipher
// method; a store of seqNum+1 to the seqNum field) in the function or in a
// helper of the package; paths run through helpers expanded in place.
func c25SeqNum(c *Ctx) {
	for _, spec := range []struct {
		fn, method string
		read       bool
	}{
		{"(*connectionState).readPacket", "readCipherPacket", true},
		{"(*connectionState).writePacket", "writeCipherPacket", false},
	} {
		f := c.fn("ssh", spec.fn)
		if f == nil {
			continue
		}
		isInc := func(in ssa.Instruction) bool {
			st, ok := in.(*ssa.Store)
			if !ok || !isField(st.Addr, "connectionState", "seqNum") {
				return false
			}
			bo, ok := st.Val.(*ssa.BinOp)
			if !ok || bo.Op != token.ADD {
				return false
			}
			k, isK := constInt(bo.Y)
			x := bo.X
			if !isK {
				k, isK = constInt(bo.X)
				x = bo.Y
			}
			return isK && k == 1 && isField(x, "connectionState", "seqNum")
		}
		var call ssa.CallInstruction
		nCalls, nInc := 0, 0
		scan := func(in ssa.Instruction) {
			if ci, ok := in.(ssa.CallInstruction); ok {
				cc := ci.Common()
				if cc.IsInvoke() && cc.Method.Name() == spec.method {
					call = ci
					nCalls++
				}
			}
			if isInc(in) {
				nInc++
			}
		}
		seenFn := map[*ssa.Function]bool{}
		for _, g := range deepFuncs(f) {
			if !seenFn[g] {
				seenFn[g] = true
				allInstrs(g, scan)
			}
			// deferred helpers run before g returns
			for _, h := range c25deferred(f, g) {
				for _, hh := range deepFuncs(h) {
					if !seenFn[hh] {
						seenFn[hh] = true
						allInstrs(hh, scan)
					}
				}
			}
		}
		ok := nCalls == 1 && nInc >= 1
		detail := "cipher call or increment not found"
		if ok {
			ok = isField(c.origin(call.Common().Args[0]), "connectionState", "seqNum")
			detail = "the cipher is not given the connection's sequence number"
		}
		if ok {
			sinks := map[ssa.Instruction]bool{}
			if spec.read {
				for _, r := range returnsOf(f) {
					sinks[r] = true
				}
			} else {
				for _, r := range acceptReturns(f, 0) {
					sinks[r] = true
				}
			}
			if hit := c25afterCall(f, call, isInc, func(in ssa.Instruction) bool { return sinks[in] }); hit != nil {
				ok = false
				detail = "a return is reachable after the cipher call without incrementing the sequence number"
			}
		}
		c.check(ok, "C25.seqnum", spec.fn, f, "the cipher receives seqNum, which is then incremented exactly on the paths that consumed a packet", detail)
	}
}

// c25deferred: the functions of root's package that g defers unconditionally
// (in its entry block), in the order in which they run.
func c25deferred(root, g *ssa.Function) []*ssa.Function {
	var out []*ssa.Function
	if g == nil || len(g.Blocks) == 0 {
		return nil
	}
	for _, in := range g.Blocks[0].Instrs {
		if df, ok := in.(*ssa.Defer); ok {
			if h := samePkgCallee(root, &df.Call); h != nil {
				out = append([]*ssa.Function{h}, out...)
			}
		}
	}
	return out
}

// c25afterCall: starting just after instruction from (which lies in fn or in a
// helper of fn's package reached from fn), is a sink of fn reachable without
// executing a barrier instruction? Helper calls are expanded in place; when
// the walk leaves the helper that contains from, it continues after every call
// of that helper on the call chain from fn.
func c25afterCall(fn *ssa.Function, from ssa.Instruction, barrier, sink func(ssa.Instruction) bool) ssa.Instruction {
	// call chain fn -> ... -> from.Parent()
	var chain []*ssa.Call
	var find func(g *ssa.Function, d int) bool
	find = func(g *ssa.Function, d int) bool {
		if g == from.Parent() {
			return true
		}
		if d >= deepDepth {
			return false
		}
		found := false
		allInstrs(g, func(in ssa.Instruction) {
			if found {
				return
			}
			if call, ok := in.(*ssa.Call); ok {
				if h := samePkgCallee(fn, &call.Call); h != nil && h != g {
					chain = append(chain, call)
					if find(h, d+1) {
						found = true
						return
					}
					chain = chain[:len(chain)-1]
				}
			}
		})
		return found
	}
	if !find(fn, 0) {
		return from
	}
	type pos struct {
		ctx string
		b   *ssa.BasicBlock
		i   int
	}
	seen := map[pos]bool{}
	var hit ssa.Instruction
	// run explores from (b, i) in function g at helper depth d; up is invoked
	// when g returns (nil at the top level, where returns are judged as sinks).
	var run func(ctx string, g *ssa.Function, b *ssa.BasicBlock, i, d int, up func())
	run = func(ctx string, g *ssa.Function, b *ssa.BasicBlock, i, d int, up func()) {
		if hit != nil {
			return
		}
		p := pos{ctx, b, i}
		if seen[p] {
			return
		}
		seen[p] = true
		for ; i < len(b.Instrs); i++ {
			in := b.Instrs[i]
			if barrier(in) {
				return
			}
			if g == fn && up == nil && sink(in) {
				hit = in
				return
			}
			if call, ok := in.(*ssa.Call); ok {
				if h := samePkgCallee(fn, &call.Call); h != nil && d < deepDepth && !strings.Contains(ctx, h.Name()+"/") {
					next := i + 1
					done := false
					run(ctx+h.Name()+"/", h, h.Blocks[0], 0, d+1, func() {
						if !done {
							done = true
							run(ctx, g, b, next, d, up)
						}
					})
					return
				}
			}
			if _, ok := in.(*ssa.RunDefers); ok {
				// the helpers deferred unconditionally by g run here, last registered first
				if hs := c25deferred(fn, g); len(hs) > 0 && d < deepDepth {
					next := i + 1
					var step func(k int)
					step = func(k int) {
						if k == len(hs) {
							run(ctx+"defers/", g, b, next, d, up)
							return
						}
						done := false
						run(ctx+"defer"+itoa(int64(k))+"/", hs[k], hs[k].Blocks[0], 0, d+1, func() {
							if !done {
								done = true
								step(k + 1)
							}
						})
					}
					step(0)
					return
				}
			}
			switch in.(type) {
			case *ssa.Return:
				if up != nil {
					up()
				}
				return
			case *ssa.Panic:
				return
			}
		}
		for _, s := range b.Succs {
			run(ctx, g, s, 0, d, up)
		}
	}
	// continuation after leaving level k of the chain: resume after chain[k] in its function
	var cont func(k int) func()
	cont = func(k int) func() {
		if k < 0 {
			return nil
		}
		call := chain[k]
		return func() {
			run("up"+itoa(int64(k))+"/", call.Parent(), call.Block(), instrIndex(call)+1, k, cont(k-1))
		}
	}
	run("", from.Parent(), from.Block(), instrIndex(from)+1, len(chain), cont(len(chain)-1))
	return hit
}
