package main

import (
	"fmt"
	"go/types"

	"golang.org/x/tools/go/ssa"
)

func init() {
	register(&propDef{
		id: "C26", run: runC26, minOblig: 23,
		explanation: "Decides by abstract interpretation (not by code shape) what the four SSH packet readers — (*streamPacketCipher|*gcmCipher|*cbcCipher|*chacha20Poly1305Cipher).readCipherPacket, with every helper of package ssh interpreted in place — do on arbitrary wire values. Each reader is evaluated with Go's fixed-width arithmetic for a grid of boundary values of the wire length (0, 1, 4, 5, 255, maxPacket±1, 2^31, 2^32-1 …), the padding length, the MAC size (0 = no MAC), the EtM flag, the block size, a buffer that has to grow (capacity as left by the constructor) or is large enough, and with the OUTCOME of the authenticity primitive as an input (passing / failing); byte slices are modelled by (storage object, offset, length, capacity) — objects are struct fields, local arrays and make() results, never names of locals, parameters or receivers — and every buffer filled from the connection knows which position of the packet image it holds (copy, XORKeyStream, CryptBlocks, aead.Open carry it along), so the wire length and padding length are recognised wherever and however they are decoded (encoding/binary, shifts, a loop). Rules: (auth) when subtle.ConstantTimeCompare / hmac.Equal of computed and received MAC, aead.Open or poly1305.Verify fails, or when a read from the connection fails, no payload is returned, and every accepted packet of an authenticated mode passed such a check (the unauthenticated 'none' mode is the only one allowed to skip it); (auth-args) that check is on a computed MAC (hash.Sum / poly1305.Sum over length and ciphertext) and the MAC bytes received right behind the packet, resp. opens the whole received buffer with the 4-byte length as additional data, resp. verifies the received tag over length and ciphertext; (maxpacket) every declared length above maxPacket is rejected; (bounds / no panic on wire values) at every slice expression low <= high <= capacity of the sliced storage (max for 3-index slices), every index and encoding/binary access is inside its operand, every make()/Grow/append size and every read from the connection is <= maxPacket + 4 + 64 + 16 (+80), XORKeyStream/CryptBlocks get a destination at least as long as the source and CryptBlocks whole blocks, and no explicit panic is reached; (payload) an accepted packet returns exactly bytes [5 : 4+length-padding) of what was received; (verify-then-decrypt, chacha20-poly1305) packet content is decrypted only behind the successful tag verification and the returned payload is; (framing) connectionState.readPacket and the private helpers it is made of contain no explicit panic, and interpreted with the cipher returning an empty payload (with and without error) it returns a non-nil error without indexing the payload. A branch or size that does not evaluate over the grid is reported as undecided, never passed. NOT decided: cryptographic unforgeability; arithmetic outside the evaluated grid (the grid contains every constant appearing in the guards ±1); what MAC input precedes the comparison (C25); failure of library calls other than reads from the connection and the authenticity primitives (assumed to succeed).",
		assumptions: []string{"cipher.AEAD.Open returns len(ciphertext)-16 bytes appended to its destination and fails on shorter input", "hash.Hash.Size() in {16,20,32,64} for the configured MACs; cbcCipher.macSize equals it", "cipher block size in {8,16}", "packet buffers are only ever replaced by larger ones (capacity >= what the constructor allocated)", "int is 64-bit"},
	})
	tech("C26", "path-sensitive abstract interpretation of the packet readers (helpers inlined; slices as storage/offset/length/capacity; wire-image provenance; error values with dynamic types) over a boundary-value grid with the authenticity primitive's outcome as an input; fixed-width arithmetic")
}

func runC26(c *Ctx) {
	maxPacket, ok := pkgConstInt(c, "ssh", "maxPacket")
	if !ok {
		c.fail("anchor", "ssh.maxPacket", nil, "constant not found")
		return
	}
	lengths := []int64{0, 1, 2, 3, 4, 5, 6, 7, 8, 11, 12, 15, 16, 17, 20, 28, 32, 255, 256, 257, 260, 1024, maxPacket - 4, maxPacket - 1, maxPacket, maxPacket + 1, maxPacket + 12, 1<<20 - 4, 1<<31 - 4, 1 << 31, 1<<32 - 20, 1<<32 - 5, 1<<32 - 4, 1<<32 - 1}
	pads := []int64{0, 1, 3, 4, 5, 8, 15, 16, 250, 254, 255}
	// one packet never needs more than length field + maxPacket + MAC/tag (+ slack)
	limit := maxPacket + 4 + 64 + 16 + 80
	big := maxPacket + 4096 // capacity of a buffer that never has to grow for a legal packet

	initCap := c26initCaps(c, "ssh")

	readers := []c26reader{
		{name: "(*streamPacketCipher).readCipherPacket", macs: []int64{0, 16, 20, 32, 64}, etm: true},
		{name: "(*gcmCipher).readCipherPacket", aead: true},
		{name: "(*cbcCipher).readCipherPacket", macs: []int64{0, 20, 32}, bss: []int64{8, 16}},
		{name: "(*chacha20Poly1305Cipher).readCipherPacket", aead: true, decryptAfterVerify: true},
	}
	for _, rd := range readers {
		f := c.fn("ssh", rd.name)
		if f == nil {
			continue
		}
		if len(f.Params) != 3 || f.Signature.Results().Len() != 2 {
			c.fail("anchor", "ssh."+rd.name, f, "not a packet reader (receiver, sequence number, io.Reader) ([]byte, error)")
			continue
		}
		acc := &c26acc{}
		macs, bss := rd.macs, rd.bss
		if len(macs) == 0 {
			macs = []int64{0}
		}
		if len(bss) == 0 {
			bss = []int64{0}
		}
		for _, L := range lengths {
			for _, P := range pads {
				for _, M := range macs {
					for _, BS := range bss {
						for etm := int64(0); etm < 2; etm++ {
							if etm == 1 && !(rd.etm && M > 0) {
								continue
							}
							for _, K := range []int64{0, big} {
								for _, authOK := range []bool{true, false} {
									if !authOK && !(rd.aead || M > 0) {
										continue
									}
									cs := c26case{L: L, P: P, M: M, BS: BS, etm: etm, K: K, authOK: authOK, initCap: initCap}
									acc.judge(c26run(f, cs, limit), rd, maxPacket)
								}
							}
						}
					}
				}
			}
		}
		// truncated streams: the i-th read from the connection fails
		for _, L := range []int64{12, 28, 1020} {
			for _, M := range macs {
				for _, BS := range bss {
					for fr := 1; fr <= 4; fr++ {
						cs := c26case{L: L, P: 4, M: M, BS: BS, K: 0, authOK: true, failRead: fr, initCap: initCap}
						acc.judge(c26run(f, cs, limit), rd, maxPacket)
					}
				}
			}
		}
		acc.report(c, rd, f)
	}

	// ---------------- framing level
	if f := c.fn("ssh", "(*connectionState).readPacket"); f != nil {
		// no explicit panic in the read path: readPacket and the private helpers it is made of
		var bad ssa.Instruction
		n := 0
		pieces := map[*ssa.Function]bool{f: true}
		for _, g := range deepFuncs(f) {
			if g != f && !c26privateHelper(c, f, g, pieces) {
				continue
			}
			pieces[g] = true
			n++
			for _, p := range panicsOf(g) {
				if bad == nil {
					bad = p
				}
			}
		}
		if bad != nil {
			c.fail("C26.no-panic", "(*connectionState).readPacket", bad, "explicit panic in the packet read path")
		} else {
			c.ok("C26.no-panic", "(*connectionState).readPacket", f, fmt.Sprintf("no explicit panic (%d function(s) of the read path)", n))
		}
		// empty payload -> error: whatever the cipher returns, (empty payload, nil error) and
		// (empty payload, error) both end in a non-nil error, without indexing the payload
		failMsg, undec := "", ""
		for _, cs := range []c26case{{PL: 0, authOK: true}, {PL: 0, cipherErr: true, authOK: true}} {
			s := c26run(f, cs, limit)
			switch {
			case s.end == "undecided":
				if undec == "" {
					undec = "the read path does not evaluate for an empty payload: " + s.why
				}
			case s.end == "panic" || s.problem != "":
				if failMsg == "" {
					failMsg = "an empty payload is indexed (decode would index packet[0]) or the read path panics"
				}
			case s.end != "return" || !s.errOK:
				if undec == "" {
					undec = "the error returned for an empty payload does not evaluate"
				}
			case s.errNil:
				if failMsg == "" {
					failMsg = "a zero-length payload can be returned without error (decode would index packet[0])"
				}
			}
		}
		switch {
		case failMsg != "":
			c.fail("C26.empty-payload", "(*connectionState).readPacket", f, failMsg)
		case undec != "":
			c.undecided("C26.empty-payload", "(*connectionState).readPacket", f, undec)
		default:
			c.ok("C26.empty-payload", "(*connectionState).readPacket", f, "a zero-length payload is turned into an error (read path interpreted with the cipher returning an empty payload, helpers followed)")
		}
	}
}

type c26reader struct {
	name               string
	macs, bss          []int64
	etm                bool
	aead               bool // authenticated in every configuration
	decryptAfterVerify bool
}

// c26privateHelper: g is a piece of f — an unexported method of f's receiver
// type, or an unexported function whose static callers are all pieces of f.
func c26privateHelper(c *Ctx, f, g *ssa.Function, pieces map[*ssa.Function]bool) bool {
	if g.Object() == nil || g.Object().Exported() {
		return false
	}
	if recvF, recvG := f.Signature.Recv(), g.Signature.Recv(); recvF != nil && recvG != nil && types.Identical(recvF.Type(), recvG.Type()) {
		return true
	}
	cs := c.callersOf(g)
	for _, ci := range cs {
		if !pieces[ci.Parent()] {
			return false
		}
	}
	return len(cs) > 0
}

// c26acc collects, per rule, the first grid point at which it fails.
type c26acc struct {
	runs, accepted, checked, skipped, rejectedBig, authRuns int
	auth, authArgs, bounds, maxpkt, payload, order          string
	authAt, argsAt, boundsAt, maxAt, payAt, orderAt         ssa.Instruction
	undecided                                               string
}

// c26checked: an authenticity primitive was evaluated on this path.
func c26checked(evs []c26ev) bool {
	for _, e := range evs {
		switch e.kind {
		case "compare", "open", "verify":
			return true
		}
	}
	return false
}

func c26first(msg *string, at *ssa.Instruction, where ssa.Instruction, format string, a ...any) {
	if *msg == "" {
		*msg = fmt.Sprintf(format, a...)
		*at = where
	}
}

func (a *c26acc) judge(s *c26sim, rd c26reader, maxPacket int64) {
	cs := s.cs
	a.runs++
	a.checked += s.checked
	a.skipped += s.skipped
	authenticated := rd.aead || cs.M > 0
	if s.end == "undecided" || s.end == "stop" || s.end == "cutoff" {
		if a.undecided == "" {
			a.undecided = fmt.Sprintf("%v: the reader does not evaluate: %s", cs, s.why)
		}
		return
	}
	if s.problem != "" {
		c26first(&a.bounds, &a.boundsAt, s.problemAt, "%v: %s", cs, s.problem)
	}
	if s.end == "panic" {
		c26first(&a.bounds, &a.boundsAt, s.root.Blocks[0].Instrs[0], "%v: an explicit panic is reached", cs)
		return
	}
	if s.end != "return" || s.lastRet == nil || len(s.lastRet.Results) != 2 {
		return
	}
	if !s.errOK {
		if a.undecided == "" {
			a.undecided = fmt.Sprintf("%v: the returned error does not evaluate", cs)
		}
		return
	}
	accepted := !s.payNil
	var at ssa.Instruction = s.lastRet
	if s.errNil {
		switch {
		case authenticated && !cs.authOK && len(s.events) > 0 && c26checked(s.events):
			c26first(&a.auth, &a.authAt, at, "%v: no error is returned although the authenticity check (MAC comparison / AEAD open / Poly1305 verification) fails", cs)
		case s.readFailed:
			c26first(&a.auth, &a.authAt, at, "%v: no error is returned although a read from the connection failed (truncated stream)", cs)
		case cs.L > maxPacket:
			c26first(&a.maxpkt, &a.maxAt, at, "%v: no error is returned for a declared length above maxPacket", cs)
		}
	}
	if !accepted {
		if cs.L > maxPacket {
			a.rejectedBig++
		}
		return
	}
	a.accepted++
	if cs.L > maxPacket {
		c26first(&a.maxpkt, &a.maxAt, at, "%v: a packet with a declared length above maxPacket is accepted", cs)
	}
	if s.readFailed {
		c26first(&a.auth, &a.authAt, at, "%v: a payload is returned although a read from the connection failed (truncated stream)", cs)
	}
	// authenticity
	var good, anyCheck, passed bool
	firstPass := -1
	for i, e := range s.events {
		switch e.kind {
		case "compare":
			anyCheck = true
			x, y := e.a, e.b
			if s.sums[y.r.obj] {
				x, y = y, x
			}
			if e.pass && s.sums[x.r.obj] && y.hasIP && y.ip == 4+cs.L && y.n == x.n && x.n > 0 && (cs.M == 0 || x.n == cs.M) {
				// a one-shot tag must have been computed over length and ciphertext
				if m, oneShot := s.sumMsg[x.r.obj]; !oneShot || (m.ok && m.hasIP && m.ip == 0 && m.n == 4+cs.L) {
					good = true
				}
			}
		case "open":
			anyCheck = true
			if e.pass && e.a.hasIP && e.a.ip == 4 && e.a.n == cs.L+c26tagSize && e.b.hasIP && e.b.ip == 0 && e.b.n == 4 {
				good = true
			}
		case "verify":
			anyCheck = true
			if e.pass && e.a.hasIP && e.a.ip == 4+cs.L && e.b.hasIP && e.b.ip == 0 && e.b.n == 4+cs.L {
				good = true
			}
		default:
			continue
		}
		if e.pass {
			passed = true
			if firstPass < 0 {
				firstPass = i
			}
		}
	}
	if authenticated {
		a.authRuns++
		switch {
		case !cs.authOK:
			c26first(&a.auth, &a.authAt, at, "%v: a payload is returned although the authenticity check (MAC comparison / AEAD open / Poly1305 verification) fails", cs)
		case !anyCheck || !passed:
			c26first(&a.auth, &a.authAt, at, "%v: a payload is returned without passing an authenticity check (subtle.ConstantTimeCompare == 1, aead.Open without error, poly1305.Verify)", cs)
		case !good:
			c26first(&a.authArgs, &a.argsAt, at, "%v: the authenticity check that guards the payload does not compare the computed MAC with the MAC bytes received after the packet / open the whole received buffer with the length prefix as additional data / verify the received tag over length and ciphertext", cs)
		}
	}
	// the payload is the one written at that position
	if cs.authOK && !s.readFailed {
		if !s.pay.ok || !s.pay.hasIP {
			if a.undecided == "" {
				a.undecided = fmt.Sprintf("%v: the returned payload is not a known part of the received packet", cs)
			}
		} else if s.pay.ip != 5 || s.pay.n != cs.L-cs.P-1 {
			c26first(&a.payload, &a.payAt, at, "%v: bytes [%d:%d) of the packet are returned, the payload is [5:%d)", cs, s.pay.ip, s.pay.ip+s.pay.n, 4+cs.L-cs.P)
		}
	}
	// decryption only after verification (chacha20-poly1305)
	if rd.decryptAfterVerify && s.pay.ok && s.pay.hasIP {
		covered := s.pay.ip
		for i, e := range s.events {
			if e.kind != "xor" || !e.a.hasIP || e.a.ip+e.a.n <= 4 {
				continue
			}
			if i < firstPass || firstPass < 0 {
				c26first(&a.order, &a.orderAt, e.at, "%v: packet content is decrypted before its tag is verified", cs)
			}
			if e.a.ip <= covered && e.a.ip+e.a.n > covered {
				covered = e.a.ip + e.a.n
			}
		}
		if covered < s.pay.ip+s.pay.n {
			c26first(&a.order, &a.orderAt, at, "%v: the returned payload is not decrypted after the tag verification (no XORKeyStream over it behind poly1305.Verify == true)", cs)
		}
	}
}

func (a *c26acc) report(c *Ctx, rd c26reader, f *ssa.Function) {
	emit := func(rule, msg string, at ssa.Instruction, okDetail string) {
		switch {
		case msg != "":
			if at == nil {
				c.fail(rule, rd.name, f, msg)
			} else {
				c.fail(rule, rd.name, at, msg)
			}
		case a.undecided != "":
			c.undecided(rule, rd.name, f, a.undecided)
		case a.accepted == 0:
			c.fail(rule, rd.name, f, fmt.Sprintf("no packet of the %d evaluated grid points is accepted: the rule lost its anchors", a.runs))
		default:
			c.ok(rule, rd.name, f, okDetail)
		}
	}
	what := "the authenticity check — subtle.ConstantTimeCompare(computed MAC, received MAC) == 1, aead.Open's nil error or poly1305.Verify == true"
	emit("C26.auth", a.auth, a.authAt, fmt.Sprintf("no payload is returned when %s fails or a read fails; every accepted packet passed it (%d evaluations, %d accepted)", what, a.runs, a.accepted))
	emit("C26.auth-args", a.authArgs, a.argsAt, "the check that guards the payload is on the computed MAC and the MAC bytes received behind the packet (AEAD: the whole received buffer with the length prefix as additional data; Poly1305: the received tag over length and ciphertext)")
	emit("C26.maxpacket", a.maxpkt, a.maxAt, fmt.Sprintf("every declared length above maxPacket is rejected (%d evaluations)", a.rejectedBig))
	if a.bounds == "" && a.undecided == "" && a.checked < a.runs/4 {
		a.bounds = fmt.Sprintf("only %d slice/crypto-call obligations could be evaluated over %d grid points (%d not evaluable): the rule lost its anchors", a.checked, a.runs, a.skipped)
	}
	emit("C26.bounds", a.bounds, a.boundsAt, fmt.Sprintf("%d slice / make / read-size / XORKeyStream / CryptBlocks obligations in range over %d grid points (%d expressions not evaluable and skipped)", a.checked, a.runs, a.skipped))
	emit("C26.payload", a.payload, a.payAt, "an accepted packet returns bytes [5 : 4+length-padding) of what was received")
	if rd.decryptAfterVerify {
		emit("C26.verify-then-decrypt", a.order, a.orderAt, "packet content is decrypted only behind poly1305.Verify == true, and the returned payload is")
	}
}
