package main

import (
	"fmt"
	"strings"

	"golang.org/x/tools/go/ssa"
)

func init() {
	register(&propDef{
		id: "C26", run: runC26, minOblig: 15,
		explanation: "Decides, for the four SSH packet readers (stream+MAC, AES-GCM, CBC, chacha20-poly1305): (authenticity) every return of a non-nil payload lies behind the success edge of the authenticity check — subtle.ConstantTimeCompare(computed MAC, received MAC) == 1 (with the path assumption mac != nil; the unauthenticated 'none' mode is the only path allowed to skip it), aead.Open's nil error, poly1305.Verify == true — and for chacha20-poly1305 the payload decryption call lies behind it too; (no panic on wire values) for a grid of boundary values of the wire length, padding length, MAC size and block size (0, 1, 4, 5, 255, maxPacket±1, 2^31, 2^32-1 …) the reader's guard conditions are partially evaluated with Go's fixed-width arithmetic and, at every slice expression over the packet buffer that remains reachable, low <= high <= buffer length must evaluate true (the buffer length being the size last stored into the buffer field on that path); every reachable make() size must be <= maxPacket + 4 + 64 + 16; (framing) connectionState.readPacket contains no explicit panic and turns an empty payload into an error. NOT decided: cryptographic unforgeability; arithmetic outside the evaluated grid (the grid contains every constant appearing in the guards ±1).",
		assumptions: []string{"cipher.AEAD.Open returns len(ciphertext)-tagSize bytes", "hash.Hash.Size() in {16,20,32,64} for the configured MACs", "int is 64-bit"},
	})
	tech("C26", "must-cross CFG rules on the authenticity checks + finite-domain evaluation of guards and slice-bound obligations (fixed-width arithmetic) over a boundary-value grid")
}

func runC26(c *Ctx) {
	maxPacket, ok := pkgConstInt(c, "ssh", "maxPacket")
	if !ok {
		c.fail("anchor", "ssh.maxPacket", nil, "constant not found")
		return
	}
	lengths := []int64{0, 1, 2, 3, 4, 5, 6, 7, 8, 11, 12, 15, 16, 17, 20, 28, 32, 255, 256, 257, 260, 1024, maxPacket - 4, maxPacket - 1, maxPacket, maxPacket + 1, maxPacket + 12, 1<<20 - 4, 1<<31 - 4, 1 << 31, 1<<32 - 20, 1<<32 - 5, 1<<32 - 4, 1<<32 - 1}
	pads := []int64{0, 1, 3, 4, 5, 8, 15, 16, 250, 254, 255}

	// ---------------- stream cipher
	if f := c.fn("ssh", "(*streamPacketCipher).readCipherPacket"); f != nil {
		// authenticity (assume mac != nil)
		e := newEnv()
		e.bindNilTests(f, func(v ssa.Value) bool { return isField(v, "streamPacketCipher", "mac") }, false)
		ctc := callsNamed(f, "crypto/subtle.ConstantTimeCompare")
		c26Auth(c, f, "(*streamPacketCipher).readCipherPacket", e, callSuccess(ctc, 0, isOne), "ConstantTimeCompare(macResult, received MAC) == 1")
		c26MacArgs(c, f, "(*streamPacketCipher).readCipherPacket", ctc)
		// bounds grid
		var lengthV ssa.Value
		for _, ci := range calls(f, func(n string) bool { return strings.HasSuffix(n, ").Uint32") }) {
			lengthV = callValue(ci)
		}
		var sizeCall ssa.Value
		for _, ci := range calls(f, nameIs("invoke:(hash.Hash).Size")) {
			sizeCall = callValue(ci)
		}
		if lengthV == nil || sizeCall == nil {
			c.fail("C26.bounds", "(*streamPacketCipher).readCipherPacket", f, "anchors not found: wire length / mac size")
		} else {
			b := &boundsCtx{fn: f, tracked: func(p string) bool { return p == "s.packetData" }}
			n := 0
			for _, L := range lengths {
				for _, P := range pads {
					for _, M := range []int64{0, 16, 20, 32, 64} {
						e := newEnv()
						e.bind(lengthV, L)
						e.bindIndexLoads(f, func(base ssa.Value) bool { return accessPath(base) == "s.prefix" }, 4, P)
						e.bind(sizeCall, M)
						e.bindNilTests(f, func(v ssa.Value) bool { return isField(v, "streamPacketCipher", "mac") }, M == 0)
						allInstrs(f, func(in ssa.Instruction) {
							if cc, ok := in.(*ssa.Call); ok && calleeName(&cc.Call) == "builtin:cap" {
								e.bind(cc, 0) // force the allocation path: sizes flow through make
							}
						})
						e.solve(f)
						b.e = e
						b.check(fmt.Sprintf("length=%d padding=%d macSize=%d", L, P, M))
						c26Make(c, f, e, maxPacket, b, fmt.Sprintf("length=%d padding=%d macSize=%d", L, P, M))
						n++
					}
				}
			}
			c26Report(c, "(*streamPacketCipher).readCipherPacket", f, b, n)
		}
	}
	// ---------------- GCM
	if f := c.fn("ssh", "(*gcmCipher).readCipherPacket"); f != nil {
		open := calls(f, nameIs("invoke:(crypto/cipher.AEAD).Open"))
		c26Auth(c, f, "(*gcmCipher).readCipherPacket", newEnv(), callSuccess(open, -1, isNil), "aead.Open(...) error == nil")
		// AAD is the 4-byte prefix, ciphertext is the buffer
		if len(open) == 1 {
			a := open[0].Common().Args
			c.check(accessPath(sliceBase(a[3])) == "c.prefix" && accessPath(sliceBase(a[2])) == "c.buf", "C26.auth-args", "(*gcmCipher).readCipherPacket Open(buf, aad=prefix)", open[0],
				"the length prefix is authenticated as additional data and the whole received buffer is opened", "aead.Open is not given the received buffer with the length prefix as additional data")
		}
		var lengthV, plain ssa.Value
		for _, ci := range calls(f, func(n string) bool { return strings.HasSuffix(n, ").Uint32") }) {
			lengthV = callValue(ci)
		}
		if len(open) == 1 {
			for _, v := range resultN(open[0].(*ssa.Call), 0) {
				plain = v
			}
		}
		tag, _ := pkgConstInt(c, "ssh", "gcmTagSize")
		if lengthV == nil || plain == nil {
			c.fail("C26.bounds", "(*gcmCipher).readCipherPacket", f, "anchors not found")
		} else {
			b := &boundsCtx{fn: f, tracked: func(p string) bool { return p == "c.buf" }}
			n := 0
			for _, L := range lengths {
				for _, P := range pads {
					e := newEnv()
					e.bind(lengthV, L)
					e.bindLen(f, plain, L)
					e.bindIndexLoads(f, func(base ssa.Value) bool { return base == plain }, 0, P)
					for _, ev := range errResult(open[0].(*ssa.Call)) {
						e.bindNilTests(f, func(v ssa.Value) bool { return v == ev }, true)
					}
					allInstrs(f, func(in ssa.Instruction) {
						if cc, ok := in.(*ssa.Call); ok && calleeName(&cc.Call) == "builtin:cap" {
							e.bind(cc, 0)
						}
					})
					e.solve(f)
					b.e = e
					b.lenOver = map[ssa.Value]int64{plain: L}
					b.check(fmt.Sprintf("length=%d padding=%d", L, P))
					c26Make(c, f, e, maxPacket+tag, b, fmt.Sprintf("length=%d", L))
					n++
				}
			}
			c26Report(c, "(*gcmCipher).readCipherPacket", f, b, n)
		}
	}
	// ---------------- CBC
	if f := c.fn("ssh", "(*cbcCipher).readCipherPacketLeaky"); f != nil {
		e := newEnv()
		e.bindNilTests(f, func(v ssa.Value) bool { return isField(v, "cbcCipher", "mac") }, false)
		ctc := callsNamed(f, "crypto/subtle.ConstantTimeCompare")
		c26Auth(c, f, "(*cbcCipher).readCipherPacketLeaky", e, callSuccess(ctc, 0, isOne), "ConstantTimeCompare(macResult, received MAC) == 1")
		c26MacArgs(c, f, "(*cbcCipher).readCipherPacketLeaky", ctc)
		var lengthV, bsCall ssa.Value
		for _, ci := range calls(f, func(n string) bool { return strings.HasSuffix(n, ").Uint32") }) {
			lengthV = callValue(ci)
		}
		for _, ci := range calls(f, nameIs("invoke:(crypto/cipher.BlockMode).BlockSize")) {
			bsCall = callValue(ci)
		}
		var maxU *ssa.Function = c.fnOpt("ssh", "maxUInt32")
		if lengthV == nil || bsCall == nil || maxU == nil {
			c.fail("C26.bounds", "(*cbcCipher).readCipherPacketLeaky", f, "anchors not found")
		} else {
			b := &boundsCtx{fn: f, tracked: func(p string) bool { return p == "c.packetData" }}
			n := 0
			for _, L := range lengths {
				for _, P := range pads {
					for _, BS := range []int64{8, 16} {
						for _, M := range []int64{0, 20, 32} {
							e := newEnv()
							e.bind(lengthV, L)
							e.bind(bsCall, BS)
							e.bindField(f, "cbcCipher", "macSize", M)
							e.bindNilTests(f, func(v ssa.Value) bool { return isField(v, "cbcCipher", "mac") }, M == 0)
							// firstBlock[4] : index 4 of a slice of packetData
							e.bindIndexLoads(f, func(base ssa.Value) bool { return accessPath(sliceBase(base)) == "c.packetData" }, 4, P)
							// maxUInt32(a, b) summary: max of its evaluated arguments
							for _, ci := range callsNamed(f, "ssh.maxUInt32") {
								a0, ok0 := e.eval(ci.Common().Args[0])
								a1, ok1 := e.eval(ci.Common().Args[1])
								if ok0 && ok1 {
									m := a0
									if a1 > m {
										m = a1
									}
									e.bind(callValue(ci), m)
								}
							}
							allInstrs(f, func(in ssa.Instruction) {
								if cc, ok := in.(*ssa.Call); ok && calleeName(&cc.Call) == "builtin:cap" {
									e.bind(cc, 0)
								}
							})
							e.solve(f)
							b.e = e
							b.check(fmt.Sprintf("length=%d padding=%d blockSize=%d macSize=%d", L, P, BS, M))
							c26Make(c, f, e, maxPacket+4+64, b, fmt.Sprintf("length=%d", L))
							n++
						}
					}
				}
			}
			c26Report(c, "(*cbcCipher).readCipherPacketLeaky", f, b, n)
			// maxUInt32 really is max
			okMax := true
			for _, tc := range [][2]int64{{8, 16}, {16, 8}, {16, 16}} {
				e := newEnv()
				e.bind(maxU.Params[0], tc[0])
				e.bind(maxU.Params[1], tc[1])
				e.solve(maxU)
				want := tc[0]
				if tc[1] > want {
					want = tc[1]
				}
				for _, r := range returnsOf(maxU) {
					if e.reach[r.Block()] {
						if v, ok := e.eval(r.Results[0]); !ok || v != want {
							okMax = false
						}
					}
				}
			}
			c.check(okMax, "C26.bounds", "maxUInt32 summary", maxU, "maxUInt32 returns the larger argument (summary used by the CBC evaluation)", "maxUInt32 no longer returns the larger argument")
		}
	}
	// ---------------- chacha20-poly1305
	if f := c.fn("ssh", "(*chacha20Poly1305Cipher).readCipherPacket"); f != nil {
		ver := callsNamed(f, "internal/poly1305.Verify")
		pass := callSuccess(ver, 0, isTrue)
		c26Auth(c, f, "(*chacha20Poly1305Cipher).readCipherPacket", newEnv(), pass, "poly1305.Verify(...) == true")
		// decryption of the payload only after verification: XORKeyStream whose destination is a slice of c.buf
		var dec []ssa.Instruction
		for _, ci := range calls(f, func(n string) bool { return strings.HasSuffix(n, ").XORKeyStream") }) {
			if accessPath(sliceBase(ci.Common().Args[1])) == "c.buf" {
				dec = append(dec, ci)
			}
		}
		c.mustCross("C26.verify-then-decrypt", "(*chacha20Poly1305Cipher).readCipherPacket", f, dec, pass, "poly1305.Verify == true")
		var lengthV ssa.Value
		for _, ci := range calls(f, func(n string) bool { return strings.HasSuffix(n, ").Uint32") }) {
			lengthV = callValue(ci)
		}
		if lengthV == nil || len(ver) != 1 {
			c.fail("C26.bounds", "(*chacha20Poly1305Cipher).readCipherPacket", f, "anchors not found")
		} else {
			b := &boundsCtx{fn: f, tracked: func(p string) bool { return p == "c.buf" }}
			n := 0
			for _, L := range lengths {
				for _, P := range pads {
					e := newEnv()
					e.bind(lengthV, L)
					e.bind(callValue(ver[0]), 1)
					// plain := c.buf[4:contentEnd]; padding := plain[0]
					e.bindIndexLoads(f, func(base ssa.Value) bool {
						sl, ok := base.(*ssa.Slice)
						return ok && accessPath(sliceBase(sl)) == "c.buf"
					}, 0, P)
					allInstrs(f, func(in ssa.Instruction) {
						if cc, ok := in.(*ssa.Call); ok && calleeName(&cc.Call) == "builtin:cap" {
							e.bind(cc, 0)
						}
						// len(plain) where plain is a slice of c.buf: computed below through lenOf
					})
					e.solve(f)
					b.e = e
					// bind len(x) calls on slices of the buffer using lenOf, then re-solve
					changed := false
					allInstrs(f, func(in ssa.Instruction) {
						if cc, ok := in.(*ssa.Call); ok && calleeName(&cc.Call) == "builtin:len" {
							if sl, ok := cc.Call.Args[0].(*ssa.Slice); ok && accessPath(sliceBase(sl)) == "c.buf" {
								if v, ok := b.lenOf(sl, cc, 0); ok {
									e.bind(cc, v)
									changed = true
								}
							}
						}
					})
					if changed {
						e.solve(f)
					}
					b.check(fmt.Sprintf("length=%d padding=%d", L, P))
					c26Make(c, f, e, maxPacket+4+16, b, fmt.Sprintf("length=%d", L))
					n++
				}
			}
			c26Report(c, "(*chacha20Poly1305Cipher).readCipherPacket", f, b, n)
		}
	}
	// ---------------- framing level
	if f := c.fn("ssh", "(*connectionState).readPacket"); f != nil {
		c.check(len(panicsOf(f)) == 0, "C26.no-panic", "(*connectionState).readPacket", f, "no explicit panic", "explicit panic in the packet read path")
		// empty payload -> error: with len(packet)==0 and err==nil the returned error is non-nil
		var call *ssa.Call
		for _, ci := range calls(f, func(n string) bool { return strings.HasSuffix(n, ".readCipherPacket") }) {
			call, _ = ci.(*ssa.Call)
		}
		okEmpty := false
		if call != nil {
			var pv ssa.Value
			for _, v := range resultN(call, 0) {
				pv = v
			}
			e := newEnv()
			e.bindLen(f, pv, 0)
			for _, ev := range errResult(call) {
				e.bindNilTests(f, func(v ssa.Value) bool { return v == ev }, true)
			}
			e.solve(f)
			okEmpty = true
			for _, r := range returnsOf(f) {
				if !e.reach[r.Block()] {
					continue
				}
				// the returned error must not be the (nil) cipher error itself
				for _, l := range phiLeaves(r.Results[1]) {
					if l.pred != nil && !e.reach[l.pred] {
						continue
					}
					for _, ev := range errResult(call) {
						if l.val == ev && (l.pred == nil || e.edgeFeasible(l.pred, l.phi.Block())) {
							okEmpty = false
						}
					}
					if isNilConst(l.val) {
						okEmpty = false
					}
				}
			}
		}
		c.check(okEmpty, "C26.empty-payload", "(*connectionState).readPacket", f, "a zero-length payload is turned into an error", "a zero-length payload can be returned without error (decode would index packet[0])")
	}
}

// c26Auth: every non-nil payload return crosses the authenticity check.
func c26Auth(c *Ctx, f *ssa.Function, name string, e *penv, pass []edge, what string) {
	targets := valueReturns(f, 0)
	if len(pass) == 0 {
		c.fail("C26.auth", name, f, "authenticity check not found: "+what)
		return
	}
	cut := e.cuts(f)
	cut.addAll(pass)
	r := reach([]*ssa.BasicBlock{f.Blocks[0]}, cut)
	for _, t := range targets {
		if r[t.Block()] {
			c.fail("C26.auth", name, t, "a payload can be returned without passing "+what)
			return
		}
	}
	c.ok("C26.auth", name, f, fmt.Sprintf("all %d payload returns lie behind %s", len(targets), what))
}

func c26MacArgs(c *Ctx, f *ssa.Function, name string, ctc []ssa.CallInstruction) {
	if len(ctc) != 1 {
		c.fail("C26.auth-args", name, f, fmt.Sprintf("expected one ConstantTimeCompare, found %d", len(ctc)))
		return
	}
	a := ctc[0].Common().Args
	p0, p1 := accessPath(sliceBase(a[0])), accessPath(sliceBase(a[1]))
	okArgs := (strings.HasSuffix(p0, ".macResult") && strings.HasSuffix(p1, ".packetData")) || (strings.HasSuffix(p1, ".macResult") && strings.HasSuffix(p0, ".packetData"))
	// macResult must be the Sum of the running MAC
	sumOK := false
	for _, st := range storesToPathSuffix(f, ".macResult") {
		if call, ok := st.Val.(*ssa.Call); ok && calleeName(&call.Call) == "invoke:(hash.Hash).Sum" && precedes(st, ctc[0]) {
			sumOK = true
		}
	}
	c.check(okArgs && sumOK, "C26.auth-args", name, ctc[0], "compares mac.Sum(...) with the MAC bytes received in the packet buffer", "ConstantTimeCompare does not compare the computed MAC (mac.Sum) with the received MAC bytes")
}

func storesToPathSuffix(f *ssa.Function, suffix string) []*ssa.Store {
	var out []*ssa.Store
	allInstrs(f, func(in ssa.Instruction) {
		if st, ok := in.(*ssa.Store); ok && strings.HasSuffix(accessPath(st.Addr), suffix) {
			out = append(out, st)
		}
	})
	return out
}

// c26Make: every reachable make([]byte, n) has an evaluable n <= limit.
func c26Make(c *Ctx, f *ssa.Function, e *penv, limit int64, b *boundsCtx, desc string) {
	allInstrs(f, func(in ssa.Instruction) {
		mk, ok := in.(*ssa.MakeSlice)
		if !ok || !e.reach[mk.Block()] {
			return
		}
		n, ok := e.eval(mk.Len)
		if !ok {
			return
		}
		if _, isConst := mk.Len.(*ssa.Const); isConst {
			return
		}
		b.checked++
		if n < 0 || n > limit+80 {
			if b.firstBad == "" {
				b.firstBad = fmt.Sprintf("%s: make([]byte, %d) exceeds the packet size limit", desc, n)
				b.badAt = mk
			}
		}
	})
}

func c26Report(c *Ctx, name string, f *ssa.Function, b *boundsCtx, n int) {
	if b.firstBad != "" {
		c.fail("C26.bounds", name, b.badAt, b.firstBad)
		return
	}
	if b.checked < n/4 {
		c.fail("C26.bounds", name, f, fmt.Sprintf("only %d slice/make obligations could be evaluated over %d grid points (%d not evaluable): the rule lost its anchors", b.checked, n, b.skipped))
		return
	}
	c.ok("C26.bounds", name, f, fmt.Sprintf("%d slice/make obligations evaluated in range over %d grid points (%d expressions not evaluable and skipped)", b.checked, n, b.skipped))
}
