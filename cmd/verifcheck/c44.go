package main

import (
	"fmt"
	"go/types"
	"sort"
	"strings"

	"golang.org/x/tools/go/ssa"
)

func init() {
	register(&propDef{
		id: "C44", run: runC44, minOblig: 16,
		explanation: "Decides the integrity gates of OpenPGP message reading and the text-canonicalisation state machine by symbolic interpretation (every path of the function, with the helpers of its package expanded in place, branch assumptions recorded as facts, values identified by provenance — parameter index, receiver memory, the call that produced them — never by the names of locals): (MDC) seMDCReader.Close returns a possibly-nil error only on paths where a byte-string comparison (subtle.ConstantTimeCompare == 1, or an equivalent library comparison) of the Sum of the reader's running hash with 20 retained octets of the reader came out equal and the two octets before them were found to be 0xd3, 0x14; (signature result) signatureCheckReader.Read, on every path on which the body reader reported io.EOF, stores MessageDetails.SignatureError, and the stored value can be nil only if it is the result of PublicKey.VerifySignature / VerifySignatureV3 over a hash held by the reader other than the one the body data is written to; both verification forms occur; on those paths the message's ReadCloser held by MessageDetails is closed unless found nil, and its non-nil error is what Read returns; (detached) CheckDetachedSignature returns an entity only on paths where VerifySignature / VerifySignatureV3 of the key of that very entity returned nil, the key coming from KeysByIdUsage called with the signature's IssuerKeyId and KeyFlagSign; (primitive) PublicKey.VerifySignature and VerifySignatureV3 return nil only on paths where the key algorithm is one for which CanSign holds (CanSign itself is evaluated for every algorithm constant), both octets of the Sum of the hash parameter equal the signature's HashTag, key and signature algorithm are equal, rsa.VerifyPKCS1v15 returned nil or dsa.Verify / ecdsa.Verify returned true for the receiver's key over that Sum, and the hash was written (V4: the signature's HashSuffix) before summing; (usage flags) KeysByIdUsage, interpreted on one candidate key for all combinations of revocations, revocation reason, FlagsValid, FlagSign and the other usage flags with requiredUsage = KeyFlagSign and 0, offers the key exactly when it is not revoked and, when flags are valid and a usage is required, carries the sign flag; (text signatures) NewCanonicalTextHash followed by Write calls is interpreted on every text over {CR, LF, other} up to 3 octets, whole and split in two chunks at every position: the octets handed to the underlying hash equal the canonical form (a bare LF becomes CRLF, an LF after CR does not; state machine of 6 transitions), Write returns (len, nil), and the output does not depend on the chunking — i.e. the carriage-return state survives between Write calls. Bounds: a branch undecided more than twice on one path ends that path; calls outside the package are events with fresh results and are assumed not to write the tracked memory. NOT decided: round-trip equality, that every mutation is detected, GnuPG interoperability.",
		assumptions: []string{"crypto/rsa, crypto/dsa, crypto/ecdsa verification contracts", "callees outside the interpreted package do not modify the memory the rules track (receiver fields, caller buffers)"},
	})
	tech("C44", "symbolic path interpretation with helper expansion and per-path facts (must-hold-on-accepting-paths rules), concrete interpretation of the usage-flag filter and of the text canonicaliser over all short inputs and chunkings")
}

func runC44(c *Ctx) {
	c44MDC(c)
	c44SigReader(c)
	c44Detached(c)
	c44Primitives(c)
	c44Usage(c)
	c44Text(c)
}

// ---------------------------------------------------------------------------
// shared finders (by role)

func c44IsInvoke(ev *c44Ev, method string) bool {
	return strings.HasPrefix(ev.name, "invoke:") && strings.HasSuffix(ev.name, ")."+method)
}

func c44IsMethod(ev *c44Ev, suffix string) bool {
	return !strings.HasPrefix(ev.name, "invoke:") && strings.HasSuffix(ev.name, suffix)
}

// accepting paths: returned with result idx not provably non-nil
func c44Accepting(outs []*c44Path, idx int) []*c44Path {
	var acc []*c44Path
	for _, p := range outs {
		if p.end == "return" && idx < len(p.results) && p.nilness(p.results[idx]) != 2 {
			acc = append(acc, p)
		}
	}
	return acc
}

func c44At(p *c44Path, f *ssa.Function) poser {
	if p != nil && p.last != nil && p.last.Pos().IsValid() {
		return p.last
	}
	return f
}

// explored reports an exploration that cannot support a verdict.
func c44Explored(c *Ctx, x *c44X, outs []*c44Path, rule, construct string, f *ssa.Function) bool {
	if x.why != "" {
		c.undecided(rule, construct, f, "symbolic interpretation of "+fnName(f)+" gave up: "+x.why)
		return false
	}
	n := 0
	for _, p := range outs {
		if p.end == "return" {
			n++
		}
	}
	if n == 0 {
		c.undecided(rule, construct, f, "symbolic interpretation of "+fnName(f)+" found no returning path")
		return false
	}
	return true
}

// compareHolds: the byte-string comparison event came out "equal" on the path.
func c44CompareHolds(p *c44Path, ev *c44Ev) bool {
	intRes, ok := c44IsCompare(ev.name)
	if !ok || ev.res == nil {
		return false
	}
	if intRes {
		return p.holds(c44Eq(ev.res, c44Const(1, nil)))
	}
	return p.holds(ev.res)
}

// sumOf: the term is (a reslicing of) the result of Sum invoked on a hash
// satisfying isHash.
func c44SumOf(t *c44T, isHash func(recv *c44T) bool) *c44T {
	base, _, _ := c44AsSlice(t)
	if base.op == "call" && base.ev != nil && c44IsInvoke(base.ev, "Sum") && base.ev.recv != nil && isHash(base.ev.recv) {
		return base
	}
	return nil
}

// ---------------------------------------------------------------------------
// MDC

func c44MDC(c *Ctx) {
	f := c.fn("openpgp/packet", "(*seMDCReader).Close")
	if f == nil {
		return
	}
	const dig, hdr = "(*seMDCReader).Close digest", "(*seMDCReader).Close trailer"
	x := c.c44Explorer(f)
	outs := x.run(nil, nil)
	if !c44Explored(c, x, outs, "C44.mdc", dig, f) {
		return
	}
	recv := c44Param(0)
	acc := c44Accepting(outs, 0)
	if len(acc) == 0 {
		c.undecided("C44.mdc", dig, f, "no path returning nil found (rule anchor lost)")
		return
	}
	digBad, hdrBad := "", ""
	var digAt, hdrAt *c44Path
	for _, p := range acc {
		// the comparison of the running hash with retained octets of the reader
		var cmp *c44Ev
		var retained *c44T
		held := false
		for _, ev := range p.calls(func(ev *c44Ev) bool { _, ok := c44IsCompare(ev.name); return ok && len(ev.args) == 2 }) {
			for i := 0; i < 2; i++ {
				sum := c44SumOf(ev.args[i], func(r *c44T) bool { return c44Under(r, recv) })
				base, off, _ := c44AsSlice(ev.args[1-i])
				base = p.source(base)
				if sum == nil || !c44Under(base, recv) || off < 2 {
					continue
				}
				if cmp == nil || (!held && c44CompareHolds(p, ev)) {
					cmp, retained = ev, ev.args[1-i]
					held = c44CompareHolds(p, ev)
				}
			}
		}
		if !held && digBad == "" {
			digBad = "nil is returned without ConstantTimeCompare(Sum of the running hash, retained trailer digest) == 1: " + p.describe(c)
			digAt = p
		}
		if cmp == nil {
			if hdrBad == "" {
				hdrBad = "nil is returned on a path with no comparison of the running hash against the retained trailer, so no MDC packet header is established: " + p.describe(c)
				hdrAt = p
			}
			continue
		}
		base, off, _ := c44AsSlice(retained)
		base = p.source(base)
		for k, want := range []int64{0xd3, 0x14} {
			b := p.load(c44Idx(base, off-2+int64(k)), types.Typ[types.Uint8])
			if !p.holds(c44Eq(b, c44Const(want, nil))) && hdrBad == "" {
				hdrBad = fmt.Sprintf("nil is returned although octet %d before the compared digest (%s) was not found equal to %#02x (MDC packet header 0xd3 0x14): %s", 2-k, b.key, want, p.describe(c))
				hdrAt = p
			}
		}
	}
	c.check(digBad == "", "C44.mdc", dig, c44At(digAt, f), fmt.Sprintf("every path returning nil (%d of %d paths) has compared the running hash with the retained digest octets and found them equal", len(acc), len(outs)), digBad)
	c.check(hdrBad == "", "C44.mdc", hdr, c44At(hdrAt, f), "the MDC packet header (0xd3, 0x14) is required on every path returning nil", hdrBad)
}

// ---------------------------------------------------------------------------
// signatureCheckReader.Read

func c44HasMethod(t types.Type, name string) bool {
	if t == nil {
		return false
	}
	ms := types.NewMethodSet(t)
	for i := 0; i < ms.Len(); i++ {
		if ms.At(i).Obj().Name() == name {
			return true
		}
	}
	return false
}

func c44Global(name string) *c44T { return &c44T{op: "g", s: name, key: "g:" + name} }

func c44SigReader(c *Ctx) {
	f := c.fn("openpgp", "(*signatureCheckReader).Read")
	if f == nil {
		return
	}
	x := c.c44Explorer(f)
	outs := x.run(nil, nil)
	if !c44Explored(c, x, outs, "C44.sig-result", "signatureCheckReader.Read at EOF", f) {
		return
	}
	recv := c44Param(0)
	eof := c44Ld(c44Global("io.EOF"), nil)
	// paths on which the body reader reported the end of the data
	var eofPaths []*c44Path
	for _, p := range outs {
		if p.end != "return" {
			continue
		}
		isEOF := false
		for _, ev := range p.calls(func(ev *c44Ev) bool { return c44IsInvoke(ev, "Read") && ev.res != nil && ev.res.op == "tup" }) {
			e := ev.res.a[len(ev.res.a)-1]
			if p.holds(c44Eq(e, eof)) {
				isEOF = true
			}
			for _, is := range p.calls(func(ev *c44Ev) bool { return ev.name == "errors.Is" && len(ev.args) == 2 }) {
				if is.args[0].key == e.key && is.args[1].key == eof.key && p.holds(is.res) {
					isEOF = true
				}
			}
		}
		if isEOF {
			eofPaths = append(eofPaths, p)
		}
	}
	if len(eofPaths) == 0 {
		c.undecided("C44.sig-result", "signatureCheckReader.Read at EOF", f, "no path on which the body reader returns io.EOF was found (rule anchor lost)")
		return
	}
	type verKind struct {
		seen   bool
		hashOK bool
		at     ssa.Instruction
		bad    string
	}
	kinds := map[string]*verKind{"VerifySignature": {hashOK: true}, "VerifySignatureV3": {hashOK: true}}
	eofBad, mdcBad := "", ""
	var eofAt, mdcAt *c44Path
	nVerdict := 0
	for _, p := range eofPaths {
		// the verdict: last value stored into the SignatureError field reached from the receiver
		var verdict *c44T
		for _, ev := range p.events {
			if ev.store && ev.args[0].op == "fld" && ev.args[0].s == "SignatureError" && c44Under(ev.args[0], recv) {
				verdict = p.load(ev.args[0], nil)
			}
		}
		if verdict == nil {
			if eofBad == "" {
				eofBad = "the end of the data can be reached without recording a signature verdict in MessageDetails.SignatureError: " + p.describe(c)
				eofAt = p
			}
			continue
		}
		nVerdict++
		if p.nilness(verdict) == 2 {
			continue // a parse / structural error: fails closed
		}
		kind := ""
		if verdict.op == "call" && verdict.ev != nil {
			for k := range kinds {
				if c44IsMethod(verdict.ev, "PublicKey)."+k) {
					kind = k
				}
			}
		}
		if kind == "" {
			if eofBad == "" {
				eofBad = "at the end of the data SignatureError receives " + verdict.key + ", which may be nil although it is not the result of VerifySignature / VerifySignatureV3: " + p.describe(c)
				eofAt = p
			}
			continue
		}
		vk := kinds[kind]
		vk.seen = true
		vk.at = verdict.ev.in
		// verified over a hash of the reader that is not the one the data is written to
		var dataSink *c44T
		for _, w := range p.calls(func(ev *c44Ev) bool { return c44IsInvoke(ev, "Write") && len(ev.args) == 1 }) {
			if b, _, _ := c44AsSlice(w.args[0]); b.key == c44Param(1).key {
				dataSink = w.recv
			}
		}
		h := (*c44T)(nil)
		if len(verdict.ev.args) >= 2 {
			h = verdict.ev.args[1]
		}
		if h == nil || h.op != "ld" || !c44Under(h, recv) || (dataSink != nil && h.key == dataSink.key && c44TwoHashes(f)) {
			vk.hashOK = false
			vk.bad = "the signature is not verified over the reader's own hash of the data read (hash argument " + h.String() + ")"
		}
		// the integrity-protected reader is closed and its error surfaces
		closed := false
		needClose := true
		for k, v := range p.facts {
			a := p.atoms[k]
			if a == nil || a.op != "eq" || a.a[1].op != "nil" {
				continue
			}
			if t := a.a[0]; t.op == "ld" && c44Under(t, recv) && c44HasMethod(t.typ, "Close") && v == 1 {
				needClose = false
			}
		}
		for _, cl := range p.calls(func(ev *c44Ev) bool {
			return c44IsInvoke(ev, "Close") && ev.recv != nil && ev.recv.op == "ld" && c44Under(ev.recv, recv)
		}) {
			closed = true
			if cl.res != nil && p.nilness(cl.res) == 2 && (len(p.results) < 2 || p.results[1].key != cl.res.key) && mdcBad == "" {
				mdcBad = "the error of closing the integrity-protected reader is not what Read returns: " + p.describe(c)
				mdcAt = p
			}
		}
		if needClose && !closed && mdcBad == "" {
			mdcBad = "the MDC reader is not closed at the end of a signed message: " + p.describe(c)
			mdcAt = p
		}
	}
	var ks []string
	for k := range kinds {
		ks = append(ks, k)
	}
	sort.Strings(ks)
	nSeen := 0
	for _, k := range ks {
		vk := kinds[k]
		if !vk.seen {
			continue
		}
		nSeen++
		c.check(vk.hashOK, "C44.sig-result", "signatureCheckReader verifies the running hash", vk.at, "the signature is verified over the reader's hash ("+k+")", vk.bad)
	}
	c.check(nSeen == 2, "C44.sig-result", "signatureCheckReader.Read verification result stored", f, "SignatureError receives the V4 or V3 verification result", fmt.Sprintf("%d verification results are stored into SignatureError (want 2: VerifySignature and VerifySignatureV3)", nSeen))
	c.check(eofBad == "", "C44.sig-result", "signatureCheckReader.Read at EOF", c44At(eofAt, f), fmt.Sprintf("every path after the end of the data records a signature verdict that is nil only as a verification result (%d paths)", nVerdict), eofBad)
	c.check(mdcBad == "" && nSeen > 0, "C44.mdc", "signatureCheckReader closes the MDC reader", c44At(mdcAt, f), "the integrity-protected reader is closed and its error surfaces", mdcBad+c44If(nSeen == 0, "no verification path found"))
}

func c44If(b bool, s string) string {
	if b {
		return s
	}
	return ""
}

// c44TwoHashes: the receiver's record holds more than one hash.Hash-typed field
// (so "the hash verified" and "the hash written to" can be told apart).
func c44TwoHashes(f *ssa.Function) bool {
	if len(f.Params) == 0 {
		return false
	}
	st := derefStruct(f.Params[0].Type())
	if st == nil {
		return false
	}
	n := 0
	for i := 0; i < st.NumFields(); i++ {
		if c44HasMethod(st.Field(i).Type(), "Sum") && c44HasMethod(st.Field(i).Type(), "Write") {
			n++
		}
	}
	return n > 1
}

// ---------------------------------------------------------------------------
// CheckDetachedSignature

// c44Record: the record a field value was read from (address of the record for
// a load through a field address, the record value for a field of a value).
func c44Record(t *c44T) *c44T {
	switch {
	case t.op == "ld" && t.a[0].op == "fld":
		return t.a[0].a[0]
	case t.op == "fldv":
		return t.a[0]
	}
	return nil
}

func c44Detached(c *Ctx) {
	f := c.fn("openpgp", "CheckDetachedSignature")
	if f == nil {
		return
	}
	x := c.c44Explorer(f)
	outs := x.run(nil, nil)
	if !c44Explored(c, x, outs, "C44.detached", "CheckDetachedSignature", f) {
		return
	}
	sign, _ := pkgConstInt(c, "openpgp/packet", "KeyFlagSign")
	var acc []*c44Path
	for _, p := range outs {
		if p.end == "return" && len(p.results) > 0 && p.nilness(p.results[0]) != 1 {
			acc = append(acc, p)
		}
	}
	if len(acc) == 0 {
		c.undecided("C44.detached", "CheckDetachedSignature", f, "no path returning an entity found (rule anchor lost)")
		return
	}
	bad, selBad := "", ""
	var badAt, selAt *c44Path
	examined := 0
	for _, p := range acc {
		ent := p.results[0]
		ok := false
		var keysCall *c44Ev
		for _, ev := range p.calls(func(ev *c44Ev) bool {
			return c44IsMethod(ev, "PublicKey).VerifySignature") || c44IsMethod(ev, "PublicKey).VerifySignatureV3")
		}) {
			if ev.res == nil || p.nilness(ev.res) != 1 || len(ev.args) == 0 {
				continue
			}
			// the verifying key and the returned entity belong to the same candidate
			// (both are fields of one Key record)
			ek, ee := c44Record(ev.args[0]), c44Record(ent)
			if ek != nil && ee != nil && ek.key == ee.key {
				ok = true
				c44Any(ek, func(t *c44T) bool {
					if t.op == "call" && t.ev != nil && keysCall == nil {
						keysCall = t.ev
					}
					return false
				})
			}
		}
		if !ok {
			if bad == "" {
				bad = "an entity (" + ent.key + ") is returned without a nil result of VerifySignature / VerifySignatureV3 by a key of that entity: " + p.describe(c)
				badAt = p
			}
			continue
		}
		examined++
		sel := keysCall != nil && c44IsInvoke(keysCall, "KeysByIdUsage") && len(keysCall.args) == 2
		if sel {
			n, isC := p.eval(keysCall.args[1])
			sel = isC && n == sign && c44Any(keysCall.args[0], func(t *c44T) bool { return t.op == "fld" && t.s == "IssuerKeyId" })
		}
		if !sel && selBad == "" {
			selBad = "the verifying key does not come from KeysByIdUsage(signature's IssuerKeyId, KeyFlagSign): " + p.describe(c)
			if keysCall != nil {
				selBad = fmt.Sprintf("the verifying key comes from %s(%v): verification keys are not restricted to the signature's issuer id and the signing usage", keysCall.name, keysCall.args)
			}
			selAt = p
		}
	}
	c.check(bad == "", "C44.detached", "CheckDetachedSignature", c44At(badAt, f), fmt.Sprintf("an entity is returned only behind a nil verification result of that entity's key (%d accepting of %d paths)", len(acc), len(outs)), bad)
	c.check(selBad == "" && examined > 0, "C44.detached", "CheckDetachedSignature key selection", c44At(selAt, f), fmt.Sprintf("keys are selected by issuer id with the signing usage (%d verified accepting paths)", examined), selBad+c44If(selBad == "" && examined == 0, "no verified accepting path to examine"))
}

// ---------------------------------------------------------------------------
// primitives

// c44NonSigning: the values of the key-algorithm constants for which CanSign
// answers false, obtained by interpreting CanSign on each constant.
func c44NonSigning(c *Ctx) (vals []int64, why string) {
	sp := c.ssaPkg("openpgp/packet")
	cs := c.fnOpt("openpgp/packet", "(*PublicKey).CanSign")
	if sp == nil || cs == nil {
		return nil, "CanSign not found"
	}
	seen := map[int64]bool{}
	for _, name := range sp.Pkg.Scope().Names() {
		k, ok := sp.Pkg.Scope().Lookup(name).(*types.Const)
		if !ok {
			continue
		}
		if tn, isN := k.Type().(*types.Named); !isN || tn.Obj().Name() != "PublicKeyAlgorithm" {
			continue
		}
		n, ok := pkgConstInt(c, "openpgp/packet", name)
		if !ok || seen[n] {
			continue
		}
		seen[n] = true
		x := c.c44Explorer(cs)
		algo := c44Fld(c44Param(0), "PubKeyAlgo")
		outs := x.run(nil, map[string]*c44T{algo.key: c44Const(n, k.Type())})
		if len(outs) != 1 || outs[0].end != "return" || len(outs[0].results) != 1 {
			return nil, fmt.Sprintf("CanSign does not evaluate for algorithm %s", name)
		}
		r, okr := outs[0].eval(outs[0].results[0])
		if !okr {
			return nil, fmt.Sprintf("CanSign does not evaluate for algorithm %s", name)
		}
		if r == 0 {
			vals = append(vals, n)
		}
	}
	sort.Slice(vals, func(i, j int) bool { return vals[i] < vals[j] })
	if len(vals) == 0 {
		return nil, "CanSign rejects no algorithm constant"
	}
	return vals, ""
}

func c44Primitives(c *Ctx) {
	nonSigning, nsWhy := c44NonSigning(c)
	for _, name := range []string{"(*PublicKey).VerifySignature", "(*PublicKey).VerifySignatureV3"} {
		f := c.fn("openpgp/packet", name)
		if f == nil {
			continue
		}
		x := c.c44Explorer(f)
		outs := x.run(nil, nil)
		if !c44Explored(c, x, outs, "C44.primitive", name+" primitive", f) {
			continue
		}
		acc := c44Accepting(outs, 0)
		if len(acc) == 0 {
			c.undecided("C44.primitive", name+" primitive", f, "no path returning nil found (rule anchor lost)")
			continue
		}
		pk, hashP, sig := c44Param(0), c44Param(1), c44Param(2)
		isHashP := func(r *c44T) bool { return r.key == hashP.key }
		algo := c44Ld(c44Fld(pk, "PubKeyAlgo"), nil)
		sigAlgo := c44Ld(c44Fld(sig, "PubKeyAlgo"), nil)
		var bad [6]string
		var at [6]*c44Path
		fail := func(i int, p *c44Path, msg string) {
			if bad[i] == "" {
				bad[i], at[i] = msg+": "+p.describe(c), p
			}
		}
		for _, p := range acc {
			// (0) the algorithm's verifier succeeded, for the receiver's key, over the Sum of the hash parameter
			var sum *c44T
			verified := false
			for _, ev := range p.calls(func(ev *c44Ev) bool {
				return ev.name == "crypto/rsa.VerifyPKCS1v15" || ev.name == "crypto/dsa.Verify" || ev.name == "crypto/ecdsa.Verify"
			}) {
				if ev.res == nil {
					continue
				}
				digArg := 1
				succeeded := false
				if ev.name == "crypto/rsa.VerifyPKCS1v15" {
					digArg = 2
					succeeded = p.nilness(ev.res) == 1
				} else {
					succeeded = p.holds(ev.res)
				}
				if !succeeded || len(ev.args) <= digArg {
					continue
				}
				s := c44SumOf(ev.args[digArg], isHashP)
				if s == nil || !c44Mentions(ev.args[0], pk) {
					continue
				}
				verified, sum = true, s
			}
			if !verified {
				fail(0, p, "nil is returned on a path where neither rsa.VerifyPKCS1v15 returned nil nor dsa.Verify / ecdsa.Verify returned true for the receiver's key over the Sum of the hash")
			}
			if sum == nil {
				for _, ev := range p.calls(func(ev *c44Ev) bool { return c44IsInvoke(ev, "Sum") && ev.recv != nil && isHashP(ev.recv) }) {
					sum = ev.res
				}
			}
			// (1) CanSign
			if nsWhy != "" {
				fail(1, p, nsWhy)
			} else {
				for _, k := range nonSigning {
					if n, ok := p.eval(c44Eq(algo, c44Const(k, nil))); !ok || n != 0 {
						fail(1, p, fmt.Sprintf("nil is returned although the key algorithm may be %d, for which CanSign() is false", k))
					}
				}
			}
			// (2,3) both hash-tag octets
			for k := int64(0); k < 2; k++ {
				okTag := false
				if sum != nil {
					d := p.load(c44Idx(sum, k), types.Typ[types.Uint8])
					t := p.load(c44Idx(c44Fld(sig, "HashTag"), k), types.Typ[types.Uint8])
					okTag = p.holds(c44Eq(d, t))
				}
				if !okTag {
					fail(2+int(k), p, fmt.Sprintf("nil is returned without digest[%d] == HashTag[%d] having been established", k, k))
				}
			}
			// (4) algorithm equality
			if !p.holds(c44Eq(algo, sigAlgo)) {
				fail(4, p, "nil is returned without key algorithm == signature algorithm having been established")
			}
			// (5) the hash is completed with the signature's suffix before it is summed
			okSuffix := false
			if sum != nil {
				for _, w := range p.calls(func(ev *c44Ev) bool {
					return c44IsInvoke(ev, "Write") && ev.recv != nil && isHashP(ev.recv) && len(ev.args) == 1
				}) {
					if w.id > sum.ev.id {
						continue
					}
					if strings.HasSuffix(name, "V3") {
						okSuffix = true
					} else if b, off, _ := c44AsSlice(w.args[0]); off == 0 && p.source(b).key == c44Ld(c44Fld(sig, "HashSuffix"), nil).key {
						okSuffix = true
					}
				}
			}
			if !okSuffix {
				fail(5, p, "nil is returned although the signature's hashed suffix was not written to the hash before Sum")
			}
		}
		n := fmt.Sprintf(" (%d accepting of %d paths)", len(acc), len(outs))
		c.check(bad[0] == "", "C44.primitive", name+" primitive", c44At(at[0], f), "nil is returned only behind the success of the algorithm's verifier"+n, bad[0])
		c.check(bad[1] == "", "C44.primitive", name+" CanSign", c44At(at[1], f), fmt.Sprintf("nil is returned only for key algorithms with CanSign() == true (excluded: %v)", nonSigning), bad[1])
		for k := 0; k < 2; k++ {
			c.check(bad[2+k] == "", "C44.primitive", fmt.Sprintf("%s hash tag octet %d", name, k), c44At(at[2+k], f), fmt.Sprintf("digest[%d] == HashTag[%d] on every accepting path", k, k), bad[2+k])
		}
		c.check(bad[4] == "", "C44.primitive", name+" algorithm", c44At(at[4], f), "key algorithm == signature algorithm on every accepting path", bad[4])
		c.check(bad[5] == "", "C44.primitive", name+" hash suffix", c44At(at[5], f), "the signature suffix is hashed before the digest is taken", bad[5])
	}
}

// ---------------------------------------------------------------------------
// KeysByIdUsage

func c44Usage(c *Ctx) {
	f := c.fn("openpgp", "(EntityList).KeysByIdUsage")
	if f == nil {
		return
	}
	const construct = "(EntityList).KeysByIdUsage"
	sign, _ := pkgConstInt(c, "openpgp/packet", "KeyFlagSign")
	resT := f.Signature.Results()
	producesCandidates := func(callee *ssa.Function) bool {
		r := callee.Signature.Results()
		return resT.Len() == 1 && r.Len() == 1 && types.Identical(r.At(0).Type(), resT.At(0).Type())
	}
	bad := ""
	runs := 0
	for required := range []int64{sign, 0} {
		req := []int64{sign, 0}[required]
		for combo := 0; combo < 32 && bad == ""; combo++ {
			valid, fs, revoked, reason, others := int64(combo&1), int64(combo>>1&1), int64(combo>>2&1), int64(combo>>3&1), int64(combo>>4&1)
			x := c.c44Explorer(f)
			x.opaque = producesCandidates
			cand := c44Opq("candidates", "", nil)
			nCand := 0
			x.onCall = func(p *c44Path, ev *c44Ev) *c44T {
				if call, ok := ev.in.(*ssa.Call); ok {
					if callee := call.Call.StaticCallee(); callee != nil && producesCandidates(callee) {
						nCand++
						return c44Sl(cand, 0, c44Const(1, types.Typ[types.Int]))
					}
				}
				return nil
			}
			x.onLoad = func(p *c44Path, addr *c44T, typ types.Type) *c44T {
				if addr.op != "fld" || !c44Mentions(addr, cand) {
					return nil
				}
				b := func(n int64) *c44T { return c44Const(n, types.Typ[types.Bool]) }
				switch addr.s {
				case "FlagsValid":
					return b(valid)
				case "FlagSign":
					return b(fs)
				case "FlagCertify", "FlagEncryptCommunications", "FlagEncryptStorage":
					return b(others)
				case "Revocations":
					return c44Sl(c44Opq("revocations", "", nil), 0, c44Const(revoked, types.Typ[types.Int]))
				case "RevocationReason":
					if reason == 1 {
						return &c44T{op: "mk", key: "reason"}
					}
					return c44NilT
				}
				return nil
			}
			args := make([]*c44T, len(f.Params))
			if len(args) == 3 {
				args[2] = c44Const(req, f.Params[2].Type())
			}
			outs := x.run(args, nil)
			runs++
			desc := fmt.Sprintf("required usage %#x, flags valid=%d sign flag=%d other usage flags=%d revocations=%d revocation reason set=%d", req, valid, fs, others, revoked, reason)
			if x.why != "" || x.cutoffs > 0 || nCand == 0 {
				bad = desc + ": the filter does not evaluate on one candidate key (" + x.why + c44If(nCand == 0, "candidate list producer not found") + c44If(x.cutoffs > 0, "undecided branch") + ")"
				break
			}
			want := revoked == 0 && reason == 0 && (valid == 0 || req == 0 || fs == 1)
			for _, p := range outs {
				if p.end != "return" {
					continue
				}
				offered := false
				for _, ev := range p.calls(func(ev *c44Ev) bool { return ev.name == "builtin:append" && len(ev.args) == 2 }) {
					base, off, ln := c44AsSlice(ev.args[1])
					n, _ := p.eval(ln)
					for k := int64(0); k < n; k++ {
						if c44Mentions(p.load(c44Idx(base, off+k), nil), cand) {
							offered = true
						}
					}
				}
				if offered != want {
					bad = fmt.Sprintf("%s: key offered=%v, specification %v", desc, offered, want)
				}
			}
		}
	}
	c.check(bad == "", "C44.usage", construct, f, fmt.Sprintf("revoked keys and keys without the required usage flag are skipped (%d combinations interpreted)", runs), bad)
}

// ---------------------------------------------------------------------------
// canonical text hash

// c44ByteGlobals: the contents of the package's []byte variables initialised
// from literals, as path memory.
func c44ByteGlobals(sp *ssa.Package, mem map[string]*c44T) {
	init := sp.Func("init")
	if init == nil {
		return
	}
	x := &c44X{root: init}
	p := &c44Path{x: x}
	fr := &c44Frame{fn: init}
	elems := map[*ssa.Alloc]map[int64]int64{}
	allInstrs(init, func(in ssa.Instruction) {
		st, ok := in.(*ssa.Store)
		if !ok {
			return
		}
		if ia, ok := st.Addr.(*ssa.IndexAddr); ok {
			if al, ok := ia.X.(*ssa.Alloc); ok {
				k, ok1 := constInt(ia.Index)
				v, ok2 := constInt(st.Val)
				if ok1 && ok2 {
					if elems[al] == nil {
						elems[al] = map[int64]int64{}
					}
					elems[al][k] = v
				}
			}
		}
	})
	allInstrs(init, func(in ssa.Instruction) {
		st, ok := in.(*ssa.Store)
		if !ok {
			return
		}
		g, ok := st.Addr.(*ssa.Global)
		if !ok {
			return
		}
		sl, ok := st.Val.(*ssa.Slice)
		if !ok {
			return
		}
		al, ok := sl.X.(*ssa.Alloc)
		if !ok || sl.Low != nil || sl.High != nil {
			return
		}
		arr, ok := al.Type().Underlying().(*types.Pointer).Elem().Underlying().(*types.Array)
		if !ok {
			return
		}
		gt := p.val(fr, g)
		base := c44Opq("lit", gt.key, nil)
		mem[gt.key] = c44Sl(base, 0, c44Const(arr.Len(), types.Typ[types.Int]))
		for k := int64(0); k < arr.Len(); k++ {
			mem[c44Idx(base, k).key] = c44Const(elems[al][k], types.Typ[types.Uint8])
		}
	})
}

// c44Canon: the canonical text form as a state machine over the octets
// (state: the previous octet was a CR that itself did not follow such a CR).
func c44Canon(in []byte) []byte {
	var out []byte
	s := 0
	for _, ch := range in {
		switch s {
		case 0:
			if ch == '\r' {
				s = 1
				out = append(out, ch)
			} else if ch == '\n' {
				out = append(out, '\r', '\n')
			} else {
				out = append(out, ch)
			}
		default:
			s = 0
			out = append(out, ch)
		}
	}
	return out
}

func c44Text(c *Ctx) {
	ctor := c.fn("openpgp", "NewCanonicalTextHash")
	if ctor == nil {
		return
	}
	const persist, trans = "(*canonicalTextHash).Write state persistence", "(*canonicalTextHash).Write transitions"
	sp := ctor.Pkg
	globals := map[string]*c44T{}
	c44ByteGlobals(sp, globals)
	sink := c44Opq("underlying-hash", "", nil)
	// write interprets: h := NewCanonicalTextHash(sink); h.Write(chunk) for every chunk;
	// it returns the octets handed to sink.
	var writeFn *ssa.Function
	write := func(chunks [][]byte) (out []byte, why string) {
		x := c.c44Explorer(ctor)
		outs := x.run([]*c44T{sink}, globals)
		if len(outs) != 1 || outs[0].end != "return" || len(outs[0].results) != 1 || outs[0].results[0].op != "mki" {
			return nil, "NewCanonicalTextHash does not evaluate to one freshly built value"
		}
		obj := outs[0].results[0]
		mem := outs[0].mem
		if writeFn == nil {
			if sel := c.ld.prog.MethodSets.MethodSet(obj.typ).Lookup(sp.Pkg, "Write"); sel != nil {
				writeFn = c.ld.prog.MethodValue(sel)
			}
			if writeFn == nil || len(writeFn.Blocks) == 0 || len(writeFn.Params) != 2 {
				return nil, "Write method of the value built by NewCanonicalTextHash not found"
			}
		}
		for ci, chunk := range chunks {
			buf := c44Opq("chunk", fmt.Sprint(ci), nil)
			for k, b := range chunk {
				mem[c44Idx(buf, int64(k)).key] = c44Const(int64(b), types.Typ[types.Uint8])
			}
			xw := c.c44Explorer(writeFn)
			xw.maxSteps = 20000
			xw.nextID = 1000 * (ci + 1) // fresh allocations must not collide with the object built by the constructor
			ws := xw.run([]*c44T{obj.a[0], c44Sl(buf, 0, c44Const(int64(len(chunk)), types.Typ[types.Int]))}, mem)
			if len(ws) != 1 || ws[0].end != "return" {
				return nil, fmt.Sprintf("Write(%q) does not follow a single path (%d paths; it depends on something other than the text and the receiver's state)", chunk, len(ws))
			}
			p := ws[0]
			for _, ev := range p.calls(func(ev *c44Ev) bool {
				return c44IsInvoke(ev, "Write") && ev.recv != nil && ev.recv.key == sink.key && len(ev.args) == 1
			}) {
				base, off, ln := c44AsSlice(ev.args[0])
				n, ok := p.eval(ln)
				if !ok {
					return nil, fmt.Sprintf("Write(%q): length of the data handed to the hash (%s) is not determined", chunk, ev.args[0].key)
				}
				for k := int64(0); k < n; k++ {
					b, ok := p.eval(p.load(c44Idx(base, off+k), types.Typ[types.Uint8]))
					if !ok {
						return nil, fmt.Sprintf("Write(%q): octet %d of %s handed to the hash is not determined", chunk, k, ev.args[0].key)
					}
					out = append(out, byte(b))
				}
			}
			if n, ok := p.eval(p.results[0]); len(p.results) != 2 || !ok || n != int64(len(chunk)) || p.nilness(p.results[1]) != 1 {
				return nil, fmt.Sprintf("Write(%q) does not return (%d, nil)", chunk, len(chunk))
			}
			mem = p.mem
		}
		return out, ""
	}
	var texts [][]byte
	alpha := []byte{'\r', '\n', 'x'}
	texts = append(texts, nil)
	for n := 1; n <= 3; n++ {
		idx := make([]int, n)
		for {
			t := make([]byte, n)
			for i, k := range idx {
				t[i] = alpha[k]
			}
			texts = append(texts, t)
			i := n - 1
			for ; i >= 0; i-- {
				idx[i]++
				if idx[i] < len(alpha) {
					break
				}
				idx[i] = 0
			}
			if i < 0 {
				break
			}
		}
	}
	transBad, persBad := "", ""
	nWhole, nSplit := 0, 0
	whole := map[string][]byte{}
	for _, t := range texts {
		got, why := write([][]byte{t})
		if why != "" {
			transBad = why
			break
		}
		nWhole++
		whole[string(t)] = got
		if want := c44Canon(t); string(got) != string(want) && transBad == "" {
			transBad = fmt.Sprintf("Write(%q) hands %q to the hash; the canonical text form is %q (a bare LF becomes CRLF, an LF after CR does not)", t, got, want)
		}
	}
	if transBad == "" || len(whole) == len(texts) {
		for _, t := range texts {
			for cut := 1; cut < len(t) && persBad == ""; cut++ {
				got, why := write([][]byte{t[:cut], t[cut:]})
				if why != "" {
					persBad = why
					break
				}
				nSplit++
				if string(got) != string(whole[string(t)]) {
					persBad = fmt.Sprintf("written as %q then %q the hash receives %q, written at once %q: the carriage-return state is not carried in the receiver from one Write call to the next, so the hash depends on how the data is chunked", t[:cut], t[cut:], got, whole[string(t)])
				}
			}
		}
	} else {
		persBad = "not evaluated: " + transBad
	}
	var at poser = ctor
	if writeFn != nil {
		at = writeFn
	}
	c.check(persBad == "", "C44.text-state", persist, at, fmt.Sprintf("the carriage-return state lives in the receiver across calls (%d two-chunk writes equal the single write)", nSplit), persBad)
	c.check(transBad == "", "C44.text-state", trans, at, fmt.Sprintf("a bare LF becomes CRLF, an LF after CR does not (%d texts up to 3 octets interpreted)", nWhole), transBad)
}
