package main

import (
	"fmt"
	"go/token"
	"strings"

	"golang.org/x/tools/go/ssa"
)

func init() {
	register(&propDef{
		id: "C44", run: runC44, minOblig: 16,
		explanation: "Decides the integrity gates of OpenPGP message reading and the text-canonicalisation state machine: (MDC) seMDCReader.Close returns nil only behind the trailer tag/length test and subtle.ConstantTimeCompare(running hash, trailer digest) == 1; (signature result) signatureCheckReader.Read, at end of data, assigns MessageDetails.SignatureError on every path — from VerifySignature/VerifySignatureV3 of the signer's key over the running hash, or a structural error — and closes the MDC reader, whose error is returned; (detached) CheckDetachedSignature returns an entity only behind a nil verification result of a key selected for the signature's issuer id with the signing usage flag; (primitive) PublicKey.VerifySignature and VerifySignatureV3 return nil only behind CanSign, the two-octet hash-tag comparison, the algorithm-equality test and the success edge of rsa.VerifyPKCS1v15 / dsa.Verify / ecdsa.Verify, and hash the signature's suffix before summing; (usage flags) KeysByIdUsage skips revoked keys and, when flags are valid, keys lacking a required usage bit (evaluated over all flag combinations for the sign bit); (text signatures) canonicalTextHash.Write keeps its carriage-return state in the receiver, never in a local that is not written back, so the hash does not depend on how the data is chunked; its per-byte transitions (state x {CR, LF, other}) emit CRLF exactly for a bare LF. NOT decided: round-trip equality, that every mutation is detected, GnuPG interoperability.",
		assumptions: []string{"crypto/rsa, crypto/dsa, crypto/ecdsa verification contracts"},
	})
	tech("C44", "must-cross CFG rules on verification edges, finite-domain evaluation of usage-flag and per-byte state-machine transitions, receiver-state write-back rule")
}

func runC44(c *Ctx) {
	const pk = "openpgp"
	// ---- MDC
	if f := c.fn("openpgp/packet", "(*seMDCReader).Close"); f != nil {
		acc := acceptReturns(f, 0)
		ctc := callsNamed(f, "crypto/subtle.ConstantTimeCompare")
		c.mustCross("C44.mdc", "(*seMDCReader).Close digest", f, acc, callSuccess(ctc, 0, isOne), "ConstantTimeCompare(hash, trailer digest) == 1")
		// trailer header test
		tag, _ := pkgConstInt(c, "openpgp/packet", "mdcPacketTagByte")
		bad := ""
		var t0, t1 []ssa.Value
		allInstrs(f, func(in ssa.Instruction) {
			if u, ok := in.(*ssa.UnOp); ok && u.Op == token.MUL {
				if ia, ok := u.X.(*ssa.IndexAddr); ok && strings.HasSuffix(accessPath(ia.X), ".trailer") {
					if k, okk := constInt(ia.Index); okk && k == 0 {
						t0 = append(t0, u)
					} else if okk && k == 1 {
						t1 = append(t1, u)
					}
				}
			}
		})
		if len(t0) == 0 || len(t1) == 0 || len(ctc) != 1 {
			bad = "trailer header reads or digest comparison not found"
		} else {
			for _, tc := range []struct {
				a, b int64
				want bool
			}{{tag, 20, true}, {tag, 19, false}, {tag ^ 1, 20, false}, {0, 0, false}} {
				e := newEnv()
				for _, v := range t0 {
					e.bind(v, tc.a)
				}
				for _, v := range t1 {
					e.bind(v, tc.b)
				}
				e.bindField(f, "seMDCReader", "error", 0)
				e.bindField(f, "seMDCReader", "eof", 1)
				e.solve(f)
				if e.reach[ctc[0].Block()] != tc.want {
					bad = fmt.Sprintf("trailer octets %#02x %#02x: digest compared=%v, want %v", tc.a, tc.b, e.reach[ctc[0].Block()], tc.want)
				}
			}
		}
		c.check(bad == "", "C44.mdc", "(*seMDCReader).Close trailer", f, "the MDC packet header (0xd3, 0x14) is required", bad)
	}
	// ---- signatureCheckReader.Read
	if f := c.fn(pk, "(*signatureCheckReader).Read"); f != nil {
		sts := storesTo(f, "MessageDetails", "SignatureError")
		vs := calls(f, func(n string) bool {
			return strings.HasSuffix(n, "PublicKey).VerifySignature") || strings.HasSuffix(n, "PublicKey).VerifySignatureV3")
		})
		nVer := 0
		for _, st := range sts {
			if call, ok := st.Val.(*ssa.Call); ok && (strings.HasSuffix(calleeName(&call.Call), ".VerifySignature") || strings.HasSuffix(calleeName(&call.Call), ".VerifySignatureV3")) {
				nVer++
				_, fld, _, okf := fieldOf(call.Call.Args[1])
				c.check(okf && fld == "h", "C44.sig-result", "signatureCheckReader verifies the running hash", call, "the signature is verified over the reader's hash", "the signature is not verified over the hash of the data read")
			}
		}
		c.check(nVer == 2 && len(vs) == 2, "C44.sig-result", "signatureCheckReader.Read verification result stored", f, "SignatureError receives the V4 or V3 verification result", fmt.Sprintf("%d verification results are stored into SignatureError (want 2)", nVer))
		// at EOF every path to return stores SignatureError: from the EOF-true edge, returns unreachable avoiding all store blocks
		var eofEdges []edge
		allInstrs(f, func(in ssa.Instruction) {
			if bo, ok := in.(*ssa.BinOp); ok && bo.Op == token.EQL && accessPath(bo.Y) == "EOF" {
				y, _ := boolEdges(bo, true)
				eofEdges = append(eofEdges, y...)
			}
		})
		okAll := len(eofEdges) > 0
		if okAll {
			avoid := map[*ssa.BasicBlock]bool{}
			for _, st := range sts {
				avoid[st.Block()] = true
			}
			var starts []*ssa.BasicBlock
			for _, e := range eofEdges {
				starts = append(starts, e.to())
			}
			r := reachAvoiding(starts, nil, avoid)
			for _, ret := range returnsOf(f) {
				if r[ret.Block()] {
					okAll = false
				}
			}
		}
		c.check(okAll, "C44.sig-result", "signatureCheckReader.Read at EOF", f, "every path after the end of the data records a signature verdict", "the end of the data can be reached without recording a signature verdict")
		// MDC close result is returned
		var cl []ssa.CallInstruction
		for _, ci := range calls(f, func(n string) bool { return strings.HasPrefix(n, "invoke:") && strings.HasSuffix(n, ".Close") }) {
			if _, fld, _, ok := fieldOf(ci.Common().Value); ok && fld == "decrypted" {
				cl = append(cl, ci)
			}
		}
		c.check(len(cl) == 1, "C44.mdc", "signatureCheckReader closes the MDC reader", f, "the integrity-protected reader is closed and its error surfaces", "the MDC reader is not closed at the end of a signed message")
	}
	// ---- CheckDetachedSignature
	if f := c.fn(pk, "CheckDetachedSignature"); f != nil {
		acc := valueReturns(f, 0)
		var pass []edge
		// err phi assigned from VerifySignature*, tested == nil
		for _, ci := range calls(f, func(n string) bool {
			return strings.HasSuffix(n, "PublicKey).VerifySignature") || strings.HasSuffix(n, "PublicKey).VerifySignatureV3")
		}) {
			v := callValue(ci)
			for _, r := range *v.Referrers() {
				if ph, ok := r.(*ssa.Phi); ok {
					y, _ := edgesWhere(ph, isNil)
					pass = append(pass, y...)
				}
			}
			y, _ := edgesWhere(v, isNil)
			pass = append(pass, y...)
		}
		c.mustCross("C44.detached", "CheckDetachedSignature", f, acc, pass, "a nil verification result")
		ku := calls(f, nameIs("invoke:(openpgp.KeyRing).KeysByIdUsage"))
		okU := len(ku) == 1
		if okU {
			k, okk := constInt(ku[0].Common().Args[1])
			sign, _ := pkgConstInt(c, "openpgp/packet", "KeyFlagSign")
			okU = okk && k == sign
		}
		c.check(okU, "C44.detached", "CheckDetachedSignature key selection", f, "keys are selected by issuer id with the signing usage", "verification keys are not restricted to the signing usage")
	}
	// ---- primitives
	for _, name := range []string{"(*PublicKey).VerifySignature", "(*PublicKey).VerifySignatureV3"} {
		f := c.fn("openpgp/packet", name)
		if f == nil {
			continue
		}
		acc := acceptReturns(f, 0)
		var prim []edge
		for _, ci := range callsNamed(f, "crypto/rsa.VerifyPKCS1v15") {
			y, _ := errSuccessEdges(ci.(*ssa.Call))
			prim = append(prim, y...)
			for _, r := range *callValue(ci).Referrers() {
				if ph, ok := r.(*ssa.Phi); ok {
					y2, _ := edgesWhere(ph, isNil)
					prim = append(prim, y2...)
				}
			}
		}
		prim = append(prim, callSuccess(callsNamed(f, "crypto/dsa.Verify"), 0, isTrue)...)
		prim = append(prim, callSuccess(callsNamed(f, "crypto/ecdsa.Verify"), 0, isTrue)...)
		c.mustCross("C44.primitive", name+" primitive", f, acc, prim, "the success edge of the algorithm's verifier")
		c.mustCross("C44.primitive", name+" CanSign", f, acc, callSuccess(callsNamed(f, "(*openpgp/packet.PublicKey).CanSign"), 0, isTrue), "CanSign() == true")
		// hash tag: both octets compared
		var tagEq [2][]edge
		allInstrs(f, func(in ssa.Instruction) {
			bo, ok := in.(*ssa.BinOp)
			if !ok || (bo.Op != token.NEQ && bo.Op != token.EQL) {
				return
			}
			ux, okx := bo.X.(*ssa.UnOp)
			uy, oky := bo.Y.(*ssa.UnOp)
			if !okx || !oky {
				return
			}
			ix, okx := ux.X.(*ssa.IndexAddr)
			iy, oky := uy.X.(*ssa.IndexAddr)
			if !okx || !oky {
				return
			}
			if _, fld, _, okf := fieldOf(iy.X); !okf || fld != "HashTag" {
				if _, fld2, _, okf2 := fieldOf(ix.X); !okf2 || fld2 != "HashTag" {
					return
				}
			}
			k, okk := constInt(ix.Index)
			if !okk || k < 0 || k > 1 {
				return
			}
			y, _ := boolEdges(bo, bo.Op == token.EQL)
			tagEq[k] = append(tagEq[k], y...)
		})
		for k := 0; k < 2; k++ {
			c.mustCross("C44.primitive", fmt.Sprintf("%s hash tag octet %d", name, k), f, acc, tagEq[k], fmt.Sprintf("digest[%d] == HashTag[%d]", k, k))
		}
		// algorithm equality
		var algEq []edge
		allInstrs(f, func(in ssa.Instruction) {
			if bo, ok := in.(*ssa.BinOp); ok && (bo.Op == token.NEQ || bo.Op == token.EQL) {
				_, fx, _, okx := fieldOf(bo.X)
				_, fy, _, oky := fieldOf(bo.Y)
				if okx && oky && fx == "PubKeyAlgo" && fy == "PubKeyAlgo" {
					y, _ := boolEdges(bo, bo.Op == token.EQL)
					algEq = append(algEq, y...)
				}
			}
		})
		c.mustCross("C44.primitive", name+" algorithm", f, acc, algEq, "key algorithm == signature algorithm")
	}
	// ---- KeysByIdUsage
	if f := c.fn(pk, "(EntityList).KeysByIdUsage"); f != nil {
		var app ssa.CallInstruction
		for _, ci := range calls(f, nameIs("builtin:append")) {
			app = ci
		}
		sign, _ := pkgConstInt(c, "openpgp/packet", "KeyFlagSign")
		bad := ""
		if app == nil {
			bad = "result append not found"
		} else {
			for valid := int64(0); valid < 2; valid++ {
				for fs := int64(0); fs < 2; fs++ {
					for revoked := int64(0); revoked < 2; revoked++ {
						e := newEnv()
						e.bind(f.Params[2], sign)
						allInstrs(f, func(in ssa.Instruction) {
							switch x := in.(type) {
							case *ssa.UnOp:
								if x.Op != token.MUL {
									return
								}
								if _, fld, _, ok := fieldOf(x); ok {
									switch fld {
									case "FlagsValid":
										e.bind(x, valid)
									case "FlagSign":
										e.bind(x, fs)
									case "FlagCertify", "FlagEncryptCommunications", "FlagEncryptStorage":
										e.bind(x, 0)
									}
								}
							case *ssa.Call:
								if calleeName(&x.Call) == "builtin:len" {
									if _, fld, _, ok := fieldOf(x.Call.Args[0]); ok && fld == "Revocations" {
										e.bind(x, revoked)
									}
								}
							}
						})
						e.bindNilTests(f, func(v ssa.Value) bool { _, fld, _, ok := fieldOf(v); return ok && fld == "RevocationReason" }, true)
						e.solve(f)
						want := revoked == 0 && (valid == 0 || fs == 1)
						if e.reach[app.Block()] != want {
							bad = fmt.Sprintf("flags valid=%d sign flag=%d revoked=%d: key offered for signing=%v, specification %v", valid, fs, revoked, e.reach[app.Block()], want)
						}
					}
				}
			}
		}
		c.check(bad == "", "C44.usage", "(EntityList).KeysByIdUsage", f, "revoked keys and keys without the required usage flag are skipped", bad)
	}
	// ---- canonical text hash
	if f := c.fn(pk, "(*canonicalTextHash).Write"); f != nil {
		// (A) no receiver state kept in an un-flushed local
		lost := ""
		for e := range backEdges(f) {
			h := e.to()
			for _, in := range h.Instrs {
				p, ok := in.(*ssa.Phi)
				if !ok {
					break
				}
				var fromField string
				modified := false
				for i, ev := range p.Edges {
					pred := h.Preds[i]
					if !h.Dominates(pred) {
						if _, fld, base, okf := fieldOf(ev); okf && base == ssa.Value(f.Params[0]) {
							fromField = fld
						}
					} else if ev != ssa.Value(p) {
						modified = true
					}
				}
				if fromField != "" && modified {
					// must be stored back before every return
					okBack := true
					for _, r := range returnsOf(f) {
						stored := false
						for _, st := range storesTo(f, "canonicalTextHash", fromField) {
							if precedes(st, r) {
								stored = true
							}
						}
						if !stored {
							okBack = false
						}
					}
					if !okBack {
						lost = "the receiver's field " + fromField + " is copied into a loop variable that is modified but not stored back: the state is lost between Write calls, so the hash depends on how the data is chunked"
					}
				}
			}
		}
		c.check(lost == "", "C44.text-state", "(*canonicalTextHash).Write state persistence", f, "the carriage-return state lives in the receiver across calls", lost)
		// (B) transitions
		var sLoads, cVals []ssa.Value
		allInstrs(f, func(in ssa.Instruction) {
			if u, ok := in.(*ssa.UnOp); ok && u.Op == token.MUL {
				if _, fld, base, okf := fieldOf(u); okf && fld == "s" && base == ssa.Value(f.Params[0]) {
					sLoads = append(sLoads, u)
				}
				if ia, ok := u.X.(*ssa.IndexAddr); ok && ia.X == ssa.Value(f.Params[1]) {
					cVals = append(cVals, u)
				}
			}
		})
		var nl ssa.CallInstruction
		for _, ci := range calls(f, func(n string) bool { return strings.HasSuffix(n, ".Write") }) {
			if accessPath(ci.Common().Args[0]) == "newline" {
				nl = ci
			}
		}
		bad := ""
		if len(sLoads) == 0 || len(cVals) == 0 || nl == nil {
			bad = "state load, byte load or newline emission not found"
		} else {
			for _, tc := range []struct {
				st, ch   int64
				next     int64
				emitCRLF bool
			}{{0, '\r', 1, false}, {0, '\n', 0, true}, {0, 'x', 0, false}, {1, '\n', 0, false}, {1, 'x', 0, false}, {1, '\r', 0, false}} {
				e := newEnv()
				for _, v := range sLoads {
					e.bind(v, tc.st)
				}
				for _, v := range cVals {
					e.bind(v, tc.ch)
				}
				cut := e.cuts(f)
				for b := range backEdges(f) {
					cut[b] = true
				}
				r := reachAfter(cVals[0].(ssa.Instruction), cut)
				emit := r[nl.Block()]
				next := tc.st
				for _, st := range storesTo(f, "canonicalTextHash", "s") {
					if r[st.Block()] {
						if k, ok := constInt(st.Val); ok {
							next = k
						}
					}
				}
				if emit != tc.emitCRLF || next != tc.next {
					bad = fmt.Sprintf("state %d, byte %q: next state %d, CRLF emitted=%v; canonical text form requires next state %d, emitted=%v", tc.st, rune(tc.ch), next, emit, tc.next, tc.emitCRLF)
				}
			}
		}
		c.check(bad == "", "C44.text-state", "(*canonicalTextHash).Write transitions", f, "a bare LF becomes CRLF, an LF after CR does not (6 transitions)", bad)
	}
}
