package main

import (
	"fmt"
	"go/types"
	"strings"

	"golang.org/x/tools/go/ssa"
)

func c42ParamOfType(f *ssa.Function, pred func(t types.Type) bool) *ssa.Parameter {
	for _, p := range f.Params {
		if pred(p.Type()) {
			return p
		}
	}
	return nil
}

func c42IsString(t types.Type) bool {
	b, ok := t.Underlying().(*types.Basic)
	return ok && b.Kind() == types.String
}

// c42CheckTable: the host key callback (the function wired as HostKeyFallback)
// over revoked x address given x lines. Decides C42.revoked-first, C42.accept
// and C42.want-lines.
func c42CheckTable(c *Ctx, s *c42Schema, f *ssa.Function) {
	recv := c42Recv(s, f)
	keyP := c42ParamOfType(f, func(t types.Type) bool { return c42NamedOf(t) == "PublicKey" })
	addrP := c42ParamOfType(f, c42IsString)
	rules := []string{"C42.revoked-first", "C42.accept", "C42.want-lines"}
	constructs := map[string]string{
		"C42.revoked-first": "host key callback: revoked keys",
		"C42.accept":        "host key callback: acceptance",
		"C42.want-lines":    "host key callback: KeyError.Want",
	}
	if recv == "" || keyP == nil {
		for _, r := range rules {
			c.undecided(r, constructs[r], f, "the host key callback does not have the database and a presented public key as inputs")
		}
		return
	}
	bad := map[string]string{}
	undec := ""
	cases := 0
	for _, lines := range c42LineCases(2) {
		for _, revoked := range []bool{false, true} {
			for _, addr := range []int64{0, c42Addr} {
				if undec != "" {
					break
				}
				t := &c42Table{s: s, lines: lines, revoked: map[int64]bool{c42Remote: revoked}}
				w := t.newWalker(f, recv)
				w.env.bind(keyP, c42Remote)
				if addrP != nil {
					w.env.bind(addrP, addr)
				}
				end := w.walk(f.Blocks[0], nil)
				cases++
				id := fmt.Sprintf("revoked=%v, lines %s", revoked, c42Lines(lines))
				if end != "return" || t.problem != "" {
					undec = fmt.Sprintf("%s: %s %s %s", id, end, w.why, t.problem)
					break
				}
				got := t.errKind(w, retVal(w.last.(*ssa.Return), 0))
				if got == "" || got == "key:?" {
					undec = fmt.Sprintf("%s: the returned error value %q cannot be classified", id, got)
					break
				}
				var wantEv []string
				accepted := false
				for i, l := range lines {
					if l.match {
						wantEv = append(wantEv, fmt.Sprintf("want:%d", i))
						if l.eq && !accepted {
							accepted = true
						}
					}
				}
				// lines after the accepting one are not consulted: the Want list of
				// an accepted key is never observed
				switch {
				case revoked:
					if got != "revoked" && bad["C42.revoked-first"] == "" {
						bad["C42.revoked-first"] = fmt.Sprintf("%s: a key listed as @revoked yields %s, not a RevokedError", id, c42KindText(got))
					}
				case accepted:
					if got != "nil" && bad["C42.accept"] == "" {
						bad["C42.accept"] = fmt.Sprintf("%s: a key listed on a matching line is rejected (%s)", id, c42KindText(got))
					}
				default:
					if got == "nil" {
						if bad["C42.accept"] == "" {
							bad["C42.accept"] = fmt.Sprintf("%s: the key is accepted although no matching line lists it", id)
						}
					} else if !strings.HasPrefix(got, "key:") {
						if bad["C42.accept"] == "" {
							bad["C42.accept"] = fmt.Sprintf("%s: an unknown key yields %s, not a KeyError", id, c42KindText(got))
						}
					} else {
						var ev []string
						for _, e := range w.events {
							if strings.HasPrefix(e, "want:") {
								ev = append(ev, e)
							}
						}
						if (strings.Join(ev, ",") != strings.Join(wantEv, ",") || got != fmt.Sprintf("key:%d", len(wantEv))) && bad["C42.want-lines"] == "" {
							bad["C42.want-lines"] = fmt.Sprintf("%s: KeyError.Want lists lines %v (%s), the matching lines are %v", id, c42Idx(ev), c42KindText(got), c42Idx(wantEv))
						}
					}
				}
			}
		}
	}
	okText := map[string]string{
		"C42.revoked-first": "a revoked key yields RevokedError whatever the lines say",
		"C42.accept":        "nil exactly when a line whose patterns match lists the presented key; KeyError otherwise",
		"C42.want-lines":    "KeyError.Want lists exactly the lines whose patterns match, in file order",
	}
	for _, r := range rules {
		switch {
		case undec != "":
			c.undecided(r, constructs[r], f, "interpretation left the finite domain: "+undec)
		case bad[r] != "":
			c.fail(r, constructs[r], f, bad[r])
		default:
			c.ok(r, constructs[r], f, fmt.Sprintf("%s (%d assignments of revoked x address x 0-2 lines x match x key-equal x marker, helpers interpreted in place)", okText[r], cases))
		}
	}
}

func c42KindText(k string) string {
	switch {
	case k == "nil":
		return "nil (accepted)"
	case k == "revoked":
		return "RevokedError"
	case strings.HasPrefix(k, "key:"):
		return "KeyError with " + k[4:] + " Want entries"
	}
	return "another error"
}

func c42Idx(ev []string) []string {
	out := []string{}
	for _, e := range ev {
		out = append(out, strings.TrimPrefix(e, "want:"))
	}
	return out
}

// c42AuthorityTable: the function wired as IsHostAuthority returns true iff
// some line carries the marker AND lists the signing key AND matches the host.
func c42AuthorityTable(c *Ctx, s *c42Schema, f *ssa.Function) {
	const rule = "C42.authority"
	recv := c42Recv(s, f)
	keyP := c42ParamOfType(f, func(t types.Type) bool { return c42NamedOf(t) == "PublicKey" })
	addrP := c42ParamOfType(f, c42IsString)
	names := []string{"IsHostAuthority marker", "IsHostAuthority key", "IsHostAuthority host", "IsHostAuthority table"}
	if recv == "" || keyP == nil {
		for _, n := range names {
			c.undecided(rule, n, f, "IsHostAuthority does not have the database and a signing key as inputs")
		}
		return
	}
	bad := map[string]string{}
	undec := ""
	cases := 0
	for _, lines := range c42LineCases(2) {
		t := &c42Table{s: s, lines: lines, revoked: map[int64]bool{}}
		w := t.newWalker(f, recv)
		w.env.bind(keyP, c42Remote)
		if addrP != nil {
			w.env.bind(addrP, c42Addr)
		}
		end := w.walk(f.Blocks[0], nil)
		cases++
		id := "lines " + c42Lines(lines)
		if end != "return" || t.problem != "" {
			undec = fmt.Sprintf("%s: %s %s %s", id, end, w.why, t.problem)
			break
		}
		gotN, ok := w.env.eval(retVal(w.last.(*ssa.Return), 0))
		if !ok {
			undec = id + ": the result does not evaluate"
			break
		}
		got := gotN != 0
		// a wrong "true" is attributed to the conjunct whose omission explains it:
		// some line has the other two facts but lacks this one
		want, butCert, butEq, butMatch := false, false, false, false
		for _, l := range lines {
			want = want || (l.cert && l.eq && l.match)
			butCert = butCert || (!l.cert && l.eq && l.match)
			butEq = butEq || (l.cert && !l.eq && l.match)
			butMatch = butMatch || (l.cert && l.eq && !l.match)
		}
		if got == want {
			continue
		}
		which, msg := "IsHostAuthority table", fmt.Sprintf("%s: returns %v, want %v (true iff ONE line has the marker, the signing key and a host match)", id, got, want)
		switch {
		case got && butCert:
			which, msg = "IsHostAuthority marker", id+": a key is taken as host authority by a line that does not carry @cert-authority"
		case got && butEq:
			which, msg = "IsHostAuthority key", id+": a key is taken as host authority by a line that lists another key (keyEq)"
		case got && butMatch:
			which, msg = "IsHostAuthority host", id+": a key is taken as host authority for an address the line does not match"
		}
		if bad[which] == "" {
			bad[which] = msg
		}
	}
	okText := map[string]string{
		"IsHostAuthority marker": "a line without @cert-authority never makes a key a host authority",
		"IsHostAuthority key":    "a line whose key differs from the signing key never makes it a host authority",
		"IsHostAuthority host":   "a line whose patterns do not match the address never makes the key a host authority for it",
		"IsHostAuthority table":  "true iff one line has marker, key and host match together",
	}
	for _, n := range names {
		switch {
		case undec != "":
			c.undecided(rule, n, f, "interpretation left the finite domain: "+undec)
		case bad[n] != "":
			c.fail(rule, n, f, bad[n])
		default:
			c.ok(rule, n, f, fmt.Sprintf("%s (%d line assignments)", okText[n], cases))
		}
	}
}

// c42RevokedTable: the function wired as IsRevoked answers true iff the
// certificate or its signing key is in the revoked set.
func c42RevokedTable(c *Ctx, s *c42Schema, f *ssa.Function) {
	const rule, construct = "C42.authority", "IsRevoked"
	recv := c42Recv(s, f)
	certP := c42ParamOfType(f, func(t types.Type) bool {
		_, isP := t.(*types.Pointer)
		return isP && c42NamedOf(t) == "Certificate"
	})
	if recv == "" || certP == nil {
		c.undecided(rule, construct, f, "IsRevoked does not have the database and a certificate as inputs")
		return
	}
	bad, undec := "", ""
	for m := 0; m < 4 && bad == "" && undec == ""; m++ {
		cr, sr := m&1 != 0, m&2 != 0
		t := &c42Table{s: s, revoked: map[int64]bool{c42CertID: cr, c42SigID: sr}}
		w := t.newWalker(f, recv)
		w.env.bind(certP, c42CertID)
		w.state[certP.Name()+".SignatureKey"] = c42SigID
		end := w.walk(f.Blocks[0], nil)
		id := fmt.Sprintf("certificate revoked=%v, signing key revoked=%v", cr, sr)
		if end != "return" || t.problem != "" {
			undec = fmt.Sprintf("%s: %s %s %s", id, end, w.why, t.problem)
			break
		}
		got, ok := w.env.eval(retVal(w.last.(*ssa.Return), 0))
		if !ok {
			undec = id + ": the result does not evaluate"
			break
		}
		if (got != 0) != (cr || sr) {
			bad = fmt.Sprintf("%s: IsRevoked returns %v; both the certificate and its signing key must be looked up in the revoked set", id, got != 0)
		}
	}
	switch {
	case undec != "":
		c.undecided(rule, construct, f, "interpretation left the finite domain: "+undec)
	case bad != "":
		c.fail(rule, construct, f, bad)
	default:
		c.ok(rule, construct, f, "true iff the certificate or its signing key is listed as @revoked (4 assignments, helpers interpreted in place)")
	}
}
