package main

import (
	"fmt"
	"go/constant"
	"go/token"
	"go/types"

	"golang.org/x/tools/go/ssa"
)

func init() {
	register(&propDef{
		id: "C07", run: runC07, minOblig: 10,
		explanation: "Decides the 'rejects corrupt states' clause of C07: in every UnmarshalBinary of blake2b, blake2s and sha3 (legacy Keccak), each receiver field that is restored from a single input byte and later bounds a slice/array access (size, offset; rate, n, state) is range-checked — for every one of the 256 possible byte values the checker partially evaluates the function's branch conditions (fixed-width Go semantics) and requires that the nil-error return is reachable exactly for the values inside the valid range taken from the package's own constants (1..Size, 0..BlockSize, n<=rate, state in {absorbing,squeezing}, rate equal to the receiver's). Also: every int-typed receiver field stored from input bytes is in this table (a new unchecked field is reported), and the total-length test guards all constant-index reads. NOT decided: that a restored state continues to hash identically (value equality).",
		assumptions: []string{"int is 64-bit", "the restored byte reaches the field only through the conversions seen in the SSA (checked: store value derives from exactly one input-byte load)"},
	})
	tech("C07", "finite-domain partial evaluation of guard conditions over all 256 byte values + CFG reachability of the accepting return; field-store table")
}

func pkgConstInt(c *Ctx, pkg, name string) (int64, bool) {
	sp := c.ssaPkg(pkg)
	if sp == nil {
		return 0, false
	}
	k, ok := sp.Pkg.Scope().Lookup(name).(*types.Const)
	if !ok {
		return 0, false
	}
	n, ok := constant.Int64Val(constant.ToInt(k.Val()))
	return n, ok
}

// byteRoot finds the single load of an input byte that v is converted from.
func byteRoot(v ssa.Value) *ssa.UnOp {
	for i := 0; i < 8; i++ {
		switch x := v.(type) {
		case *ssa.Convert:
			v = x.X
		case *ssa.ChangeType:
			v = x.X
		case *ssa.UnOp:
			if x.Op == token.MUL {
				if _, ok := x.X.(*ssa.IndexAddr); ok {
					if b, ok := x.Type().Underlying().(*types.Basic); ok && b.Kind() == types.Uint8 {
						return x
					}
				}
			}
			return nil
		default:
			return nil
		}
	}
	return nil
}

func runC07(c *Ctx) {
	for _, pk := range []string{"blake2b", "blake2s"} {
		fn := c.fn(pk, "(*digest).UnmarshalBinary")
		if fn == nil {
			continue
		}
		size, ok1 := pkgConstInt(c, pk, "Size")
		bs, ok2 := pkgConstInt(c, pk, "BlockSize")
		if !ok1 || !ok2 {
			c.fail("anchor", pk+".Size/BlockSize", fn, "package constants not found")
			continue
		}
		specs := []fieldSpec{
			{"size", func(d int64) bool { return d >= 1 && d <= size }, fmt.Sprintf("1..%d", size)},
			{"offset", func(d int64) bool { return d >= 0 && d <= bs }, fmt.Sprintf("0..%d", bs)},
		}
		c07Fields(c, pk, fn, "digest", specs, nil)
	}
	// sha3 legacy
	if fn := c.fn("sha3", "(*state).UnmarshalBinary"); fn != nil {
		const rate = 136
		abs, ok1 := pkgConstInt(c, "sha3", "spongeAbsorbing")
		sq, ok2 := pkgConstInt(c, "sha3", "spongeSqueezing")
		if !ok1 || !ok2 {
			c.fail("anchor", "sha3.spongeAbsorbing/spongeSqueezing", fn, "constants not found")
		} else {
			specs := []fieldSpec{
				{"n", func(d int64) bool { return d <= rate }, "0..d.rate"},
				{"state", func(d int64) bool { return d == abs || d == sq }, "absorbing|squeezing"},
			}
			c07Fields(c, "sha3", fn, "state", specs, func(e *penv) { e.bindPath(fn, "d.rate", rate) })
			// the rate byte itself: compared with d.rate, accept iff equal
			var rateRoot *ssa.UnOp
			allInstrs(fn, func(in ssa.Instruction) {
				if bo, ok := in.(*ssa.BinOp); ok && (bo.Op == token.NEQ || bo.Op == token.EQL) {
					if accessPath(bo.Y) == "d.rate" {
						if r := byteRoot(bo.X); r != nil {
							rateRoot = r
						}
					} else if accessPath(bo.X) == "d.rate" {
						if r := byteRoot(bo.Y); r != nil {
							rateRoot = r
						}
					}
				}
			})
			if rateRoot == nil {
				c.fail("C07.range", "sha3.(*state).UnmarshalBinary rate byte", fn, "the marshaled rate byte is not compared with the receiver's rate")
			} else {
				bad := c07Sweep(fn, rateRoot, func(d int64) bool { return d == rate }, func(e *penv) {
					e.bindPath(fn, "d.rate", rate)
				}, nil)
				c.check(bad == "", "C07.range", "sha3.(*state).UnmarshalBinary rate byte", rateRoot,
					"accepted iff equal to the receiver's rate (256 values evaluated)", bad)
			}
		}
	}
}

// c07Sweep evaluates all 256 values of root; returns "" if the nil-error
// return is reachable exactly for valid values.
func c07Sweep(fn *ssa.Function, root ssa.Value, valid func(int64) bool, bindExtra func(*penv), others []ssa.Value) string {
	accept := retTargets(fn, func(r *ssa.Return) bool {
		return len(r.Results) == 1 && errNilness(r.Results[0], r.Block(), 0) != neverNil
	})
	if len(accept) == 0 {
		return "no accepting return found"
	}
	for d := int64(0); d < 256; d++ {
		e := newEnv()
		e.bind(root, d)
		if bindExtra != nil {
			bindExtra(e)
		}
		got := anyReachable(fn, accept, e.cuts(fn)) != nil
		if got && !valid(d) {
			return fmt.Sprintf("byte value %d is outside the valid range but the nil-error return is still reachable (no rejecting comparison)", d)
		}
		if !got && valid(d) {
			return fmt.Sprintf("byte value %d is valid but the nil-error return is unreachable (over-strict check breaks Marshal/Unmarshal transparency)", d)
		}
	}
	return ""
}

type fieldSpec struct {
	field string
	valid func(d int64) bool
	desc  string
}

func c07Fields(c *Ctx, pk string, fn *ssa.Function, typ string, specs []fieldSpec, bindExtra func(*penv)) {
	name := pk + "." + fnName(fn)
	// all int-typed receiver fields stored from input bytes
	stored := map[string]*ssa.Store{}
	allInstrs(fn, func(in ssa.Instruction) {
		st, ok := in.(*ssa.Store)
		if !ok {
			return
		}
		fa, ok := st.Addr.(*ssa.FieldAddr)
		if !ok || typeName(fa.X.Type()) != typ {
			return
		}
		if _, _, isInt := intBits(st.Val.Type()); !isInt {
			return
		}
		if byteRoot(st.Val) == nil {
			return
		}
		s := derefStruct(fa.X.Type())
		stored[s.Field(fa.Field).Name()] = st
	})
	known := map[string]bool{}
	for _, sp := range specs {
		known[sp.field] = true
		st := stored[sp.field]
		if st == nil {
			c.fail("C07.range", name+" field "+sp.field, fn, "no store of an input byte into this field found (rule anchor lost)")
			continue
		}
		root := byteRoot(st.Val)
		bad := c07Sweep(fn, root, sp.valid, bindExtra, nil)
		c.check(bad == "", "C07.range", name+" field "+sp.field, st,
			"nil-error return reachable exactly for byte values "+sp.desc+" (256 values evaluated)", bad)
	}
	for f, st := range stored {
		if !known[f] {
			c.fail("C07.untabled-field", name+" field "+f, st, "integer field restored from an input byte without a range specification in the checker table")
		}
	}
	// length guard: accept unreachable unless len(b) == marshaledSize
	ms, ok := pkgConstInt(c, pk, "marshaledSize")
	if !ok {
		c.fail("anchor", pk+".marshaledSize", fn, "constant not found")
		return
	}
	accept := retTargets(fn, func(r *ssa.Return) bool {
		return len(r.Results) == 1 && errNilness(r.Results[0], r.Block(), 0) != neverNil
	})
	for _, n := range []int64{0, 1, ms - 1, ms + 1, ms + 100} {
		e := newEnv()
		e.bindLen(fn, fn.Params[1], n)
		if r := anyReachable(fn, accept, e.cuts(fn)); r != nil {
			c.fail("C07.length", fmt.Sprintf("%s len=%d", name, n), r, fmt.Sprintf("input of length %d (marshaledSize is %d) can reach the nil-error return", n, ms))
			return
		}
	}
	e := newEnv()
	e.bindLen(fn, fn.Params[1], ms)
	if bindExtra != nil {
		bindExtra(e)
	}
	c.check(anyReachable(fn, accept, e.cuts(fn)) != nil, "C07.length", name+" length guard", fn,
		fmt.Sprintf("only len(b) == marshaledSize (%d) reaches the nil-error return", ms),
		"an input of exactly marshaledSize bytes cannot reach the nil-error return")
}
