package main

import (
	"fmt"
	"go/constant"
	"go/types"
	"sort"

	"golang.org/x/tools/go/ssa"
)

func init() {
	register(&propDef{
		id: "C07", run: runC07, minOblig: 10,
		explanation: "Decides the 'rejects corrupt states' clause of C07 and the scalar part of the round trip: every UnmarshalBinary of blake2b, blake2s and sha3 (legacy Keccak) is INTERPRETED (flow-sensitive abstract interpretation of the SSA, slices by length and position in the input, same-package helpers interpreted in place, fixed-width Go arithmetic, nothing executed) on concrete byte strings in the marshaled wire format (magic | h | c | size | block | offset, resp. magic | rate | a | n | direction). (length) for every input length 0..marshaledSize+16 (and two larger ones) the nil error is returned exactly for marshaledSize and no index or slice expression leaves the input; (magic) every corrupted identifier byte, and for Keccak a receiver of another function family, is rejected; (range) for each input byte that is restored into a receiver field that later bounds a slice/array access (size, offset; n, state) or selects the function (rate), all 256 values are interpreted and the nil error is returned exactly for the values inside the valid range (1..Size, 0..BlockSize taken from the package's exported constants; n <= rate, direction absorbing|squeezing, rate equal to the receiver's, for both Keccak rates), and on acceptance the field holds exactly that byte; (untabled field) no other integer field of the receiver is stored with a value that depends on the input. The verdict does not depend on how the function is factored (helpers, constant offsets vs re-slicing, switch vs if, encoding/binary vs hand-written reads). NOT decided: that the array-valued parts (h, c, block, a) are restored identically, and the MarshalBinary side of the round trip.",
		assumptions: []string{"int is 64-bit", "the marshaled layout is the wire format of the released package (positions of size/offset/rate/n/direction bytes)", "package-level error variables are non-nil"},
	})
	tech("C07", "flow-sensitive abstract interpretation (pathWalker, helpers in place) of UnmarshalBinary on concrete inputs: all lengths, all 256 values of every range-relevant byte, corrupted magic; comparison of accept/reject and of the restored scalar fields with the format specification")
}

func pkgConstInt(c *Ctx, pkg, name string) (int64, bool) {
	sp := c.ssaPkg(pkg)
	if sp == nil {
		return 0, false
	}
	k, ok := sp.Pkg.Scope().Lookup(name).(*types.Const)
	if !ok {
		return 0, false
	}
	n, ok := constant.Int64Val(constant.ToInt(k.Val()))
	return n, ok
}

// c07Byte: one input byte with a range specification.
type c07Byte struct {
	pos   int64
	what  string // name used in messages
	field string // receiver field that must hold the byte on acceptance ("" = only compared)
	valid func(d int64, cfg map[string]int64) bool
	desc  string
	risk  string // what accepting an invalid value leads to
	// two valid values used while another byte is swept
	lo, hi func(cfg map[string]int64) int64
}

// c07Format: the marshaled wire format of one hash and the receiver
// configurations (fields read, not written, by UnmarshalBinary).
type c07Format struct {
	pkg, fn, typ string
	magic        string
	size         int64
	bytes        []c07Byte
	cfgs         []map[string]int64 // receivers that accept a well-formed state
	badCfgs      []map[string]int64 // receivers that must reject every state
}

func c07Const(n int64) func(map[string]int64) int64 {
	return func(map[string]int64) int64 { return n }
}

func runC07(c *Ctx) {
	for _, pk := range []struct {
		name  string
		magic string
		word  int64
	}{{"blake2b", "b2b", 8}, {"blake2s", "b2s", 4}} {
		fn := c.fn(pk.name, "(*digest).UnmarshalBinary")
		if fn == nil {
			continue
		}
		size, ok1 := pkgConstInt(c, pk.name, "Size")
		bs, ok2 := pkgConstInt(c, pk.name, "BlockSize")
		if !ok1 || !ok2 {
			c.fail("anchor", pk.name+".Size/BlockSize", fn, "package constants not found")
			continue
		}
		// magic | h[8] | c[2] | size | block | offset
		sizePos := int64(len(pk.magic)) + 8*pk.word + 2*pk.word
		offPos := sizePos + 1 + bs
		c07Check(c, fn, &c07Format{
			pkg: pk.name, fn: "(*digest).UnmarshalBinary", typ: "digest", magic: pk.magic, size: offPos + 1,
			bytes: []c07Byte{
				{pos: sizePos, what: "size", field: "size", desc: fmt.Sprintf("1..%d", size), risk: "Sum slices the hash beyond its array or returns an empty digest",
					valid: func(d int64, _ map[string]int64) bool { return d >= 1 && d <= size },
					lo:    c07Const(1), hi: c07Const(size)},
				{pos: offPos, what: "offset", field: "offset", desc: fmt.Sprintf("0..%d", bs), risk: "Write/Sum slice the block buffer out of range (panic)",
					valid: func(d int64, _ map[string]int64) bool { return d >= 0 && d <= bs },
					lo:    c07Const(0), hi: c07Const(bs)},
			},
			cfgs: []map[string]int64{{}},
		})
	}
	// sha3 legacy Keccak: magic | rate | a[200] | n | direction
	if fn := c.fn("sha3", "(*state).UnmarshalBinary"); fn != nil {
		const (
			magic      = "sha\x0b"
			keccakDS   = 0x01 // domain separation byte of the legacy Keccak functions
			sha3DS     = 0x06
			shakeDS    = 0x1f
			absorbing  = 0
			squeezing  = 1
			stateBytes = 200
		)
		ratePos := int64(len(magic))
		nPos := ratePos + 1 + stateBytes
		c07Check(c, fn, &c07Format{
			pkg: "sha3", fn: "(*state).UnmarshalBinary", typ: "state", magic: magic, size: nPos + 2,
			bytes: []c07Byte{
				{pos: ratePos, what: "rate byte", field: "", desc: "equal to the receiver's rate", risk: "the state of a hash with another rate (another function) is restored",
					valid: func(d int64, cfg map[string]int64) bool { return d == cfg["rate"] },
					lo:    func(cfg map[string]int64) int64 { return cfg["rate"] }, hi: func(cfg map[string]int64) int64 { return cfg["rate"] }},
				{pos: nPos, what: "n", field: "n", desc: "0..d.rate", risk: "Write/Sum slice the sponge buffer a[n:rate] out of range (panic)",
					valid: func(d int64, cfg map[string]int64) bool { return d <= cfg["rate"] },
					lo:    c07Const(0), hi: func(cfg map[string]int64) int64 { return cfg["rate"] }},
				{pos: nPos + 1, what: "state", field: "state", desc: "absorbing|squeezing", risk: "the sponge is in no defined direction",
					valid: func(d int64, _ map[string]int64) bool { return d == absorbing || d == squeezing },
					lo:    c07Const(absorbing), hi: c07Const(squeezing)},
			},
			// Keccak-256 (rate 136) and Keccak-512 (rate 72)
			cfgs:    []map[string]int64{{"rate": 136, "dsbyte": keccakDS}, {"rate": 72, "dsbyte": keccakDS}},
			badCfgs: []map[string]int64{{"rate": 136, "dsbyte": sha3DS}, {"rate": 136, "dsbyte": shakeDS}},
		})
	}
}

// input builds a marshaled state of length n: the magic, every specified byte
// set to vals[pos] (default: its low valid value), everything else filler.
func (f *c07Format) input(n int64, filler byte, cfg map[string]int64, high bool, vals map[int64]int64) []byte {
	full := make([]byte, max(n, f.size))
	for i := range full {
		full[i] = filler
	}
	copy(full, f.magic)
	for _, b := range f.bytes {
		v := b.lo(cfg)
		if high {
			v = b.hi(cfg)
		}
		if x, ok := vals[b.pos]; ok {
			v = x
		}
		full[b.pos] = byte(v)
	}
	return full[:n]
}

func c07Check(c *Ctx, fn *ssa.Function, f *c07Format) {
	name := f.pkg + "." + fnName(fn)
	if len(fn.Params) != 2 || len(fn.Blocks) == 0 {
		c.fail("anchor", name, fn, "UnmarshalBinary(b []byte) with a body expected (rule anchor lost)")
		return
	}
	cfgStr := func(cfg map[string]int64) string {
		if len(cfg) == 0 {
			return ""
		}
		var ks []string
		for k := range cfg {
			ks = append(ks, k)
		}
		sort.Strings(ks)
		s := " (receiver"
		for _, k := range ks {
			s += fmt.Sprintf(" %s=%d", k, cfg[k])
		}
		return s + ")"
	}
	// abnormal reports what is wrong with a run irrespective of accept/reject.
	abnormal := func(r c07Run) string {
		switch {
		case r.end == "undecided":
			return "the interpretation is undecided: " + r.why
		case r.end == "panic":
			return "UnmarshalBinary panics"
		case r.oob:
			at := ""
			if r.oobAt != nil {
				at = " at " + c.posStr(r.oobAt.Pos())
			}
			return "an index or slice expression leaves the input" + at
		}
		return ""
	}

	// ---- length ---------------------------------------------------------
	{
		bad, cases := "", 0
		var at poser = fn
		lens := []int64{f.size + 100, 2 * f.size}
		for n := int64(0); n <= f.size+16; n++ {
			lens = append(lens, n)
		}
		for _, n := range lens {
			for _, cfg := range f.cfgs {
				if bad != "" {
					break
				}
				r := c07Interp(fn, f.typ, f.input(n, 0x5a, cfg, false, nil), cfg, f)
				cases++
				if a := abnormal(r); a != "" {
					bad = fmt.Sprintf("input of length %d (marshaledSize is %d)%s: %s", n, f.size, cfgStr(cfg), a)
				} else if r.end == "accept" && n != f.size {
					bad = fmt.Sprintf("input of length %d (marshaledSize is %d) can reach the nil-error return", n, f.size)
				} else if r.end != "accept" && n == f.size {
					bad = fmt.Sprintf("a well-formed input of exactly marshaledSize (%d) bytes%s is rejected", n, cfgStr(cfg))
				}
				if bad != "" && r.last != nil {
					at = r.last
				}
			}
		}
		c.check(bad == "", "C07.length", name+" length guard", at,
			fmt.Sprintf("only len(b) == marshaledSize (%d) returns nil; no index or slice leaves the input (%d inputs interpreted)", f.size, cases), bad)
	}

	// ---- magic ----------------------------------------------------------
	{
		bad, cases := "", 0
		var at poser = fn
		try := func(in []byte, cfg map[string]int64, what string) {
			if bad != "" {
				return
			}
			r := c07Interp(fn, f.typ, in, cfg, f)
			cases++
			if a := abnormal(r); a != "" {
				bad = what + cfgStr(cfg) + ": " + a
			} else if r.end == "accept" {
				bad = what + cfgStr(cfg) + " is accepted (nil error): a state of another hash function can be restored"
			}
			if bad != "" && r.last != nil {
				at = r.last
			}
		}
		for _, cfg := range f.cfgs {
			for i := range f.magic {
				for _, x := range []byte{0x01, 0x20, 0xff} {
					in := f.input(f.size, 0x5a, cfg, false, nil)
					in[i] ^= x
					try(in, cfg, fmt.Sprintf("identifier byte %d changed from %#x to %#x", i, f.magic[i], in[i]))
				}
			}
		}
		for _, cfg := range f.badCfgs {
			try(f.input(f.size, 0x5a, cfg, false, nil), cfg, "a well-formed state unmarshaled into a receiver of another function family")
		}
		c.check(bad == "", "C07.magic", name+" identifier", at,
			fmt.Sprintf("every corrupted identifier is rejected (%d inputs interpreted)", cases), bad)
	}

	// ---- range of every specified byte, restored value ------------------
	tabled := map[string]bool{}
	for _, b := range f.bytes {
		if b.field != "" {
			tabled[b.field] = true
		}
	}
	// other integer fields stored on accepting runs: field -> cfg index -> values seen
	type seen struct {
		vals    map[int64]bool
		unknown bool
	}
	others := map[string]map[int]*seen{}
	// Two contexts (the other specified bytes at their lowest / highest valid
	// value, filler 0x00 / 0xff). All bytes are swept in the low context first,
	// so that a defect is reported at the byte whose own test is wrong and not
	// at a byte that merely had the defective one in its context.
	bads := make([]string, len(f.bytes))
	ats := make([]poser, len(f.bytes))
	cases := make([]int, len(f.bytes))
	anyBad := false
	for _, high := range []bool{false, true} {
		filler := byte(0x00)
		if high {
			filler = 0xff
		}
		for bi, b := range f.bytes {
			for ci, cfg := range f.cfgs {
				for d := int64(0); d < 256 && !anyBad; d++ {
					in := f.input(f.size, filler, cfg, high, map[int64]int64{b.pos: d})
					r := c07Interp(fn, f.typ, in, cfg, f)
					cases[bi]++
					id := fmt.Sprintf("byte value %d", d) + cfgStr(cfg)
					valid := b.valid(d, cfg)
					bad := ""
					switch a := abnormal(r); {
					case a != "":
						bad = id + ": " + a
					case r.end == "accept" && !valid:
						bad = id + " is outside the valid range " + b.desc + " but the nil-error return is still reached (no rejecting comparison): " + b.risk
					case r.end != "accept" && valid:
						bad = id + " is valid but UnmarshalBinary returns an error (over-strict check breaks Marshal/Unmarshal transparency)"
					case r.end == "accept" && b.field != "":
						if v, ok := r.stores[b.field]; !ok {
							bad = id + " is accepted but field " + b.field + " is not restored"
						} else if !v.ok || v.n != d {
							bad = id + " is accepted but field " + b.field + " is restored with a different value"
							if v.ok {
								bad += fmt.Sprintf(" (%d)", v.n)
							}
						}
					}
					if bad != "" {
						bads[bi], anyBad = bad, true
						if r.last != nil {
							ats[bi] = r.last
						}
					}
					if r.end == "accept" {
						for fld, v := range r.stores {
							if tabled[fld] {
								continue
							}
							if others[fld] == nil {
								others[fld] = map[int]*seen{}
							}
							s := others[fld][ci]
							if s == nil {
								s = &seen{vals: map[int64]bool{}}
								others[fld][ci] = s
							}
							if v.ok {
								s.vals[v.n] = true
							} else {
								s.unknown = true
							}
						}
					}
				}
			}
		}
	}
	for bi, b := range f.bytes {
		construct := name + " field " + b.what
		if b.field == "" {
			construct = name + " " + b.what
		}
		var at poser = fn
		if ats[bi] != nil {
			at = ats[bi]
		}
		c.check(bads[bi] == "", "C07.range", construct, at,
			fmt.Sprintf("nil error returned exactly for byte values %s, and the field restored with that value (%d inputs interpreted: 256 values x 2 contexts per receiver)", b.desc, cases[bi]), bads[bi])
	}

	// ---- no other integer field depends on the input ---------------------
	{
		var names []string
		for fld := range others {
			names = append(names, fld)
		}
		sort.Strings(names)
		bad := ""
		for _, fld := range names {
			for _, s := range others[fld] {
				if bad == "" && (s.unknown || len(s.vals) > 1) {
					bad = "integer field " + fld + " is restored from the input without a range specification in the checker table"
				}
			}
		}
		c.check(bad == "", "C07.untabled-field", name+" other integer fields", fn,
			"no integer field of the receiver other than the range-checked ones is stored with an input-dependent value", bad)
	}
}
