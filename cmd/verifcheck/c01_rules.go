package main

import (
	"fmt"
	"go/types"
	"strings"

	"golang.org/x/tools/go/ssa"
)

func c01SamePkgInline(pkg string, except func(*ssa.Function) bool) func(*ssa.Function) bool {
	return func(callee *ssa.Function) bool {
		if callee.Pkg == nil || short(callee.Pkg.Pkg.Path()) != pkg {
			return false
		}
		return except == nil || !except(callee)
	}
}

func c01IsByteSlice(t types.Type) bool {
	s, ok := t.Underlying().(*types.Slice)
	if !ok {
		return false
	}
	b, ok := s.Elem().Underlying().(*types.Basic)
	return ok && b.Kind() == types.Uint8
}

// c01X decides the extended-nonce construction by interpreting Seal and Open
// of the XChaCha type on a byte-accurate memory (c01Mem): whatever helpers,
// temporaries or standard-library calls build them, at the call that hands
// the work to the ChaCha20-Poly1305 AEAD
//   - the receiver's key bytes are the 32 output bytes of a call
//     HChaCha20(<the 32 key bytes of the XChaCha receiver>, <nonce bytes 0..15>),
//   - the nonce argument is 12 bytes: 0,0,0,0 followed by nonce bytes 16..23,
//   - dst, the text and the additional data are passed on whole and unchanged,
//
// and what that call returns is returned.
func c01X(c *Ctx, pkg string) {
	for _, m := range []struct{ name, inner string }{{"Seal", "seal"}, {"Open", "open"}} {
		f := c.fn(pkg, "(*xchacha20poly1305)."+m.name)
		if f == nil {
			continue
		}
		res := map[string]string{"subkey": "", "inner key": "", "inner nonce": "", "delegation": ""}
		und := ""
		if len(f.Params) != 5 {
			und = "unexpected signature"
		}
		for seed := 0; seed < 2 && und == ""; seed++ {
			r, u := c01XRun(f, pkg, m.inner, seed)
			und = u
			for k, v := range r {
				if res[k] == "" {
					res[k] = v
				}
			}
		}
		okDetail := map[string]string{
			"subkey":      "HChaCha20(receiver key, nonce[0:16])",
			"inner key":   "the inner AEAD key is the HChaCha20 output",
			"inner nonce": "12-byte nonce = 4 zero bytes | nonce[16:24]",
			"delegation":  "dst, text and additional data handed unchanged to " + m.inner + " of the re-keyed AEAD, its result returned",
		}
		for _, k := range []string{"subkey", "inner key", "inner nonce", "delegation"} {
			if und != "" {
				c.undecided("C01.xchacha", m.name+" "+k, f, "the interpretation of "+m.name+" did not reach a verdict: "+und)
				continue
			}
			c.check(res[k] == "", "C01.xchacha", m.name+" "+k, f, okDetail[k], res[k])
		}
	}
}

func c01XRun(f *ssa.Function, pkg, dir string, seed int) (map[string]string, string) {
	res := map[string]string{}
	mem := c01NewMem(seed)
	w := &pathWalker{env: newEnv(), lengths: true, maxSteps: 20000, assumeErrNil: true}
	lens := []int64{0, 5, 24, 40, 7}
	roles := []string{"recv", "dst", "nonce", "text", "ad"}
	for i := 1; i < 5; i++ {
		w.env.bind(f.Params[i], lens[i])
	}
	for i, p := range f.Params {
		mem.alias[p] = c01Loc{roles[i], 0}
	}
	keyField := c01ArrayField(f.Params[0].Type(), 32)
	if keyField == "" {
		return nil, "the receiver has no 32-byte key array"
	}
	xkey := mem.addInput("recv."+keyField, "key", 32)
	nonce := mem.addInput("nonce", "nonce", 24)
	type hcall struct {
		vals []int64
		bad  string
	}
	var hcs []hcall
	delegations := 0
	var dcall ssa.Value
	mem.attach(w)
	w.inline = c01SamePkgInline(pkg, func(cal *ssa.Function) bool { return c01Inner(cal, dir) })
	w.onLoad = func(w *pathWalker, u *ssa.UnOp) (int64, bool) {
		v, ok := mem.load(w, u)
		if !ok {
			delete(w.env.vals, u)
		}
		return v, ok
	}
	eq := func(a, b []int64) bool { return fmt.Sprint(a) == fmt.Sprint(b) }
	whole := func(w *pathWalker, v ssa.Value, role string, n int64) bool {
		l, ok := mem.resolve(w, v)
		k, okl := w.env.eval(v)
		return ok && okl && l == c01Loc{role, 0} && k == n
	}
	w.onCall = func(w *pathWalker, ci ssa.CallInstruction) string {
		cc := ci.Common()
		name := short(calleeName(cc))
		val, _ := ci.(ssa.Value)
		switch {
		case name == "chacha20.HChaCha20" && len(cc.Args) == 2 && val != nil:
			h := hcall{}
			kl, ok1 := mem.resolve(w, cc.Args[0])
			kn, _ := w.env.eval(cc.Args[0])
			nl, ok2 := mem.resolve(w, cc.Args[1])
			nn, _ := w.env.eval(cc.Args[1])
			var kb, nb []int64
			if ok1 {
				kb = mem.readN(kl, kn)
			}
			if ok2 {
				nb = mem.readN(nl, nn)
			}
			if !eq(kb, xkey) || !eq(nb, nonce[:16]) {
				h.bad = fmt.Sprintf("the XChaCha subkey is not HChaCha20(key, nonce[0:16]): called with key bytes %s and nonce bytes %s", mem.show(kb), mem.show(nb))
			}
			reg := fmt.Sprintf("H%d", len(hcs))
			h.vals = mem.addInput(reg, "HChaCha20", 32)
			hcs = append(hcs, h)
			c01SetTuple(w, val, 32, -1)
			c01Extracts(val, func(ex *ssa.Extract) {
				delete(mem.alias, ex)
				if ex.Index == 0 {
					mem.alias[ex] = c01Loc{reg, 0}
				}
			})
		case c01Inner(cc.StaticCallee(), dir) && len(cc.Args) == 5 && val != nil:
			delegations++
			dcall = val
			// key of the AEAD the work is handed to
			var kb []int64
			if rl, ok := mem.resolve(w, cc.Args[0]); ok && rl.off == 0 {
				if fld := c01ArrayField(cc.Args[0].Type(), 32); fld != "" {
					kb = mem.readN(c01Loc{rl.reg + "." + fld, 0}, 32)
				}
			}
			var h *hcall
			for i := range hcs {
				if eq(kb, hcs[i].vals) {
					h = &hcs[i]
				}
			}
			switch {
			case h == nil:
				res["inner key"] = "the inner AEAD is not keyed with the HChaCha20 output: its key bytes are " + mem.show(kb)
				if len(hcs) == 0 {
					res["subkey"] = "the XChaCha subkey is not HChaCha20(key, nonce[0:16]): HChaCha20 is not called"
				} else {
					res["subkey"] = hcs[len(hcs)-1].bad
				}
			default:
				res["subkey"] = h.bad
			}
			// derived nonce
			var nb []int64
			nn, _ := w.env.eval(cc.Args[2])
			if nl, ok := mem.resolve(w, cc.Args[2]); ok {
				nb = mem.readN(nl, nn)
			}
			want := append([]int64{0, 0, 0, 0}, nonce[16:24]...)
			if !eq(nb, want) {
				res["inner nonce"] = "the inner nonce is not 4 zero bytes followed by nonce[16:24]: it is " + mem.show(nb)
			}
			if !whole(w, cc.Args[1], "dst", lens[1]) || !whole(w, cc.Args[3], "text", lens[3]) || !whole(w, cc.Args[4], "ad", lens[4]) {
				res["delegation"] = "the extended-nonce " + f.Name() + " does not hand dst, the text and the additional data unchanged to the inner AEAD"
			}
			if dir == "seal" {
				w.env.bind(val, lens[1]+lens[3]+16)
				mem.alias[val] = c01Loc{"result", 0}
			} else {
				c01SetTuple(w, val, lens[1]+lens[3]-16, -1)
				c01Extracts(val, func(ex *ssa.Extract) {
					delete(mem.alias, ex)
					delete(mem.errVal, ex)
					if ex.Index == 0 {
						mem.alias[ex] = c01Loc{"result", 0}
					} else {
						mem.errVal[ex] = true
					}
				})
			}
		default:
			mem.model(w, ci)
		}
		return ""
	}
	end := w.walk(f.Blocks[0], nil)
	if end != "return" {
		return nil, "evaluation ended with " + end + " " + w.why
	}
	if w.oob {
		return nil, "a slice or index expression leaves its bounds"
	}
	bad := "the extended-nonce " + f.Name() + " does not delegate to the inner AEAD with the derived key and nonce"
	if delegations != 1 {
		for _, k := range []string{"subkey", "inner key", "inner nonce", "delegation"} {
			if res[k] == "" {
				res[k] = fmt.Sprintf("%s (%d calls of its %s reached)", bad, delegations, dir)
			}
		}
		return res, ""
	}
	ret := w.last.(*ssa.Return)
	okRet := len(ret.Results) >= 1
	if okRet {
		l, ok := mem.resolve(w, ret.Results[0])
		n, okn := w.env.eval(ret.Results[0])
		wantLen := lens[1] + lens[3] + 16
		if dir == "open" {
			wantLen = lens[1] + lens[3] - 16
		}
		okRet = ok && okn && l == c01Loc{"result", 0} && n == wantLen
		if dir == "open" {
			okRet = okRet && len(ret.Results) == 2 && mem.errVal[ret.Results[1]]
		}
	}
	_ = dcall
	if !okRet && res["delegation"] == "" {
		res["delegation"] = bad + ": the inner result is not what is returned"
	}
	return res, ""
}

// c01Entry decides the documented guards of the four exported entry points by
// interpreting each (helpers inlined, so a guard may sit in the method or in
// any helper) for a table of nonce and input lengths: a wrong nonce length
// and an over-long input end in a panic before the implementation is called,
// an Open input shorter than the tag returns (nil, errOpen) without calling
// it, and every valid call reaches the implementation exactly on the
// no-panic path.
func c01Entry(c *Ctx, pkg string) {
	for _, t := range []struct {
		typ      string
		nonceLen int64
	}{{"chacha20poly1305", 12}, {"xchacha20poly1305", 24}} {
		for _, m := range []string{"Seal", "Open"} {
			f := c.fn(pkg, "(*"+t.typ+")."+m)
			if f == nil {
				continue
			}
			if len(f.Params) != 5 {
				c.undecided("C01.entry", t.typ+"."+m, f, "unexpected signature")
				continue
			}
			bad, und := "", ""
			inner := strings.ToLower(m)
			for _, nl := range []int64{0, 8, 12, 16, 24, 32} {
				for _, tl := range []int64{0, 15, 16, 17, 100, 1<<38 - 64, 1<<38 - 63, 1<<38 - 48, 1<<38 - 47} {
					w := &pathWalker{env: newEnv(), lengths: true, maxSteps: 20000, assumeErrNil: true}
					w.env.bind(f.Params[1], 5)
					w.env.bind(f.Params[2], nl)
					w.env.bind(f.Params[3], tl)
					w.env.bind(f.Params[4], 7)
					reached := false
					via := map[ssa.Value]ssa.Value{}
					w.onPhi = func(w *pathWalker, ph *ssa.Phi, in ssa.Value) { via[ph] = in }
					w.onReturn = func(parent, child *pathWalker, call *ssa.Call, results []ssa.Value) {
						if len(results) == 1 {
							via[call] = results[0]
							return
						}
						c01Extracts(call, func(ex *ssa.Extract) {
							if ex.Index < len(results) {
								via[ex] = results[ex.Index]
							}
						})
					}
					w.inline = c01SamePkgInline(pkg, func(cal *ssa.Function) bool { return cal != f && c01Inner(cal, inner) })
					w.onCall = func(w *pathWalker, ci ssa.CallInstruction) string {
						if cal := ci.Common().StaticCallee(); cal != f && c01Inner(cal, inner) {
							reached = true
						}
						return ""
					}
					end := w.walk(f.Blocks[0], nil)
					limit := int64(1<<38 - 64)
					if m == "Open" {
						limit = 1<<38 - 48
					}
					wantShort := m == "Open" && nl == t.nonceLen && tl < 16
					wantPanic := nl != t.nonceLen || tl > limit
					id := fmt.Sprintf("nonce length %d, input length %d", nl, tl)
					if end != "return" && end != "panic" && !reached {
						und = id + ": evaluation ended with " + end + " " + w.why
						continue
					}
					switch {
					case wantPanic && (end != "panic" || reached):
						bad = id + ": no panic"
					case wantShort:
						ret, _ := w.last.(*ssa.Return)
						if reached || end != "return" || ret == nil || len(ret.Results) != 2 || !isNilConst(c01Through(via, retVal(ret, 0))) || !isGlobalLoad(c01Through(via, retVal(ret, 1)), "errOpen") {
							bad = fmt.Sprintf("input length %d shorter than the tag is not rejected with (nil, errOpen)", tl)
						}
					case !wantPanic && (!reached || end == "panic"):
						bad = id + ": valid call does not reach the implementation"
					}
				}
			}
			if bad == "" && und != "" {
				c.undecided("C01.entry", t.typ+"."+m, f, und)
				continue
			}
			c.check(bad == "", "C01.entry", t.typ+"."+m, f, "nonce length, size limit and minimum length guards as documented", bad)
		}
	}
}

// c01AsmState decides what the assembly routines are handed. seal and open of
// the AEAD type are interpreted on the byte-accurate memory with every
// package-level feature switch first off, then on, with and without spare
// capacity in dst; wherever the call of a body-less (assembly) function of the
// package sits — in the method or in a helper — at that call
//   - the []uint32 argument is 16 words: the four RFC 8439 constants, the eight
//     little-endian words of the receiver's key, a zero block counter, the
//     three little-endian words of the nonce (however they were put there:
//     unrolled stores, loops, helpers, encoding/binary or shifts),
//   - the byte-slice arguments are, in this order, the whole output region
//     right behind dst's bytes, the text (Open: without the tag) and the
//     additional data,
//
// and the method returns dst's bytes followed by that output region (Open:
// with a nil error when the routine reports success; (nil, errOpen) and a
// zeroed output region when it does not). Every such call site of the
// package must be reached by one of these runs.
func c01AsmState(c *Ctx, pkg string, asmBuild bool) {
	sp := c.ssaPkg(pkg)
	if sp == nil {
		return
	}
	isAsm := func(cal *ssa.Function) bool {
		if cal == nil || cal.Pkg != sp || len(cal.Blocks) != 0 {
			return false
		}
		ps := cal.Signature.Params()
		for i := 0; i < ps.Len(); i++ {
			if s, ok := ps.At(i).Type().Underlying().(*types.Slice); ok {
				if b, ok := s.Elem().Underlying().(*types.Basic); ok && b.Kind() == types.Uint32 {
					return true
				}
			}
		}
		return false
	}
	sites := map[ssa.CallInstruction]bool{}
	for _, fn := range c.funcsOfPkg(pkg) {
		allInstrs(fn, func(in ssa.Instruction) {
			if ci, ok := in.(ssa.CallInstruction); ok && isAsm(ci.Common().StaticCallee()) {
				sites[ci] = false
			}
		})
	}
	if len(sites) == 0 {
		if asmBuild {
			c.undecided("C01.dispatch", "assembly initial state", nil, "no call of an assembly routine taking a []uint32 state found in the package")
		}
		return
	}
	consts := []int64{0x61707865, 0x3320646e, 0x79622d32, 0x6b206574}
	for _, dir := range []string{"seal", "open"} {
		f := c.fn(pkg, "(*chacha20poly1305)."+dir)
		if f == nil {
			continue
		}
		if len(f.Params) != 5 {
			c.undecided("C01.dispatch", dir+" assembly arguments", f, "unexpected signature")
			continue
		}
		badState, badArgs, badRet, und := "", "", "", ""
		reachedHere := 0
		verdicts := []int64{1}
		if dir == "open" {
			verdicts = []int64{1, 0}
		}
		for seed := 0; seed < 2; seed++ {
			for _, sw := range []int64{0, 1} {
				for _, spare := range []bool{false, true} {
					for _, verdict := range verdicts {
						mem := c01NewMem(seed)
						w := &pathWalker{env: newEnv(), lengths: true, maxSteps: 30000, assumeErrNil: true}
						lens := []int64{0, 5, 12, 40, 7}
						roles := []string{"recv", "dst", "nonce", "text", "ad"}
						for i := 1; i < 5; i++ {
							w.env.bind(f.Params[i], lens[i])
						}
						for i, p := range f.Params {
							mem.alias[p] = c01Loc{roles[i], 0}
						}
						keyField := c01ArrayField(f.Params[0].Type(), 32)
						key := mem.addInput("recv."+keyField, "key", 32)
						nonce := mem.addInput("nonce", "nonce", 12)
						dstIn := mem.addInput("dst", "dst", 5)
						n := lens[3]
						outLen := n + 16
						if dir == "open" {
							n -= 16
							outLen = n
						}
						mem.attach(w)
						w.inline = c01SamePkgInline(pkg, nil)
						w.onLoad = func(w *pathWalker, u *ssa.UnOp) (int64, bool) {
							if g, ok := u.X.(*ssa.Global); ok && g.Pkg == sp {
								if b, ok := u.Type().Underlying().(*types.Basic); ok && b.Kind() == types.Bool {
									return sw, true
								}
							}
							v, ok := mem.load(w, u)
							if !ok {
								delete(w.env.vals, u)
							}
							return v, ok
						}
						id := fmt.Sprintf("%s with spare capacity=%v: ", dir, spare)
						var outLoc c01Loc
						seen := 0
						w.onCall = func(w *pathWalker, ci ssa.CallInstruction) string {
							cc := ci.Common()
							name := short(calleeName(cc))
							val, _ := ci.(ssa.Value)
							switch {
							case name == "builtin:cap" && val != nil:
								if l, ok := w.env.eval(cc.Args[0]); ok {
									if spare {
										l += 1000
									}
									w.env.bind(val, l)
								}
							case strings.HasSuffix(name, "alias.InexactOverlap"), strings.HasSuffix(name, "alias.AnyOverlap"):
								w.env.bind(val, 0)
							case isAsm(cc.StaticCallee()):
								sites[ci] = true
								seen++
								reachedHere++
								var bytesArgs []ssa.Value
								var st ssa.Value
								for _, a := range cc.Args {
									if c01IsByteSlice(a.Type()) {
										bytesArgs = append(bytesArgs, a)
									} else if _, ok := a.Type().Underlying().(*types.Slice); ok {
										st = a
									}
								}
								// state block
								var got []int64
								if st != nil {
									if l, ok := mem.resolve(w, st); ok {
										k, _ := w.env.eval(st)
										got = mem.readN(l, k)
									}
								}
								var want []int64
								want = append(want, consts...)
								le := func(b []int64) int64 { return b[0] | b[1]<<8 | b[2]<<16 | b[3]<<24 }
								for i := 0; i < 8; i++ {
									want = append(want, le(key[4*i:]))
								}
								want = append(want, 0)
								for i := 0; i < 3; i++ {
									want = append(want, le(nonce[4*i:]))
								}
								if len(got) != 16 {
									badState = fmt.Sprintf("%sthe state handed to the assembly has %d words, not 16", id, len(got))
								} else {
									diff := ""
									for i := range want {
										if got[i] != want[i] {
											diff += fmt.Sprintf("state[%d]=%s (want %s) ", i, mem.showWord(got[i]), mem.showWord(want[i]))
										}
									}
									if diff != "" {
										badState = id + "the initial state handed to the assembly is not the RFC 8439 layout: " + diff
									}
								}
								// byte-slice arguments: output region, text, additional data
								if len(bytesArgs) != 3 {
									badArgs = id + "the assembly routine is not called with three byte slices (output, input, additional data)"
									break
								}
								ol, ok0 := mem.resolve(w, bytesArgs[0])
								on, _ := w.env.eval(bytesArgs[0])
								tl, ok1 := mem.resolve(w, bytesArgs[1])
								tn, _ := w.env.eval(bytesArgs[1])
								al, ok2 := mem.resolve(w, bytesArgs[2])
								an, _ := w.env.eval(bytesArgs[2])
								outLoc = ol
								head := mem.readN(c01Loc{ol.reg, 0}, lens[1])
								switch {
								case !ok0 || ol.off != lens[1] || on != outLen || fmt.Sprint(head) != fmt.Sprint(dstIn):
									badArgs = fmt.Sprintf("%sthe assembly output argument is not the %d-byte region right behind dst's %d bytes (offset %d, length %d, preceded by %s)", id, outLen, lens[1], ol.off, on, mem.show(head))
								case !ok1 || tl != c01Loc{"text", 0} || tn != n:
									badArgs = fmt.Sprintf("%sthe assembly input argument is not the %d text bytes", id, n)
								case !ok2 || al != c01Loc{"ad", 0} || an != lens[4]:
									badArgs = id + "the assembly is not given the additional data"
								}
								if dir == "open" && val != nil {
									w.env.bind(val, verdict)
								}
							default:
								mem.model(w, ci)
							}
							return ""
						}
						end := w.walk(f.Blocks[0], nil)
						if seen == 0 {
							continue // this switch setting takes the portable path (decided by C01.construction)
						}
						if end != "return" || w.oob {
							und = id + "evaluation ended with " + end + " " + w.why
							continue
						}
						if seen != 1 {
							badArgs = id + "more than one assembly call on one path"
						}
						ret := w.last.(*ssa.Return)
						if verdict == 1 {
							l, ok := mem.resolve(w, ret.Results[0])
							k, _ := w.env.eval(ret.Results[0])
							if !ok || l != (c01Loc{outLoc.reg, 0}) || k != lens[1]+outLen || (dir == "open" && !isNilConst(mem.through(retVal(ret, 1)))) {
								badRet = id + "the method does not return dst followed by the region the assembly wrote (with a nil error)"
							}
						} else {
							if !isNilConst(mem.through(retVal(ret, 0))) || !isGlobalLoad(mem.through(retVal(ret, 1)), "errOpen") {
								badRet = id + "a failed Open does not return (nil, errOpen)"
							}
							for i, v := range mem.readN(outLoc, outLen) {
								if v != 0 {
									badRet = fmt.Sprintf("%sa failed Open leaves output byte %d unzeroed", id, i)
									break
								}
							}
						}
					}
				}
			}
		}
		if reachedHere == 0 {
			c.undecided("C01.dispatch", dir+" assembly arguments", f, "no assembly call reached from "+dir+" under any setting of the package's feature switches")
			continue
		}
		if und != "" && badState == "" && badArgs == "" && badRet == "" {
			c.undecided("C01.dispatch", dir+" assembly arguments", f, und)
			continue
		}
		c.check(badState == "", "C01.dispatch", dir+" assembly initial state", f, "constants | key | counter 0 | nonce (RFC 8439 2.3)", badState)
		c.check(badArgs == "" && badRet == "", "C01.dispatch", dir+" assembly arguments", f, "output region behind dst, text, additional data; result returned", badArgs+badRet)
	}
	for ci, hit := range sites {
		if !hit {
			c.undecided("C01.dispatch", "assembly call site", ci, "this assembly call is not reached from seal/open of the AEAD type, its arguments were not checked")
		}
	}
}
