package main

import (
	"fmt"
	"go/token"
	"go/types"
	"strings"

	"golang.org/x/tools/go/ssa"
)

// Type binding and options freshness for C38, decided by role and across
// helpers instead of by the shape of one function.
//
// The fact decided for a function F that returns a public key: every return of
// F that carries a key K (and an error that may be nil) can only be reached
// after the equality
//
//	K.Type() == <a token computed from the input text>
//
// has been established for that very key. "Established" is a value-sensitive,
// interprocedural notion (c38Gate.implies): the true edge of `tok == K.Type()`,
// the false edge of `K.Type() != tok`, bytes.Equal on the []byte forms, the
// success (nil error / true / non-nil key) state of the result of a
// same-package helper all of whose returns in that state lie behind the
// comparison, negations, `x == nil`, phis whose every incoming edge is
// justified. K is followed through phis and helper results (the key a helper
// returns is the key the caller returns) and into helper parameters (a key
// handed to `checkType(tok, key)` is compared there).

// c38IsKeyType: the static type is an interface called PublicKey (ssh.PublicKey).
func c38IsKeyType(t types.Type) bool {
	n, ok := t.(*types.Named)
	if !ok {
		if a, isA := t.(*types.Alias); isA {
			return c38IsKeyType(types.Unalias(a))
		}
		return false
	}
	if _, isI := n.Underlying().(*types.Interface); !isI {
		return false
	}
	return n.Obj().Name() == "PublicKey"
}

func c38StripIface(v ssa.Value) ssa.Value {
	for {
		switch x := v.(type) {
		case *ssa.ChangeInterface:
			v = x.X
		case *ssa.ChangeType:
			v = x.X
		case *ssa.TypeAssert:
			v = x.X
		default:
			return v
		}
	}
}

// c38Family: the SSA values that denote the key K: K itself, the values merged
// into it by phis, the values a same-package helper returns for it (upwards,
// depth <= 3) and the helper parameters it is passed to (downwards, depth <= 3).
func c38Family(k ssa.Value) map[ssa.Value]bool {
	fam := map[ssa.Value]bool{}
	var up func(v ssa.Value, d int)
	var down func(v ssa.Value, d int)
	down = func(v ssa.Value, d int) {
		refs := v.Referrers()
		if refs == nil || d > 3 {
			return
		}
		for _, r := range *refs {
			switch x := r.(type) {
			case *ssa.ChangeInterface:
				if !fam[x] {
					fam[x] = true
					down(x, d)
				}
			case *ssa.ChangeType:
				if !fam[x] {
					fam[x] = true
					down(x, d)
				}
			case *ssa.Phi:
				// a phi that merges only family members is the same key
				all := true
				for _, e := range x.Edges {
					if !fam[e] && e != ssa.Value(x) {
						all = false
					}
				}
				if all && !fam[x] {
					fam[x] = true
					down(x, d)
				}
			case *ssa.Call:
				h := samePkgCallee(x.Parent(), &x.Call)
				if h == nil {
					continue
				}
				for i, a := range x.Call.Args {
					if a == v && i < len(h.Params) && !fam[h.Params[i]] {
						fam[h.Params[i]] = true
						down(h.Params[i], d+1)
					}
				}
			}
		}
	}
	up = func(v ssa.Value, d int) {
		v = c38StripIface(v)
		if v == nil || fam[v] {
			return
		}
		if _, isC := v.(*ssa.Const); isC {
			return
		}
		fam[v] = true
		down(v, 0)
		switch x := v.(type) {
		case *ssa.Phi:
			for _, e := range x.Edges {
				up(e, d)
			}
		case *ssa.Extract:
			if call, ok := x.Tuple.(*ssa.Call); ok && d < 3 {
				if h := samePkgCallee(call.Parent(), &call.Call); h != nil {
					for _, r := range returnsOf(h) {
						if x.Index < len(r.Results) {
							up(retVal(r, x.Index), d+1)
						}
					}
				}
			}
		case *ssa.Call:
			if h := samePkgCallee(x.Parent(), &x.Call); h != nil && d < 3 && x.Call.Signature().Results().Len() == 1 {
				for _, r := range returnsOf(h) {
					up(retVal(r, 0), d+1)
				}
			}
		}
	}
	up(k, 0)
	return fam
}

// c38TypeOfKey: v is `k.Type()` (possibly converted to []byte) for an interface
// value k of the family; returns k.
func c38TypeOfKey(v ssa.Value, fam map[ssa.Value]bool) (ssa.Value, bool) {
	for {
		switch x := v.(type) {
		case *ssa.Convert:
			v = x.X
			continue
		case *ssa.ChangeType:
			v = x.X
			continue
		}
		break
	}
	call, ok := v.(*ssa.Call)
	if !ok || !call.Call.IsInvoke() || call.Call.Method.Name() != "Type" || call.Call.Signature().Params().Len() != 0 {
		return nil, false
	}
	k := c38StripIface(call.Call.Value)
	if !fam[k] && !fam[call.Call.Value] {
		return nil, false
	}
	return k, true
}

// c38IsToken: v is text taken from the input: it is computed from a []byte or
// string parameter of its function without going through the key (a value of
// the family, any PublicKey value, or a Type() call). Constants are not tokens.
func c38IsToken(v ssa.Value, fam map[ssa.Value]bool) bool {
	seen := map[ssa.Value]bool{}
	work := []ssa.Value{v}
	for n := 0; len(work) > 0 && n < 6000; n++ {
		x := work[len(work)-1]
		work = work[:len(work)-1]
		if x == nil || seen[x] {
			continue
		}
		seen[x] = true
		if fam[x] || c38IsKeyType(x.Type()) {
			continue
		}
		switch y := x.(type) {
		case *ssa.Parameter:
			switch t := y.Type().Underlying().(type) {
			case *types.Slice:
				if b, ok := t.Elem().Underlying().(*types.Basic); ok && b.Kind() == types.Byte {
					return true
				}
			case *types.Basic:
				if t.Kind() == types.String {
					return true
				}
			}
			continue
		case *ssa.Const, *ssa.Global, *ssa.Function, *ssa.Builtin, *ssa.FreeVar, *ssa.Alloc:
			continue
		case *ssa.Call:
			if y.Call.IsInvoke() && y.Call.Method.Name() == "Type" {
				continue
			}
		}
		in, ok := x.(ssa.Instruction)
		if !ok {
			continue
		}
		for _, op := range in.Operands(nil) {
			if *op != nil {
				work = append(work, *op)
			}
		}
	}
	return false
}

type c38St int

const (
	c38True c38St = iota
	c38False
	c38Nil
	c38NonNil
)

func (s c38St) flip() c38St {
	switch s {
	case c38True:
		return c38False
	case c38False:
		return c38True
	case c38Nil:
		return c38NonNil
	}
	return c38Nil
}

type c38Key struct {
	v  ssa.Value
	st c38St
}

type c38Gate struct {
	fam    map[ssa.Value]bool
	pass   map[*ssa.Function]edgeSet
	done   map[*ssa.Function]bool
	busy   map[*ssa.Function]bool
	stack  map[c38Key]bool
	nGates int
	// valGate: v being in state st establishes the condition by itself (used by
	// rules whose gate is "this call returned nil" rather than a comparison)
	valGate func(v ssa.Value, st c38St) bool
}

func c38NewGate(fam map[ssa.Value]bool) *c38Gate {
	return &c38Gate{fam: fam, pass: map[*ssa.Function]edgeSet{}, done: map[*ssa.Function]bool{}, busy: map[*ssa.Function]bool{}, stack: map[c38Key]bool{}}
}

// isGate: v is true exactly when (pol) / exactly when not (!pol) the Type() of
// the key equals an input token.
func (g *c38Gate) isGate(v ssa.Value) (pol bool, ok bool) {
	pair := func(a, b ssa.Value) bool {
		for _, p := range [][2]ssa.Value{{a, b}, {b, a}} {
			if _, isT := c38TypeOfKey(p[0], g.fam); isT && c38IsToken(p[1], g.fam) {
				return true
			}
		}
		return false
	}
	switch x := v.(type) {
	case *ssa.BinOp:
		if (x.Op == token.EQL || x.Op == token.NEQ) && pair(x.X, x.Y) {
			return x.Op == token.EQL, true
		}
	case *ssa.Call:
		switch calleeName(&x.Call) {
		case "bytes.Equal":
			if len(x.Call.Args) == 2 && pair(x.Call.Args[0], x.Call.Args[1]) {
				return true, true
			}
		}
	}
	return false, false
}

func (g *c38Gate) passOf(F *ssa.Function) edgeSet {
	if F == nil {
		return edgeSet{}
	}
	if g.done[F] || g.busy[F] {
		return g.pass[F]
	}
	g.busy[F] = true
	g.pass[F] = edgeSet{}
	allInstrs(F, func(in ssa.Instruction) {
		if v, ok := in.(ssa.Value); ok {
			if _, is := g.isGate(v); is {
				g.nGates++
			}
		}
	})
	for changed := true; changed; {
		changed = false
		for _, b := range F.Blocks {
			if len(b.Instrs) == 0 {
				continue
			}
			iff, ok := b.Instrs[len(b.Instrs)-1].(*ssa.If)
			if !ok {
				continue
			}
			if !g.pass[F][edge{b, 0}] && g.implies(iff.Cond, c38True) {
				g.pass[F][edge{b, 0}] = true
				changed = true
			}
			if !g.pass[F][edge{b, 1}] && g.implies(iff.Cond, c38False) {
				g.pass[F][edge{b, 1}] = true
				changed = true
			}
		}
	}
	g.busy[F] = false
	g.done[F] = true
	return g.pass[F]
}

func (g *c38Gate) blockGated(b *ssa.BasicBlock) bool {
	F := b.Parent()
	return !reach([]*ssa.BasicBlock{F.Blocks[0]}, g.passOf(F))[b]
}

func (g *c38Gate) edgeGated(pred, succ *ssa.BasicBlock) bool {
	cut := g.passOf(pred.Parent())
	open := false
	for i, s := range pred.Succs {
		if s == succ && !cut[edge{pred, i}] {
			open = true
		}
	}
	if !open {
		return true
	}
	return g.blockGated(pred)
}

// implies: whenever v is in state st the binding has been established.
func (g *c38Gate) implies(v ssa.Value, st c38St) bool {
	k := c38Key{v, st}
	if g.stack[k] {
		return true // loop-carried flag: decided by its other sources
	}
	if len(g.stack) > 64 {
		return false
	}
	g.stack[k] = true
	defer delete(g.stack, k)

	if g.valGate != nil && g.valGate(v, st) {
		return true
	}
	if pol, ok := g.isGate(v); ok {
		switch st {
		case c38True:
			return pol
		case c38False:
			return !pol
		}
		return false
	}
	switch x := v.(type) {
	case *ssa.Const:
		if b, ok := constBool(x); ok {
			return (st == c38True && !b) || (st == c38False && b) // cannot be in that state
		}
		if x.IsNil() {
			return st == c38NonNil
		}
		return false
	case *ssa.UnOp:
		if x.Op == token.NOT {
			return g.implies(x.X, st.flip())
		}
		return false
	case *ssa.BinOp:
		if (x.Op != token.EQL && x.Op != token.NEQ) || (st != c38True && st != c38False) {
			return false
		}
		equal := (x.Op == token.EQL) == (st == c38True)
		for _, pair := range [][2]ssa.Value{{x.X, x.Y}, {x.Y, x.X}} {
			cst, ok := pair[1].(*ssa.Const)
			if !ok {
				continue
			}
			if cst.IsNil() {
				if equal {
					return g.implies(pair[0], c38Nil)
				}
				return g.implies(pair[0], c38NonNil)
			}
			if b, ok := constBool(cst); ok {
				if equal == b {
					return g.implies(pair[0], c38True)
				}
				return g.implies(pair[0], c38False)
			}
		}
		return false
	case *ssa.Phi:
		for i, e := range x.Edges {
			if c38EdgeExcludes(x.Block().Preds[i], x.Block(), e, st) {
				continue // e cannot be in state st when it arrives over this edge
			}
			if g.implies(e, st) {
				continue
			}
			if g.edgeGated(x.Block().Preds[i], x.Block()) {
				continue
			}
			return false
		}
		return true
	case *ssa.Extract:
		if call, ok := x.Tuple.(*ssa.Call); ok {
			return g.calleeImplies(call, x.Index, st)
		}
		return false
	case *ssa.Call:
		if x.Call.Signature().Results().Len() == 1 {
			return g.calleeImplies(x, 0, st)
		}
		return false
	case *ssa.MakeInterface, *ssa.Alloc, *ssa.MakeSlice, *ssa.MakeMap, *ssa.MakeClosure, *ssa.Function:
		return st == c38Nil // never nil
	case *ssa.ChangeInterface:
		return g.implies(x.X, st)
	case *ssa.ChangeType:
		return g.implies(x.X, st)
	}
	return false
}

// c38EdgeExcludes: value e cannot be in state st on the CFG edge pred->succ:
// pred branches on `e == nil` / `e != nil` (or on e itself, for booleans) and
// this edge is the other side; or an error value is known non-nil / nil at
// pred by dominance (errNilness).
func c38EdgeExcludes(pred, succ *ssa.BasicBlock, e ssa.Value, st c38St) bool {
	if len(pred.Instrs) > 0 {
		if iff, ok := pred.Instrs[len(pred.Instrs)-1].(*ssa.If); ok && pred.Succs[0] != pred.Succs[1] {
			onTrue := pred.Succs[0] == succ
			cond := iff.Cond
			neg := false
			for {
				u, isU := cond.(*ssa.UnOp)
				if !isU || u.Op != token.NOT {
					break
				}
				cond, neg = u.X, !neg
			}
			holds := onTrue != neg // truth value of cond on this edge
			if cond == e {
				if (st == c38True && !holds) || (st == c38False && holds) {
					return true
				}
			}
			if bo, isB := cond.(*ssa.BinOp); isB && (bo.Op == token.EQL || bo.Op == token.NEQ) {
				if (bo.X == e && isNilConst(bo.Y)) || (bo.Y == e && isNilConst(bo.X)) {
					isNilHere := (bo.Op == token.EQL) == holds
					if (st == c38Nil && !isNilHere) || (st == c38NonNil && isNilHere) {
						return true
					}
				}
			}
		}
	}
	if (st == c38Nil || st == c38NonNil) && types.Identical(e.Type(), types.Universe.Lookup("error").Type()) {
		switch errNilness(e, pred, 0) {
		case neverNil:
			return st == c38Nil
		case definitelyNil:
			return st == c38NonNil
		}
	}
	return false
}

// calleeImplies: result #idx of the call is in state st only if the binding was
// established inside the (same-package, static) callee: every return of the
// callee either cannot deliver that state, or delivers a value that implies the
// binding, or lies behind a pass edge of the callee.
func (g *c38Gate) calleeImplies(call *ssa.Call, idx int, st c38St) bool {
	H := samePkgCallee(call.Parent(), &call.Call)
	if H == nil {
		if st == c38Nil {
			switch calleeName(&call.Call) {
			case "fmt.Errorf", "errors.New":
				return true // never nil
			}
		}
		return false
	}
	if g.busy[H] {
		return false // recursion: not summarised
	}
	rs := returnsOf(H)
	if len(rs) == 0 {
		return false
	}
	for _, r := range rs {
		if idx >= len(r.Results) {
			return false
		}
		rv := retVal(r, idx)
		if st == c38Nil || st == c38NonNil {
			if types.Identical(rv.Type(), types.Universe.Lookup("error").Type()) {
				switch errNilness(rv, r.Block(), 0) {
				case neverNil:
					if st == c38Nil {
						continue
					}
				case definitelyNil:
					if st == c38NonNil {
						continue
					}
				}
			}
		}
		if g.implies(rv, st) || g.blockGated(r.Block()) {
			continue
		}
		return false
	}
	return true
}

// c38KeyedReturns: returns of f that may succeed (error result not provably
// non-nil) and carry a key; with the index of the key result.
type c38Ret struct {
	r   *ssa.Return
	idx int
}

func c38KeyedReturns(f *ssa.Function) []c38Ret {
	var out []c38Ret
	res := f.Signature.Results()
	errIdx := res.Len() - 1
	for _, t := range acceptReturns(f, errIdx) {
		r := t.(*ssa.Return)
		for i := 0; i < len(r.Results); i++ {
			if c38IsKeyType(res.At(i).Type()) && !isNilConst(retVal(r, i)) {
				out = append(out, c38Ret{r, i})
			}
		}
	}
	return out
}

// c38TypeBinding emits one obligation per key-carrying return of f.
func (c *Ctx) c38TypeBinding(construct string, f *ssa.Function) {
	const what = "declared key type == parsed key's Type()"
	keyed := c38KeyedReturns(f)
	if len(keyed) == 0 {
		c.fail("C38.type-binding", construct, f, "no key-carrying return found for "+what+" (rule anchor lost)")
		return
	}
	edges := 0
	for _, kr := range keyed {
		fam := c38Family(retVal(kr.r, kr.idx))
		g := c38NewGate(fam)
		cut := g.passOf(f)
		if len(cut) == 0 && g.nGates == 0 {
			c.fail("C38.type-binding", construct, kr.r, "gate not found: "+what+" (no branch in "+fnName(f)+" or its helpers depends on comparing the Type() of the key returned here with a token of the input)")
			return
		}
		if reach([]*ssa.BasicBlock{f.Blocks[0]}, cut)[kr.r.Block()] {
			c.fail("C38.type-binding", construct, kr.r, "reachable without passing "+what+" for the key returned here")
			return
		}
		edges += len(cut)
	}
	c.ok("C38.type-binding", construct, keyed[0].r, fmt.Sprintf("every path to the %d key-carrying return(s) passes %s, compared on the returned key itself (%d pass edge(s) in %s, helper results included)", len(keyed), what, edges, fnName(f)))
}

// c38Leaves: the values v can be, looking through phis and the results of
// same-package helpers (depth <= 3).
func c38Leaves(v ssa.Value) []ssa.Value {
	var out []ssa.Value
	seen := map[ssa.Value]bool{}
	var up func(v ssa.Value, d int)
	up = func(v ssa.Value, d int) {
		if v == nil || seen[v] {
			return
		}
		seen[v] = true
		switch x := v.(type) {
		case *ssa.Phi:
			for _, e := range x.Edges {
				up(e, d)
			}
			return
		case *ssa.Extract:
			if call, ok := x.Tuple.(*ssa.Call); ok && d < 3 {
				if h := samePkgCallee(call.Parent(), &call.Call); h != nil {
					for _, r := range returnsOf(h) {
						if x.Index < len(r.Results) {
							up(retVal(r, x.Index), d+1)
						}
					}
					return
				}
			}
		}
		out = append(out, v)
	}
	up(v, 0)
	return out
}

// c38BothForms: ParseAuthorizedKey delivers keys in both forms of an
// authorized_keys line — without options (nil options) and with the options
// split from the line — whichever function the two forms are written in; the
// type binding of each is the obligation above.
func (c *Ctx) c38BothForms(construct string, f *ssa.Function) {
	plain, withOpts := 0, 0
	res := f.Signature.Results()
	keyed := c38KeyedReturns(f)
	for _, kr := range keyed {
		for i := 0; i < len(kr.r.Results); i++ {
			if res.At(i).Type().String() != "[]string" {
				continue
			}
			// a helper that serves both forms returns nil options on one of its
			// returns and the split options on another: count per leaf
			for _, l := range c38Leaves(retVal(kr.r, i)) {
				if isNilConst(l) {
					plain++
				} else if _, isPhi := l.(*ssa.Phi); !isPhi {
					withOpts++
				}
			}
		}
	}
	at := poser(f)
	if len(keyed) > 0 {
		at = keyed[0].r
	}
	c.check(plain > 0 && withOpts > 0, "C38.type-binding", construct, at,
		"keys are returned both from plain lines (no options) and from options-prefixed lines; every such return is covered by the type-binding obligation",
		fmt.Sprintf("the two line forms were not both found among the key-carrying returns (%d without options, %d with options)", plain, withOpts))
}

// ---------------------------------------------------------------------------
// options freshness

// c38NaturalLoop: the blocks of the natural loops with header h.
func c38NaturalLoop(h *ssa.BasicBlock) map[*ssa.BasicBlock]bool {
	body := map[*ssa.BasicBlock]bool{h: true}
	var stack []*ssa.BasicBlock
	for _, p := range h.Preds {
		if h.Dominates(p) && !body[p] {
			body[p] = true
			stack = append(stack, p)
		}
	}
	for len(stack) > 0 {
		b := stack[len(stack)-1]
		stack = stack[:len(stack)-1]
		for _, p := range b.Preds {
			if !body[p] {
				body[p] = true
				stack = append(stack, p)
			}
		}
	}
	return body
}

// c38OptionsFresh: in f, the []string returned together with a key is never a
// value that travelled around the back edge of a loop in which the returned
// key is parsed (= a value computed for an earlier line). Returns the number of
// per-line loops examined and the offending return (nil if none).
func c38OptionsFresh(f *ssa.Function) (loops int, bad *ssa.Return) {
	isStrings := func(t types.Type) bool {
		s, ok := t.Underlying().(*types.Slice)
		if !ok {
			return false
		}
		b, ok := s.Elem().Underlying().(*types.Basic)
		return ok && b.Kind() == types.String
	}
	res := f.Signature.Results()
	seenLoop := map[*ssa.BasicBlock]bool{}
	for _, kr := range c38KeyedReturns(f) {
		// the loops in which this return's key is produced
		perLine := map[*ssa.BasicBlock]bool{}
		for v := range c38Family(retVal(kr.r, kr.idx)) {
			in, ok := v.(ssa.Instruction)
			if !ok || in.Parent() != f || in.Block() == nil {
				continue
			}
			if _, isPhi := v.(*ssa.Phi); isPhi {
				continue
			}
			for e := range backEdges(f) {
				h := e.to()
				if c38NaturalLoop(h)[in.Block()] {
					perLine[h] = true
					seenLoop[h] = true
				}
			}
		}
		for i := 0; i < len(kr.r.Results); i++ {
			if !isStrings(res.At(i).Type()) {
				continue
			}
			seen := map[ssa.Value]bool{}
			var walk func(v ssa.Value) bool
			// carriedIn: some value entering header phi p over a back edge is not
			// (transitively) p itself or the constant nil it starts with
			walk = func(v ssa.Value) bool {
				if v == nil || seen[v] {
					return false
				}
				seen[v] = true
				switch x := v.(type) {
				case *ssa.Phi:
					if perLine[x.Block()] {
						for k, ev := range x.Edges {
							if !x.Block().Dominates(x.Block().Preds[k]) {
								continue // entry edge
							}
							if c38CarriesValue(ev, x, map[ssa.Value]bool{}) {
								return true
							}
						}
					}
					for _, ev := range x.Edges {
						if walk(ev) {
							return true
						}
					}
				case *ssa.Slice:
					return walk(x.X)
				case *ssa.ChangeType:
					return walk(x.X)
				case *ssa.Call:
					switch short(calleeName(&x.Call)) {
					case "builtin:append", "slices.Clone", "slices.Clip", "slices.Grow":
						return walk(x.Call.Args[0])
					}
				}
				return false
			}
			if walk(retVal(kr.r, i)) {
				return len(seenLoop), kr.r
			}
		}
	}
	return len(seenLoop), nil
}

// c38CarriesValue: v (an incoming back-edge value of header phi p) can be
// something other than p itself or nil.
func c38CarriesValue(v ssa.Value, p *ssa.Phi, seen map[ssa.Value]bool) bool {
	if v == ssa.Value(p) || seen[v] {
		return false
	}
	seen[v] = true
	switch x := v.(type) {
	case *ssa.Const:
		return !x.IsNil()
	case *ssa.Phi:
		for _, e := range x.Edges {
			if c38CarriesValue(e, p, seen) {
				return true
			}
		}
		return false
	}
	return true
}

func c38HasResult(f *ssa.Function, pred func(types.Type) bool) bool {
	res := f.Signature.Results()
	for i := 0; i < res.Len(); i++ {
		if pred(res.At(i).Type()) {
			return true
		}
	}
	return false
}

func (c *Ctx) c38OptionsRule(f *ssa.Function) {
	isStrings := func(t types.Type) bool { return strings.TrimSpace(t.String()) == "[]string" }
	loops := 0
	var bad *ssa.Return
	for _, g := range deepFuncs(f) {
		if !c38HasResult(g, c38IsKeyType) || !c38HasResult(g, isStrings) {
			continue
		}
		n, b := c38OptionsFresh(g)
		loops += n
		if b != nil && bad == nil {
			bad = b
		}
	}
	switch {
	case bad != nil:
		c.fail("C38.options-fresh", "ParseAuthorizedKey options", bad, "the options returned with a key can be a value left over from an earlier (skipped) line")
	case loops == 0:
		c.undecided("C38.options-fresh", "ParseAuthorizedKey options", f, "no loop that parses the returned key was found in ParseAuthorizedKey or its helpers (per-line loop: rule anchor lost)")
	default:
		c.ok("C38.options-fresh", "ParseAuthorizedKey options", f, fmt.Sprintf("the options returned were split from the line of the returned key: no value reaches them around the back edge of the %d per-line loop(s)", loops))
	}
}
