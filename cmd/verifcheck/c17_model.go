package main

import (
	"fmt"
	"go/token"
	"go/types"
	"strings"

	"golang.org/x/tools/go/ssa"
)

// Byte-content model for C17, layered on pathWalker (which represents a slice
// by its length only). Every []byte value met on the walked path is described
// as a view (buffer, offset, length, capacity) of an abstract buffer whose
// bytes are codes: a constant 0..255, the symbol "byte i of []byte parameter
// j" (the walk never learns a password byte: a branch on one is undecided), or
// unknown. Buffers know whether they were allocated during the walk (fresh),
// are the caller's array behind a parameter, or came out of an uninterpreted
// call (then they carry the set of parameters that flowed into that call).
// make / append / copy / clear / element stores and loads / bytes.Clone /
// slices.Clone, Concat, Clip, Grow act on the model exactly as in Go
// (append writes in place when the capacity suffices, else allocates), so the
// model reads the same however "password || 0 in a private buffer" is spelled.
//
// The model is persistent: every mutation makes a new version and the current
// version number lives in the walker's off table under one private key. The
// walker clones that table for a trial inlining and throws the clone away
// when the helper cannot be interpreted, which restores the model as well.

const (
	c17unknown = int64(-1)
	c17symBase = int64(1) << 40
)

func c17sym(param int, i int64) int64 { return c17symBase + int64(param)<<24 + i }

func c17isSym(code int64) (param int, i int64, ok bool) {
	if code < c17symBase {
		return 0, 0, false
	}
	code -= c17symBase
	return int(code >> 24), code & (1<<24 - 1), true
}

type c17verKey struct{ ssa.Value }

type c17buf struct {
	owner   int     // 0: allocated during the walk; j+1: the caller's array behind []byte parameter j; -1: result of an uninterpreted call
	sized   bool    // cells has one code per byte of capacity
	cells   []int64 // byte codes
	taint   uint64  // parameters whose bytes flowed into the uninterpreted call(s) that filled this buffer
	full    uint64  // ... and of those, the parameters that were handed over complete (all bytes, then constants only)
	written bool    // a store / append / copy wrote into it during the walk
}

type c17desc struct {
	buf         int
	off, n, cap int64     // -1: unknown
	lenSrc      ssa.Value // the instruction that fixed an unknown length: identity of the view
}

type c17model struct {
	bufs []c17buf
	desc map[ssa.Value]c17desc
	tup  map[ssa.Value][]*c17desc
	mem  map[string]c17desc // slice values stored in addressable locations, by walker path
	sym  map[ssa.Value]int64
	// events observed so far (persistent list: a discarded trial inlining
	// takes its events with it)
	evHead *c17ev
	evN    int
	heavy  int // identity of everything but the event list (token cache key)
}

type c17ev struct {
	prev *c17ev
	s    string
}

// c17abort ends a walk from inside a hook once enough has been observed.
type c17abort struct{ m *c17model }

func (m *c17model) events() []string {
	out := make([]string, m.evN)
	for e, i := m.evHead, m.evN-1; e != nil && i >= 0; e, i = e.prev, i-1 {
		out[i] = e.s
	}
	return out
}

func (m *c17model) clone() *c17model {
	n := &c17model{bufs: make([]c17buf, len(m.bufs)), desc: make(map[ssa.Value]c17desc, len(m.desc)+1),
		tup: make(map[ssa.Value][]*c17desc, len(m.tup)), mem: make(map[string]c17desc, len(m.mem)), sym: make(map[ssa.Value]int64, len(m.sym)),
		evHead: m.evHead, evN: m.evN}
	for i, b := range m.bufs {
		nb := b
		nb.cells = append(make([]int64, 0, len(b.cells)), b.cells...)
		n.bufs[i] = nb
	}
	for k, v := range m.desc {
		n.desc[k] = v
	}
	for k, v := range m.tup {
		n.tup[k] = v
	}
	for k, v := range m.mem {
		n.mem[k] = v
	}
	for k, v := range m.sym {
		n.sym[k] = v
	}
	return n
}

func (m *c17model) newBuf(b c17buf) int {
	m.bufs = append(m.bufs, b)
	return len(m.bufs) - 1
}

func (m *c17model) write(buf int, at int64, codes []int64) {
	b := &m.bufs[buf]
	b.written = true
	if !b.sized {
		return
	}
	for i, c := range codes {
		if p := at + int64(i); p >= 0 && p < int64(len(b.cells)) {
			b.cells[p] = c
		}
	}
}

func (m *c17model) clobber(buf int, taint, full uint64) {
	b := &m.bufs[buf]
	for i := range b.cells {
		if p, _, ok := c17isSym(b.cells[i]); ok {
			b.taint |= 1 << uint(p)
		}
		b.cells[i] = c17unknown
	}
	b.taint |= taint
	b.full = b.full&^taint | full
}

// taintOf: the parameters whose bytes the view's buffer may hold.
func (m *c17model) taintOf(d c17desc) uint64 {
	b := m.bufs[d.buf]
	t := b.taint
	for _, c := range b.cells {
		if p, _, ok := c17isSym(c); ok {
			t |= 1 << uint(p)
		}
	}
	return t
}

// read returns the byte codes of a view whose position and length are known.
func (m *c17model) read(d c17desc) ([]int64, bool) {
	b := m.bufs[d.buf]
	if !b.sized || d.off < 0 || d.n < 0 || d.off+d.n > int64(len(b.cells)) {
		return nil, false
	}
	return append([]int64(nil), b.cells[d.off:d.off+d.n]...), true
}

func c17isByte(t types.Type) bool {
	b, ok := t.Underlying().(*types.Basic)
	return ok && b.Kind() == types.Uint8
}

func c17isByteSlice(t types.Type) bool {
	s, ok := t.Underlying().(*types.Slice)
	return ok && c17isByte(s.Elem())
}

func c17isByteArrayPtr(t types.Type) (int64, bool) {
	p, ok := t.Underlying().(*types.Pointer)
	if !ok {
		return 0, false
	}
	a, ok := p.Elem().Underlying().(*types.Array)
	if !ok || !c17isByte(a.Elem()) {
		return 0, false
	}
	return a.Len(), true
}

// c17kw is one interpretation context: the model versions of one walk.
type c17kw struct {
	c    *Ctx
	vers []*c17model
	plen map[int]int64 // length given to []byte parameter j of the root
	// what an uninterpreted call means for the rule using the model ("" = nothing)
	event    func(k *c17kw, w *pathWalker, ci ssa.CallInstruction, name string) string
	notes    []string
	limit    int // abort the walk after this many events (0 = none)
	tokCache map[c17tokKey]string
	// set by the key rule: number of rounds expected in a run that is cut short,
	// and what the look at the loop said
	wantRounds int64
	loopNote   string
}

type c17tokKey struct {
	v     ssa.Value
	heavy int
}

// emit records an event in a new (shallow) version of the model. Sharing the
// maps with the previous version is safe: every other mutation goes through
// mut, which copies before writing.
func (k *c17kw) emit(w *pathWalker, s string) {
	nm := *k.cur(w)
	nm.evHead = &c17ev{prev: nm.evHead, s: s}
	nm.evN++
	k.vers = append(k.vers, &nm)
	w.off[c17verKey{}] = int64(len(k.vers) - 1)
	if k.limit > 0 && nm.evN >= k.limit {
		panic(c17abort{&nm})
	}
}

func (k *c17kw) cur(w *pathWalker) *c17model { return k.vers[w.off[c17verKey{}]] }

func (k *c17kw) mut(w *pathWalker) *c17model {
	m := k.cur(w).clone()
	m.heavy = len(k.vers)
	k.vers = append(k.vers, m)
	w.off[c17verKey{}] = int64(len(k.vers) - 1)
	return m
}

func (k *c17kw) setDesc(w *pathWalker, v ssa.Value, d c17desc) {
	if old, ok := k.cur(w).desc[v]; ok && old == d {
		return
	}
	k.mut(w).desc[v] = d
}

func (k *c17kw) drop(w *pathWalker, v ssa.Value) {
	if _, ok := k.cur(w).desc[v]; ok {
		delete(k.mut(w).desc, v)
	}
}

func c17zeros(n int64) []int64 { return make([]int64, n) }

// descOf resolves the view a []byte value (or pointer to a byte array) denotes.
func (k *c17kw) descOf(w *pathWalker, v ssa.Value) (c17desc, bool) {
	if d, ok := k.cur(w).desc[v]; ok {
		return d, true
	}
	switch x := v.(type) {
	case *ssa.Const:
		if x.IsNil() && c17isByteSlice(x.Type()) {
			m := k.mut(w)
			return c17desc{buf: m.newBuf(c17buf{sized: true, cells: []int64{}})}, true
		}
	case *ssa.MakeSlice:
		if !c17isByteSlice(x.Type()) {
			return c17desc{}, false
		}
		n, ok1 := w.env.eval(x.Len)
		cp, ok2 := w.env.eval(x.Cap)
		m := k.mut(w)
		var d c17desc
		if ok1 && ok2 && n >= 0 && n <= cp && cp <= 1<<16 {
			d = c17desc{buf: m.newBuf(c17buf{sized: true, cells: c17zeros(cp)}), n: n, cap: cp}
		} else {
			d = c17desc{buf: m.newBuf(c17buf{}), n: -1, cap: -1, lenSrc: x}
			if ok1 {
				d.n = n
			}
		}
		m.desc[x] = d
		return d, true
	case *ssa.Alloc:
		if n, ok := c17isByteArrayPtr(x.Type()); ok && n <= 1<<16 {
			m := k.mut(w)
			d := c17desc{buf: m.newBuf(c17buf{sized: true, cells: c17zeros(n)}), n: n, cap: n}
			m.desc[x] = d
			return d, true
		}
	case *ssa.ChangeType:
		return k.descOf(w, x.X)
	case *ssa.Convert:
		if !c17isByteSlice(x.Type()) {
			return c17desc{}, false
		}
		if s, ok := constString(x.X); ok {
			cells := make([]int64, len(s))
			for i := range s {
				cells[i] = int64(s[i])
			}
			m := k.mut(w)
			d := c17desc{buf: m.newBuf(c17buf{sized: true, cells: cells}), n: int64(len(s)), cap: int64(len(s))}
			m.desc[x] = d
			return d, true
		}
		if c17isByteSlice(x.X.Type()) {
			return k.descOf(w, x.X)
		}
	case *ssa.Extract:
		if ds, ok := k.cur(w).tup[x.Tuple]; ok && x.Index < len(ds) && ds[x.Index] != nil {
			return *ds[x.Index], true
		}
	}
	return c17desc{}, false
}

// srcCells: the bytes of a copy/append source (slice view or constant string).
func (k *c17kw) srcCells(w *pathWalker, v ssa.Value) ([]int64, bool) {
	if s, ok := constString(v); ok {
		cells := make([]int64, len(s))
		for i := range s {
			cells[i] = int64(s[i])
		}
		return cells, true
	}
	d, ok := k.descOf(w, v)
	if !ok {
		return nil, false
	}
	return k.cur(w).read(d)
}

func (k *c17kw) taintOfVal(w *pathWalker, v ssa.Value) uint64 {
	if d, ok := k.descOf(w, v); ok {
		return k.cur(w).taintOf(d)
	}
	return 0
}

func (k *c17kw) bindLen(w *pathWalker, v ssa.Value, n int64) {
	if n >= 0 {
		w.env.bind(v, n)
	} else {
		delete(w.env.vals, v)
	}
}

// opaqueResult gives a []byte result of something the model cannot follow.
func (k *c17kw) opaqueResult(w *pathWalker, v ssa.Value, taint, full uint64) c17desc {
	m := k.mut(w)
	d := c17desc{buf: m.newBuf(c17buf{owner: -1, taint: taint, full: full}), n: -1, cap: -1, lenSrc: v}
	m.desc[v] = d
	delete(w.env.vals, v)
	return d
}

func (k *c17kw) codeOf(w *pathWalker, v ssa.Value) int64 {
	if s, ok := k.cur(w).sym[v]; ok {
		return s
	}
	if n, ok := w.env.eval(v); ok && n >= 0 && n < 256 {
		return n
	}
	return c17unknown
}

// ---- walker hooks

func (k *c17kw) onSlice(w *pathWalker, sl *ssa.Slice) {
	if !c17isByteSlice(sl.Type()) {
		return
	}
	d, ok := k.descOf(w, sl.X)
	if !ok {
		k.drop(w, sl)
		return
	}
	ev := func(v ssa.Value, def int64) int64 {
		if v == nil {
			return def
		}
		if n, ok := w.env.eval(v); ok {
			return n
		}
		return -1
	}
	lo, hi, mx := ev(sl.Low, 0), ev(sl.High, d.n), ev(sl.Max, d.cap)
	nd := c17desc{buf: d.buf, off: -1, n: -1, cap: -1}
	if lo >= 0 && d.off >= 0 {
		nd.off = d.off + lo
	}
	if lo >= 0 && hi >= 0 {
		nd.n = hi - lo
	} else {
		nd.lenSrc = sl
	}
	if lo >= 0 && mx >= 0 {
		nd.cap = mx - lo
	}
	if d.cap >= 0 && (hi > d.cap || mx > d.cap) {
		w.markOOB(sl)
	}
	k.setDesc(w, sl, nd)
}

func (k *c17kw) onPhi(w *pathWalker, ph *ssa.Phi, incoming ssa.Value) {
	if !c17isByteSlice(ph.Type()) {
		return
	}
	if d, ok := k.descOf(w, incoming); ok {
		k.setDesc(w, ph, d)
	} else {
		k.drop(w, ph)
	}
}

func (k *c17kw) onLoad(w *pathWalker, u *ssa.UnOp) (int64, bool) {
	if ia, ok := u.X.(*ssa.IndexAddr); ok && c17isByte(u.Type()) {
		code := c17unknown
		if d, ok := k.descOf(w, ia.X); ok {
			if idx, iok := w.env.eval(ia.Index); iok && d.off >= 0 && idx >= 0 && (d.n < 0 || idx < d.n) {
				if b := k.cur(w).bufs[d.buf]; b.sized && d.off+idx < int64(len(b.cells)) {
					code = b.cells[d.off+idx]
				}
			}
		}
		if code >= 0 && code < 256 {
			if _, had := k.cur(w).sym[u]; had {
				delete(k.mut(w).sym, u)
			}
			return code, true
		}
		if old, had := k.cur(w).sym[u]; !had || old != code {
			k.mut(w).sym[u] = code
		}
		delete(w.env.vals, u)
		return 0, false
	}
	if c17isByteSlice(u.Type()) {
		if g, isG := u.X.(*ssa.Global); isG {
			if n, ok := k.c.c17globalLen(g); ok {
				m := k.mut(w)
				m.desc[u] = c17desc{buf: m.newBuf(c17buf{owner: -1}), n: n, cap: n}
				return n, true
			}
		}
		if p := w.path(u.X); p != "" {
			if d, ok := k.cur(w).mem[p]; ok {
				k.setDesc(w, u, d)
				if d.n >= 0 {
					return d.n, true
				}
				delete(w.env.vals, u)
				return 0, false
			}
		}
		k.drop(w, u)
	}
	delete(w.env.vals, u)
	return 0, false
}

func (k *c17kw) onStore(w *pathWalker, st *ssa.Store) string {
	if ia, ok := st.Addr.(*ssa.IndexAddr); ok && c17isByte(st.Val.Type()) {
		d, ok := k.descOf(w, ia.X)
		if !ok {
			return ""
		}
		code := k.codeOf(w, st.Val)
		idx, iok := w.env.eval(ia.Index)
		m := k.mut(w)
		if iok && d.off >= 0 && idx >= 0 {
			m.write(d.buf, d.off+idx, []int64{code})
		} else {
			m.clobber(d.buf, 0, 0)
			m.bufs[d.buf].written = true
		}
		return ""
	}
	if c17isByteSlice(st.Val.Type()) {
		if p := w.path(st.Addr); p != "" {
			if d, ok := k.descOf(w, st.Val); ok {
				k.mut(w).mem[p] = d
			} else if _, had := k.cur(w).mem[p]; had {
				delete(k.mut(w).mem, p)
			}
		}
	}
	return ""
}

func (k *c17kw) onInline(parent, child *pathWalker, callee *ssa.Function, args []ssa.Value) {
	for i, p := range callee.Params {
		if i >= len(args) {
			break
		}
		if d, ok := k.descOf(parent, args[i]); ok {
			k.setDesc(parent, p, d)
		} else {
			k.drop(parent, p)
		}
	}
}

// Error results on the walked path. c17errClass says whether an error-typed
// value is known to be nil or non-nil where the walk stands: a nil constant, a
// concrete value boxed into the interface, errors.New / fmt.Errorf, a sentinel
// error variable, or — through the walker's cls table — a phi whose taken edge
// or an interpreted helper's result whose reached Return was one of those.
func c17isErr(t types.Type) bool {
	return types.Identical(t, types.Universe.Lookup("error").Type())
}

func c17errClass(w *pathWalker, v ssa.Value) string {
	switch x := v.(type) {
	case *ssa.Const:
		if x.IsNil() {
			return "nil"
		}
		return "nonnil"
	case *ssa.MakeInterface:
		return "nonnil"
	case *ssa.UnOp:
		if x.Op == token.MUL {
			if _, isG := x.X.(*ssa.Global); isG {
				return "nonnil"
			}
		}
	case *ssa.Call:
		switch short(calleeName(&x.Call)) {
		case "errors.New", "fmt.Errorf":
			return "nonnil"
		}
	}
	if w.cls != nil {
		return w.cls[v]
	}
	return ""
}

// c17setErr records the class of an error value and binds the `== nil` /
// `!= nil` tests on it, so that the walk follows what is known instead of
// assuming success.
func c17setErr(w *pathWalker, target ssa.Value, class string) {
	if w.cls != nil {
		if class == "" {
			delete(w.cls, target)
		} else {
			w.cls[target] = class
		}
	}
	refs := target.Referrers()
	if refs == nil {
		return
	}
	for _, ref := range *refs {
		bo, ok := ref.(*ssa.BinOp)
		if !ok || (bo.Op != token.EQL && bo.Op != token.NEQ) || !(isNilConst(bo.X) || isNilConst(bo.Y)) {
			continue
		}
		switch {
		case class == "":
			delete(w.env.vals, bo)
		case (class == "nil") == (bo.Op == token.EQL):
			w.env.bind(bo, 1)
		default:
			w.env.bind(bo, 0)
		}
	}
}

// c17resultValues: the values that carry result i of a call.
func c17resultValues(call *ssa.Call, i, n int) []ssa.Value {
	if n == 1 {
		return []ssa.Value{call}
	}
	var out []ssa.Value
	if refs := call.Referrers(); refs != nil {
		for _, ref := range *refs {
			if ex, ok := ref.(*ssa.Extract); ok && ex.Index == i {
				out = append(out, ex)
			}
		}
	}
	return out
}

// c17trackErrors wires error tracking into a walker (keeping its other hooks).
func c17trackErrors(w *pathWalker) {
	if w.cls == nil {
		w.cls = map[ssa.Value]string{}
	}
	prevPhi, prevRet := w.onPhi, w.onReturn
	w.onPhi = func(w *pathWalker, ph *ssa.Phi, in ssa.Value) {
		if c17isErr(ph.Type()) {
			c17setErr(w, ph, c17errClass(w, in))
		}
		if prevPhi != nil {
			prevPhi(w, ph, in)
		}
	}
	w.onReturn = func(parent, child *pathWalker, call *ssa.Call, results []ssa.Value) {
		for i, r := range results {
			if c17isErr(r.Type()) {
				class := c17errClass(child, r)
				for _, t := range c17resultValues(call, i, len(results)) {
					c17setErr(parent, t, class)
				}
			}
		}
		if prevRet != nil {
			prevRet(parent, child, call, results)
		}
	}
}

func (k *c17kw) onReturn(parent, child *pathWalker, call *ssa.Call, results []ssa.Value) {
	// the callee's frame holds the newest model version (after a nested trial
	// inlining it no longer shares its table with the caller's frame)
	parent.off[c17verKey{}] = child.off[c17verKey{}]
	if len(results) == 1 {
		if d, ok := k.descOf(child, results[0]); ok {
			k.setDesc(parent, call, d)
		} else {
			k.drop(parent, call)
		}
		return
	}
	ds := make([]*c17desc, len(results))
	for i, r := range results {
		if d, ok := k.descOf(child, r); ok {
			dd := d
			ds[i] = &dd
		}
	}
	k.mut(parent).tup[call] = ds
}

// variadicViews: the views passed as a variadic ...[]byte argument.
func (k *c17kw) variadicViews(w *pathWalker, v ssa.Value) ([]c17desc, bool) {
	if c, ok := v.(*ssa.Const); ok && c.IsNil() {
		return nil, true
	}
	sl, ok := v.(*ssa.Slice)
	if !ok {
		return nil, false
	}
	al, ok := sl.X.(*ssa.Alloc)
	if !ok {
		return nil, false
	}
	pt, _ := al.Type().Underlying().(*types.Pointer)
	arr, ok := pt.Elem().Underlying().(*types.Array)
	if !ok {
		return nil, false
	}
	base := w.path(al)
	if base == "" {
		return nil, false
	}
	var out []c17desc
	for i := int64(0); i < arr.Len(); i++ {
		d, ok := k.cur(w).mem[base+"["+itoa(i)+"]"]
		if !ok {
			return nil, false
		}
		out = append(out, d)
	}
	return out, true
}

func (k *c17kw) onCall(w *pathWalker, ci ssa.CallInstruction) string {
	cc := ci.Common()
	name := short(calleeName(cc))
	val, _ := ci.(ssa.Value)
	args := cc.Args
	fresh := func(cells []int64) c17desc {
		m := k.mut(w)
		n := int64(len(cells))
		d := c17desc{buf: m.newBuf(c17buf{sized: true, cells: cells}), n: n, cap: n}
		m.desc[val] = d
		w.env.bind(val, n)
		return d
	}
	switch {
	case name == "builtin:append" && val != nil && c17isByteSlice(val.Type()) && len(args) == 2:
		ds, ok := k.descOf(w, args[0])
		src, sok := k.srcCells(w, args[1])
		t := k.taintOfVal(w, args[0]) | k.taintOfVal(w, args[1])
		switch {
		case ok && sok && ds.n >= 0 && ds.off >= 0 && ds.cap >= 0 && k.cur(w).bufs[ds.buf].sized:
			if nl := ds.n + int64(len(src)); nl <= ds.cap {
				m := k.mut(w)
				if len(src) > 0 {
					m.write(ds.buf, ds.off+ds.n, src)
				}
				m.desc[val] = c17desc{buf: ds.buf, off: ds.off, n: nl, cap: ds.cap}
				w.env.bind(val, nl)
			} else {
				old, _ := k.cur(w).read(ds)
				fresh(append(old, src...))
			}
		default:
			if ok {
				// may have been written in place
				m := k.mut(w)
				m.clobber(ds.buf, t, 0)
				m.bufs[ds.buf].written = true
			}
			d := k.opaqueResult(w, val, t, 0)
			if ok && sok && ds.n >= 0 {
				d.n = ds.n + int64(len(src))
				k.mut(w).desc[val] = d
				w.env.bind(val, d.n)
			}
		}
		return ""
	case name == "builtin:copy" && len(args) == 2:
		dd, ok := k.descOf(w, args[0])
		if !ok {
			return ""
		}
		src, sok := k.srcCells(w, args[1])
		m := k.mut(w)
		if sok && dd.n >= 0 && dd.off >= 0 && m.bufs[dd.buf].sized {
			m.write(dd.buf, dd.off, src[:min(dd.n, int64(len(src)))])
		} else {
			m.clobber(dd.buf, k.taintOfVal(w, args[1]), 0)
			m.bufs[dd.buf].written = true
		}
		return ""
	case name == "builtin:clear" && len(args) == 1:
		if d, ok := k.descOf(w, args[0]); ok {
			m := k.mut(w)
			if d.n >= 0 && d.off >= 0 && m.bufs[d.buf].sized {
				m.write(d.buf, d.off, c17zeros(d.n))
			} else {
				m.clobber(d.buf, 0, 0)
				m.bufs[d.buf].written = true
			}
		}
		return ""
	case name == "builtin:cap" && len(args) == 1:
		if d, ok := k.descOf(w, args[0]); ok && val != nil {
			k.bindLen(w, val, d.cap)
		}
		return ""
	case name == "builtin:len":
		return ""
	case (name == "bytes.Clone" || strings.HasPrefix(name, "slices.Clone")) && len(args) == 1 && val != nil && c17isByteSlice(val.Type()):
		if c, isC := args[0].(*ssa.Const); isC && c.IsNil() {
			fresh([]int64{})
			return ""
		}
		if src, ok := k.srcCells(w, args[0]); ok {
			fresh(src)
			return ""
		}
		d := k.opaqueResult(w, val, k.taintOfVal(w, args[0]), 0)
		if sd, ok := k.descOf(w, args[0]); ok && sd.n >= 0 {
			d.n = sd.n
			k.mut(w).desc[val] = d
			w.env.bind(val, d.n)
		}
		return ""
	case strings.HasPrefix(name, "slices.Concat") && len(args) == 1 && val != nil && c17isByteSlice(val.Type()):
		if vs, ok := k.variadicViews(w, args[0]); ok {
			var all []int64
			good := true
			for _, d := range vs {
				cells, ok := k.cur(w).read(d)
				good = good && ok
				all = append(all, cells...)
			}
			if good {
				fresh(all)
				return ""
			}
		}
	case strings.HasPrefix(name, "slices.Clip") && len(args) == 1 && val != nil && c17isByteSlice(val.Type()):
		if d, ok := k.descOf(w, args[0]); ok {
			d.cap = d.n
			k.setDesc(w, val, d)
			k.bindLen(w, val, d.n)
			return ""
		}
	case strings.HasPrefix(name, "slices.Grow") && len(args) == 2 && val != nil && c17isByteSlice(val.Type()):
		if d, ok := k.descOf(w, args[0]); ok {
			if g, gok := w.env.eval(args[1]); gok && g >= 0 && d.n >= 0 && d.cap >= 0 {
				if d.cap-d.n >= g {
					k.setDesc(w, val, d)
					k.bindLen(w, val, d.n)
					return ""
				}
				if cells, ok := k.cur(w).read(d); ok {
					m := k.mut(w)
					nd := c17desc{buf: m.newBuf(c17buf{sized: true, cells: append(cells, c17zeros(g)...)}), n: d.n, cap: d.n + g}
					m.desc[val] = nd
					w.env.bind(val, nd.n)
					return ""
				}
			}
		}
	}
	if k.event != nil {
		if ev := k.event(k, w, ci, name); ev != "" {
			if ev != "-" {
				k.emit(w, ev)
			}
			return ""
		}
	}
	// anything else: an uninterpreted call. Its []byte arguments may be read and
	// overwritten; []byte results hold whatever flowed in.
	var taint, full uint64
	for _, a := range args {
		d, ok := k.descOf(w, a)
		if !ok {
			continue
		}
		m := k.cur(w)
		taint |= m.taintOf(d)
		if cells, ok := m.read(d); ok {
			full |= k.completeParams(cells)
		}
	}
	for _, a := range args {
		if d, ok := k.descOf(w, a); ok && c17isByteSlice(a.Type()) {
			k.mut(w).clobber(d.buf, taint, full)
		}
	}
	if callee := cc.StaticCallee(); callee != nil && len(callee.Blocks) > 0 && w.rootPkg != nil && callee.Pkg == w.rootPkg && !w.opaque[callee.Name()] {
		// a helper the walker tried to interpret in place and could not
		why := ""
		if call, isCall := ci.(*ssa.Call); isCall {
			t := w.clone()
			if end := t.inlineCall(call, callee); end != "return" {
				why = ": " + t.why
			}
		}
		k.notes = append(k.notes, "helper "+callee.Name()+" could not be interpreted"+why)
	}
	if val != nil {
		switch t := val.Type().(type) {
		case *types.Tuple:
			ds := make([]*c17desc, t.Len())
			m := k.mut(w)
			for i := 0; i < t.Len(); i++ {
				if c17isByteSlice(t.At(i).Type()) {
					ds[i] = &c17desc{buf: m.newBuf(c17buf{owner: -1, taint: taint, full: full}), n: -1, cap: -1, lenSrc: val}
				}
			}
			m.tup[val] = ds
			delete(w.tuple, val)
		default:
			if c17isByteSlice(val.Type()) {
				k.opaqueResult(w, val, taint, full)
			} else {
				delete(w.env.vals, val)
			}
		}
	}
	return ""
}

// completeParams: the parameters j for which cells is all of parameter j
// (bytes 0..len-1 in order) followed by constants only.
func (k *c17kw) completeParams(cells []int64) uint64 {
	if len(cells) == 0 {
		return 0
	}
	p, i0, ok := c17isSym(cells[0])
	if !ok || i0 != 0 {
		return 0
	}
	n, have := k.plen[p]
	if !have || int64(len(cells)) < n {
		return 0
	}
	for i, c := range cells {
		if int64(i) < n {
			if q, qi, ok := c17isSym(c); !ok || q != p || qi != int64(i) {
				return 0
			}
		} else if c < 0 || c > 255 {
			return 0
		}
	}
	return 1 << uint(p)
}

// token renders what a []byte argument is, for comparison with the
// specification: owner{content} when every byte is known, else the identity
// of the view and the parameters that flowed into it.
func (k *c17kw) token(w *pathWalker, v ssa.Value) string {
	if _, known := k.cur(w).desc[v]; known {
		ck := c17tokKey{v, k.cur(w).heavy}
		if s, ok := k.tokCache[ck]; ok {
			return s
		}
		s := k.token1(w, v)
		if k.tokCache == nil {
			k.tokCache = map[c17tokKey]string{}
		}
		k.tokCache[ck] = s
		return s
	}
	return k.token1(w, v)
}

func (k *c17kw) token1(w *pathWalker, v ssa.Value) string {
	d, ok := k.descOf(w, v)
	if !ok {
		return "unknown-value"
	}
	m := k.cur(w)
	b := m.bufs[d.buf]
	owner := "fresh"
	switch {
	case b.owner > 0:
		owner = fmt.Sprintf("caller-array(P%d)", b.owner-1)
	case b.owner < 0:
		owner = "opaque"
	}
	if cells, ok := m.read(d); ok {
		known := true
		for _, c := range cells {
			known = known && c != c17unknown
		}
		if known {
			return owner + "{" + c17describe(cells) + "}"
		}
	}
	src := ""
	if d.lenSrc != nil {
		src = d.lenSrc.Name()
		if in, ok := d.lenSrc.(ssa.Instruction); ok && in.Parent() != nil {
			src += "@" + in.Parent().Name()
		}
	}
	return fmt.Sprintf("derived[from %s][complete %s]#buf%d+%d:%d:%s", c17paramSet(m.taintOf(d)), c17paramSet(b.full), d.buf, d.off, d.n, src)
}

// c17paramSet renders a set of parameter indices: "P0,P2" ("-" when empty).
func c17paramSet(bits uint64) string {
	var ps []string
	for j := 0; j < 64; j++ {
		if bits&(1<<uint(j)) != 0 {
			ps = append(ps, fmt.Sprintf("P%d", j))
		}
	}
	if len(ps) == 0 {
		return "-"
	}
	return strings.Join(ps, ",")
}

// c17describe compresses byte codes: "P0[0:5] 00".
func c17describe(cells []int64) string {
	var parts []string
	for i := 0; i < len(cells); {
		if p, s, ok := c17isSym(cells[i]); ok {
			j := i + 1
			for j < len(cells) {
				q, t, ok := c17isSym(cells[j])
				if !ok || q != p || t != s+int64(j-i) {
					break
				}
				j++
			}
			parts = append(parts, fmt.Sprintf("P%d[%d:%d]", p, s, s+int64(j-i)))
			i = j
			continue
		}
		if cells[i] == c17unknown {
			parts = append(parts, "??")
		} else {
			parts = append(parts, fmt.Sprintf("%02x", cells[i]))
		}
		i++
	}
	if len(parts) > 12 {
		parts = append(parts[:12], "...")
	}
	return strings.Join(parts, " ")
}

// c17globalLen: the length of a package-level []byte variable that is
// initialised once from a composite literal and never assigned again.
func (c *Ctx) c17globalLen(g *ssa.Global) (int64, bool) {
	if g.Pkg == nil {
		return 0, false
	}
	ini := g.Pkg.Func("init")
	n, found, bad := int64(0), false, false
	for _, fn := range c.c17funcsOfPkgSSA(g.Pkg) {
		allInstrs(fn, func(in ssa.Instruction) {
			st, ok := in.(*ssa.Store)
			if !ok || st.Addr != ssa.Value(g) {
				return
			}
			if fn != ini || found {
				bad = true
				return
			}
			if sl, ok := st.Val.(*ssa.Slice); ok && sl.Low == nil && sl.High == nil {
				if l, ok := c17isByteArrayPtr(sl.X.Type()); ok {
					n, found = l, true
					return
				}
			}
			bad = true
		})
	}
	return n, found && !bad
}

func (c *Ctx) c17funcsOfPkgSSA(p *ssa.Package) []*ssa.Function {
	var out []*ssa.Function
	for f := range c.ld.allFns {
		if f.Pkg == p {
			out = append(out, f)
		}
	}
	return out
}

// newWalker: a pathWalker wired to the model, with []byte parameter j of root
// bound to plen[j] symbolic bytes (caller's array with spare capacity) and
// every integer parameter bound to ival.
func (k *c17kw) newWalker(root *ssa.Function, ival int64, maxSteps int, opaque map[string]bool) *pathWalker {
	w := &pathWalker{env: newEnv(), lengths: true, maxSteps: maxSteps, assumeErrNil: true, off: map[ssa.Value]int64{}, opaque: opaque}
	m := &c17model{desc: map[ssa.Value]c17desc{}, tup: map[ssa.Value][]*c17desc{}, mem: map[string]c17desc{}, sym: map[ssa.Value]int64{}}
	for j, p := range root.Params {
		if c17isByteSlice(p.Type()) {
			n := k.plen[j]
			const spare = 8
			cells := make([]int64, n+spare)
			for i := range cells {
				if int64(i) < n {
					cells[i] = c17sym(j, int64(i))
				} else {
					cells[i] = c17unknown
				}
			}
			m.desc[p] = c17desc{buf: m.newBuf(c17buf{owner: j + 1, sized: true, cells: cells}), n: n, cap: n + spare}
			w.env.bind(p, n)
		} else if _, _, isInt := intBits(p.Type()); isInt {
			w.env.bind(p, ival)
		}
	}
	k.vers = []*c17model{m}
	k.notes = nil
	w.onSlice, w.onPhi, w.onLoad, w.onStore, w.onCall = k.onSlice, k.onPhi, k.onLoad, k.onStore, k.onCall
	w.onInline, w.onReturn = k.onInline, k.onReturn
	c17trackErrors(w)
	return w
}
