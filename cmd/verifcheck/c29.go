package main

import (
	"fmt"
	"strings"

	"golang.org/x/tools/go/ssa"
)

func init() {
	register(&propDef{
		id: "C29", run: runC29, minOblig: 60,
		explanation: "Decides, for the five key-exchange implementations (dhGroup, ecdh, curve25519sha256, dhGEXSHA, mlkem768WithCurve25519sha256) and both roles: (transcript binding) the exchange-hash input is, in order, the handshake magics (V_C,V_S,I_C,I_S), the host key, [GEX: min,n,max,p,g], the client's ephemeral value, the server's ephemeral value, K — each value classified by provenance (field of the message decoded from the peer / field of a message this side marshals and sends) so that in Client the client value is OUR sent value and in Server it is the PEER's received value, and K is encoded as mpint (string for ML-KEM) from a secret that depends on the peer's ephemeral field; received messages are never modified between decoding and hashing; (peer-value validation) diffieHellman rejects exactly Y <= 1 or Y >= p-1 (3x3 Cmp outcomes evaluated) and its error is checked before use; GEX applies the same predicate inline to the peer's value, the client also to g and to p's bit length, both sides to the derived k; unmarshalECKey returns a point only behind validateECPublicKey == true, which is true only behind IsOnCurve and the (0,0)/range tests; X25519 and ML-KEM length tests and checked errors precede the secret; (authenticity) handshakeTransport.client returns a result only behind verifyHostKeySignature == nil and hostKeyCallback == nil, on the key parsed from result.HostKey, verifyHostKeySignature verifies result.H with the negotiated algorithm; (group choice) chooseDH never selects a group outside [MinBits, MaxBits] and fails when none qualifies. NOT decided: the OpenSSH preference among in-range groups, numeric agreement of H and K.",
		assumptions: []string{"math/big Cmp/Sign contracts", "crypto/ecdh, curve25519.X25519 reject low-order points (C11)", "crypto/mlkem contracts"},
	})
	tech("C29", "hash-input sequence extraction with message-provenance classes (E10), finite-domain evaluation of Cmp-based range predicates (E6), must-cross CFG rules on checked calls (E2)")
}

func runC29(c *Ctx) {
	c29Groups(c)
	for _, sp := range kexSpecs {
		for _, side := range []string{"Client", "Server"} {
			checkKexHash(c, "C29.hash-seq", sp, side)
		}
	}
	// ---- diffieHellman range predicate
	if f := c.fn("ssh", "(*dhGroup).diffieHellman"); f != nil {
		their := f.Params[1]
		var c1, cP *ssa.Call
		for _, ci := range callsNamed(f, "(*math/big.Int).Cmp") {
			call := ci.(*ssa.Call)
			if call.Call.Args[0] != ssa.Value(their) {
				continue
			}
			switch p := accessPath(call.Call.Args[1]); {
			case p == "bigOne":
				c1 = call
			case strings.HasSuffix(p, ".pMinus1"):
				cP = call
			}
		}
		if c1 == nil || cP == nil {
			c.fail("C29.dh-range", "(*dhGroup).diffieHellman", f, "comparisons of the peer value with 1 and p-1 not found")
		} else {
			bad := ""
			for _, a := range []int64{-1, 0, 1} {
				for _, b := range []int64{-1, 0, 1} {
					e := newEnv()
					e.bind(c1, a)
					e.bind(cP, b)
					e.solve(f)
					acc := false
					for _, r := range acceptReturns(f, 1) {
						if e.reach[r.Block()] {
							acc = true
						}
					}
					want := a > 0 && b < 0
					if acc != want {
						bad = fmt.Sprintf("Cmp(Y,1)=%d Cmp(Y,p-1)=%d: accepted=%v, specification (1 < Y < p-1) %v", a, b, acc, want)
					}
				}
			}
			c.check(bad == "", "C29.dh-range", "(*dhGroup).diffieHellman", f, "accepts exactly 1 < Y < p-1 (9 cases)", bad)
		}
		// exponent base is the validated value, modulus the group's p
		for _, ci := range callsNamed(f, "(*math/big.Int).Exp") {
			a := ci.Common().Args
			c.check(a[1] == ssa.Value(their) && strings.HasSuffix(accessPath(a[3]), ".p"), "C29.dh-range", "diffieHellman Exp(peer, priv, p)", ci, "the secret is peer^priv mod p of the validated value", "the shared secret is not computed from the validated peer value modulo the group prime")
		}
	}
	// dhGroup Client/Server use diffieHellman on the peer's field, checked
	for _, side := range []string{"Client", "Server"} {
		f := c.fn("ssh", "(*dhGroup)."+side)
		if f == nil {
			continue
		}
		m := kexMessages(f)
		dh := callsNamed(f, "(*ssh.dhGroup).diffieHellman")
		okPeer := len(dh) == 1
		if okPeer {
			_, _, base, ok := fieldOf(dh[0].Common().Args[1])
			okPeer = ok && m.peer[base]
		}
		c.check(okPeer, "C29.peer-validated", "dhGroup."+side, f, "the peer's public value goes through diffieHellman", "the peer's DH value does not go through diffieHellman's range check")
		c.mustCross("C29.peer-validated", "dhGroup."+side+" checked", f, acceptReturns(f, 1), callSuccess(dh, -1, isNil), "diffieHellman's nil-error edge")
	}
	// ---- GEX inline predicates
	for _, side := range []string{"Client", "Server"} {
		f := c.fn("ssh", "(*dhGEXSHA)."+side)
		if f == nil {
			continue
		}
		m := kexMessages(f)
		// the Exp call computing k: base is a field of a peer message
		var kExp *ssa.Call
		for _, ci := range callsNamed(f, "(*math/big.Int).Exp") {
			if _, _, base, ok := fieldOf(ci.Common().Args[1]); ok && m.peer[base] {
				if _, fld, _, _ := fieldOf(ci.Common().Args[1]); fld == "X" || fld == "Y" {
					kExp = ci.(*ssa.Call)
				}
			}
		}
		if kExp == nil {
			c.fail("C29.gex-range", "dhGEXSHA."+side, f, "secret computation from the peer's value not found")
			continue
		}
		peerVal := kExp.Call.Args[1]
		_, pf, pbase, _ := fieldOf(peerVal)
		var c1, cP []*ssa.Call
		for _, ci := range callsNamed(f, "(*math/big.Int).Cmp") {
			call := ci.(*ssa.Call)
			_, f2, b2, ok := fieldOf(call.Call.Args[0])
			if !ok || f2 != pf || b2 != pbase {
				continue
			}
			if accessPath(call.Call.Args[1]) == "bigOne" {
				c1 = append(c1, call)
			} else {
				cP = append(cP, call)
			}
		}
		if len(c1) != 1 || len(cP) != 1 {
			c.fail("C29.gex-range", "dhGEXSHA."+side, kExp, "the peer's value is not compared with 1 and p-1 before the secret is computed")
		} else {
			// p-1 operand really is p-1: result of Sub(p, bigOne)
			pm1OK := false
			if sub, ok := cP[0].Call.Args[1].(*ssa.Call); ok && short(calleeName(&sub.Call)) == "(*math/big.Int).Sub" && accessPath(sub.Call.Args[2]) == "bigOne" {
				pm1OK = true
			}
			bad := ""
			for _, a := range []int64{-1, 0, 1} {
				for _, b := range []int64{-1, 0, 1} {
					e := newEnv()
					e.bind(c1[0], a)
					e.bind(cP[0], b)
					cut := e.cuts(f)
					got := reachAfter(c1[0], cut)[kExp.Block()] || (c1[0].Block() == kExp.Block())
					want := a > 0 && b < 0
					if got != want {
						bad = fmt.Sprintf("Cmp(v,1)=%d Cmp(v,p-1)=%d: secret computed=%v, specification %v", a, b, got, want)
					}
				}
			}
			c.check(bad == "" && pm1OK, "C29.gex-range", "dhGEXSHA."+side+" peer value", kExp, "secret computed exactly when 1 < v < p-1 (9 cases), p-1 = Sub(p, 1)", bad+fmt.Sprintf(" (p-1 operand recognised: %v)", pm1OK))
		}
		// derived k safe: Cmp on the Exp result
		var k1, kP []*ssa.Call
		for _, ci := range callsNamed(f, "(*math/big.Int).Cmp") {
			call := ci.(*ssa.Call)
			if call.Call.Args[0] == ssa.Value(kExp) {
				if accessPath(call.Call.Args[1]) == "bigOne" {
					k1 = append(k1, call)
				} else {
					kP = append(kP, call)
				}
			}
		}
		if side == "Client" {
			okK := len(k1) == 1 && len(kP) == 1
			if okK {
				for _, a := range []int64{-1, 0, 1} {
					for _, b := range []int64{-1, 0, 1} {
						e := newEnv()
						e.bind(k1[0], a)
						e.bind(kP[0], b)
						cut := e.cuts(f)
						r := reachAfter(k1[0], cut)
						acc := false
						for _, t := range acceptReturns(f, 1) {
							if r[t.Block()] {
								acc = true
							}
						}
						if acc != (a > 0 && b < 0) {
							okK = false
						}
					}
				}
			}
			c.check(okK, "C29.gex-range", "dhGEXSHA.Client derived k", kExp, "result returned only when 1 < k < p-1", "the derived secret's safety check (1 < k < p-1) is missing or altered")
			// g and p
			var g1, gP []*ssa.Call
			for _, ci := range callsNamed(f, "(*math/big.Int).Cmp") {
				call := ci.(*ssa.Call)
				if _, f2, b2, ok := fieldOf(call.Call.Args[0]); ok && f2 == "G" && m.peer[b2] {
					if accessPath(call.Call.Args[1]) == "bigOne" {
						g1 = append(g1, call)
					} else {
						gP = append(gP, call)
					}
				}
			}
			okG := len(g1) == 1 && len(gP) == 1
			if okG {
				for _, a := range []int64{-1, 0, 1} {
					for _, b := range []int64{-1, 0, 1} {
						e := newEnv()
						e.bind(g1[0], a)
						e.bind(gP[0], b)
						cut := e.cuts(f)
						got := reachAfter(g1[0], cut)[kExp.Block()]
						if got != (a > 0 && b < 0) {
							okG = false
						}
					}
				}
			}
			c.check(okG, "C29.gex-range", "dhGEXSHA.Client generator", f, "the exchange continues only when 1 < g < p-1", "the server-provided generator is not range-checked (1 < g < p-1)")
			minB, ok1 := pkgConstInt(c, "ssh", "dhGroupExchangeMinimumBits")
			maxB, ok2 := pkgConstInt(c, "ssh", "dhGroupExchangeMaximumBits")
			var bl []*ssa.Call
			for _, ci := range callsNamed(f, "(*math/big.Int).BitLen") {
				if _, f2, b2, ok := fieldOf(ci.Common().Args[0]); ok && f2 == "P" && m.peer[b2] {
					bl = append(bl, ci.(*ssa.Call))
				}
			}
			okP := ok1 && ok2 && len(bl) > 0
			if okP {
				for _, n := range []int64{0, minB - 1, minB, minB + 1, maxB - 1, maxB, maxB + 1, 1 << 20} {
					e := newEnv()
					for _, b := range bl {
						e.bind(b, n)
					}
					cut := e.cuts(f)
					got := reachAfter(bl[0], cut)[kExp.Block()]
					if got != (n >= minB && n <= maxB) {
						okP = false
					}
				}
			}
			c.check(okP, "C29.gex-range", "dhGEXSHA.Client prime size", f, fmt.Sprintf("the exchange continues only when %d <= bits(p) <= %d", minB, maxB), "the server-provided prime's bit length is not bounded as documented")
		}
	}
	// ---- EC validation
	if f := c.fn("ssh", "unmarshalECKey"); f != nil {
		v := callsNamed(f, "ssh.validateECPublicKey")
		c.mustCross("C29.ec-valid", "unmarshalECKey", f, acceptReturns(f, 2), callSuccess(v, 0, isTrue), "validateECPublicKey == true")
		if len(v) == 1 {
			um := callsNamed(f, "crypto/elliptic.Unmarshal")
			okArgs := len(um) == 1
			if okArgs {
				xs, ys := resultN(um[0].(*ssa.Call), 0), resultN(um[0].(*ssa.Call), 1)
				okArgs = len(xs) == 1 && len(ys) == 1 && v[0].Common().Args[1] == xs[0] && v[0].Common().Args[2] == ys[0]
			}
			c.check(okArgs, "C29.ec-valid", "unmarshalECKey validates the decoded point", v[0], "the decoded coordinates are the ones validated", "validateECPublicKey is not applied to the decoded coordinates")
		}
	}
	if f := c.fn("ssh", "validateECPublicKey"); f != nil {
		acc := valueReturns(f, 0)
		onCurve := calls(f, nameIs("invoke:(crypto/elliptic.Curve).IsOnCurve"))
		c.mustCross("C29.ec-valid", "validateECPublicKey IsOnCurve", f, acc, callSuccess(onCurve, 0, isTrue), "IsOnCurve(x, y) == true")
		for i, ci := range callsNamed(f, "(*math/big.Int).Cmp") {
			call := ci.(*ssa.Call)
			lt := edgesImplying(call, []int64{-1, 0, 1}, func(d int64) bool { return d < 0 })
			c.mustCross("C29.ec-valid", fmt.Sprintf("validateECPublicKey coordinate#%d < P", i), f, acc, lt, "coordinate < P")
		}
		// (0,0) rejected
		var xs, ys *ssa.Call
		for _, ci := range callsNamed(f, "(*math/big.Int).Sign") {
			call := ci.(*ssa.Call)
			if call.Call.Args[0] == ssa.Value(f.Params[1]) {
				xs = call
			} else if call.Call.Args[0] == ssa.Value(f.Params[2]) {
				ys = call
			}
		}
		okZ := xs != nil && ys != nil
		if okZ {
			e := newEnv()
			e.bind(xs, 0)
			e.bind(ys, 0)
			e.solve(f)
			for _, t := range acc {
				if e.reach[t.Block()] {
					okZ = false
				}
			}
		}
		c.check(okZ, "C29.ec-valid", "validateECPublicKey rejects (0,0)", f, "the point at infinity encoding is rejected", "the (0,0) point is no longer rejected")
	}
	for _, side := range []string{"Client", "Server"} {
		if f := c.fn("ssh", "(*ecdh)."+side); f != nil {
			m := kexMessages(f)
			um := callsNamed(f, "ssh.unmarshalECKey")
			okPeer := len(um) == 1
			if okPeer {
				_, _, base, ok := fieldOf(um[0].Common().Args[1])
				okPeer = ok && m.peer[base]
			}
			c.check(okPeer, "C29.peer-validated", "ecdh."+side, f, "the peer's point goes through unmarshalECKey", "the peer's EC point is not validated by unmarshalECKey")
			sm := calls(f, nameIs("invoke:(crypto/elliptic.Curve).ScalarMult"))
			c.mustCross("C29.peer-validated", "ecdh."+side+" checked", f, callInstrs(sm), callSuccess(um, -1, isNil), "unmarshalECKey's nil-error edge")
			if len(sm) == 1 && len(um) == 1 {
				xs, ys := resultN(um[0].(*ssa.Call), 0), resultN(um[0].(*ssa.Call), 1)
				a := sm[0].Common().Args
				c.check(len(xs) == 1 && len(ys) == 1 && a[0] == xs[0] && a[1] == ys[0], "C29.peer-validated", "ecdh."+side+" secret from validated point", sm[0], "ScalarMult uses the validated coordinates", "the shared secret is not computed from the validated point")
			}
		}
	}
	// ---- X25519 / ML-KEM: length test + checked calls before the secret is used
	for _, sp := range []struct{ recv, side string }{{"curve25519sha256", "Client"}, {"curve25519sha256", "Server"}, {"mlkem768WithCurve25519sha256", "Client"}, {"mlkem768WithCurve25519sha256", "Server"}} {
		f := c.fn("ssh", "(*"+sp.recv+")."+sp.side)
		if f == nil {
			continue
		}
		m := kexMessages(f)
		name := sp.recv + "." + sp.side
		x := callsNamed(f, "curve25519.X25519")
		okArg := len(x) == 1
		if okArg {
			_, _, base, ok := fieldOf(sliceBase(x[0].Common().Args[1]))
			okArg = ok && m.peer[base]
		}
		c.check(okArg, "C29.peer-validated", name+" X25519(priv, peer)", f, "the peer's value is the point argument of X25519", "X25519 is not applied to the peer's public value")
		acc := acceptReturns(f, 1)
		c.mustCross("C29.peer-validated", name+" X25519 checked", f, acc, callSuccess(x, -1, isNil), "X25519's nil-error edge (rejects low-order points)")
		// exact length test on the peer's value before X25519
		var lenEq []edge
		var wantLen int64 = 32
		if strings.HasPrefix(sp.recv, "mlkem") {
			if sp.side == "Client" {
				wantLen = 1088 + 32
			} else {
				wantLen = 1184 + 32
			}
		}
		allInstrs(f, func(in ssa.Instruction) {
			if call, ok := in.(*ssa.Call); ok && calleeName(&call.Call) == "builtin:len" {
				if _, _, base, ok := fieldOf(call.Call.Args[0]); ok && m.peer[base] {
					lenEq = append(lenEq, edgesImplying(call, []int64{0, wantLen - 1, wantLen, wantLen + 1, 4096}, func(d int64) bool { return d == wantLen })...)
				}
			}
		})
		c.mustCross("C29.peer-validated", name+" length", f, callInstrs(x), lenEq, fmt.Sprintf("len(peer value) == %d", wantLen))
		if strings.HasPrefix(sp.recv, "mlkem") {
			var kem []ssa.CallInstruction
			if sp.side == "Client" {
				kem = calls(f, func(n string) bool { return strings.HasSuffix(n, "DecapsulationKey768).Decapsulate") })
			} else {
				kem = callsNamed(f, "crypto/mlkem.NewEncapsulationKey768")
			}
			c.mustCross("C29.peer-validated", name+" ML-KEM checked", f, acc, callSuccess(kem, -1, isNil), "the ML-KEM operation's nil-error edge")
		}
	}
	// ---- client authenticity
	if f := c.fn("ssh", "(*handshakeTransport).client"); f != nil {
		acc := acceptReturns(f, 1)
		vs := callsNamed(f, "ssh.verifyHostKeySignature")
		c.mustCross("C29.hostkey", "handshakeTransport.client signature", f, acc, callSuccess(vs, -1, isNil), "verifyHostKeySignature == nil")
		var cb []ssa.CallInstruction
		allInstrs(f, func(in ssa.Instruction) {
			if call, ok := in.(*ssa.Call); ok {
				if _, fld, _, ok := fieldOf(call.Call.Value); ok && fld == "hostKeyCallback" {
					cb = append(cb, call)
				}
			}
		})
		c.mustCross("C29.hostkey", "handshakeTransport.client host key callback", f, acc, callSuccess(cb, -1, isNil), "hostKeyCallback == nil")
		pk := callsNamed(f, "ssh.ParsePublicKey")
		okKey := len(pk) == 1 && len(vs) == 1 && len(cb) == 1
		if okKey {
			_, fld, base, ok := fieldOf(pk[0].Common().Args[0])
			var res ssa.Value
			for _, ci := range calls(f, func(n string) bool { return strings.HasSuffix(n, ".Client") }) {
				for _, v := range resultN(ci.(*ssa.Call), 0) {
					res = v
				}
			}
			okKey = ok && fld == "HostKey" && base == res
			keys := resultN(pk[0].(*ssa.Call), 0)
			okKey = okKey && len(keys) == 1 && vs[0].Common().Args[0] == keys[0] && cb[0].Common().Args[2] == keys[0] && vs[0].Common().Args[2] == res
		}
		c.check(okKey, "C29.hostkey", "handshakeTransport.client key identity", f, "the key verified and shown to the callback is parsed from the HostKey bytes that were hashed into H", "the verified / approved host key is not the key hashed into the exchange hash")
	}
	if f := c.fn("ssh", "verifyHostKeySignature"); f != nil {
		okV := false
		for _, ci := range calls(f, nameIs("invoke:(ssh.PublicKey).Verify")) {
			a := ci.Common().Args
			if _, fld, base, ok := fieldOf(a[0]); ok && fld == "H" && base == ssa.Value(f.Params[2]) && ci.Common().Value == ssa.Value(f.Params[0]) {
				okV = true
			}
		}
		c.check(okV, "C29.hostkey", "verifyHostKeySignature verifies H", f, "hostKey.Verify(result.H, sig)", "the host key signature is not verified over the exchange hash H")
		// format must equal underlyingAlgo(algo)
		var eq []edge
		allInstrs(f, func(in ssa.Instruction) {
			if bo, ok := in.(*ssa.BinOp); ok {
				_, fx, _, okx := fieldOf(bo.X)
				cy, oky := bo.Y.(*ssa.Call)
				if okx && fx == "Format" && oky && short(calleeName(&cy.Call)) == "ssh.underlyingAlgo" {
					y, _ := boolEdges(bo, bo.Op.String() == "==")
					eq = append(eq, y...)
				}
			}
		})
		var ver []ssa.Instruction
		for _, ci := range calls(f, nameIs("invoke:(ssh.PublicKey).Verify")) {
			ver = append(ver, ci)
		}
		c.mustCross("C29.hostkey", "verifyHostKeySignature algorithm", f, ver, eq, "sig.Format == underlyingAlgo(negotiated algorithm)")
	}
	// ---- chooseDH
	if f := c.fn("ssh", "chooseDH"); f != nil {
		// every store/assignment of best (phi leaves) lies behind the in-range edges
		var best *ssa.Phi
		for _, r := range acceptReturns(f, 1) {
			if p, ok := r.(*ssa.Return).Results[0].(*ssa.Phi); ok {
				best = p
			}
		}
		okC := best != nil
		bad := ""
		if okC {
			// comparisons group.size < MinBits / > MaxBits
			var minCmp, maxCmp *ssa.BinOp
			allInstrs(f, func(in ssa.Instruction) {
				if bo, ok := in.(*ssa.BinOp); ok {
					if _, fld, _, ok := fieldOf(bo.Y); ok && fld == "MinBits" {
						minCmp = bo
					}
					if _, fld, _, ok := fieldOf(bo.Y); ok && fld == "MaxBits" {
						maxCmp = bo
					}
				}
			})
			if minCmp == nil || maxCmp == nil {
				okC = false
				bad = "range comparisons with MinBits/MaxBits not found"
			} else {
				for _, tc := range [][2]int64{{1, 0}, {0, 1}, {1, 1}} {
					e := newEnv()
					e.bind(minCmp, tc[0])
					e.bind(maxCmp, tc[1])
					cut := e.cuts(f)
					r := reachAfter(minCmp, cut)
					for _, l := range phiLeaves(best) {
						if isNilConst(l.val) || l.pred == nil {
							continue
						}
						// leaves that are loads of group.p must be unreachable
						if _, fld, _, ok := fieldOf(l.val); ok && fld == "p" {
							if db := l.val.(ssa.Instruction).Block(); r[db] {
								okC = false
								bad = fmt.Sprintf("size<Min=%d size>Max=%d: a group can still be selected", tc[0], tc[1])
							}
						}
					}
				}
			}
		}
		c.check(okC, "C29.choose-dh", "chooseDH range", f, "a group outside [MinBits, MaxBits] can never become the selection", bad)
	}
}
