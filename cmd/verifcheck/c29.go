package main

func init() {
	register(&propDef{
		id: "C29", run: runC29, minOblig: 60,
		explanation: "Decides, for the five key-exchange implementations (dhGroup, ecdh, curve25519sha256, dhGEXSHA, mlkem768WithCurve25519sha256) and both roles, by symbolic execution of every path of Client/Server with the helpers of package ssh executed in place (values are identified by provenance — field of the message decoded from the peer, field of a message this side marshals, result of a named call, big-number expression — never by variable names; Cmp/Sign results, the length of a peer value and the bit length of a received prime are enumerated over finite domains, every other undetermined branch is explored both ways; a fact must hold on EVERY path that can return a nil error): (transcript binding) kexResult.H is the Sum of a hash that received, in order and in the prescribed wire encoding, V_C,V_S,I_C,I_S (the fields of the magics parameter), the host key, [GEX: min,n,max,p,g], the client's ephemeral value, the server's ephemeral value, K — where in Client the client value is the value this side SENT (field of a message that is marshalled and handed to writePacket) and in Server the value RECEIVED, K is mpint (string for ML-KEM) of a secret whose term contains the peer's ephemeral field; writeString/writeInt/binary.Write, a buffer filled by marshalInt/marshalString/PutUint32 and written, and the hand-written 4-byte big-endian length followed by the bytes are recognised as the same encodings; the hash input is compared as a canonical byte stream, not as a list of Write calls (a buffer tiled by fixed-width fields at constant offsets, an AppendUint32 chain or an array of uint32 is the sequence of its fields; two consecutive parts of one value are that value); received messages (fields and bytes) are never stored into after decoding; (peer-value validation) DH and GEX: K = Exp(Y, x, p) with Y the peer's field, own value Exp(g, x, p) with the same x and p (GEX: the hashed g, p), and Cmp(Y,1)=1 and Cmp(Y,p-1)=-1 decided, p-1 being Sub(p,1) or the group's pMinus1; diffieHellman itself likewise; the GEX client also for g, for the derived k and bits(p) within [min,max] exactly; ECDH: K = ScalarMult of the two coordinates elliptic.Unmarshal decoded from the peer's field on the exchange's curve, with (0,0) excluded, both coordinates < Params().P and IsOnCurve true decided (also on unmarshalECKey / validateECPublicKey themselves); X25519 and ML-KEM: K derives from X25519 / Decapsulate / Encapsulate(NewEncapsulationKey768) applied to the prescribed slice of the peer's field, their errors decided nil and len(peer value) decided equal to 32 / 1120 / 1216; (authenticity) handshakeTransport.client returns the Client result only when the key parsed from result.HostKey verified (nil) the signature parsed from result.Signature over result.H, the signature format equals underlyingAlgo(negotiated host key algorithm), and hostKeyCallback returned nil for that same key; (group choice) on every successful path of chooseDH the returned prime belongs to a candidate whose size was decided >= MinBits and <= MaxBits, and success without a selection is impossible; (fixed groups) by the same execution of the init functions that store into kexAlgoMap: every *dhGroup stored there has, at the time of the store, p = SetString(RFC prime pinned by digest, 16), pMinus1 = p-1 of that same prime term, g = 2, and the hash its algorithm name prescribes, and all four names are registered. Loops whose continuation is undetermined are followed for 3 (chooseDH: 4) decisions per activation; an execution that exceeds its budget or a function using defer/go/select is reported as undecided. NOT decided: the OpenSSH preference among in-range groups, numeric agreement of H and K, the wire helpers writeString/writeInt/marshalInt/marshalString themselves.",
		assumptions: []string{"math/big Cmp/Sign contracts", "crypto/ecdh, curve25519.X25519 reject low-order points (C11)", "crypto/mlkem contracts", "writeString/writeInt/marshalInt/marshalString/binary.Write encode as their names say"},
	})
	tech("C29", "symbolic path execution of the key-exchange functions with in-place execution of same-package helpers (E6/E10/E2 combined): hash-input sequence with provenance terms, finite-domain enumeration of Cmp/len/BitLen outcomes, facts required on every accepting path")
}

func runC29(c *Ctx) {
	c29Debug(c)
	c29Groups(c)
	for _, sp := range kexSpecs {
		for _, side := range []string{"Client", "Server"} {
			c29Kex(c, sp, side)
		}
	}
	c29DHFunc(c)
	c29ECFuncs(c)
	c29HostKey(c)
	c29ChooseDH(c)
}
