package main

import (
	"fmt"
	"go/types"
	"strings"

	"golang.org/x/tools/go/ssa"
)

func init() {
	register(&propDef{
		id: "C51", run: runC51, minOblig: 14,
		explanation: "Decides clauses of C51 in acme/autocert by scenario evaluation: a root function and the same-package helpers it calls are evaluated context-sensitively over a finite domain in which the outcome of some semantic tests is fixed and everything else is unknown; tests are recognised by the provenance of their operands (root parameter by type, field chain, element 0 of x509.ParseCertificates' result, followed through helper parameters, spilled values, conversions and single-valued helper results), not by names of locals/parameters/receivers or by the function they are written in. (policy) in GetCertificate, when the call through Manager.HostPolicy (or the accessor's default) returns an error no call of Manager.cert / Manager.createCert is reachable, and the name given to the policy is the value the certificate key's domain is built from (through strings.TrimSuffix only); (cache validity) in cacheGet, when validCert returns an error every reachable return has a nil certificate, and validCert is applied to cacheGet's own certKey parameter and Manager.now(); (validCert) no nil-error return is reachable when now is before leaf.NotBefore, when now is after leaf.NotAfter, when leaf.VerifyHostname(ck.domain) fails, when the leaf is a Let's Encrypt certificate from before the fix date, when ParseCertificates fails, or when leaf.PublicKey's N / X / Y compares unequal to the private key's (Before/After/Equal/Compare/Sub in either operand order, Cmp in either order and any comparison of its result with a constant are understood); over (leaf key class, private key class, ck.isRSA, ck.isToken) a nil-error return is reachable exactly when both classes agree (RSA or ECDSA) and the class matches ck.isRSA or ck.isToken is set; (single issuance, one interleaving-independent clause) on every path of certState with helpers expanded, Manager.state is consulted/extended only while stateMu is held, an insertion follows a lookup made in the same critical section, the inserted state was write-locked before, and owner=true is returned only on inserting paths; (no panic in renewal timers) every argument of a math/rand bounded draw (Int63n family, also math/rand/v2) in acme/autocert is a positive constant, max(positive constant, ...), or dominated by a > 0 test, followed from a forwarding helper's parameter to the arguments at all its call sites. NOT decided: single issuance under all schedules beyond the certState critical section, jitter window values, renewal timing.",
		assumptions: []string{"math/rand.Int63n panics iff n <= 0 (stdlib contract)", "x509.Certificate.VerifyHostname / time.Time.Before/After/Compare/Sub and big.Int.Cmp contracts"},
	})
	tech("C51", "context-sensitive compositional finite-domain evaluation of scenarios (roles by provenance), path walk with lock state over helpers expanded in place, interprocedural positivity guard of Int63n arguments")
}

const c51Pkg = "acme/autocert"

func runC51(c *Ctx) {
	c51SingleIssuance(c)
	c51PolicyFirst(c)
	c51CacheValid(c)
	c51ValidCert(c)
	c51Int63n(c)
}

func c51ArgOfType(call *ssa.Call, pkg, name string) ssa.Value {
	for _, a := range call.Call.Args {
		if p, n := c51Named(a.Type()); n == name && p == pkg {
			return a
		}
	}
	return nil
}

// ---- (a) host policy precedes certificate lookup/issuance
func c51PolicyFirst(c *Ctx) {
	f := c.fn(c51Pkg, "(*Manager).GetCertificate")
	if f == nil {
		return
	}
	pkgPath := f.Pkg.Pkg.Path()
	k := c51NewKit(c, f)
	isTarget := func(v c51Val) string {
		call := v.v.(*ssa.Call)
		if sc := call.Call.StaticCallee(); sc != nil && sc.Pkg == f.Pkg {
			switch fnName(sc) {
			case "(*Manager).cert", "(*Manager).createCert":
				return fnName(sc)
			}
		}
		return ""
	}
	null := k.scen(&c51World{}, "(*Manager).cert", "(*Manager).createCert")
	null.run(k.root)
	var targets []c51Val
	have := map[string]bool{}
	for _, rc := range null.reachedCalls {
		if t := isTarget(rc); t != "" {
			targets = append(targets, rc)
			have[t] = true
		}
	}
	if !c.check(len(have) == 2, "C51.policy-first", "(*Manager).GetCertificate targets", f, "cert and createCert call sites found", fmt.Sprintf("calls of Manager.cert and Manager.createCert expected in GetCertificate or its helpers, found %d of the two", len(have))) {
		return
	}
	pols := k.sites["policy"]
	bad := k.scen(&c51World{policyBad: true}, "(*Manager).cert", "(*Manager).createCert")
	bad.run(k.root)
	var hit *c51Val
	for i, rc := range bad.reachedCalls {
		if isTarget(rc) != "" {
			hit = &bad.reachedCalls[i]
			break
		}
	}
	switch {
	case len(pols) == 0:
		c.fail("C51.policy-first", "(*Manager).GetCertificate", f, "gate not found: no call through Manager.HostPolicy in GetCertificate or its helpers")
	case hit != nil:
		c.fail("C51.policy-first", "(*Manager).GetCertificate", hit.v.(*ssa.Call), "reachable although the host policy returned an error (helpers evaluated in context)")
	default:
		c.ok("C51.policy-first", "(*Manager).GetCertificate", targets[0].v.(*ssa.Call), fmt.Sprintf("when the host policy returns an error none of the %d cert/createCert call(s) is reachable (%d policy call(s), helpers evaluated in context)", len(targets), len(pols)))
	}
	if len(pols) == 0 {
		return
	}
	// same name: the policy's name argument is what the key's domain is built from
	var derives func(v c51Val, pol ssa.Value, d int) bool
	derives = func(v c51Val, pol ssa.Value, d int) bool {
		r := c51Resolve(v.v, v.cx)
		if r.v == pol {
			return true
		}
		if call, ok := r.v.(*ssa.Call); ok && d < 4 && short(calleeName(&call.Call)) == "strings.TrimSuffix" {
			return derives(c51Val{call.Call.Args[0], r.cx}, pol, d+1)
		}
		return false
	}
	domainSources := func(v c51Val) []c51Val {
		r := c51Resolve(v.v, v.cx)
		var out []c51Val
		u, ok := r.v.(*ssa.UnOp)
		if !ok {
			return nil
		}
		al, ok := u.X.(*ssa.Alloc)
		if !ok || al.Referrers() == nil {
			return nil
		}
		for _, ref := range *al.Referrers() {
			fa, ok := ref.(*ssa.FieldAddr)
			if !ok || fa.Referrers() == nil {
				continue
			}
			if st := derefStruct(fa.X.Type()); st == nil || st.Field(fa.Field).Name() != "domain" {
				continue
			}
			for _, rr := range *fa.Referrers() {
				if s, ok := rr.(*ssa.Store); ok && s.Addr == ssa.Value(fa) {
					out = append(out, c51Val{s.Val, r.cx})
				}
			}
		}
		return out
	}
	same, why := true, ""
	for _, p := range pols {
		call := p.in.(*ssa.Call)
		var polName ssa.Value
		for _, a := range call.Call.Args {
			if b, ok := a.Type().Underlying().(*types.Basic); ok && b.Kind() == types.String {
				polName = c51Resolve(a, p.cx).v
			}
		}
		for _, t := range targets {
			ck := c51ArgOfType(t.v.(*ssa.Call), pkgPath, "certKey")
			if ck == nil || polName == nil {
				same, why = false, "policy name / certKey argument not found"
				continue
			}
			srcs := domainSources(c51Val{ck, t.cx})
			if len(srcs) == 0 {
				same, why = false, "the construction of the certificate key's domain was not found"
			}
			for _, s := range srcs {
				if !derives(s, polName, 0) {
					same, why = false, "the name checked by the host policy is not the value used to build the certificate key"
				}
			}
		}
	}
	c.check(same, "C51.policy-name", "(*Manager).GetCertificate", pols[0].in, "the policy is asked about the name the certificate key is built from", why)
}

// ---- (b) cacheGet returns only validated certificates
func c51CacheValid(c *Ctx) {
	f := c.fn(c51Pkg, "(*Manager).cacheGet")
	if f == nil {
		return
	}
	pkgPath := f.Pkg.Pkg.Path()
	k := c51NewKit(c, f)
	null := k.scen(&c51World{}, "validCert")
	null.run(k.root)
	var vcs []c51Val
	for _, rc := range null.reachedCalls {
		if k.role(rc.v.(*ssa.Call), rc.cx).kind == "validcert-call" {
			vcs = append(vcs, rc)
		}
	}
	if len(vcs) == 0 {
		c.fail("C51.cache-valid", "(*Manager).cacheGet", f, "gate not found: no call of validCert in cacheGet or its helpers")
		return
	}
	bad := k.scen(&c51World{validBad: true}, "validCert")
	var leak *ssa.Return
	for _, r := range bad.run(k.root) {
		if len(r.vals) > 0 && !(r.vals[0].nilOK && r.vals[0].isNil) {
			leak = r.ret
		}
	}
	if leak != nil {
		c.fail("C51.cache-valid", "(*Manager).cacheGet", leak, "a certificate is returned although validCert returned an error (helpers evaluated in context)")
	} else {
		c.ok("C51.cache-valid", "(*Manager).cacheGet", vcs[0].v.(*ssa.Call), fmt.Sprintf("when validCert returns an error every reachable return of cacheGet has a nil certificate (%d validCert call(s))", len(vcs)))
	}
	ckOK, nowOK := true, true
	for _, vc := range vcs {
		call := vc.v.(*ssa.Call)
		a := c51ArgOfType(call, pkgPath, "certKey")
		if a == nil {
			ckOK = false
		} else if root, fields := c51Chain(a, vc.cx); len(fields) != 0 || !c51RootParam(root, pkgPath, "certKey") {
			ckOK = false
		}
		t := c51ArgOfType(call, "time", "Time")
		ok := false
		if t != nil {
			if tc, isC := c51Resolve(t, vc.cx).v.(*ssa.Call); isC {
				if sc := tc.Call.StaticCallee(); sc != nil && fnName(sc) == "(*Manager).now" {
					ok = true
				}
				if _, fields := c51Chain(tc.Call.Value, vc.cx); len(fields) > 0 && fields[len(fields)-1] == "nowFunc" {
					ok = true
				}
			}
		}
		nowOK = nowOK && ok
	}
	c.check(ckOK, "C51.cache-valid-args", "(*Manager).cacheGet validCert(ck)", vcs[0].v.(*ssa.Call), "validated against the requested certKey", "validCert is not applied to cacheGet's own certKey parameter")
	c.check(nowOK, "C51.cache-valid-args", "(*Manager).cacheGet validCert(now)", vcs[0].v.(*ssa.Call), "validated at Manager.now()", "validCert's time argument is not Manager.now()")
}

// ---- (b2) validCert gates
func c51ValidCert(c *Ctx) {
	f := c.fn(c51Pkg, "validCert")
	if f == nil {
		return
	}
	k := c51NewKit(c, f)
	errIdx := f.Signature.Results().Len() - 1
	accept := func(w *c51World) *ssa.Return {
		for _, r := range k.scen(w).run(k.root) {
			if errIdx < len(r.vals) && !(r.vals[errIdx].nilOK && !r.vals[errIdx].isNil) {
				return r.ret
			}
		}
		return nil
	}
	// the unconstrained world must be able to accept (and makes every role known)
	if accept(&c51World{}) == nil {
		c.fail("C51.validcert-gate", "validCert", f, "no nil-error return of validCert found (rule anchor lost)")
		return
	}
	type gate struct {
		construct, cond string
		w               *c51World
		tags            []string
	}
	gates := []gate{
		{"validCert now.Before(leaf.NotBefore)", "now is before leaf.NotBefore", &c51World{rel: map[[2]string]int64{{"now", "nb"}: -1}}, []string{"timecmp:nb,now"}},
		{"validCert now.After(leaf.NotAfter)", "now is after leaf.NotAfter", &c51World{rel: map[[2]string]int64{{"now", "na"}: 1}}, []string{"timecmp:na,now"}},
		{"validCert VerifyHostname(ck.domain)", "leaf.VerifyHostname(ck.domain) returns an error", &c51World{hostBad: true}, []string{"host"}},
		{"validCert isRevokedLetsEncrypt", "the leaf was issued by Let's Encrypt before the fix date", &c51World{org: true, rel: map[[2]string]int64{{"nb", "fix"}: -1}}, []string{"orglen", "orgname", "timecmp:fix,nb"}},
		{"validCert ParseCertificates", "x509.ParseCertificates returns an error", &c51World{parseBad: true}, []string{"parse"}},
	}
	for _, g := range gates {
		n := 0
		missing := ""
		for _, t := range g.tags {
			n += k.nSites(t)
			if k.nSites(t) == 0 {
				missing = " — gate not found: no test of this condition (" + t + ") on the leaf in validCert or its helpers"
			}
		}
		if r := accept(g.w); r != nil {
			c.fail("C51.validcert-gate", g.construct, r, "a nil-error return is reachable although "+g.cond+missing)
		} else {
			c.ok("C51.validcert-gate", g.construct, f, fmt.Sprintf("no nil-error return is reachable when %s (%d test site(s), helpers evaluated in context)", g.cond, n))
		}
	}
	// key comparisons: an unequal component excludes acceptance whatever the flags
	classOf := map[string]string{"N": "rsa", "X": "ecdsa", "Y": "ecdsa"}
	for _, comp := range []string{"N", "X", "Y"} {
		var leak *ssa.Return
		desc := ""
		for _, d := range []int64{-1, 1} {
			for isRSA := int64(0); isRSA < 2; isRSA++ {
				for isTok := int64(0); isTok < 2; isTok++ {
					w := &c51World{keys: true, pub: classOf[comp], prv: classOf[comp], cmp: map[string]int64{"N": 0, "X": 0, "Y": 0}, isRSA: isRSA, isToken: isTok}
					w.cmp[comp] = d
					if r := accept(w); r != nil && leak == nil {
						leak, desc = r, fmt.Sprintf("Cmp = %d, ck.isRSA=%d ck.isToken=%d", d, isRSA, isTok)
					}
				}
			}
		}
		construct := "validCert " + classOf[comp] + " key " + comp
		if leak != nil {
			missing := ""
			if k.nSites("cmp:"+comp) == 0 {
				missing = fmt.Sprintf(" — no comparison of leaf.PublicKey's %s with the private key's %s found", comp, comp)
			}
			c.fail("C51.validcert-keymatch", construct, leak, fmt.Sprintf("a nil-error return is reachable although the leaf's public %s differs from the private key's (%s)%s", comp, desc, missing))
		} else {
			c.ok("C51.validcert-keymatch", construct, f, fmt.Sprintf("no nil-error return is reachable when the leaf's public %s differs from the private key's (%d comparison site(s))", comp, k.nSites("cmp:"+comp)))
		}
	}
	// key class / expected type table
	bad, n := "", 0
	var badAt poser = f
	classes := []string{"rsa", "ecdsa", "other"}
	for _, pub := range classes {
		for _, prv := range classes {
			for isRSA := int64(0); isRSA < 2; isRSA++ {
				for isTok := int64(0); isTok < 2; isTok++ {
					w := &c51World{keys: true, pub: pub, prv: prv, cmp: map[string]int64{"N": 0, "X": 0, "Y": 0}, isRSA: isRSA, isToken: isTok}
					r := accept(w)
					want := pub == prv && pub != "other" && (isTok == 1 || (pub == "rsa") == (isRSA == 1))
					n++
					if (r != nil) != want && bad == "" {
						bad = fmt.Sprintf("leaf key %s, private key %s, ck.isRSA=%d ck.isToken=%d: acceptance reachable=%v, specification %v", pub, prv, isRSA, isTok, r != nil, want)
						if r != nil {
							badAt = r
						}
					}
				}
			}
		}
	}
	if bad == "" && (k.nSites("pubtype:rsa") == 0 || k.nSites("pubtype:ecdsa") == 0) {
		bad = "no type test of leaf.PublicKey against *rsa.PublicKey / *ecdsa.PublicKey found"
	}
	c.check(bad == "", "C51.validcert-keytype", "validCert key type table", badAt, fmt.Sprintf("key-type gate matches the specification on all %d cases (leaf key class x private key class x ck.isRSA x ck.isToken)", n), bad)
}

// ---- (c) bounded random draws never get a non-positive bound
func c51RandN(name string) bool {
	name = short(name)
	for _, p := range []string{"math/rand.", "(*math/rand.Rand).", "math/rand/v2.", "(*math/rand/v2.Rand)."} {
		if strings.HasPrefix(name, p) {
			switch m := name[len(p):]; {
			case m == "Int63n" || m == "Int31n" || m == "Intn" || m == "Int64N" || m == "Int32N" || m == "IntN" || m == "Uint64N" || m == "Uint32N" || m == "UintN" || m == "N" || strings.HasPrefix(m, "N["):
				return true
			}
		}
	}
	return false
}

func c51Int63n(c *Ctx) {
	sinks, leaves := 0, 0
	var visit func(arg ssa.Value, at ssa.CallInstruction, depth int)
	visit = func(arg ssa.Value, at ssa.CallInstruction, depth int) {
		f := at.Parent()
		ok, why := positiveGuarded(arg, at)
		if !ok {
			if mc, isC := stripConv(arg).(*ssa.Call); isC && calleeName(&mc.Call) == "builtin:max" {
				for _, a := range mc.Call.Args {
					if n, isK := newEnv().eval(a); isK && n > 0 {
						ok, why = true, fmt.Sprintf("max(%d, ...)", n)
					}
				}
			}
		}
		if !ok && depth < 3 {
			// a helper that forwards its own parameter: the obligation moves to
			// every call site of the helper
			if p, isP := stripConv(arg).(*ssa.Parameter); isP && p.Parent() == f {
				idx := paramIndex(f, p)
				cs := c.callersOf(f)
				if idx >= 0 && len(cs) > 0 && (f.Object() == nil || !f.Object().Exported()) {
					for _, ci := range cs {
						args := ci.Common().Args
						if ci.Common().IsInvoke() || idx >= len(args) {
							c.fail("C51.int63n-positive", fnName(f)+" int63n arg", ci, "Int63n argument may be <= 0 (panics): forwarded through a call that cannot be followed")
							continue
						}
						visit(args[idx], ci, depth+1)
					}
					return
				}
			}
		}
		leaves++
		c.check(ok, "C51.int63n-positive", fnName(f)+" int63n arg", at, why, "Int63n argument may be <= 0 (panics): "+why)
	}
	for _, f := range c.funcsOfPkg(c51Pkg) {
		for _, ci := range calls(f, c51RandN) {
			args := ci.Common().Args
			if len(args) == 0 {
				continue
			}
			sinks++
			visit(args[len(args)-1], ci, 0)
		}
	}
	c.check(sinks >= 1 && leaves >= 1, "C51.int63n-positive", "call sites", nil, fmt.Sprintf("%d bounded draw(s) of math/rand, bound established at %d site(s)", sinks, leaves), fmt.Sprintf("expected a bounded math/rand draw in acme/autocert, found %d (bounds checked at %d sites)", sinks, leaves))
}
