package main

import (
	"fmt"
	"strings"

	"golang.org/x/tools/go/ssa"
)

func init() {
	register(&propDef{
		id: "C51", run: runC51, minOblig: 14,
		explanation: "Decides guard-shape clauses of C51 in acme/autocert: (policy) in GetCertificate every path to Manager.cert / Manager.createCert passes the nil-error edge of the host-policy call, and the name given to the policy is the value the certificate key is built from; (cache validity) cacheGet returns a certificate only over the success edge of validCert applied to its own certKey parameter and Manager.now(); validCert's nil-error return lies behind each gate — not-before, not-after (receiver is the 'now' parameter), VerifyHostname(ck.domain), the Let's Encrypt revocation test, every public/private key Cmp == 0 edge — and, by finite-domain evaluation over (key arm, ck.isRSA, ck.isToken), is reachable exactly when the key type matches the certKey; (no panic in renewal timers) every argument of lockedMathRand.int63n / rand.Int63n in acme/autocert is a positive constant or dominated by a > 0 test. NOT decided: single issuance under all schedules, jitter window values, renewal timing.",
		assumptions: []string{"math/rand.Int63n panics iff n <= 0 (stdlib contract)", "x509.Certificate.VerifyHostname / time.Time.Before/After contracts"},
	})
	tech("C51", "must-cross CFG rules on checked calls, finite-domain evaluation of the key-type gate, positivity guard of Int63n arguments")
}

func runC51(c *Ctx) {
	c51SingleIssuance(c)
	const pk = "acme/autocert"
	// ---- (a) host policy precedes certificate lookup/issuance
	if f := c.fn(pk, "(*Manager).GetCertificate"); f != nil {
		var pol []ssa.CallInstruction
		allInstrs(f, func(in ssa.Instruction) {
			if call, ok := in.(*ssa.Call); ok {
				if inner, ok := call.Call.Value.(*ssa.Call); ok && short(calleeName(&inner.Call)) == "(*acme/autocert.Manager).hostPolicy" {
					pol = append(pol, call)
				}
			}
		})
		targets := callInstrs(callsNamed(f, "(*acme/autocert.Manager).cert", "(*acme/autocert.Manager).createCert"))
		if c.mustCross("C51.policy-first", "(*Manager).GetCertificate", f, targets, callSuccess(pol, -1, isNil), "the host policy's nil-error edge") && len(pol) == 1 {
			// same name: policy arg == TrimSuffix arg that feeds certKey.domain
			polName := pol[0].Common().Args[1]
			same := false
			for _, ci := range callsNamed(f, "strings.TrimSuffix") {
				if ci.Common().Args[0] == polName {
					same = true
				}
			}
			c.check(same, "C51.policy-name", "(*Manager).GetCertificate", pol[0], "the policy is asked about the name the certificate key is built from", "the name checked by the host policy is not the value used to build the certificate key")
		}
		c.check(len(targets) == 2, "C51.policy-first", "(*Manager).GetCertificate targets", f, "cert and createCert call sites found", fmt.Sprintf("expected 2 cert/createCert call sites, found %d", len(targets)))
	}
	// ---- (b) cacheGet returns only validated certificates
	if f := c.fn(pk, "(*Manager).cacheGet"); f != nil {
		vc := callsNamed(f, "acme/autocert.validCert")
		if c.mustCross("C51.cache-valid", "(*Manager).cacheGet", f, valueReturns(f, 0), callSuccess(vc, -1, isNil), "validCert's nil-error edge") && len(vc) == 1 {
			args := vc[0].Common().Args
			c.check(args[0] == ssa.Value(param(f, "ck")), "C51.cache-valid-args", "(*Manager).cacheGet validCert(ck)", vc[0], "validated against the requested certKey", "validCert is not applied to cacheGet's own certKey parameter")
			nowOK := false
			if call, ok := args[3].(*ssa.Call); ok {
				if u, ok := call.Call.Value.(*ssa.UnOp); ok && strings.HasSuffix(accessPath(u), ".nowFunc") {
					nowOK = true
				}
				if short(calleeName(&call.Call)) == "(*acme/autocert.Manager).now" {
					nowOK = true
				}
			}
			c.check(nowOK, "C51.cache-valid-args", "(*Manager).cacheGet validCert(now)", vc[0], "validated at Manager.now()", "validCert's time argument is not Manager.now()")
		}
	}
	// ---- (b2) validCert gates
	if f := c.fn(pk, "validCert"); f != nil {
		acc := acceptReturns(f, 1)
		// time window
		for _, g := range []struct{ meth, field string }{{"Before", "NotBefore"}, {"After", "NotAfter"}} {
			var pass []edge
			for _, ci := range callsNamed(f, "(time.Time)."+g.meth) {
				call := ci.(*ssa.Call)
				if accessPath(call.Call.Args[0]) != "now" && call.Call.Args[0] != ssa.Value(param(f, "now")) {
					continue
				}
				if tn, fld, _, ok := fieldOf(call.Call.Args[1]); !ok || tn != "Certificate" || fld != g.field {
					continue
				}
				_, no := successEdges(call, 0, isTrue)
				pass = append(pass, no...)
			}
			c.mustCross("C51.validcert-gate", "validCert now."+g.meth+"(leaf."+g.field+")", f, acc, pass, "the false edge of now."+g.meth+"(leaf."+g.field+")")
		}
		// hostname
		var hn []ssa.CallInstruction
		for _, ci := range callsNamed(f, "(*crypto/x509.Certificate).VerifyHostname") {
			if strings.HasSuffix(accessPath(ci.Common().Args[1]), "ck.domain") {
				hn = append(hn, ci)
			}
		}
		c.mustCross("C51.validcert-gate", "validCert VerifyHostname(ck.domain)", f, acc, callSuccess(hn, -1, isNil), "VerifyHostname(ck.domain) == nil")
		c.mustCross("C51.validcert-gate", "validCert isRevokedLetsEncrypt", f, acc, callFailure(callsNamed(f, "acme/autocert.isRevokedLetsEncrypt"), 0, isTrue), "the false edge of isRevokedLetsEncrypt")
		// chain parse
		c.mustCross("C51.validcert-gate", "validCert ParseCertificates", f, acc, callSuccess(callsNamed(f, "crypto/x509.ParseCertificates"), -1, isNil), "ParseCertificates' nil-error edge")
		// key comparisons
		cmps := callsNamed(f, "(*math/big.Int).Cmp")
		c.check(len(cmps) >= 3, "C51.validcert-keymatch", "validCert Cmp count", f, fmt.Sprintf("%d public/private comparisons", len(cmps)), fmt.Sprintf("only %d key comparisons found, expected 3 (RSA N, ECDSA X, Y)", len(cmps)))
		for i, ci := range cmps {
			call := ci.(*ssa.Call)
			zero := edgesImplying(call, []int64{-1, 0, 1}, func(d int64) bool { return d == 0 })
			c.mustCrossFrom("C51.validcert-keymatch", fmt.Sprintf("validCert Cmp#%d", i), call, acc, zero, "the == 0 edge of this public/private comparison")
		}
		// key type gate by finite-domain evaluation
		type arm struct {
			name string
			ok   *ssa.Extract
		}
		var arms []arm
		allInstrs(f, func(in ssa.Instruction) {
			ta, ok := in.(*ssa.TypeAssert)
			if !ok || !ta.CommaOk {
				return
			}
			if tn, fld, _, ok := fieldOf(ta.X); !ok || tn != "Certificate" || fld != "PublicKey" {
				return
			}
			for _, r := range *ta.Referrers() {
				if ex, ok := r.(*ssa.Extract); ok && ex.Index == 1 {
					arms = append(arms, arm{ta.AssertedType.String(), ex})
				}
			}
		})
		if len(arms) != 2 {
			c.fail("C51.validcert-keytype", "validCert type switch", f, fmt.Sprintf("expected a type switch over 2 public key types, found %d", len(arms)))
		} else {
			bad := ""
			n := 0
			for sel := -1; sel < 2; sel++ {
				for isRSA := int64(0); isRSA < 2; isRSA++ {
					for isTok := int64(0); isTok < 2; isTok++ {
						e := newEnv()
						for i, a := range arms {
							if i == sel {
								e.bind(a.ok, 1)
							} else {
								e.bind(a.ok, 0)
							}
						}
						e.bindPath(f, "ck.isRSA", isRSA)
						e.bindPath(f, "ck.isToken", isTok)
						e.solve(f)
						got := false
						for _, t := range acc {
							if e.reach[t.Block()] {
								got = true
							}
						}
						want := false
						if sel >= 0 {
							rsa := strings.Contains(arms[sel].name, "rsa.")
							want = isTok == 1 || (rsa == (isRSA == 1))
						}
						n++
						if got != want {
							armName := "other"
							if sel >= 0 {
								armName = arms[sel].name
							}
							bad = fmt.Sprintf("leaf key %s, ck.isRSA=%d ck.isToken=%d: acceptance reachable=%v, specification %v", armName, isRSA, isTok, got, want)
						}
					}
				}
			}
			c.check(bad == "", "C51.validcert-keytype", "validCert type switch", f, fmt.Sprintf("key-type gate matches the specification on all %d cases", n), bad)
		}
	}
	// ---- (c) Int63n arguments positive
	n := 0
	for _, f := range c.funcsOfPkg(pk) {
		for _, ci := range calls(f, nameIs("(*acme/autocert.lockedMathRand).int63n", "(*math/rand.Rand).Int63n", "math/rand.Int63n")) {
			if fnName(f) == "(*lockedMathRand).int63n" {
				continue // the wrapper itself forwards its parameter
			}
			args := ci.Common().Args
			arg := args[len(args)-1]
			ok, why := positiveGuarded(arg, ci)
			n++
			c.check(ok, "C51.int63n-positive", fnName(f)+" int63n arg", ci, why, "Int63n argument may be <= 0 (panics): "+why)
		}
	}
	c.check(n >= 2, "C51.int63n-positive", "call sites", nil, fmt.Sprintf("%d call sites", n), fmt.Sprintf("expected >= 2 int63n call sites, found %d", n))
}
