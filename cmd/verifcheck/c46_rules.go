package main

import (
	"encoding/base64"
	"fmt"
	"go/types"
	"strings"

	"golang.org/x/tools/go/ssa"
)

const (
	c46Armor     = "openpgp/armor"
	c46Clearsign = "openpgp/clearsign"
	c46EOF       = "io.EOF"
	c46Corrupt   = modPath + "/" + c46Armor + ".ArmorCorrupt"
)

// c46Field: the name of the unique field of struct type st selected by pred
// (fields are identified by type where the type is unique, so that a renamed
// field does not change the rule); def is used when pred is ambiguous.
func c46Field(st *types.Struct, def string, pred func(t types.Type) bool) string {
	name, n := "", 0
	if st != nil {
		for i := 0; i < st.NumFields(); i++ {
			if pred(st.Field(i).Type()) {
				name = st.Field(i).Name()
				n++
			}
		}
	}
	if n == 1 {
		return name
	}
	return def
}

func c46IsUint32(t types.Type) bool {
	b, ok := t.Underlying().(*types.Basic)
	return ok && b.Kind() == types.Uint32
}

func c46RecvStruct(f *ssa.Function) *types.Struct {
	if f == nil || len(f.Params) == 0 {
		return nil
	}
	return derefStruct(f.Params[0].Type())
}

// c46CRCModel: when the walker could not interpret the package's crc24 in
// place (a table-driven rewrite, say) the function is taken as the CRC-24 of
// RFC 4880 by its name.
func c46CRCModel(m *c46m, w *pathWalker, ci ssa.CallInstruction) bool {
	cc := ci.Common()
	callee := cc.StaticCallee()
	if callee == nil || callee.Pkg != m.root.Pkg || !strings.HasPrefix(strings.ToLower(callee.Name()), "crc24") || len(cc.Args) != 2 {
		return false
	}
	old, ok1 := w.env.eval(cc.Args[0])
	d, ok2 := m.argStr(w, cc.Args[1])
	if !ok1 || !ok2 {
		return false
	}
	m.retInt(w, ci, int64(c46CRC24(uint32(old), []byte(d))))
	return true
}

func c46Hex(b string) string { return fmt.Sprintf("% x", b) }

// ---------------------------------------------------------------------------
// armor: the checksum trailer written by (*encoding).Close and read back by
// (*lineReader).Read

// c46CRCOrder (writer side): Close is interpreted with the running CRC set to
// a probe value; whatever reaches the base64 encoder as the source of the
// checksum line must be the three bytes of the probe, most significant first.
func c46CRCOrder(c *Ctx) {
	f := c.fn(c46Armor, "(*encoding).Close")
	if f == nil {
		return
	}
	crcField := c46Field(c46RecvStruct(f), "crc", c46IsUint32)
	ok, detail := true, ""
	for _, probe := range []uint32{0xA1B2C3, 0xEE5D0A7F} {
		want := string([]byte{byte(probe >> 16), byte(probe >> 8), byte(probe)})
		m := c46NewMachine(c, f)
		m.mem["%0."+crcField] = int64(probe)
		var srcs []string
		m.observe = func(m *c46m, w *pathWalker, ci ssa.CallInstruction) {
			name := short(calleeName(ci.Common()))
			a := ci.Common().Args
			var src ssa.Value
			switch name {
			case "(*encoding/base64.Encoding).Encode", "(*encoding/base64.Encoding).AppendEncode":
				src = a[2]
			case "(*encoding/base64.Encoding).EncodeToString":
				src = a[1]
			default:
				return
			}
			if r, isR := m.get(w, src); isR {
				if s, known := r.str(); known {
					srcs = append(srcs, s)
					return
				}
				srcs = append(srcs, "unknown:"+r.show())
				return
			}
			srcs = append(srcs, "unknown")
		}
		m.model, m.summary = c46CRCModel, c46CRCModel
		w := m.walker(4000)
		end := w.walk(f.Blocks[0], nil)
		switch {
		case end != "return":
			c.undecided("C46.crc-order", "(*encoding).Close checksum bytes", f, m.why(w, end))
			return
		case len(srcs) != 1:
			ok, detail = false, fmt.Sprintf("with crc=%#x, %d byte strings reach the base64 encoder in Close (want exactly the 3 checksum bytes)", probe, len(srcs))
		case len(srcs[0]) > 3 && strings.HasPrefix(srcs[0], "unknown"):
			c.undecided("C46.crc-order", "(*encoding).Close checksum bytes", f, "the bytes handed to the base64 encoder are not determined by the interpretation ("+srcs[0]+"; calls outside the model: "+strings.Join(c46Uniq(m.unknown), ", ")+")")
			return
		case srcs[0] != want:
			ok, detail = false, fmt.Sprintf("checksum bytes are not the big-endian 24-bit CRC: with crc=%#x the base64 encoder is given [%s], want [%s]", probe, c46Hex(srcs[0]), c46Hex(want))
		}
		if !ok {
			break
		}
	}
	c.check(ok, "C46.crc-order", "(*encoding).Close checksum bytes", f, "the bytes handed to the base64 encoder are crc>>16, crc>>8, crc (Close interpreted with crc=0xA1B2C3 and 0xEE5D0A7F)", detail)
}

// c46GateFlag: the "a checksum was recorded" flag of lineReader, identified by
// role: the boolean field of lineReader that (*openpgpReader).Read (or a helper
// of it) consults. (crcSet when the role is not unique.)
func c46GateFlag(c *Ctx) string {
	lr := c46RecvStruct(c.fnOpt(c46Armor, "(*lineReader).Read"))
	if used := c46FieldsUsed(c.fnOpt(c46Armor, "(*openpgpReader).Read"), lr, isBoolType); len(used) == 1 {
		return used[0]
	}
	return "crcSet"
}

type c46Line struct {
	s      string
	prefix bool
	err    string // "" = nil, else the key of a sentinel
}

type c46LRResult struct {
	m      *c46m
	w      *pathWalker
	end    string
	n      int64
	nOK    bool
	err    int64
	errOK  bool
	crc    int64
	crcOK  bool
	set    int64
	setOK  bool
	bufLen int
}

// c46RunLineReader interprets one call of (*lineReader).Read on a fresh reader
// (all fields zero) whose underlying bufio.Reader delivers the given lines.
func c46RunLineReader(c *Ctx, f *ssa.Function, lines []c46Line, bufLen int) *c46LRResult {
	st := c46RecvStruct(f)
	crcField := c46Field(st, "crc", c46IsUint32)
	m := c46NewMachine(c, f)
	m.zero = func(p string) bool { return strings.HasPrefix(p, "%0.") }
	next := 0
	m.model = func(m *c46m, w *pathWalker, ci ssa.CallInstruction) bool {
		if short(calleeName(ci.Common())) != "(*bufio.Reader).ReadLine" {
			return c46CRCModel(m, w, ci)
		}
		ln := c46Line{err: c46EOF}
		if next < len(lines) {
			ln = lines[next]
		}
		next++
		e := int64(0)
		if ln.err != "" {
			e = m.errID(ln.err)
		}
		m.retTuple(w, ci, []int64{int64(len(ln.s)), b2i(ln.prefix), e}, map[int]c46ref{0: m.strObj(ln.s)})
		return true
	}
	m.summary = c46CRCModel
	w := m.walker(4000)
	w.assumeErrNil = false
	if len(f.Params) > 1 {
		m.setRef(w, f.Params[1], m.unknownBuf(bufLen))
	}
	r := &c46LRResult{m: m, w: w}
	r.end = w.walk(f.Blocks[0], nil)
	if r.end == "return" {
		r.n, r.nOK = m.result(w, 0)
		r.err, r.errOK = m.result(w, 1)
	}
	r.crc, r.crcOK = m.mem["%0."+crcField]
	if _, dirty := m.mem["%0."+crcField+"?"]; dirty {
		r.crcOK = false
	}
	setField := c46GateFlag(c)
	r.set, r.setOK = m.mem["%0."+setField]
	if !r.setOK {
		if _, dirty := m.mem["%0."+setField+"?"]; !dirty {
			r.set, r.setOK = 0, true // never written: still false
		}
	}
	return r
}

func c46LineReader(c *Ctx) {
	f := c.fn(c46Armor, "(*lineReader).Read")
	if f == nil {
		return
	}
	endLine := c46Line{s: "-----END PGP MESSAGE-----"}
	sum := func(b ...byte) c46Line { return c46Line{s: "=" + base64.StdEncoding.EncodeToString(b)} }
	describe := func(r *c46LRResult) string {
		return fmt.Sprintf("returns (n=%s, err=%s), crcSet=%s, crc=%s", c46Opt(r.n, r.nOK, "%d"), r.m.errName(r.err, r.errOK), c46Opt(r.set, r.setOK, "%d"), c46Opt(r.crc, r.crcOK, "%#x"))
	}
	// the reader recombines the three decoded bytes in the writer's order, and
	// crcSet is raised only together with the recorded value
	{
		ok, undec, detail := true, "", ""
		for _, probe := range [][]byte{{0xA1, 0xB2, 0xC3}, {0x01, 0x02, 0xFE}} {
			r := c46RunLineReader(c, f, []c46Line{sum(probe...), endLine}, 64)
			want := int64(probe[0])<<16 | int64(probe[1])<<8 | int64(probe[2])
			if r.end != "return" {
				undec = r.m.why(r.w, r.end)
				break
			}
			if !r.crcOK || r.crc != want {
				ok, detail = false, fmt.Sprintf("the reader does not recombine the three checksum bytes in the order the writer emits them: checksum line for bytes [% x] followed by the END line %s, want crc=%#x", probe, describe(r), want)
				break
			}
		}
		switch {
		case undec != "":
			c.undecided("C46.crc-order", "(*lineReader).Read checksum recombination", f, undec)
		default:
			c.check(ok, "C46.crc-order", "(*lineReader).Read checksum recombination", f, "a checksum line decoding to b0,b1,b2 leaves crc = b0<<16 | b1<<8 | b2 (interpreted for a1 b2 c3 and 01 02 fe), the writer's order", detail)
		}
		r := c46RunLineReader(c, f, []c46Line{sum(0xA1, 0xB2, 0xC3), endLine}, 64)
		if r.end != "return" {
			c.undecided("C46.crc-record", "crcSet implies crc recorded", f, r.m.why(r.w, r.end))
		} else {
			good := r.setOK && r.set == 1 && r.crcOK && r.crc == 0xA1B2C3 && r.errOK && r.err == r.m.errID(c46EOF) && r.nOK && r.n == 0
			c.check(good, "C46.crc-record", "crcSet implies crc recorded", f, "checksum line + END line: Read reports (0, io.EOF) with crcSet = true and the decoded CRC recorded", "after a checksum line followed by the END line the reader "+describe(r)+"; want (0, io.EOF), crcSet=1, crc=0xa1b2c3")
		}
	}
	// a checksum line counts only when the END line follows
	{
		ok, undec, detail := true, "", ""
		for _, tail := range [][]c46Line{{{s: "AAAA"}}, {}, {{s: ""}, endLine}} {
			r := c46RunLineReader(c, f, append([]c46Line{sum(0xA1, 0xB2, 0xC3)}, tail...), 64)
			if r.end != "return" {
				undec = r.m.why(r.w, r.end)
				break
			}
			if !r.setOK || r.set != 0 || !r.errOK || r.err != r.m.errID(c46Corrupt) {
				what := "end of input"
				if len(tail) > 0 {
					what = fmt.Sprintf("the line %q", tail[0].s)
				}
				ok, detail = false, fmt.Sprintf("a checksum line not followed by the armor END line is accepted: checksum line then %s %s, want ArmorCorrupt with crcSet=0", what, describe(r))
				break
			}
		}
		if undec != "" {
			c.undecided("C46.crc-record", "checksum line followed by END line", f, undec)
		} else {
			c.check(ok, "C46.crc-record", "checksum line followed by END line", f, "the checksum is accepted only when the next line is the END line (otherwise ArmorCorrupt, crcSet stays false)", detail)
		}
	}
	// a checksum line that does not decode to exactly three bytes is not recorded
	{
		ok, undec, detail := true, "", ""
		for _, bad := range []string{"=oQ==", "=obI=", "=ob!D", "=ob=D"} {
			r := c46RunLineReader(c, f, []c46Line{{s: bad}, endLine}, 64)
			if r.end != "return" {
				undec = r.m.why(r.w, r.end)
				break
			}
			if !r.setOK || r.set != 0 {
				ok, detail = false, fmt.Sprintf("a checksum line that does not decode to 3 bytes is recorded: line %q then the END line %s, want crcSet=0", bad, describe(r))
				break
			}
		}
		if undec != "" {
			c.undecided("C46.crc-record", "checksum decodes to 3 bytes", f, undec)
		} else {
			c.check(ok, "C46.crc-record", "checksum decodes to 3 bytes", f, "crcSet is raised only when the checksum line decodes to exactly 3 bytes without error (1-byte, 2-byte and malformed checksums interpreted)", detail)
		}
	}
	// over-long lines
	{
		long := c46RunLineReader(c, f, []c46Line{{s: strings.Repeat("A", 97)}}, 128)
		fits := c46RunLineReader(c, f, []c46Line{{s: strings.Repeat("A", 96)}}, 128)
		switch {
		case long.end != "return":
			c.undecided("C46.crc-record", "over-long line", f, long.m.why(long.w, long.end))
		case fits.end != "return":
			c.undecided("C46.crc-record", "over-long line", f, fits.m.why(fits.w, fits.end))
		default:
			good := long.errOK && long.err == long.m.errID(c46Corrupt) && fits.errOK && fits.err == 0 && fits.nOK && fits.n == 96
			c.check(good, "C46.crc-record", "over-long line", f, "a 97-byte line is rejected with ArmorCorrupt, a 96-byte line is delivered", fmt.Sprintf("over-long armor lines are not rejected (or legal ones are): 97-byte line %s; 96-byte line %s", describe(long), describe(fits)))
		}
	}
}

func c46Opt(n int64, ok bool, f string) string {
	if !ok {
		return "?"
	}
	return fmt.Sprintf(f, n)
}

func (m *c46m) errName(id int64, ok bool) string {
	if !ok {
		return "?"
	}
	if id == 0 {
		return "nil"
	}
	for k, v := range m.errIDs {
		if v == id {
			return short(k)
		}
	}
	return fmt.Sprintf("#%d", id)
}

// ---------------------------------------------------------------------------
// armor: the CRC gate of (*openpgpReader).Read and the running CRC

func c46CRCGate(c *Ctx) {
	f := c.fn(c46Armor, "(*openpgpReader).Read")
	if f == nil {
		return
	}
	st := c46RecvStruct(f)
	curField := c46Field(st, "currentCRC", c46IsUint32)
	lrStruct := c46RecvStruct(c.fnOpt(c46Armor, "(*lineReader).Read"))
	lrField := c46Field(st, "lReader", func(t types.Type) bool {
		p, ok := t.Underlying().(*types.Pointer)
		if !ok {
			return false
		}
		s, ok := p.Elem().Underlying().(*types.Struct)
		return ok && s == lrStruct
	})
	recField := c46Field(lrStruct, "crc", c46IsUint32)
	setField := c46GateFlag(c)
	const old = 0x5D0A7F
	payload := "\x01\xfe\x80"
	type errCase struct{ name, key string }
	for _, ec := range []errCase{{"nil", ""}, {"io.EOF", c46EOF}, {"other", "io.ErrUnexpectedEOF"}} {
		for _, n := range []int{0, 3} {
			for _, set := range []bool{false, true} {
				for _, differ := range []bool{false, true} {
					name := fmt.Sprintf("err=%s n=%d crcSet=%v crcDiffers=%v", ec.name, n, set, differ)
					running := c46CRC24(old, []byte(payload[:n]))
					recorded := running & 0xffffff
					if differ {
						recorded ^= 0x000400
					}
					m := c46NewMachine(c, f)
					m.mem["%0."+curField] = old
					m.mem["%0."+lrField+"."+setField] = b2i(set)
					m.mem["%0."+lrField+"."+recField] = int64(recorded)
					reads := 0
					m.model = func(m *c46m, w *pathWalker, ci ssa.CallInstruction) bool {
						cc := ci.Common()
						if !cc.IsInvoke() || cc.Method.Name() != "Read" || len(cc.Args) != 1 {
							return c46CRCModel(m, w, ci)
						}
						dst, ok := m.get(w, cc.Args[0])
						if !ok || dst.n < n {
							return false
						}
						reads++
						m.write(dst, []byte(payload[:n]))
						e := int64(0)
						if ec.key != "" {
							e = m.errID(ec.key)
						}
						m.retTuple(w, ci, []int64{int64(n), e}, nil)
						return true
					}
					m.summary = c46CRCModel
					w := m.walker(8000)
					w.assumeErrNil = false
					m.setRef(w, f.Params[1], m.unknownBuf(16))
					end := w.walk(f.Blocks[0], nil)
					if end != "return" {
						c.undecided("C46.crc-gate", name, f, m.why(w, end))
						continue
					}
					gotN, okN := m.result(w, 0)
					gotE, okE := m.result(w, 1)
					want := ec.key == c46EOF && set && differ
					wantE := int64(0)
					if ec.key != "" {
						wantE = m.errID(ec.key)
					}
					corrupt := okE && gotE == m.errID(c46Corrupt)
					got := fmt.Sprintf("Read returns (n=%s, err=%s)", c46Opt(gotN, okN, "%d"), m.errName(gotE, okE))
					switch {
					case reads != 1:
						c.fail("C46.crc-gate", name, f, fmt.Sprintf("the base64 reader is read %d times in one Read", reads))
					case want && !corrupt:
						c.fail("C46.crc-gate", name, f, "a body whose recorded CRC-24 differs from the running CRC can reach EOF without ArmorCorrupt: "+got)
					case !want && corrupt:
						c.fail("C46.crc-gate", name, f, "ArmorCorrupt is returned although the CRC matches, is absent, or the stream has not ended: "+got)
					case !want && !(okN && gotN == int64(n) && okE && gotE == wantE):
						c.fail("C46.crc-gate", name, f, fmt.Sprintf("the result of the base64 reader (n=%d, err=%s) is not passed on: %s", n, ec.name, got))
					default:
						c.ok("C46.crc-gate", name, f, fmt.Sprintf("ArmorCorrupt=%v as specified (%s)", want, got))
					}
					// the running CRC covers exactly the n bytes handed to the caller
					if ec.key == "" && !set && !differ {
						cur, okc := m.mem["%0."+curField]
						if !okc {
							c.undecided("C46.crc-running", fmt.Sprintf("(*openpgpReader).Read update n=%d", n), f, "the running CRC after the Read is not determined by the interpretation (calls outside the model: "+strings.Join(c46Uniq(m.unknown), ", ")+")")
						} else {
							c.check(uint32(cur) == running, "C46.crc-running", fmt.Sprintf("(*openpgpReader).Read update n=%d", n), f,
								fmt.Sprintf("after a Read of %d bytes the running CRC is CRC-24(previous, p[:n]) = %#x (the package's crc24 interpreted, compared with RFC 4880 6.1)", n, running),
								fmt.Sprintf("the running CRC is not updated over exactly the bytes returned by the base64 reader: after reading [%s] from %#x it is %s, want %#x", c46Hex(payload[:n]), old, c46Opt(cur, okc, "%#x"), running))
						}
					}
				}
			}
		}
	}
	// both sides start from crc24Init
	initOK := func(fn *ssa.Function, typ string) bool {
		if fn == nil {
			return false
		}
		good, bad := false, false
		deepInstrs(fn, func(in ssa.Instruction) {
			s, ok := in.(*ssa.Store)
			if !ok || !c46IsUint32(s.Val.Type()) {
				return
			}
			t, _, _, isF := fieldOf(s.Addr)
			if !isF || t != typ {
				return
			}
			if k, isK := constInt(c.origin(s.Val)); isK {
				if k == 0xb704ce {
					good = true
				} else {
					bad = true
				}
			}
		})
		return good && !bad
	}
	c.check(initOK(c.fn(c46Armor, "Decode"), "openpgpReader"), "C46.crc-running", "Decode initial CRC", nil, "decoder starts from crc24Init (0xb704ce)", "decoder's running CRC does not start from crc24Init")
	c.check(initOK(c.fn(c46Armor, "Encode"), "encoding"), "C46.crc-running", "Encode initial CRC", nil, "encoder starts from crc24Init (0xb704ce)", "encoder's running CRC does not start from crc24Init")
	if g := c.fn(c46Armor, "(*encoding).Write"); g != nil {
		crcField := c46Field(c46RecvStruct(g), "crc", c46IsUint32)
		data := "ab\xff"
		m := c46NewMachine(c, g)
		m.mem["%0."+crcField] = old
		var fwd []string
		m.model = func(m *c46m, w *pathWalker, ci ssa.CallInstruction) bool {
			cc := ci.Common()
			if !cc.IsInvoke() || cc.Method.Name() != "Write" || len(cc.Args) != 1 {
				return c46CRCModel(m, w, ci)
			}
			r, ok := m.get(w, cc.Args[0])
			if !ok {
				return false
			}
			fwd = append(fwd, r.show())
			m.retTuple(w, ci, []int64{int64(r.n), 0}, nil)
			return true
		}
		m.summary = c46CRCModel
		w := m.walker(8000)
		m.setRef(w, g.Params[1], m.strObj(data))
		end := w.walk(g.Blocks[0], nil)
		if end != "return" {
			c.undecided("C46.crc-running", "(*encoding).Write update", g, m.why(w, end))
		} else {
			cur, okc := m.mem["%0."+crcField]
			want := c46CRC24(old, []byte(data))
			if !okc {
				c.undecided("C46.crc-running", "(*encoding).Write update", g, "the encoder's CRC after Write is not determined by the interpretation (calls outside the model: "+strings.Join(c46Uniq(m.unknown), ", ")+")")
			} else {
				c.check(uint32(cur) == want, "C46.crc-running", "(*encoding).Write update", g,
					fmt.Sprintf("after Write(data) the CRC is CRC-24(previous, data) = %#x (the package's crc24 interpreted, compared with RFC 4880 6.1)", want),
					fmt.Sprintf("the encoder's CRC does not cover exactly the written bytes: after Write([%s]) from %#x it is %s, want %#x", c46Hex(data), old, c46Opt(cur, okc, "%#x"), want))
			}
		}
	}
}

// ---------------------------------------------------------------------------
// framing constants

// c46StaticBytes: the byte string a value denotes at compile time: a string
// constant, a conversion of one, a []byte{...} literal, or a package-level
// variable initialised with one of these.
func c46StaticBytes(c *Ctx, v ssa.Value) (string, bool) {
	if s, ok := constString(v); ok {
		return s, true
	}
	if s, ok := sliceLiteralString(v); ok {
		return s, true
	}
	if u, ok := v.(*ssa.UnOp); ok {
		if g, isG := u.X.(*ssa.Global); isG && g.Pkg != nil {
			m := c46NewMachine(c, nil)
			if s, isB, _, _ := m.globalInit(g); isB {
				return s, true
			}
		}
	}
	return "", false
}

func c46Constants(c *Ctx) {
	get := func(pkg, name string) string {
		s, ok := c.bytesGlobal(pkg, name)
		if !ok {
			c.fail("C46.constants", pkg+"."+name, nil, "constant not found or not a literal")
		}
		return s
	}
	a := c46Armor
	start, end, eol, eolOut, sep, blockEnd := get(a, "armorStart"), get(a, "armorEnd"), get(a, "armorEndOfLine"), get(a, "armorEndOfLineOut"), get(a, "armorHeaderSep"), get(a, "blockEnd")
	c.check(start == "-----BEGIN " && end == "-----END " && eol == "-----", "C46.constants", "armor framing", nil, "BEGIN/END framing per RFC 4880 6.2", "armor framing constants differ from RFC 4880 section 6.2")
	c.check(eolOut == eol+"\n", "C46.constants", "armorEndOfLineOut", nil, "writer's end-of-header-line = reader's suffix + newline", "the writer's header-line ending does not match what Decode strips")
	c.check(blockEnd == "\n=", "C46.constants", "blockEnd", nil, "checksum line starts with newline + '='", "the checksum line introducer is not \"\\n=\"")
	// Decode splits header lines at the writer's separator: any of the
	// standard searching/splitting functions, in Decode or a helper of it
	okSep, other := false, ""
	if f := c.fn(a, "Decode"); f != nil {
		for _, ci := range deepCalls(f, func(n string) bool {
			i := strings.Index(n, ".")
			if i < 0 || n[:i] != "bytes" && n[:i] != "strings" {
				return false
			}
			switch n[i+1:] {
			case "Index", "Cut", "SplitN", "Split", "SplitAfterN", "LastIndex":
				return true
			}
			return false
		}) {
			if len(ci.Common().Args) < 2 {
				continue
			}
			if s, isS := c46StaticBytes(c, ci.Common().Args[1]); isS {
				if s == sep {
					okSep = true
				} else {
					other = s
				}
			}
		}
	}
	c.check(okSep && sep == ": " && other == "", "C46.constants", "header separator", nil, "Encode writes \"key: value\" and Decode splits at the same \": \"", "Encode's header separator and Decode's split string differ")
	de, _ := c.bytesGlobal(c46Clearsign, "dashEscape")
	c.check(de == "- ", "C46.constants", "clearsign.dashEscape", nil, "dash escape is \"- \" (RFC 4880 7.1)", "the dash-escape prefix is not \"- \"")
	cr, _ := c.bytesGlobal(c46Clearsign, "crlf")
	c.check(cr == "\r\n", "C46.constants", "clearsign.crlf", nil, "canonical line ending is CRLF", "the canonical line ending constant is not CRLF")
}

// ---------------------------------------------------------------------------
// clearsign: dashEscaper.Write transition table

type deState struct{ bol, first, ws bool }

type deRow struct {
	hash, out string
	next      deState
}

// c46WS is the whitespace buffered in the abstract state "ws".
const c46WS = " \t"

// deReference is the RFC 4880 section 7.1 / 5.2.4 per-byte transducer:
// the hash sees the text with trailing whitespace (space, tab, and the CR of a
// CRLF ending) removed from every line, lines joined by CRLF, no CRLF after
// the last line, no dash escapes; the output sees "- " before any line that
// begins with '-', and trailing whitespace dropped as well (so that Decode,
// which trims it, reproduces what was hashed).
func deReference(s deState, b byte) deRow {
	var r deRow
	B := string(b)
	if s.bol {
		if !s.first {
			r.hash += "\r\n"
		}
		s.first = false
	}
	switch b {
	case ' ', '\t', '\r':
		s.ws = true
		s.bol = false
		r.next = s
		return r
	}
	if s.bol {
		switch b {
		case '-':
			r.out += "- "
			r.hash += B
			s.bol = false
		case '\n':
		default:
			r.hash += B
			s.bol = false
		}
		r.out += B
	} else {
		if b == '\n' {
			s.ws = false
			r.out += B
			s.bol = true
		} else {
			if s.ws {
				r.hash += c46WS
				r.out += c46WS
				s.ws = false
			}
			r.hash += B
			r.out += B
		}
	}
	r.next = s
	return r
}

func c46IsBufioWriter(cc *ssa.CallCommon) (string, bool) {
	callee := cc.StaticCallee()
	if callee == nil || callee.Signature.Recv() == nil {
		return "", false
	}
	if typeName(callee.Signature.Recv().Type()) != "Writer" || callee.Pkg == nil || callee.Pkg.Pkg.Path() != "bufio" {
		return "", false
	}
	return callee.Name(), true
}

// c46WriterModel records what is written to the escaper's two sinks: every
// invocation of an io.Writer's Write is the signature hash, every method of a
// *bufio.Writer is the clearsigned output.
func c46WriterModel(hash, out *string) func(m *c46m, w *pathWalker, ci ssa.CallInstruction) bool {
	return func(m *c46m, w *pathWalker, ci ssa.CallInstruction) bool {
		cc := ci.Common()
		content := func(v ssa.Value) (string, int) {
			if s, ok := constString(v); ok {
				return s, len(s)
			}
			r, ok := m.get(w, v)
			if !ok {
				m.vague = "a write whose argument is not determined by the interpretation"
				return "<?>", 0
			}
			if s, known := r.str(); known {
				return s, r.n
			}
			m.vague = "a write of bytes that are not determined by the interpretation: " + r.show()
			return "<" + r.show() + ">", r.n
		}
		if cc.IsInvoke() && cc.Method.Name() == "Write" && len(cc.Args) == 1 {
			s, n := content(cc.Args[0])
			*hash += s
			m.retTuple(w, ci, []int64{int64(n), 0}, nil)
			return true
		}
		meth, ok := c46IsBufioWriter(cc)
		if !ok {
			return false
		}
		switch meth {
		case "Write", "WriteString":
			s, n := content(cc.Args[1])
			*out += s
			m.retTuple(w, ci, []int64{int64(n), 0}, nil)
			return true
		case "WriteByte", "WriteRune":
			if k, ok := w.env.eval(cc.Args[1]); ok && k >= 0 && k < 256 {
				*out += string([]byte{byte(k)})
			} else {
				m.vague = "a WriteByte whose argument is not determined by the interpretation"
				*out += "<?>"
			}
			if meth == "WriteByte" {
				m.retInt(w, ci, 0)
			} else {
				m.retTuple(w, ci, []int64{1, 0}, nil)
			}
			return true
		}
		return false
	}
}

// c46FieldsUsed: the fields of struct st with a type selected by pred that fn
// or one of its helpers addresses, in declaration order.
func c46FieldsUsed(fn *ssa.Function, st *types.Struct, pred func(t types.Type) bool) []string {
	used := map[string]bool{}
	if fn != nil && st != nil {
		deepInstrs(fn, func(in ssa.Instruction) {
			switch x := in.(type) {
			case *ssa.FieldAddr:
				if s := derefStruct(x.X.Type()); s == st {
					used[s.Field(x.Field).Name()] = true
				}
			case *ssa.Field:
				if s, _ := x.X.Type().Underlying().(*types.Struct); s == st {
					used[s.Field(x.Field).Name()] = true
				}
			}
		})
	}
	var out []string
	if st != nil {
		for i := 0; i < st.NumFields(); i++ {
			if used[st.Field(i).Name()] && pred(st.Field(i).Type()) {
				out = append(out, st.Field(i).Name())
			}
		}
	}
	return out
}

func c46FieldsOf(st *types.Struct, pred func(t types.Type) bool) []string {
	var out []string
	if st != nil {
		for i := 0; i < st.NumFields(); i++ {
			if pred(st.Field(i).Type()) {
				out = append(out, st.Field(i).Name())
			}
		}
	}
	return out
}

// c46EscaperRoles identifies the escaper's state by role rather than by name:
// the beginning-of-line flag is the boolean field Close consults, the
// first-line flag is the other boolean field, the whitespace buffer is one of
// the []byte fields (the caller tries them).
func c46EscaperRoles(c *Ctx, write *ssa.Function) (bol, first string, byteFields []string) {
	st := c46RecvStruct(write)
	bol, first = "atBeginningOfLine", "isFirstLine"
	bools := c46FieldsOf(st, isBoolType)
	if cl := c.fnOpt(c46Clearsign, "(*dashEscaper).Close"); cl != nil && len(bools) == 2 {
		if used := c46FieldsUsed(cl, st, isBoolType); len(used) == 1 {
			bol = used[0]
			first = bools[0]
			if first == bol {
				first = bools[1]
			}
		}
	}
	isBytes := func(t types.Type) bool {
		sl, ok := t.Underlying().(*types.Slice)
		return ok && c46IsByte(sl.Elem())
	}
	for _, n := range c46FieldsOf(st, isBytes) {
		if n == "whitespace" {
			byteFields = append([]string{n}, byteFields...)
		} else {
			byteFields = append(byteFields, n)
		}
	}
	if len(byteFields) == 0 {
		byteFields = []string{"whitespace"}
	}
	return
}

type c46Row struct {
	name, verdict, detail string
}

func c46DashEscaper(c *Ctx) {
	f := c.fn(c46Clearsign, "(*dashEscaper).Write")
	if f == nil {
		return
	}
	bolField, firstField, byteFields := c46EscaperRoles(c, f)
	// one call of Write with a single byte, from entry to return, in a given state
	extract := func(wsField string, s deState, b byte) (deRow, string) {
		m := c46NewMachine(c, f)
		m.mem["%0."+bolField] = b2i(s.bol)
		m.mem["%0."+firstField] = b2i(s.first)
		for _, bf := range byteFields {
			m.memRef["%0."+bf] = m.unknownBuf(1) // scratch buffers
		}
		if s.ws {
			m.memRef["%0."+wsField] = m.strObj(c46WS)
		} else {
			m.memRef["%0."+wsField] = c46ref{m.newObj(8, -1), 0, 0}
		}
		var row deRow
		m.model = c46WriterModel(&row.hash, &row.out)
		w := m.walker(4000)
		m.setRef(w, f.Params[1], m.strObj(string([]byte{b})))
		end := w.walk(f.Blocks[0], nil)
		if m.oob != "" {
			return deRow{}, "Write panics: " + m.oob
		}
		if end != "return" {
			return deRow{}, m.why(w, end)
		}
		if m.vague != "" {
			return deRow{}, m.vague
		}
		bol, ok1 := m.mem["%0."+bolField]
		first, ok2 := m.mem["%0."+firstField]
		ws, ok3 := m.memRef["%0."+wsField]
		if !ok1 || !ok2 || !ok3 {
			return deRow{}, "the escaper state after the byte is not determined by the interpretation"
		}
		row.next = deState{bol != 0, first != 0, ws.n > 0}
		if n, ok := m.result(w, 0); !ok || n != 1 {
			row.out += fmt.Sprintf("<Write returns n=%s for 1 byte>", c46Opt(n, ok, "%d"))
		}
		return row, ""
	}
	// initial state from Encode: atBeginningOfLine = true, isFirstLine = true
	init := deState{true, true, false}
	okInit := false
	if g := c.fn(c46Clearsign, "EncodeMulti"); g != nil {
		bol, first := false, false
		deepInstrs(g, func(in ssa.Instruction) {
			if st, ok := in.(*ssa.Store); ok {
				if typ, fld, _, okf := fieldOf(st.Addr); okf && typ == "dashEscaper" {
					if v, isB := constBool(c.origin(st.Val)); isB && v {
						if fld == bolField {
							bol = true
						}
						if fld == firstField {
							first = true
						}
					}
				}
			}
		})
		okInit = bol && first
	}
	c.check(okInit, "C46.dash-escape", "initial escaper state", nil, "Encode starts at beginning-of-line, first line", "the escaper does not start in the (beginning-of-line, first-line) state")
	classes := []byte{' ', '\t', '\r', '-', '\n', 'x'}
	table := func(wsField string) (rows []c46Row, bad int) {
		seen := map[deState]bool{init: true}
		work := []deState{init}
		for len(work) > 0 {
			s := work[0]
			work = work[1:]
			for _, b := range classes {
				want := deReference(s, b)
				got, why := extract(wsField, s, b)
				name := fmt.Sprintf("state(bol=%v first=%v ws=%v) byte %q", s.bol, s.first, s.ws, string(b))
				if why != "" {
					rows = append(rows, c46Row{name, "undecided", why})
					bad++
				} else if got != want {
					rows = append(rows, c46Row{name, "violated", fmt.Sprintf("code: hash[%q] out[%q] -> %+v; RFC 4880 7.1 reference: hash[%q] out[%q] -> %+v", got.hash, got.out, got.next, want.hash, want.out, want.next)})
					bad++
				} else {
					rows = append(rows, c46Row{name, "ok", fmt.Sprintf("hash[%q] out[%q] -> %+v", got.hash, got.out, got.next)})
				}
				if !seen[want.next] {
					seen[want.next] = true
					work = append(work, want.next)
				}
			}
		}
		return
	}
	// the whitespace buffer is the []byte field under which the table holds; when
	// it holds under none, the rows of the first candidate are reported
	var rows []c46Row
	for i, wsField := range byteFields {
		r, bad := table(wsField)
		if i == 0 || bad == 0 {
			rows = r
		}
		if bad == 0 {
			break
		}
	}
	for _, r := range rows {
		switch r.verdict {
		case "ok":
			c.ok("C46.dash-escape", r.name, f, r.detail)
		case "undecided":
			c.undecided("C46.dash-escape", r.name, f, r.detail)
		default:
			c.fail("C46.dash-escape", r.name, f, r.detail)
		}
	}
	// Close terminates the last line in the output when it was not terminated
	if g := c.fn(c46Clearsign, "(*dashEscaper).Close"); g != nil {
		run := func(bol bool) (string, bool, string) {
			m := c46NewMachine(c, g)
			m.mem["%0."+bolField] = b2i(bol)
			var hash, out string
			armor := false
			wm := c46WriterModel(&hash, &out)
			m.model = func(m *c46m, w *pathWalker, ci ssa.CallInstruction) bool {
				if strings.HasSuffix(short(calleeName(ci.Common())), c46Armor+".Encode") {
					armor = true
					return false
				}
				if armor {
					return false
				}
				return wm(m, w, ci)
			}
			w := m.walker(4000)
			w.stop = func(*ssa.BasicBlock) bool { return armor }
			end := w.walk(g.Blocks[0], nil)
			if !armor && end != "return" {
				return "", false, m.why(w, end)
			}
			if m.vague != "" {
				return "", false, m.vague
			}
			return out, armor, ""
		}
		o0, a0, why0 := run(false)
		o1, a1, why1 := run(true)
		switch {
		case why0 != "":
			c.undecided("C46.dash-escape", "(*dashEscaper).Close", g, why0)
		case why1 != "":
			c.undecided("C46.dash-escape", "(*dashEscaper).Close", g, why1)
		default:
			c.check(a0 && a1 && o0 == "\n" && o1 == "", "C46.dash-escape", "(*dashEscaper).Close", g, "an unterminated last line gets its line feed before the signature armor, a terminated one does not get a second",
				fmt.Sprintf("Close does not terminate an unterminated final line exactly once before the signature block: mid-line it writes %q, at beginning of line %q, before the armor (armor reached: %v/%v)", o0, o1, a0, a1))
		}
	}
}

// ---------------------------------------------------------------------------
// clearsign.Decode: the signed text is rebuilt from the lines

// c46DecodeSpec: what RFC 4880 section 7.1 makes of the body lines: the "- "
// escape removed where present, trailing space and tab removed, lines joined by
// CRLF for the hash (Bytes) and terminated by LF for the plaintext.
func c46DecodeSpec(lines []string) (hashed, plain string) {
	for i, l := range lines {
		if strings.HasPrefix(l, "- ") {
			l = l[2:]
		}
		l = strings.TrimRight(l, " \t")
		if i > 0 {
			hashed += "\r\n"
		}
		hashed += l
		plain += l + "\n"
	}
	return
}

func c46RunDecode(c *Ctx, f *ssa.Function, text string) (bytesGot, plainGot string, why string) {
	m := c46NewMachine(c, f)
	w := m.walker(60000)
	m.setRef(w, f.Params[0], m.strObj(text))
	end := w.walk(f.Blocks[0], nil)
	if m.oob != "" {
		return "", "", "Decode panics: " + m.oob
	}
	if w.oob {
		return "", "", "Decode panics: slice or index out of range"
	}
	if end != "return" {
		return "", "", m.why(w, end)
	}
	ret := w.last.(*ssa.Return)
	if len(ret.Results) == 0 || isNilConst(ret.Results[0]) {
		return "", "", "Decode rejects a well-formed clearsigned message"
	}
	p := m.ptrOf(w, ret.Results[0])
	if p == "" {
		return "", "", "the Block returned by Decode is not determined by the interpretation"
	}
	vague := ""
	field := func(name string) string {
		r, ok := m.memRef[p+"."+name]
		if !ok {
			if _, dirty := m.memRef[p+"."+name+"?"]; dirty {
				vague = "Block." + name + " is not determined by the interpretation"
			}
			return ""
		}
		if s, known := r.str(); known {
			return s
		}
		vague = "Block." + name + " is not determined by the interpretation: " + r.show()
		return ""
	}
	bs, pt := field("Bytes"), field("Plaintext")
	if vague != "" {
		if len(m.unknown) > 0 {
			vague += " (calls outside the model: " + strings.Join(c46Uniq(m.unknown), ", ") + ")"
		}
		return "", "", vague
	}
	return bs, pt, ""
}

func c46ClearsignDecode(c *Ctx) {
	f := c.fn(c46Clearsign, "Decode")
	if f == nil {
		return
	}
	message := func(nl string, lines []string) string {
		return "-----BEGIN PGP SIGNED MESSAGE-----" + nl + nl + strings.Join(lines, nl) + nl +
			"-----BEGIN PGP SIGNATURE-----" + nl + nl + "iQEzBAEBCAAdFiEE" + nl + "=w5Ud" + nl + "-----END PGP SIGNATURE-----" + nl
	}
	type tcase struct {
		construct, okText, failText string
		nl                          string
		bodies                      [][]string
		plain                       bool
	}
	for _, tc := range []tcase{
		{"Decode dash un-escaping", "exactly the 2-byte \"- \" prefix is removed and only from lines that carry it", "Decode strips a prefix that is not the dash escape, or strips it without testing for it", "\n",
			[][]string{{"- -dash", "-x", "- From here", "plain", "- ", "--", "- - twice"}, {"-", "- -"}}, true},
		{"Decode line joining", "Block.Bytes joins lines with CRLF, none before the first line and none after the last", "Block.Bytes is not the CRLF-joined text", "\r\n",
			[][]string{{"first", "", "third", "x", "", "last"}, {"", "", "x", ""}, {"only"}, {" ", "- ", "y"}}, true},
		{"Decode trailing whitespace", "trailing space/tab removed before the hashing input is rebuilt (matches the encoder's hash)", "Decode does not trim trailing space and tab the way the encoder's hash does", "\n",
			[][]string{{"x \t", "y\t \t ", " lead", "mid dle", "- esc \t", "\t"}}, false},
	} {
		verdict, detail, n := "ok", "", 0
		for _, lines := range tc.bodies {
			n += len(lines)
			got, plain, why := c46RunDecode(c, f, message(tc.nl, lines))
			wantB, wantP := c46DecodeSpec(lines)
			switch {
			case strings.HasPrefix(why, "Decode panics") || strings.HasPrefix(why, "Decode rejects"):
				verdict, detail = "fail", tc.failText+": "+why+fmt.Sprintf(" (body lines %q)", lines)
			case why != "":
				verdict, detail = "undecided", why
			case got != wantB:
				verdict, detail = "fail", fmt.Sprintf("%s: for the body lines %q Decode yields Bytes %q, RFC 4880 7.1 gives %q", tc.failText, lines, got, wantB)
			case tc.plain && plain != wantP:
				verdict, detail = "fail", fmt.Sprintf("%s: for the body lines %q Decode yields Plaintext %q, want %q", tc.failText, lines, plain, wantP)
			}
			if verdict != "ok" {
				break
			}
		}
		switch verdict {
		case "fail":
			c.fail("C46.unescape", tc.construct, f, detail)
		case "undecided":
			c.undecided("C46.unescape", tc.construct, f, detail)
		default:
			c.ok("C46.unescape", tc.construct, f, tc.okText+fmt.Sprintf(" (Decode interpreted on %d bodies, %d lines)", len(tc.bodies), n))
		}
	}
}
